// Harness for C18 (tuple validation accepts exactly what the model allows).
//
// One case = one validated authorization model (dense, condition-rich type restrictions) + one candidate tuple
// (valid by construction, a "gap probe" whose condition belongs to another restriction, or a malformed variant),
// sent through four paths of the REAL code on an in-process server with a memory datastore:
//
//	W  Server.Write([fresh, candidate])                      (request validation + WriteCommand, limit 32 KiB) + read-back
//	K  commands.WriteCommand.Execute([fresh, candidate])     (no request validation, small context limit)      + read-back
//	C  Server.Check with the candidate as contextual tuple
//	L  Server.ListObjects with the candidate as contextual tuple
//
// or one delete key sent through Server.Write(deletes) against a seeded store, with the set of removed tuples read back.
// Output: the error class of each path (mapped from the error text) and the read-back summary.
package main

import (
	"context"
	"fmt"
	"math"
	"sort"
	"strconv"
	"strings"

	openfgav1 "github.com/openfga/api/proto/openfga/v1"
	"google.golang.org/protobuf/proto"
	"google.golang.org/protobuf/types/known/structpb"

	"github.com/openfga/openfga/pkg/server"
	"github.com/openfga/openfga/pkg/server/commands"
	"github.com/openfga/openfga/pkg/storage"
	"github.com/openfga/openfga/pkg/storage/memory"
	"github.com/openfga/openfga/pkg/typesystem"
	"github.com/openfga/openfga/verifharness/fga"
	"github.com/openfga/openfga/verifharness/hx"
)

// ---------------------------------------------------------------- values and candidates

// Val mirrors structpb.Value: kind n(ull) f(loat) s(tring) b(ool) l(ist) o(bject).
type Val struct {
	K byte
	F float64
	S string
	B bool
	L []Val
	O []KV
}

type KV struct {
	Key string
	V   Val
}

type Cand struct {
	Obj, Rel, User string
	HasCond        bool
	Cond           string
	Ctx            []KV
}

type Param struct{ Name, Type string }

type XCond struct {
	Name   string
	Params []Param
}

func encVal(sb *strings.Builder, v Val) {
	switch v.K {
	case 'n':
		sb.WriteString(" n")
	case 'f':
		fmt.Fprintf(sb, " f%d", math.Float64bits(v.F))
	case 's':
		// long runs of one byte are written as R<len>:<byte> so that a 33 KB context stays a short line
		if len(v.S) > 64 && strings.Count(v.S, v.S[:1]) == len(v.S) {
			fmt.Fprintf(sb, " R%d:%d", len(v.S), v.S[0])
		} else {
			sb.WriteString(" s" + hx.HS(v.S))
		}
	case 'b':
		if v.B {
			sb.WriteString(" b1")
		} else {
			sb.WriteString(" b0")
		}
	case 'l':
		fmt.Fprintf(sb, " l%d", len(v.L))
		for _, x := range v.L {
			encVal(sb, x)
		}
	case 'o':
		fmt.Fprintf(sb, " o%d", len(v.O))
		for _, kv := range v.O {
			sb.WriteString(" " + hx.HS(kv.Key))
			encVal(sb, kv.V)
		}
	}
}

func encCtx(sb *strings.Builder, ctx []KV) {
	fmt.Fprintf(sb, " %d", len(ctx))
	for _, kv := range ctx {
		sb.WriteString(" " + hx.HS(kv.Key))
		encVal(sb, kv.V)
	}
}

func (c Cand) enc(sb *strings.Builder) {
	fmt.Fprintf(sb, " %s %s %s", hx.HS(c.Obj), hx.HS(c.Rel), hx.HS(c.User))
	if !c.HasCond {
		sb.WriteString(" N")
		return
	}
	sb.WriteString(" Y " + hx.HS(c.Cond))
	encCtx(sb, c.Ctx)
}

func decVal(t *fga.Toks) Val {
	s := t.Next()
	switch s[0] {
	case 'n':
		return Val{K: 'n'}
	case 'f':
		u, err := strconv.ParseUint(s[1:], 10, 64)
		if err != nil {
			panic("bad float token")
		}
		return Val{K: 'f', F: math.Float64frombits(u)}
	case 's':
		return Val{K: 's', S: string(hx.MustUnH(s[1:]))}
	case 'R':
		p := strings.SplitN(s[1:], ":", 2)
		n, _ := strconv.Atoi(p[0])
		b, _ := strconv.Atoi(p[1])
		return Val{K: 's', S: strings.Repeat(string([]byte{byte(b)}), n)}
	case 'b':
		return Val{K: 'b', B: s == "b1"}
	case 'l':
		n, _ := strconv.Atoi(s[1:])
		v := Val{K: 'l'}
		for i := 0; i < n; i++ {
			v.L = append(v.L, decVal(t))
		}
		return v
	case 'o':
		n, _ := strconv.Atoi(s[1:])
		v := Val{K: 'o'}
		for i := 0; i < n; i++ {
			k := string(hx.MustUnH(t.Next()))
			v.O = append(v.O, KV{k, decVal(t)})
		}
		return v
	}
	panic("bad value token " + s)
}

func decCtx(t *fga.Toks) []KV {
	n := t.Int()
	out := []KV{}
	for i := 0; i < n; i++ {
		k := string(hx.MustUnH(t.Next()))
		out = append(out, KV{k, decVal(t)})
	}
	return out
}

func decCand(t *fga.Toks) Cand {
	c := Cand{Obj: string(hx.MustUnH(t.Next())), Rel: string(hx.MustUnH(t.Next())), User: string(hx.MustUnH(t.Next()))}
	if t.Next() == "Y" {
		c.HasCond = true
		c.Cond = string(hx.MustUnH(t.Next()))
		c.Ctx = decCtx(t)
	}
	return c
}

func (v Val) pb() *structpb.Value {
	switch v.K {
	case 'n':
		return structpb.NewNullValue()
	case 'f':
		return structpb.NewNumberValue(v.F)
	case 's':
		return structpb.NewStringValue(v.S)
	case 'b':
		return structpb.NewBoolValue(v.B)
	case 'l':
		lv := &structpb.ListValue{}
		for _, x := range v.L {
			lv.Values = append(lv.Values, x.pb())
		}
		return structpb.NewListValue(lv)
	case 'o':
		return structpb.NewStructValue(ctxPB(v.O))
	}
	panic("bad value kind")
}

func ctxPB(ctx []KV) *structpb.Struct {
	s := &structpb.Struct{Fields: map[string]*structpb.Value{}}
	for _, kv := range ctx {
		s.Fields[kv.Key] = kv.V.pb()
	}
	return s
}

func (c Cand) key() *openfgav1.TupleKey {
	tk := &openfgav1.TupleKey{Object: c.Obj, Relation: c.Rel, User: c.User}
	if c.HasCond {
		tk.Condition = &openfgav1.RelationshipCondition{Name: c.Cond, Context: ctxPB(c.Ctx)}
	}
	return tk
}

// ---------------------------------------------------------------- models

var xcondPool = []XCond{
	{"cs", []Param{{"s", "string"}}},
	{"cb", []Param{{"b", "bool"}, {"n", "uint"}}},
	{"cl", []Param{{"l", "list:string"}}},
	{"cm", []Param{{"m", "map:int"}}},
	{"c0", nil},
	{"cd", []Param{{"d", "double"}, {"a", "any"}}},
}

func typeRef(s string) *openfgav1.ConditionParamTypeRef {
	p := strings.SplitN(s, ":", 2)
	names := map[string]openfgav1.ConditionParamTypeRef_TypeName{
		"any": openfgav1.ConditionParamTypeRef_TYPE_NAME_ANY, "bool": openfgav1.ConditionParamTypeRef_TYPE_NAME_BOOL,
		"string": openfgav1.ConditionParamTypeRef_TYPE_NAME_STRING, "int": openfgav1.ConditionParamTypeRef_TYPE_NAME_INT,
		"uint": openfgav1.ConditionParamTypeRef_TYPE_NAME_UINT, "double": openfgav1.ConditionParamTypeRef_TYPE_NAME_DOUBLE,
		"list": openfgav1.ConditionParamTypeRef_TYPE_NAME_LIST, "map": openfgav1.ConditionParamTypeRef_TYPE_NAME_MAP,
	}
	tr := &openfgav1.ConditionParamTypeRef{TypeName: names[p[0]]}
	if len(p) == 2 {
		tr.GenericTypes = []*openfgav1.ConditionParamTypeRef{typeRef(p[1])}
	}
	return tr
}

func modelProto(m *fga.Model, xs []XCond, id string) *openfgav1.AuthorizationModel {
	am := m.Proto(id)
	for _, x := range xs {
		if am.Conditions == nil {
			am.Conditions = map[string]*openfgav1.Condition{}
		}
		c := &openfgav1.Condition{Name: x.Name, Expression: "true", Parameters: map[string]*openfgav1.ConditionParamTypeRef{}}
		for _, p := range x.Params {
			c.Parameters[p.Name] = typeRef(p.Type)
		}
		am.Conditions[x.Name] = c
	}
	return am
}

func encX(xs []XCond) string {
	var sb strings.Builder
	fmt.Fprintf(&sb, "xc %d", len(xs))
	for _, x := range xs {
		fmt.Fprintf(&sb, " %s %d", x.Name, len(x.Params))
		for _, p := range x.Params {
			fmt.Fprintf(&sb, " %s %s", p.Name, p.Type)
		}
	}
	return sb.String()
}

func decX(t *fga.Toks) []XCond {
	t.Expect("xc")
	n := t.Int()
	var out []XCond
	for i := 0; i < n; i++ {
		x := XCond{Name: t.Next()}
		np := t.Int()
		for j := 0; j < np; j++ {
			x.Params = append(x.Params, Param{t.Next(), t.Next()})
		}
		out = append(out, x)
	}
	return out
}

var typeNames = []string{"group", "folder", "doc"}
var relNames = []string{"member", "owner", "editor", "viewer"}

// genModel builds a model whose directly assignable relations carry many restrictions: the same user type as object,
// wildcard and several usersets, each with or without a condition, so that "which restriction matches" and "which
// restriction carries the condition" differ often.
func genModel(r *hx.Rand) (*fga.Model, []XCond, *typesystem.TypeSystem) {
	for try := 0; ; try++ {
		m := &fga.Model{Types: []*fga.TypeDef{{Name: "user"}}}
		var xs []XCond
		var condNames []string
		if r.Chance(9, 10) {
			m.Conds = append(m.Conds, &fga.CondDef{Name: "c1", Param: "x", Op: "lt", Const: 10})
			condNames = append(condNames, "c1")
			if r.Chance(1, 2) {
				m.Conds = append(m.Conds, &fga.CondDef{Name: "c2", Param: "y", Op: "gt", Const: 3})
				condNames = append(condNames, "c2")
			}
			for _, x := range xcondPool {
				if r.Chance(1, 3) {
					xs = append(xs, x)
					condNames = append(condNames, x.Name)
				}
			}
		}
		nt := 1 + r.Intn(3)
		perm := append([]string{}, typeNames...)
		hx.Shuffle(r, perm)
		names := perm[:nt]
		sort.Strings(names)
		relsOf := map[string][]string{}
		for _, tn := range names {
			rp := append([]string{}, relNames...)
			hx.Shuffle(r, rp)
			rs := rp[:1+r.Intn(3)]
			sort.Strings(rs)
			relsOf[tn] = rs
		}
		cond := func() string {
			if len(condNames) > 0 && r.Chance(1, 2) {
				return hx.Pick(r, condNames)
			}
			return ""
		}
		for _, tn := range names {
			td := &fga.TypeDef{Name: tn}
			hasParent := r.Chance(1, 2)
			if hasParent {
				rd := &fga.RelDef{Name: "parent", Rewrite: &fga.Rewrite{Kind: "this"}}
				for _, t2 := range names {
					if r.Chance(1, 2) {
						rd.Restrs = append(rd.Restrs, fga.Restr{Typ: t2, Cond: cond()})
						if r.Chance(1, 4) {
							rd.Restrs = append(rd.Restrs, fga.Restr{Typ: t2, Cond: cond()})
						}
					}
				}
				if len(rd.Restrs) == 0 {
					rd.Restrs = []fga.Restr{{Typ: tn}}
				}
				rd.Restrs = dedup(rd.Restrs)
				td.Rels = append(td.Rels, rd)
			}
			for i, rn := range relsOf[tn] {
				rd := &fga.RelDef{Name: rn}
				k := r.Intn(10)
				switch {
				case k < 7 || i == 0:
					rd.Rewrite = &fga.Rewrite{Kind: "this"}
				case k < 8:
					rd.Rewrite = &fga.Rewrite{Kind: "cu", Rel: relsOf[tn][0]}
				case k < 9 && hasParent:
					rd.Rewrite = &fga.Rewrite{Kind: "union", Kids: []*fga.Rewrite{{Kind: "this"}, {Kind: "ttu", Tupleset: "parent", Computed: relsOf[tn][0]}}}
				default:
					rd.Rewrite = &fga.Rewrite{Kind: "union", Kids: []*fga.Rewrite{{Kind: "this"}, {Kind: "cu", Rel: relsOf[tn][0]}}}
				}
				if rd.Rewrite.Kind != "cu" {
					for rep := 0; rep < 2; rep++ {
						if r.Chance(3, 5) {
							rd.Restrs = append(rd.Restrs, fga.Restr{Typ: "user", Cond: cond()})
						}
						if r.Chance(2, 5) {
							rd.Restrs = append(rd.Restrs, fga.Restr{Typ: "user", Wild: true, Cond: cond()})
						}
					}
					for _, t2 := range names {
						if r.Chance(1, 3) {
							rd.Restrs = append(rd.Restrs, fga.Restr{Typ: t2, Cond: cond()})
						}
						if r.Chance(1, 6) {
							rd.Restrs = append(rd.Restrs, fga.Restr{Typ: t2, Wild: true, Cond: cond()})
						}
						for _, r2 := range relsOf[t2] {
							if r.Chance(1, 3) {
								rd.Restrs = append(rd.Restrs, fga.Restr{Typ: t2, Rel: r2, Cond: cond()})
							}
						}
					}
					if len(rd.Restrs) == 0 {
						rd.Restrs = []fga.Restr{{Typ: "user"}}
					}
					rd.Restrs = dedup(rd.Restrs)
					hx.Shuffle(r, rd.Restrs)
				}
				td.Rels = append(td.Rels, rd)
			}
			m.Types = append(m.Types, td)
		}
		ts, err := typesystem.NewAndValidate(context.Background(), modelProto(m, xs, "01HVMMBCMGZNT3SED4Z17ECXCA"))
		if err == nil {
			return m, xs, ts
		}
		if try > 500 {
			panic("c18 generator cannot produce a valid model: " + err.Error())
		}
	}
}

func dedup(rs []fga.Restr) []fga.Restr {
	seen := map[fga.Restr]bool{}
	var out []fga.Restr
	for _, x := range rs {
		if !seen[x] {
			seen[x] = true
			out = append(out, x)
		}
	}
	return out
}

// tuplesets dumps typesystem.IsTuplesetRelation for every relation of the model.
func encTuplesets(m *fga.Model, ts *typesystem.TypeSystem) string {
	var out []string
	for _, t := range m.Types {
		for _, rd := range t.Rels {
			if ok, _ := ts.IsTuplesetRelation(t.Name, rd.Name); ok {
				out = append(out, t.Name+"#"+rd.Name)
			}
		}
	}
	return fmt.Sprintf("ts %d %s", len(out), strings.Join(out, " "))
}

// ---------------------------------------------------------------- candidates

var ids = []string{"a", "b", "c"}

func paramsOf(m *fga.Model, xs []XCond, name string) ([]Param, bool) {
	for _, c := range m.Conds {
		if c.Name == name {
			return []Param{{c.Param, "int"}}, true
		}
	}
	for _, x := range xs {
		if x.Name == name {
			return x.Params, true
		}
	}
	return nil, false
}

func goodVal(r *hx.Rand, typ string) Val {
	p := strings.SplitN(typ, ":", 2)
	switch p[0] {
	case "int":
		return hx.Pick(r, []Val{{K: 'f', F: 5}, {K: 'f', F: -3}, {K: 's', S: "12"}, {K: 'f', F: 1e15}})
	case "uint":
		return hx.Pick(r, []Val{{K: 'f', F: 5}, {K: 's', S: "7"}, {K: 'f', F: 0}})
	case "double":
		return hx.Pick(r, []Val{{K: 'f', F: 1.5}, {K: 's', S: "2.25"}, {K: 'f', F: -7}})
	case "string":
		return hx.Pick(r, []Val{{K: 's', S: "hello"}, {K: 's', S: ""}, {K: 's', S: "12"}})
	case "bool":
		return Val{K: 'b', B: r.Bool()}
	case "any":
		return hx.Pick(r, []Val{{K: 'n'}, {K: 'f', F: 2}, {K: 's', S: "z"}, {K: 'l', L: []Val{{K: 'b', B: true}}}, {K: 'o', O: []KV{{"k", Val{K: 'n'}}}}})
	case "list":
		n := r.Intn(3)
		v := Val{K: 'l'}
		for i := 0; i < n; i++ {
			v.L = append(v.L, goodVal(r, p[1]))
		}
		return v
	case "map":
		n := r.Intn(3)
		v := Val{K: 'o'}
		for i := 0; i < n; i++ {
			v.O = append(v.O, KV{fmt.Sprintf("k%d", i), goodVal(r, p[1])})
		}
		return v
	}
	return Val{K: 'n'}
}

func badVal(r *hx.Rand, typ string) Val {
	p := strings.SplitN(typ, ":", 2)
	switch p[0] {
	case "int":
		return hx.Pick(r, []Val{{K: 'f', F: 1.5}, {K: 's', S: "abc"}, {K: 'b', B: true}, {K: 'n'}, {K: 's', S: "1.5"}, {K: 'l'}, {K: 's', S: ""}})
	case "uint":
		return hx.Pick(r, []Val{{K: 'f', F: -1}, {K: 's', S: "-4"}, {K: 'f', F: 0.5}, {K: 'b', B: false}})
	case "double":
		return hx.Pick(r, []Val{{K: 's', S: "x"}, {K: 'b', B: true}, {K: 'n'}, {K: 'o'}})
	case "string":
		return hx.Pick(r, []Val{{K: 'f', F: 1}, {K: 'b', B: true}, {K: 'n'}, {K: 'l', L: []Val{{K: 's', S: "a"}}}})
	case "bool":
		return hx.Pick(r, []Val{{K: 's', S: "true"}, {K: 'f', F: 1}, {K: 'n'}})
	case "any":
		return Val{K: 's', S: "ctl\x01"}
	case "list":
		return hx.Pick(r, []Val{{K: 's', S: "a"}, {K: 'l', L: []Val{goodVal(r, p[1]), badVal(r, p[1])}}, {K: 'o'}})
	case "map":
		return hx.Pick(r, []Val{{K: 'l'}, {K: 'o', O: []KV{{"k", badVal(r, p[1])}}}, {K: 'f', F: 3}})
	}
	return Val{K: 'n'}
}

// goodCtx gives a context that fits the parameters (a random subset of them: parameters may be missing on a tuple).
func goodCtx(r *hx.Rand, ps []Param) []KV {
	out := []KV{}
	for _, p := range ps {
		if r.Chance(3, 4) {
			out = append(out, KV{p.Name, goodVal(r, p.Type)})
		}
	}
	return out
}

func userFor(r *hx.Rand, x fga.Restr) string {
	switch {
	case x.Wild:
		return x.Typ + ":*"
	case x.Rel != "":
		return x.Typ + ":" + hx.Pick(r, ids) + "#" + x.Rel
	}
	return x.Typ + ":" + hx.Pick(r, ids)
}

type relRef struct {
	typ string
	rd  *fga.RelDef
}

func allRels(m *fga.Model) (all, direct []relRef) {
	for _, t := range m.Types {
		for _, rd := range t.Rels {
			all = append(all, relRef{t.Name, rd})
			if len(rd.Restrs) > 0 {
				direct = append(direct, relRef{t.Name, rd})
			}
		}
	}
	return
}

// validCand: a tuple built from one restriction of one relation, with that restriction's condition.
func validCand(r *hx.Rand, m *fga.Model, xs []XCond, id string) (Cand, fga.Restr, relRef) {
	_, direct := allRels(m)
	rr := hx.Pick(r, direct)
	x := hx.Pick(r, rr.rd.Restrs)
	c := Cand{Obj: rr.typ + ":" + id, Rel: rr.rd.Name, User: userFor(r, x)}
	if x.Cond != "" {
		ps, _ := paramsOf(m, xs, x.Cond)
		c.HasCond, c.Cond, c.Ctx = true, x.Cond, goodCtx(r, ps)
	}
	return c, x, rr
}

var weird = []string{"", " ", "*", ":", "#", "a b", "a\tb", "a\x01b", "a\u0085b", "é", "a b", "\xff\xfe", "@", "a@b", "a:b", "a#b", "a*"}

func mutate(r *hx.Rand, m *fga.Model, xs []XCond, c Cand, x fga.Restr, rr relRef, st *hx.Stats) Cand {
	all, _ := allRels(m)
	tn := func() string { return hx.Pick(r, m.Types).Name }
	id := hx.Pick(r, ids)
	kind := r.Intn(30)
	st.Inc(fmt.Sprintf("mut-%02d", kind))
	switch kind {
	case 0: // object of another / unknown type
		c.Obj = hx.Pick(r, []string{tn(), "unknown", "user", "self"}) + ":" + id
	case 1: // malformed object
		c.Obj = hx.Pick(r, []string{rr.typ + ":*", rr.typ + ":", ":" + id, rr.typ, rr.typ + ":" + id + "#" + c.Rel, rr.typ + ":" + id + ":" + id, "", rr.typ + ": " + id,
			rr.typ + ":" + hx.Pick(r, weird), hx.Pick(r, weird) + ":" + id, rr.typ + ":" + strings.Repeat("x", 250+r.Intn(10)), "*", rr.typ + "#" + id})
	case 2: // relation unknown / of another type / malformed
		c.Rel = hx.Pick(r, []string{"unknown", hx.Pick(r, all).rd.Name, "", "view er", c.Rel + "#", c.Rel + ":", "@" + c.Rel, hx.Pick(r, weird), strings.Repeat("r", 49+r.Intn(4)), "parent"})
	case 3: // user of a type/relation that is no restriction
		o := hx.Pick(r, all)
		c.User = hx.Pick(r, []string{tn() + ":" + id, tn() + ":*", o.typ + ":" + id + "#" + o.rd.Name})
	case 4: // malformed users
		ut := x.Typ
		c.User = hx.Pick(r, []string{"*", "anne", ut + ":", ut + ":*#member", ut + ":" + id + "#", ut + ":" + id + "#unknown", "unknown:" + id, "unknown:" + id + "#member",
			"user:" + id + "#member", ut + ":*#" + x.Rel, "", ut, ":" + id, ut + ":" + id + ":" + id, ut + ":" + id + "#" + x.Rel + "#" + x.Rel, ut + ": " + id, ut + ":" + hx.Pick(r, weird),
			hx.Pick(r, weird), ut + ":" + strings.Repeat("u", 505+r.Intn(10)), ut + ":" + id + "#" + hx.Pick(r, weird), "#" + x.Rel, ut + "#" + x.Rel, ut + ":*:*", ut + ":" + id + "*"})
	case 5: // self-referencing userset (the user is exactly object#relation)
		c.User = c.Obj + "#" + c.Rel
	case 6: // self-referencing userset on a relation that allows its own userset, if there is one
		for _, o := range all {
			for _, y := range o.rd.Restrs {
				if y.Typ == o.typ && y.Rel == o.rd.Name {
					c = Cand{Obj: o.typ + ":" + id, Rel: o.rd.Name, User: o.typ + ":" + id + "#" + o.rd.Name}
					if y.Cond != "" {
						ps, _ := paramsOf(m, xs, y.Cond)
						c.HasCond, c.Cond, c.Ctx = true, y.Cond, goodCtx(r, ps)
					}
				}
			}
		}
	case 7: // drop the condition
		c.HasCond, c.Cond, c.Ctx = false, "", nil
	case 8, 9, 10: // condition of another restriction of the same relation / any condition of the model
		var names []string
		for _, y := range rr.rd.Restrs {
			if y.Cond != "" && (kind != 8 || y.Typ == x.Typ) {
				names = append(names, y.Cond)
			}
		}
		if kind == 10 || len(names) == 0 {
			for _, cd := range m.Conds {
				names = append(names, cd.Name)
			}
			for _, xc := range xs {
				names = append(names, xc.Name)
			}
		}
		if len(names) > 0 {
			n := hx.Pick(r, names)
			ps, _ := paramsOf(m, xs, n)
			c.HasCond, c.Cond, c.Ctx = true, n, goodCtx(r, ps)
		}
	case 11: // unknown / malformed condition names
		c.HasCond = true
		c.Cond = hx.Pick(r, []string{"nope", "c", "", "c 1", "c1\x02", "c1\n", strings.Repeat("n", 255+r.Intn(4)), "c1 ", "é\u0085", "C1"})
		if c.Ctx == nil {
			c.Ctx = []KV{}
		}
	case 12: // undeclared key
		if c.HasCond {
			c.Ctx = append(c.Ctx, KV{hx.Pick(r, []string{"zz", "X", "", "x "}), Val{K: 'f', F: 1}})
		}
	case 13, 14: // mistyped value
		if c.HasCond {
			ps, _ := paramsOf(m, xs, c.Cond)
			if len(ps) > 0 {
				p := hx.Pick(r, ps)
				c.Ctx = []KV{{p.Name, badVal(r, p.Type)}}
				for _, q := range ps {
					if q.Name != p.Name && r.Bool() {
						c.Ctx = append(c.Ctx, KV{q.Name, goodVal(r, q.Type)})
					}
				}
			}
		}
	case 15: // control characters in keys / values
		if c.HasCond {
			c.Ctx = append(c.Ctx, hx.Pick(r, []KV{{"k\x01", Val{K: 'f', F: 1}}, {"x", Val{K: 's', S: "v\x7f"}}, {"x", Val{K: 'l', L: []Val{{K: 's', S: "\u0085"}}}},
				{"x", Val{K: 'o', O: []KV{{"in\x02", Val{K: 'n'}}}}}, {"x", Val{K: 'o', O: []KV{{"in", Val{K: 's', S: "\x00"}}}}}}))
		}
	case 16: // wildcard / userset on a tupleset relation
		for _, o := range all {
			if o.rd.Name == "parent" {
				y := hx.Pick(r, o.rd.Restrs)
				c = Cand{Obj: o.typ + ":" + id, Rel: "parent", User: hx.Pick(r, []string{y.Typ + ":*", y.Typ + ":" + id + "#member", "*", y.Typ + ":" + id + "#parent", y.Typ})}
				if y.Cond != "" {
					ps, _ := paramsOf(m, xs, y.Cond)
					c.HasCond, c.Cond, c.Ctx = true, y.Cond, goodCtx(r, ps)
				}
			}
		}
	case 17: // user shape of another restriction kind for the same type (object vs wildcard vs userset)
		c.User = hx.Pick(r, []string{x.Typ + ":" + id, x.Typ + ":*", x.Typ + ":" + id + "#" + hx.Pick(r, relNames)})
	case 18: // relation without type restrictions (computed)
		for _, o := range all {
			if len(o.rd.Restrs) == 0 {
				c.Obj, c.Rel = o.typ+":"+id, o.rd.Name
			}
		}
	case 19: // context on a condition without parameters, empty context, nested junk
		if c.HasCond {
			c.Ctx = hx.Pick(r, [][]KV{{}, {{"x", Val{K: 'o', O: []KV{{"a", Val{K: 'l', L: []Val{{K: 'n'}, {K: 'f', F: 2}}}}}}}}, {{"q", Val{K: 'n'}}}})
		}
	default: // two or three fields from the pools at once
		if r.Bool() {
			c.Obj = tn() + ":" + id
		}
		if r.Bool() {
			c.Rel = hx.Pick(r, all).rd.Name
		}
		if r.Bool() {
			o := hx.Pick(r, all)
			c.User = hx.Pick(r, []string{"user:" + id, "user:*", o.typ + ":" + id, o.typ + ":" + id + "#" + o.rd.Name, o.typ + ":*"})
		}
	}
	return c
}

// padVal is a value of parameter type `typ` whose encoding is about `pad` bytes long (ok=false: the type cannot be padded).
func padVal(typ string, pad int) (Val, bool) {
	p := strings.SplitN(typ, ":", 2)
	switch p[0] {
	case "int", "uint", "double":
		return Val{K: 's', S: strings.Repeat("0", pad)}, true // "000…0" parses as 0
	case "string", "any":
		return Val{K: 's', S: strings.Repeat("p", pad)}, true
	case "list":
		if v, ok := padVal(p[1], pad); ok {
			return Val{K: 'l', L: []Val{v}}, true
		}
	case "map":
		if v, ok := padVal(p[1], pad); ok {
			return Val{K: 'o', O: []KV{{"k", v}}}, true
		}
	}
	return Val{}, false
}

// sizeProbe pads the context of a conditioned candidate so that proto.Size lands around `target` (exactly on it, one
// below, one above, …) while the context stays valid whenever the condition has a paddable parameter.
func sizeProbe(r *hx.Rand, m *fga.Model, xs []XCond, c Cand, target int) Cand {
	if !c.HasCond {
		return c
	}
	ps, _ := paramsOf(m, xs, c.Cond)
	key, typ := "s", "string" // undeclared unless the condition declares it
	for _, p := range ps {
		if _, ok := padVal(p.Type, 1); ok {
			key, typ = p.Name, p.Type
		}
	}
	var rest []KV
	for _, kv := range c.Ctx {
		if kv.Key != key {
			rest = append(rest, kv)
		}
	}
	want := target + r.Intn(5) - 2
	pad := 1
	for try := 0; try < 6; try++ {
		v, _ := padVal(typ, pad)
		got := protoSize(append(append([]KV{}, rest...), KV{key, v}))
		if got == want || pad+want-got < 1 {
			break
		}
		pad += want - got
	}
	v, _ := padVal(typ, pad)
	c.Ctx = append(append([]KV{}, rest...), KV{key, v})
	return c
}

// dedupKeys keeps the last binding of every key (a Go map cannot hold two).
func dedupKeys(ctx []KV) []KV {
	if ctx == nil {
		return nil
	}
	out := []KV{}
	for i, kv := range ctx {
		last := true
		for _, later := range ctx[i+1:] {
			if later.Key == kv.Key {
				last = false
			}
		}
		if last {
			if kv.V.K == 'o' {
				kv.V.O = dedupKeys(kv.V.O)
			}
			out = append(out, kv)
		}
	}
	return out
}

func protoSize(ctx []KV) int {
	return protoSizeOf(ctxPB(ctx))
}

func protoSizeOf(s *structpb.Struct) int { return proto.Size(s) }

// ---------------------------------------------------------------- generator

func encodeCase(kind string, lim int, m *fga.Model, xs []XCond, ts *typesystem.TypeSystem) string {
	var sb strings.Builder
	fmt.Fprintf(&sb, "%s lim %d %s %s %s", kind, lim, m.Encode(), encX(xs), encTuplesets(m, ts))
	seeds := seedTuples(m)
	fmt.Fprintf(&sb, " seeds %d", len(seeds))
	for _, s := range seeds {
		fmt.Fprintf(&sb, " %s %s %s", s.Obj, s.Rel, s.User)
	}
	return sb.String()
}

func decSeeds(t *fga.Toks) []fga.Tuple {
	t.Expect("seeds")
	n := t.Int()
	var out []fga.Tuple
	for i := 0; i < n; i++ {
		out = append(out, fga.Tuple{Obj: t.Next(), Rel: t.Next(), User: t.Next()})
	}
	return out
}

func crafted(emit func(string), st *hx.Stats) {
	this := func() *fga.Rewrite { return &fga.Rewrite{Kind: "this"} }
	m := &fga.Model{Types: []*fga.TypeDef{{Name: "user"},
		{Name: "group", Rels: []*fga.RelDef{{Name: "member", Rewrite: this(), Restrs: []fga.Restr{{Typ: "user"}}}, {Name: "owner", Rewrite: this(), Restrs: []fga.Restr{{Typ: "user"}}}}},
		{Name: "doc", Rels: []*fga.RelDef{
			{Name: "viewer", Rewrite: this(), Restrs: []fga.Restr{{Typ: "user", Cond: "c1"}, {Typ: "user", Wild: true}}},
			{Name: "editor", Rewrite: this(), Restrs: []fga.Restr{{Typ: "group", Rel: "member", Cond: "c1"}, {Typ: "group", Rel: "owner"}}},
			{Name: "reader", Rewrite: this(), Restrs: []fga.Restr{{Typ: "group"}, {Typ: "group", Rel: "member", Cond: "c1"}}},
			{Name: "loopy", Rewrite: this(), Restrs: []fga.Restr{{Typ: "user"}, {Typ: "doc", Rel: "loopy"}}},
		}}},
		Conds: []*fga.CondDef{{Name: "c1", Param: "x", Op: "lt", Const: 10}}}
	ts, err := typesystem.NewAndValidate(context.Background(), modelProto(m, nil, "01HVMMBCMGZNT3SED4Z17ECXCA"))
	if err != nil {
		panic(err)
	}
	x5 := []KV{{"x", Val{K: 'f', F: 5}}}
	cands := []Cand{
		{Obj: "doc:1", Rel: "viewer", User: "user:*", HasCond: true, Cond: "c1", Ctx: x5},
		{Obj: "doc:1", Rel: "editor", User: "group:a#owner", HasCond: true, Cond: "c1", Ctx: x5},
		{Obj: "doc:1", Rel: "reader", User: "group:a#member"},
		{Obj: "doc:1", Rel: "reader", User: "group:a", HasCond: true, Cond: "c1", Ctx: x5},
		{Obj: "doc:1", Rel: "loopy", User: "doc:1#loopy"},
		{Obj: "doc:1", Rel: "viewer", User: "user:a", HasCond: true, Cond: "c1", Ctx: x5},
		{Obj: "doc:1", Rel: "viewer", User: "user:a"},
		{Obj: "doc:1", Rel: "viewer", User: "user:*"},
	}
	szr := hx.NewRand(7)
	for _, target := range []int{32766, 32770, 16 + 2, 64, 65, 40000} {
		sc := sizeProbe(szr, m, nil, Cand{Obj: "doc:1", Rel: "viewer", User: "user:a", HasCond: true, Cond: "c1", Ctx: x5}, target)
		cands = append(cands, sc)
	}
	for _, c := range cands {
		var sb strings.Builder
		sb.WriteString(encodeCase("w", 64, m, nil, ts) + " cand")
		c.enc(&sb)
		emit(sb.String())
		st.Inc("crafted")
	}
	for _, d := range [][3]string{{"doc:", "loopy", "user:a"}, {"", "", "user:a"}, {"doc:s1", "", "user:a"}, {"doc:s1", "loopy", "user:a"}, {"doc:s1", "loopy", "user:"}, {"doc", "loopy", "user:a"}} {
		emit(fmt.Sprintf("%s del %s %s %s", encodeCase("d", 64, m, nil, ts), hx.HS(d[0]), hx.HS(d[1]), hx.HS(d[2])))
		st.Inc("crafted-del")
	}
}

func gen(r *hx.Rand, n int, tier string, emit func(string), st *hx.Stats) {
	crafted(emit, st)
	for i := 0; i < n; {
		c := r.Fork()
		m, xs, ts := genModel(c)
		per := 6 + c.Intn(6)
		for k := 0; k < per && i < n; k++ {
			lim := 40 + c.Intn(60)
			if c.Chance(1, 8) {
				// delete keys
				var sb strings.Builder
				sb.WriteString(encodeCase("d", lim, m, xs, ts))
				seeds := seedTuples(m)
				if len(seeds) == 0 {
					continue
				}
				s := hx.Pick(c, seeds)
				o, rel, u := s.Obj, s.Rel, s.User
				switch c.Intn(12) {
				case 0:
					o = fga.TypeOf(o) + ":"
				case 1:
					o = ""
				case 2:
					rel = ""
				case 3:
					o, rel = "", ""
				case 4:
					u = hx.Pick(c, []string{"user:", "", "*", "anne", "user:a#", "user: a", "user:" + strings.Repeat("u", 510)})
				case 5:
					o = hx.Pick(c, []string{fga.TypeOf(o), fga.TypeOf(o) + ":*", ":", "x", o + " ", fga.TypeOf(o) + ":nosuch"})
				case 6:
					rel = hx.Pick(c, []string{"nosuch", "a b", "#", strings.Repeat("r", 51)})
				case 7:
					u = hx.Pick(c, []string{"user:nosuch", "user:*", fga.TypeOf(o) + ":s1#" + rel})
				case 8:
					o, u = fga.TypeOf(o)+":", "user:b"
				}
				fmt.Fprintf(&sb, " del %s %s %s", hx.HS(o), hx.HS(rel), hx.HS(u))
				emit(sb.String())
				st.Inc("delete")
				i++
				continue
			}
			cand, x, rr := validCand(c, m, xs, hx.Pick(c, ids))
			switch p := c.Intn(10); {
			case p < 3:
				st.Inc("valid")
			case p < 9:
				cand = mutate(c, m, xs, cand, x, rr, st)
				st.Inc("mutated")
			default:
				// size boundary: around the command's small limit, rarely around the API's 32 KiB
				big := 150
				if tier == "thorough" {
					big = 40
				}
				if c.Chance(1, big) {
					cand = sizeProbe(c, m, xs, cand, 32768)
					st.Inc("size-32k")
				} else {
					cand = sizeProbe(c, m, xs, cand, lim)
					st.Inc("size-small")
				}
			}
			cand.Ctx = dedupKeys(cand.Ctx)
			var sb strings.Builder
			sb.WriteString(encodeCase("w", lim, m, xs, ts) + " cand")
			cand.enc(&sb)
			emit(sb.String())
			i++
		}
	}
}

// ---------------------------------------------------------------- executor

var (
	theDS  storage.OpenFGADatastore
	theSrv *server.Server
)

func srv() (*server.Server, storage.OpenFGADatastore) {
	if theSrv == nil {
		theDS = memory.New()
		theSrv = server.MustNewServerWithOpts(server.WithDatastore(theDS))
	}
	return theSrv, theDS
}

// classify maps the error text of the real code to the classes of Model/Validation.lean.
func classify(err error) string {
	if err == nil {
		return "ok"
	}
	s := err.Error()
	has := func(x string) bool { return strings.Contains(s, x) }
	switch {
	case has("failed to evaluate relationship condition"):
		return "ok" // validation passed; the evaluation of the request met the tuple and could not evaluate its condition
	case has("condition context size limit exceeded"):
		return "context-size"
	case has("cannot write a tuple that is implicit"):
		return "implicit"
	case has("the 'user' field is malformed"):
		return "user-malformed"
	case has("the 'user' field must be an object"):
		return "user-shape"
	case has("invalid 'object' field format"):
		return "object-format"
	case has("the 'object' field cannot reference a typed wildcard"):
		return "object-wildcard"
	case has("the 'relation' field is malformed"):
		return "relation-malformed"
	case has("with tupleset relation"):
		return "tupleset"
	case has("is not an allowed type restriction"):
		return "type-restriction"
	case has("condition is missing"):
		return "condition-missing"
	case has("condition name contains forbidden characters"):
		return "condition-forbidden"
	case has("undefined condition"):
		return "condition-undefined"
	case has("invalid condition for type restriction"):
		return "condition-invalid"
	case has("contains forbidden characters"):
		return "context-forbidden"
	case has("found invalid context parameter"):
		return "context-parameter"
	case has("parameter type error") || has("failed to convert context parameter") || has("no parameters defined for the condition"):
		return "context-type"
	case has("relation '") && has("not found"):
		return "relation-not-found"
	case has("type '") && has("not found"):
		return "type-not-found"
	case has("invalid WriteRequest") || has("invalid CheckRequest") || has("invalid ListObjectsRequest") || has("invalid TupleKey") || has("invalid ContextualTupleKeys"):
		return "proto"
	case has("cannot delete a tuple which does not exist") || has("cannot write a tuple which already exists"):
		return "storage-invalid"
	}
	return "other:" + strings.ReplaceAll(strings.ReplaceAll(s, "\n", " "), "\t", " ")
}

type world struct {
	store, model string
	m            *fga.Model
}

func setup(m *fga.Model, xs []XCond) world {
	s, _ := srv()
	ctx := context.Background()
	st, err := s.CreateStore(ctx, &openfgav1.CreateStoreRequest{Name: "c18"})
	if err != nil {
		panic(err)
	}
	am := modelProto(m, xs, "")
	wr, err := s.WriteAuthorizationModel(ctx, &openfgav1.WriteAuthorizationModelRequest{StoreId: st.GetId(), SchemaVersion: am.GetSchemaVersion(), TypeDefinitions: am.GetTypeDefinitions(), Conditions: am.GetConditions()})
	if err != nil {
		panic("model rejected: " + err.Error())
	}
	return world{st.GetId(), wr.GetAuthorizationModelId(), m}
}

// seedTuples: deterministic valid unconditioned-or-conditioned tuples derived from the model: for the first directly
// assignable relation with a plain `user` (or any object) restriction, objects s1..s3 for user:a, plus one for user:b.
func seedTuples(m *fga.Model) []fga.Tuple {
	var out []fga.Tuple
	for _, t := range m.Types {
		for _, rd := range t.Rels {
			for _, x := range rd.Restrs {
				if !x.Wild && x.Rel == "" && x.Cond == "" && len(out) == 0 {
					for _, id := range []string{"s1", "s2", "s3"} {
						out = append(out, fga.Tuple{Obj: t.Name + ":" + id, Rel: rd.Name, User: x.Typ + ":a"})
					}
					out = append(out, fga.Tuple{Obj: t.Name + ":s1", Rel: rd.Name, User: x.Typ + ":b"})
				}
			}
		}
	}
	if len(out) > 0 {
		// one more tuple of the same user on another relation / type if there is one
		for _, t := range m.Types {
			for _, rd := range t.Rels {
				for _, x := range rd.Restrs {
					if !x.Wild && x.Rel == "" && x.Cond == "" && x.Typ+":a" == out[0].User && (t.Name+":s1" != out[0].Obj || rd.Name != out[0].Rel) && len(out) == 4 {
						out = append(out, fga.Tuple{Obj: t.Name + ":s1", Rel: rd.Name, User: x.Typ + ":a"})
					}
				}
			}
		}
	}
	return out
}

// freshTuple: a valid tuple on object id "zz" used as the companion of the candidate in one Write request.
func freshTuple(m *fga.Model) *fga.Tuple {
	for _, t := range m.Types {
		for _, rd := range t.Rels {
			for _, x := range rd.Restrs {
				if !x.Wild && x.Rel == "" && x.Cond == "" {
					return &fga.Tuple{Obj: t.Name + ":zz", Rel: rd.Name, User: x.Typ + ":zz"}
				}
			}
		}
	}
	return nil
}

func readAll(storeID string) []string {
	s, _ := srv()
	var out []string
	tok := ""
	for {
		rd, err := s.Read(context.Background(), &openfgav1.ReadRequest{StoreId: storeID, ContinuationToken: tok})
		if err != nil {
			return []string{"READ-ERROR " + err.Error()}
		}
		for _, t := range rd.GetTuples() {
			k := t.GetKey()
			out = append(out, hx.HS(k.GetObject())+"#"+hx.HS(k.GetRelation())+"@"+hx.HS(k.GetUser())+"/"+hx.HS(k.GetCondition().GetName()))
		}
		tok = rd.GetContinuationToken()
		if tok == "" {
			break
		}
	}
	sort.Strings(out)
	return out
}

func keyStr(tk *openfgav1.TupleKey) string {
	return hx.HS(tk.GetObject()) + "#" + hx.HS(tk.GetRelation()) + "@" + hx.HS(tk.GetUser()) + "/" + hx.HS(tk.GetCondition().GetName())
}

// readback compares the store with `before`: "same", "both" (exactly the written tuples were added) or "odd:…".
func readback(storeID string, before []string, written []*openfgav1.TupleKey) string {
	after := readAll(storeID)
	if strings.Join(after, ",") == strings.Join(before, ",") {
		return "same"
	}
	want := append([]string{}, before...)
	for _, w := range written {
		want = append(want, keyStr(w))
	}
	sort.Strings(want)
	if strings.Join(after, ",") == strings.Join(want, ",") {
		return "both"
	}
	return fmt.Sprintf("odd:%d->%d", len(before), len(after))
}

func restore(storeID string, before []string) {
	_, ds := srv()
	// drop everything that is not in `before` (exact keys through the datastore)
	bset := map[string]bool{}
	for _, b := range before {
		bset[b] = true
	}
	it, err := ds.Read(context.Background(), storeID, storage.ReadFilter{}, storage.ReadOptions{})
	if err != nil {
		return
	}
	var dels []*openfgav1.TupleKeyWithoutCondition
	for {
		t, err := it.Next(context.Background())
		if err != nil {
			break
		}
		if !bset[keyStr(t.GetKey())] {
			dels = append(dels, &openfgav1.TupleKeyWithoutCondition{Object: t.GetKey().GetObject(), Relation: t.GetKey().GetRelation(), User: t.GetKey().GetUser()})
		}
	}
	it.Stop()
	for _, d := range dels {
		_ = ds.Write(context.Background(), storeID, storage.Deletes{d}, nil)
	}
}

func exec(line string, st *hx.Stats) string {
	t := fga.NewToks(line)
	kind := t.Next()
	t.Expect("lim")
	lim := t.Int()
	m := fga.DecodeModel(t)
	xs := decX(t)
	t.Expect("ts")
	nts := t.Int()
	for i := 0; i < nts; i++ {
		t.Next()
	}
	s, ds := srv()
	ctx := context.Background()
	w := setup(m, xs)
	seeds := decSeeds(t)
	for _, sd := range seeds {
		if err := ds.Write(ctx, w.store, nil, storage.Writes{sd.Key()}); err != nil {
			panic("seed write: " + err.Error())
		}
	}
	before := readAll(w.store)
	switch kind {
	case "w":
		t.Expect("cand")
		c := decCand(t)
		fresh := freshTuple(m)
		writes := []*openfgav1.TupleKey{}
		if fresh != nil {
			writes = append(writes, fresh.Key())
		}
		writes = append(writes, c.key())
		var sb strings.Builder
		// W: the API
		_, err := s.Write(ctx, &openfgav1.WriteRequest{StoreId: w.store, Writes: &openfgav1.WriteRequestWrites{TupleKeys: writes}})
		fmt.Fprintf(&sb, "W=%s,%s", classify(err), readback(w.store, before, writes))
		restore(w.store, before)
		// K: the command, small limit, no request validation
		cmd := commands.NewWriteCommand(ds, commands.WithConditionContextByteLimit(lim))
		_, err = cmd.Execute(ctx, &openfgav1.WriteRequest{StoreId: w.store, AuthorizationModelId: w.model, Writes: &openfgav1.WriteRequestWrites{TupleKeys: writes}})
		fmt.Fprintf(&sb, " K=%s,%s", classify(err), readback(w.store, before, writes))
		restore(w.store, before)
		// C / L: contextual tuple
		rq := requestFor(m)
		_, err = s.Check(ctx, &openfgav1.CheckRequest{StoreId: w.store, TupleKey: &openfgav1.CheckRequestTupleKey{Object: rq.Obj, Relation: rq.Rel, User: rq.User},
			ContextualTuples: &openfgav1.ContextualTupleKeys{TupleKeys: []*openfgav1.TupleKey{c.key()}}})
		fmt.Fprintf(&sb, " C=%s", classify(err))
		_, err = s.ListObjects(ctx, &openfgav1.ListObjectsRequest{StoreId: w.store, Type: fga.TypeOf(rq.Obj), Relation: rq.Rel, User: rq.User,
			ContextualTuples: &openfgav1.ContextualTupleKeys{TupleKeys: []*openfgav1.TupleKey{c.key()}}})
		fmt.Fprintf(&sb, " L=%s", classify(err))
		fmt.Fprintf(&sb, " size=%d", protoSizeOf(c.key().GetCondition().GetContext()))
		_, _ = s.DeleteStore(ctx, &openfgav1.DeleteStoreRequest{StoreId: w.store})
		return sb.String()
	case "d":
		t.Expect("del")
		o, rel, u := string(hx.MustUnH(t.Next())), string(hx.MustUnH(t.Next())), string(hx.MustUnH(t.Next()))
		_, err := s.Write(ctx, &openfgav1.WriteRequest{StoreId: w.store, Deletes: &openfgav1.WriteRequestDeletes{TupleKeys: []*openfgav1.TupleKeyWithoutCondition{{Object: o, Relation: rel, User: u}}}})
		after := map[string]bool{}
		for _, a := range readAll(w.store) {
			after[a] = true
		}
		var removed []string
		for i, sd := range seeds {
			if !after[keyStr(sd.Key())] {
				removed = append(removed, strconv.Itoa(i))
			}
		}
		extra := len(after) - (len(before) - len(removed))
		_, _ = s.DeleteStore(ctx, &openfgav1.DeleteStoreRequest{StoreId: w.store})
		return fmt.Sprintf("D=%s removed=[%s] extra=%d", classify(err), strings.Join(removed, ","), extra)
	}
	return "bad-case-kind"
}

func requestFor(m *fga.Model) fga.Req {
	for _, t := range m.Types {
		if len(t.Rels) > 0 {
			return fga.Req{Obj: t.Name + ":zz", Rel: t.Rels[0].Name, User: "user:zz"}
		}
	}
	panic("model without relations")
}

func main() { hx.Main(hx.Harness{Gen: gen, Exec: exec}) }
