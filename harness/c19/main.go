// Harness for C19 (malformed or hostile input never crashes the server) — SUPPORTING EVIDENCE for the part of
// the claim the proof does not carry (runtime panics, latency, memory).  A malformed stream against one
// in-process server (memory store, AuthZEN and the Check query cache enabled so that context serialisation runs):
//
//	c19 <kind> <seed>        kind: check | write | model | list | misc | authzen | batch | numeric
//	c19 tok <i> / c19 wide <i>   crafted: extreme offsets in well-formed tokens; wide fan-out with an early hit (tokens.go)
//
// Every case derives, from its seed alone, a sequence of RPCs: a valid request of the kind with byte-level
// mutations of its strings (separators, NUL, invalid UTF-8, 10 kB), hostile contexts (nesting 2 000 deep, 20 000
// keys, numbers as strings with extreme exponents — finding F14 —, NaN/Inf, wrong types), models with deep
// rewrite nesting / unset oneofs / hostile CEL, cyclic and wide tuple data, unknown enum values.
//
// Output:  n=<rpcs> codes=<distinct status codes> worst=<rpc:ms bucket> alloc=<MB bucket> [slow=<rpc>] [big=<rpc>]
// A panic in the request goroutine is caught by hx (`PANIC …`); a panic in any other goroutine kills the
// harness, and the last line on stderr names the case.
package main

import (
	"context"
	"errors"
	"fmt"
	"math"
	"os"
	"runtime"
	"runtime/debug"
	"sort"
	"strings"
	"sync"
	"time"

	authzenv1 "github.com/openfga/api/proto/authzen/v1"
	openfgav1 "github.com/openfga/api/proto/openfga/v1"
	parser "github.com/openfga/language/pkg/go/transformer"
	"google.golang.org/grpc"
	"google.golang.org/grpc/metadata"
	"google.golang.org/grpc/status"
	"google.golang.org/protobuf/encoding/prototext"
	"google.golang.org/protobuf/proto"
	"google.golang.org/protobuf/types/known/structpb"
	"google.golang.org/protobuf/types/known/wrapperspb"

	"github.com/openfga/openfga/pkg/logger"
	"github.com/openfga/openfga/pkg/server"
	servererrors "github.com/openfga/openfga/pkg/server/errors"
	"github.com/openfga/openfga/pkg/storage/memory"
	"github.com/openfga/openfga/verifharness/hx"
)

const slowBound = 20 * time.Second // generous: the machine may be heavily loaded; F14-like regressions burn minutes
const allocBound = 1500            // MB allocated by one RPC

const baseDSL = `model
  schema 1.1
type user
type group
  relations
    define member: [user, group#member, user with c_int, user:* with c_str]
type folder
  relations
    define parent: [folder]
    define viewer: [user, group#member, user with c_all] or viewer from parent
type doc
  relations
    define parent: [folder]
    define viewer: [user, user:*, group#member, user with c_int, user with c_dbl, user with c_all]
    define blocked: [user, group#member]
    define can: viewer but not blocked
    define both: viewer and viewer from parent
condition c_int(x: int, u: uint) {
  x < 10 && u > 1u
}
condition c_dbl(d: double) {
  d < 1.5
}
condition c_str(s: string, l: list<string>, m: map<string>) {
  s in l || s in m
}
condition c_all(b: bool, ts: timestamp, du: duration, ip: ipaddress) {
  b && ts > timestamp("2020-01-01T00:00:00Z") && du < duration("1h") && ip.in_cidr("10.0.0.0/8")
}`

var (
	once    sync.Once
	srv     *server.Server
	baseSt  string
	baseMod *openfgav1.AuthorizationModel
)

func setup() {
	once.Do(func() {
		ds := memory.New()
		extra := []server.OpenFGAServiceV1Option{}
		if os.Getenv("C19_LOG") != "" {
			extra = append(extra, server.WithLogger(logger.MustNewLogger("text", "info", "Unix")))
		}
		srv = server.MustNewServerWithOpts(append(extra, server.WithDatastore(ds), server.WithExperimentals("authzen"),
			server.WithCheckQueryCacheEnabled(true), server.WithCheckQueryCacheTTL(time.Minute),
			server.WithListObjectsDeadline(4*time.Second), server.WithListUsersDeadline(4*time.Second),
			server.WithRequestTimeout(6*time.Second))...)
		ctx := context.Background()
		cs, err := srv.CreateStore(ctx, &openfgav1.CreateStoreRequest{Name: "c19-base"})
		if err != nil {
			panic(err)
		}
		baseSt = cs.GetId()
		baseMod = parser.MustTransformDSLToProto(baseDSL)
		if _, err := srv.WriteAuthorizationModel(ctx, &openfgav1.WriteAuthorizationModelRequest{StoreId: baseSt,
			TypeDefinitions: baseMod.GetTypeDefinitions(), SchemaVersion: baseMod.GetSchemaVersion(), Conditions: baseMod.GetConditions()}); err != nil {
			panic(err)
		}
		var tks []*openfgav1.TupleKey
		add := func(o, r, u string) { tks = append(tks, &openfgav1.TupleKey{Object: o, Relation: r, User: u}) }
		for i := 0; i < 30; i++ { // a membership cycle and some fan-out
			add(fmt.Sprintf("group:g%d", i), "member", fmt.Sprintf("group:g%d#member", (i+1)%30))
			add("doc:1", "viewer", fmt.Sprintf("group:g%d#member", i))
			add(fmt.Sprintf("doc:d%d", i), "viewer", "user:m")
		}
		add("group:g7", "member", "user:m")
		add("doc:1", "parent", "folder:f1")
		add("folder:f1", "parent", "folder:f2")
		add("folder:f2", "parent", "folder:f1")
		add("folder:f2", "viewer", "user:m")
		for i := 0; i < len(tks); i += 40 {
			j := i + 40
			if j > len(tks) {
				j = len(tks)
			}
			if err := ds.Write(ctx, baseSt, nil, tks[i:j]); err != nil {
				panic(err)
			}
		}
		ctk := func(o, r, u, c string, m map[string]interface{}) *openfgav1.TupleKey {
			s, _ := structpb.NewStruct(m)
			return &openfgav1.TupleKey{Object: o, Relation: r, User: u, Condition: &openfgav1.RelationshipCondition{Name: c, Context: s}}
		}
		_ = ds.Write(ctx, baseSt, nil, []*openfgav1.TupleKey{
			ctk("doc:c1", "viewer", "user:m", "c_int", map[string]interface{}{}),
			ctk("doc:c2", "viewer", "user:m", "c_dbl", map[string]interface{}{}),
			ctk("doc:c3", "viewer", "user:m", "c_all", map[string]interface{}{"b": true}),
			ctk("group:gc", "member", "user:*", "c_str", map[string]interface{}{}),
		})
	})
}

// ---- hostile values ----

var nasty = []string{"", ":", "#", "@", "*", " ", "\x00", "\xff\xfe", "user:", ":x", "a:b:c", "a#b#c", "doc:1#viewer", "user:*",
	"‮", "é", "%00", "../..", "\n", "\t", "'", "\"", "{}", "$", "|", "01ARZ3NDEKTSV4RRFFQ69G5FAV"}

// mutate returns a byte-level mutation of s.  The result is made valid UTF-8 (invalid sequences become U+FFFD):
// a proto3 string field with invalid UTF-8 cannot arrive over gRPC / HTTP — the transport rejects the message.
func mutate(r *hx.Rand, s string) string {
	return strings.ToValidUTF8(mutateBytes(r, s), "\uFFFD")
}

func mutateBytes(r *hx.Rand, s string) string {
	b := []byte(s)
	switch r.Intn(9) {
	case 0:
		return hx.Pick(r, nasty)
	case 1:
		return s + hx.Pick(r, nasty)
	case 2:
		return hx.Pick(r, nasty) + s
	case 3:
		if len(b) > 0 {
			b[r.Intn(len(b))] = byte(r.Intn(256))
		}
		return string(b)
	case 4:
		if len(b) > 0 {
			i := r.Intn(len(b))
			return string(b[:i]) + string(b[i+1:])
		}
		return s
	case 5:
		i := r.Intn(len(b) + 1)
		return string(b[:i]) + hx.Pick(r, nasty) + string(b[i:])
	case 6:
		return strings.Repeat(s+"x", 1+r.Intn(2000))
	case 7:
		return strings.Repeat("a", hx.Pick(r, []int{255, 256, 257, 511, 512, 513, 10000}))
	default:
		return s
	}
}

func maybe(r *hx.Rand, s string) string {
	if r.Chance(1, 9) {
		return mutate(r, s)
	}
	return s
}

// deep builds a value nested `depth` levels (alternating structs and lists)
func deep(depth int) *structpb.Value {
	v := structpb.NewStringValue("leaf")
	for i := 0; i < depth; i++ {
		if i%2 == 0 {
			v = structpb.NewStructValue(&structpb.Struct{Fields: map[string]*structpb.Value{"k": v}})
		} else {
			v = structpb.NewListValue(&structpb.ListValue{Values: []*structpb.Value{v}})
		}
	}
	return v
}

var hugeNumbers = []string{"1e-3000000", "1e100000000", "-1e100000000", "1e-100000000", "9" + strings.Repeat("0", 5000), "0." + strings.Repeat("0", 5000) + "1",
	"1e308", "1e309", "-0", "0x10", "1_000", " 1", "1 ", "NaN", "Inf", "-Inf", "1e+", "١٢٣", "9223372036854775808", "18446744073709551616", "-9223372036854775809"}

func hostileValue(r *hx.Rand) *structpb.Value {
	switch r.Intn(14) {
	case 0:
		return structpb.NewStringValue(hx.Pick(r, hugeNumbers))
	case 1:
		return deep(hx.Pick(r, []int{10, 100, 500, 2000}))
	case 2:
		f := map[string]*structpb.Value{}
		for i := 0; i < hx.Pick(r, []int{10, 1000, 20000}); i++ {
			f[fmt.Sprintf("k%d", i)] = structpb.NewNumberValue(float64(i))
		}
		return structpb.NewStructValue(&structpb.Struct{Fields: f})
	case 3:
		return structpb.NewNumberValue(hx.Pick(r, []float64{math.NaN(), math.Inf(1), math.Inf(-1), math.MaxFloat64, -math.MaxFloat64, 1e19, -1e19, 0.5, math.SmallestNonzeroFloat64}))
	case 4:
		return structpb.NewNullValue()
	case 5:
		return &structpb.Value{} // kind unset
	case 6:
		return structpb.NewBoolValue(r.Bool())
	case 7:
		vs := make([]*structpb.Value, hx.Pick(r, []int{0, 1, 5000}))
		for i := range vs {
			vs[i] = structpb.NewStringValue(mutate(r, "v"))
		}
		return structpb.NewListValue(&structpb.ListValue{Values: vs})
	case 8:
		return structpb.NewStringValue(hx.Pick(r, []string{"2020-01-01T00:00:00Z", "0000-00-00T00:00:00Z", "9999-12-31T23:59:60Z", "1h", "-1h", "99999999999h", "1e9h", "10.0.0.1", "::1", "10.0.0.1/8", "999.0.0.1", strings.Repeat("1", 4000)}))
	case 9:
		return structpb.NewStringValue(mutate(r, "value"))
	case 10:
		return structpb.NewNumberValue(float64(r.Intn(40) - 10))
	case 11:
		if r.Chance(1, 3) {
			return nil // a nil *structpb.Value inside the map
		}
		return structpb.NewNumberValue(5)
	default:
		return structpb.NewStringValue(hx.Pick(r, hugeNumbers))
	}
}

var paramNames = []string{"x", "u", "d", "s", "l", "m", "b", "ts", "du", "ip", "zz", ""}

func hostileContext(r *hx.Rand) *structpb.Struct {
	switch r.Intn(8) {
	case 0:
		return nil
	case 1:
		return &structpb.Struct{}
	case 2, 3: // a well-typed context: the request goes all the way through the engines
		s, _ := structpb.NewStruct(map[string]interface{}{"x": float64(r.Intn(20)), "u": float64(r.Intn(5)), "d": 0.5 + float64(r.Intn(3)), "s": "a",
			"l": []interface{}{"a", "b"}, "m": map[string]interface{}{"a": "1"}, "b": r.Bool(), "ts": "2024-01-01T00:00:00Z", "du": "30m", "ip": "10.1.2.3"})
		return s
	}
	f := map[string]*structpb.Value{}
	n := 1 + r.Intn(4)
	for i := 0; i < n; i++ {
		k := hx.Pick(r, paramNames)
		if r.Chance(1, 8) {
			k = mutate(r, k)
		}
		f[k] = hostileValue(r)
	}
	return &structpb.Struct{Fields: f}
}

// ---- running one RPC under observation ----

type obs struct {
	n        int
	codes    map[string]bool
	worst    string
	wms      int64
	slow     []string
	skipped  int
	internal []string
	big      []string
	amax     uint64
}

// after a request overran the watchdog its goroutine may still burn CPU: the rest of the run only records that
var abandoned = 0

// thoroughCase: the case was generated for the thorough tier (it may contain the expensive shapes)
var thoroughCase = false

func (o *obs) do(name string, f func(ctx context.Context) error) {
	if abandoned >= 2 {
		o.skipped++
		return
	}
	var m0, m1 runtime.MemStats
	runtime.ReadMemStats(&m0)
	ctx, cancel := context.WithTimeout(context.Background(), 40*time.Second)
	start := time.Now()
	type result struct {
		err error
		pan interface{}
	}
	done := make(chan result, 1)
	go func() {
		defer func() {
			if p := recover(); p != nil {
				done <- result{pan: fmt.Sprintf("%v @ %s", p, topFrames())}
			}
		}()
		done <- result{err: f(ctx)}
	}()
	var err error
	select {
	case r := <-done:
		if r.pan != nil {
			cancel()
			panic(r.pan)
		}
		err = r.err
	case <-time.After(slowBound + 10*time.Second):
		// a stalled process makes both channels ready at once and select picks at random: prefer the result
		select {
		case r := <-done:
			if r.pan != nil {
				cancel()
				panic(r.pan)
			}
			err = r.err
			goto finished
		default:
		}
		// uncancellable work: do not wait for it (finding F14 burnt minutes), and do not pile more on top
		cancel()
		o.n++
		o.codes[name+":none"] = true
		o.slow = append(o.slow, name+"(no-return-after-30s)")
		o.worst, o.wms = name, 30000
		// let the runaway request finish before the next one starts; give up on the run if it does not
		select {
		case <-done:
		case <-time.After(90 * time.Second):
			abandoned++
		}
		return
	}
finished:
	el := time.Since(start)
	cancel()
	runtime.ReadMemStats(&m1)
	o.n++
	code := "0"
	if err != nil {
		if st, ok := status.FromError(err); ok {
			code = fmt.Sprint(int(st.Code()))
			if strings.Contains(strings.ToLower(st.Message()), "panic") {
				code += "!panic"
			}
		} else {
			code = "x"
		}
	}
	o.codes[name+":"+code] = true
	if err != nil && os.Getenv("C19_DEBUG") == name {
		m := err.Error()
		var ie servererrors.InternalError
		if errors.As(err, &ie) {
			m += " || internal cause: " + fmt.Sprint(ie.Unwrap())
		}
		if len(m) > 600 {
			m = m[:600]
		}
		fmt.Fprintln(os.Stderr, "DEBUG", name, m)
	}
	if err != nil && (code == "13" || code == "4000" || code == "2" || code == "x") && len(o.internal) < 3 {
		msg := err.Error()
		if len(msg) > 140 {
			msg = msg[:140]
		}
		o.internal = append(o.internal, name+":"+strings.Map(func(c rune) rune {
			if c == ' ' || c == '\t' || c == '\n' {
				return '_'
			}
			return c
		}, msg))
	}
	if el.Milliseconds() >= o.wms {
		o.wms = el.Milliseconds()
		o.worst = name
	}
	if el > slowBound {
		o.slow = append(o.slow, name)
	}
	mb := (m1.TotalAlloc - m0.TotalAlloc) >> 20
	if mb > o.amax {
		o.amax = mb
	}
	if mb > allocBound {
		o.big = append(o.big, name)
	}
}

func bucket(ms int64) string {
	switch {
	case ms < 100:
		return "<0.1s"
	case ms < 1000:
		return "<1s"
	case ms < 20000:
		return "<20s"
	default:
		return ">=20s"
	}
}

func (o *obs) String() string {
	if o.n == 0 && o.skipped > 0 {
		return "skipped-after-abandoned-request"
	}
	var cs []string
	for c := range o.codes {
		cs = append(cs, c)
	}
	sort.Strings(cs)
	s := fmt.Sprintf("n=%d codes=%s worst=%s:%s alloc=%s", o.n, strings.Join(cs, ","), o.worst, bucket(o.wms), map[bool]string{true: "<1.5GB", false: ">=1.5GB"}[o.amax <= allocBound])
	if len(o.slow) > 0 {
		s += " slow=" + strings.Join(o.slow, ",")
	}
	if len(o.big) > 0 {
		s += " big=" + strings.Join(o.big, ",")
	}
	if len(o.internal) > 0 {
		s += " internal=" + strings.Join(o.internal, ";")
	}
	return s
}

type collector struct {
	ctx context.Context
	grpc.ServerStream
}

func (c *collector) Context() context.Context                          { return c.ctx }
func (c *collector) SetHeader(metadata.MD) error                       { return nil }
func (c *collector) SendHeader(metadata.MD) error                      { return nil }
func (c *collector) SetTrailer(metadata.MD)                            {}
func (c *collector) SendMsg(any) error                                 { return nil }
func (c *collector) RecvMsg(any) error                                 { return nil }
func (c *collector) Send(*openfgav1.StreamedListObjectsResponse) error { return nil }

// ---- case kinds ----

var objs = []string{"doc:1", "doc:c1", "doc:c2", "doc:c3", "doc:d3", "group:g0", "group:gc", "folder:f1", "doc:nope"}
var rels = []string{"viewer", "can", "both", "member", "parent", "blocked", "nope"}
var users = []string{"user:m", "user:*", "group:g3#member", "user:nobody", "folder:f1"}

func tupleKey(r *hx.Rand) *openfgav1.TupleKey {
	tk := &openfgav1.TupleKey{Object: maybe(r, hx.Pick(r, objs)), Relation: maybe(r, hx.Pick(r, rels)), User: maybe(r, hx.Pick(r, users))}
	if r.Chance(1, 2) {
		tk.Condition = &openfgav1.RelationshipCondition{Name: maybe(r, hx.Pick(r, []string{"c_int", "c_dbl", "c_str", "c_all", "nope"})), Context: hostileContext(r)}
	}
	return tk
}

func contextual(r *hx.Rand) *openfgav1.ContextualTupleKeys {
	if r.Chance(3, 4) {
		return nil
	}
	n := hx.Pick(r, []int{0, 1, 3, 20, 101})
	ct := &openfgav1.ContextualTupleKeys{}
	for i := 0; i < n; i++ {
		if r.Chance(1, 20) {
			ct.TupleKeys = append(ct.TupleKeys, nil)
		} else {
			ct.TupleKeys = append(ct.TupleKeys, tupleKey(r))
		}
	}
	return ct
}

func consistency(r *hx.Rand) openfgav1.ConsistencyPreference {
	return openfgav1.ConsistencyPreference(hx.Pick(r, []int32{0, 0, 0, 1, 1, 2, 2, 0, 1, 2, 3, 99, -1}))
}

func storeID(r *hx.Rand) string {
	if r.Chance(1, 8) {
		return mutate(r, baseSt)
	}
	return baseSt
}

func modelID(r *hx.Rand) string {
	switch r.Intn(8) {
	case 0:
		return mutate(r, "01HVMMBCMGZNT3SED4Z17ECXCA")
	case 1:
		return "01HVMMBCMGZNT3SED4Z17ECXCA" // well-formed, unknown
	}
	return ""
}

func kindCheck(r *hx.Rand, o *obs) {
	for i := 0; i < 3; i++ {
		req := &openfgav1.CheckRequest{StoreId: storeID(r), AuthorizationModelId: modelID(r),
			TupleKey:         &openfgav1.CheckRequestTupleKey{Object: maybe(r, hx.Pick(r, objs)), Relation: maybe(r, hx.Pick(r, rels)), User: maybe(r, hx.Pick(r, users))},
			ContextualTuples: contextual(r), Context: hostileContext(r), Consistency: consistency(r)}
		if r.Chance(1, 25) {
			req.TupleKey = nil
		}
		o.do("Check", func(ctx context.Context) error { _, err := srv.Check(ctx, req); return err })
		o.do("Expand", func(ctx context.Context) error {
			_, err := srv.Expand(ctx, &openfgav1.ExpandRequest{StoreId: req.GetStoreId(), AuthorizationModelId: req.GetAuthorizationModelId(),
				TupleKey: &openfgav1.ExpandRequestTupleKey{Object: req.GetTupleKey().GetObject(), Relation: req.GetTupleKey().GetRelation()}, ContextualTuples: req.GetContextualTuples(), Consistency: consistency(r)})
			return err
		})
	}
}

func kindBatch(r *hx.Rand, o *obs) {
	n := hx.Pick(r, []int{0, 1, 5, 50, 51, 300})
	req := &openfgav1.BatchCheckRequest{StoreId: storeID(r), AuthorizationModelId: modelID(r), Consistency: consistency(r)}
	for i := 0; i < n; i++ {
		it := &openfgav1.BatchCheckItem{TupleKey: &openfgav1.CheckRequestTupleKey{Object: maybe(r, hx.Pick(r, objs)), Relation: maybe(r, hx.Pick(r, rels)), User: maybe(r, hx.Pick(r, users))},
			ContextualTuples: contextual(r), Context: hostileContext(r), CorrelationId: maybe(r, fmt.Sprintf("c%d", i%7))}
		if r.Chance(1, 30) {
			it = nil
		}
		req.Checks = append(req.Checks, it)
	}
	o.do("BatchCheck", func(ctx context.Context) error { _, err := srv.BatchCheck(ctx, req); return err })
}

func kindList(r *hx.Rand, o *obs) {
	typ := maybe(r, hx.Pick(r, []string{"doc", "group", "folder", "user", "nope"}))
	rel := maybe(r, hx.Pick(r, rels))
	user := maybe(r, hx.Pick(r, users))
	hc := hostileContext(r)
	ct := contextual(r)
	o.do("ListObjects", func(ctx context.Context) error {
		req := &openfgav1.ListObjectsRequest{StoreId: storeID(r), AuthorizationModelId: modelID(r), Type: typ, Relation: rel, User: user, Context: hc, ContextualTuples: ct, Consistency: consistency(r)}
		if os.Getenv("C19_REQ") != "" {
			txt := prototext.Format(req)
			if len(txt) > 3000000 {
				txt = txt[:3000000]
			}
			fmt.Fprintln(os.Stderr, "REQ ListObjects", txt)
		}
		_, err := srv.ListObjects(ctx, req)
		return err
	})
	o.do("StreamedListObjects", func(ctx context.Context) error {
		return srv.StreamedListObjects(&openfgav1.StreamedListObjectsRequest{StoreId: storeID(r), Type: typ, Relation: rel, User: user, Context: hc, ContextualTuples: ct, Consistency: consistency(r)}, &collector{ctx: ctx})
	})
	var filters []*openfgav1.UserTypeFilter
	for i := 0; i < r.Intn(3); i++ {
		filters = append(filters, &openfgav1.UserTypeFilter{Type: maybe(r, hx.Pick(r, []string{"user", "group", "nope"})), Relation: maybe(r, hx.Pick(r, []string{"", "member", "nope"}))})
	}
	var ctk []*openfgav1.TupleKey
	if ct != nil {
		ctk = ct.GetTupleKeys()
	}
	o.do("ListUsers", func(ctx context.Context) error {
		ob := &openfgav1.Object{Type: typ, Id: maybe(r, "1")}
		if r.Chance(1, 20) {
			ob = nil
		}
		_, err := srv.ListUsers(ctx, &openfgav1.ListUsersRequest{StoreId: storeID(r), AuthorizationModelId: modelID(r), Object: ob, Relation: rel, UserFilters: filters, Context: hc, ContextualTuples: ctk, Consistency: consistency(r)})
		return err
	})
}

func kindWrite(r *hx.Rand, o *obs) {
	ctx0 := context.Background()
	cs, err := srv.CreateStore(ctx0, &openfgav1.CreateStoreRequest{Name: "c19-write"})
	if err != nil {
		return
	}
	st := cs.GetId()
	_, _ = srv.WriteAuthorizationModel(ctx0, &openfgav1.WriteAuthorizationModelRequest{StoreId: st, TypeDefinitions: baseMod.GetTypeDefinitions(), SchemaVersion: "1.1", Conditions: baseMod.GetConditions()})
	for round := 0; round < 3; round++ {
		req := &openfgav1.WriteRequest{StoreId: st, AuthorizationModelId: modelID(r)}
		nw := hx.Pick(r, []int{0, 1, 3, 40, 101})
		if nw > 0 || r.Chance(1, 2) {
			req.Writes = &openfgav1.WriteRequestWrites{OnDuplicate: hx.Pick(r, []string{"", "error", "ignore", "nope"})}
			for i := 0; i < nw; i++ {
				req.Writes.TupleKeys = append(req.Writes.TupleKeys, tupleKey(r))
			}
		}
		if r.Chance(1, 2) {
			req.Deletes = &openfgav1.WriteRequestDeletes{OnMissing: hx.Pick(r, []string{"", "error", "ignore", "nope"})}
			for i := 0; i < r.Intn(4); i++ {
				tk := tupleKey(r)
				req.Deletes.TupleKeys = append(req.Deletes.TupleKeys, &openfgav1.TupleKeyWithoutCondition{Object: tk.GetObject(), Relation: tk.GetRelation(), User: tk.GetUser()})
			}
		}
		o.do("Write", func(ctx context.Context) error { _, err := srv.Write(ctx, req); return err })
	}
	// whatever was stored is now read back through every query
	o.do("Read", func(ctx context.Context) error {
		_, err := srv.Read(ctx, &openfgav1.ReadRequest{StoreId: st, PageSize: nil, ContinuationToken: maybe(r, "")})
		return err
	})
	o.do("Check", func(ctx context.Context) error {
		_, err := srv.Check(ctx, &openfgav1.CheckRequest{StoreId: st, TupleKey: &openfgav1.CheckRequestTupleKey{Object: hx.Pick(r, objs), Relation: "viewer", User: "user:m"}, Context: hostileContext(r)})
		return err
	})
	o.do("ListObjects", func(ctx context.Context) error {
		_, err := srv.ListObjects(ctx, &openfgav1.ListObjectsRequest{StoreId: st, Type: "doc", Relation: "viewer", User: "user:m", Context: hostileContext(r)})
		return err
	})
	o.do("ReadChanges", func(ctx context.Context) error {
		_, err := srv.ReadChanges(ctx, &openfgav1.ReadChangesRequest{StoreId: st, Type: maybe(r, ""), ContinuationToken: maybe(r, "")})
		return err
	})
	o.do("DeleteStore", func(ctx context.Context) error {
		_, err := srv.DeleteStore(ctx, &openfgav1.DeleteStoreRequest{StoreId: st})
		return err
	})
}

// kindNumeric: finding F14 and its siblings — a numeric condition parameter given as a string with an extreme
// exponent (or as a huge literal), through every path that reaches the parameter converters: request context,
// contextual tuple context, stored tuple context (Write, then the queries), AuthZEN properties.
func kindNumeric(r *hx.Rand, o *obs) {
	type target struct{ obj, cond, param string }
	tg := hx.Pick(r, []target{{"doc:c1", "c_int", "x"}, {"doc:c1", "c_int", "u"}, {"doc:c2", "c_dbl", "d"}})
	val := structpb.NewStringValue(hx.Pick(r, hugeNumbers))
	if r.Chance(1, 6) {
		val = structpb.NewNumberValue(hx.Pick(r, []float64{1e308, -1e308, 1e19, 5e-324, math.Inf(1), math.NaN()}))
	}
	other := map[string]*structpb.Value{"x": structpb.NewNumberValue(1), "u": structpb.NewNumberValue(2), "d": structpb.NewNumberValue(0.5)}
	other[tg.param] = val
	hctx := &structpb.Struct{Fields: other}
	tk := &openfgav1.CheckRequestTupleKey{Object: tg.obj, Relation: "viewer", User: "user:m"}
	switch r.Intn(6) {
	case 0: // request context
		o.do("Check", func(ctx context.Context) error {
			_, err := srv.Check(ctx, &openfgav1.CheckRequest{StoreId: baseSt, TupleKey: tk, Context: hctx})
			return err
		})
		o.do("ListObjects", func(ctx context.Context) error {
			_, err := srv.ListObjects(ctx, &openfgav1.ListObjectsRequest{StoreId: baseSt, Type: "doc", Relation: "viewer", User: "user:m", Context: hctx})
			return err
		})
	case 1: // contextual tuple whose condition context carries the value
		ct := &openfgav1.ContextualTupleKeys{TupleKeys: []*openfgav1.TupleKey{{Object: "doc:cx", Relation: "viewer", User: "user:m",
			Condition: &openfgav1.RelationshipCondition{Name: tg.cond, Context: hctx}}}}
		o.do("Check", func(ctx context.Context) error {
			_, err := srv.Check(ctx, &openfgav1.CheckRequest{StoreId: baseSt, TupleKey: &openfgav1.CheckRequestTupleKey{Object: "doc:cx", Relation: "viewer", User: "user:m"}, ContextualTuples: ct})
			return err
		})
		o.do("ListUsers", func(ctx context.Context) error {
			_, err := srv.ListUsers(ctx, &openfgav1.ListUsersRequest{StoreId: baseSt, Object: &openfgav1.Object{Type: "doc", Id: "cx"}, Relation: "viewer",
				UserFilters: []*openfgav1.UserTypeFilter{{Type: "user"}}, ContextualTuples: ct.GetTupleKeys()})
			return err
		})
	case 2: // stored tuple context
		ctx0 := context.Background()
		cs, err := srv.CreateStore(ctx0, &openfgav1.CreateStoreRequest{Name: "c19-numeric"})
		if err != nil {
			return
		}
		st := cs.GetId()
		defer func() { _, _ = srv.DeleteStore(ctx0, &openfgav1.DeleteStoreRequest{StoreId: st}) }()
		_, _ = srv.WriteAuthorizationModel(ctx0, &openfgav1.WriteAuthorizationModelRequest{StoreId: st, TypeDefinitions: baseMod.GetTypeDefinitions(), SchemaVersion: "1.1", Conditions: baseMod.GetConditions()})
		o.do("Write", func(ctx context.Context) error {
			_, err := srv.Write(ctx, &openfgav1.WriteRequest{StoreId: st, Writes: &openfgav1.WriteRequestWrites{TupleKeys: []*openfgav1.TupleKey{{Object: "doc:s1", Relation: "viewer", User: "user:m",
				Condition: &openfgav1.RelationshipCondition{Name: tg.cond, Context: &structpb.Struct{Fields: map[string]*structpb.Value{tg.param: val}}}}}}})
			return err
		})
		o.do("Check", func(ctx context.Context) error {
			_, err := srv.Check(ctx, &openfgav1.CheckRequest{StoreId: st, TupleKey: &openfgav1.CheckRequestTupleKey{Object: "doc:s1", Relation: "viewer", User: "user:m"}, Context: &structpb.Struct{Fields: map[string]*structpb.Value{"x": structpb.NewNumberValue(1), "u": structpb.NewNumberValue(2), "d": structpb.NewNumberValue(0.5)}}})
			return err
		})
	case 3: // batch
		o.do("BatchCheck", func(ctx context.Context) error {
			_, err := srv.BatchCheck(ctx, &openfgav1.BatchCheckRequest{StoreId: baseSt, Checks: []*openfgav1.BatchCheckItem{
				{TupleKey: tk, Context: hctx, CorrelationId: "a"}, {TupleKey: tk, Context: hctx, CorrelationId: "b"}}})
			return err
		})
	case 4: // streamed
		o.do("StreamedListObjects", func(ctx context.Context) error {
			return srv.StreamedListObjects(&openfgav1.StreamedListObjectsRequest{StoreId: baseSt, Type: "doc", Relation: "viewer", User: "user:m", Context: hctx}, &collector{ctx: ctx})
		})
	default: // AuthZEN: the value travels as a request context entry
		o.do("Evaluation", func(ctx context.Context) error {
			_, err := srv.Evaluation(ctx, &authzenv1.EvaluationRequest{StoreId: baseSt, Subject: &authzenv1.Subject{Type: "user", Id: "m"},
				Resource: &authzenv1.Resource{Type: "doc", Id: strings.TrimPrefix(tg.obj, "doc:")}, Action: &authzenv1.Action{Name: "viewer"}, Context: hctx})
			return err
		})
	}
}

// kindF26 / kindF27: the inputs of the two fixed findings, kept in every run (a revert of either fix shows up as a
// violation with this case as the replay).
func kindF26(variant uint64, o *obs) {
	ctx0 := context.Background()
	cs, err := srv.CreateStore(ctx0, &openfgav1.CreateStoreRequest{Name: "c19-f26"})
	if err != nil {
		return
	}
	st := cs.GetId()
	defer func() { _, _ = srv.DeleteStore(ctx0, &openfgav1.DeleteStoreRequest{StoreId: st}) }()
	rr := &openfgav1.RelationReference{Type: "user", RelationOrWildcard: &openfgav1.RelationReference_Relation{Relation: ""}}
	if variant%2 == 1 {
		rr = &openfgav1.RelationReference{Type: "user", RelationOrWildcard: &openfgav1.RelationReference_Wildcard{}}
	}
	tds := []*openfgav1.TypeDefinition{{Type: "user"}, {Type: "doc", Relations: map[string]*openfgav1.Userset{"viewer": this()},
		Metadata: &openfgav1.Metadata{Relations: map[string]*openfgav1.RelationMetadata{"viewer": {DirectlyRelatedUserTypes: []*openfgav1.RelationReference{rr}}}}}}
	o.do("WriteAuthorizationModel", func(ctx context.Context) error {
		_, err := srv.WriteAuthorizationModel(ctx, &openfgav1.WriteAuthorizationModelRequest{StoreId: st, TypeDefinitions: tds, SchemaVersion: "1.1"})
		return err
	})
}

func kindF27(variant uint64, o *obs) {
	tok := []string{"AAAA", "MDFIVk1NQkNNR1pOVDNTRUQ0WjE3RUNYQ0E=", "eyJwayI6IkxBVEVTVF9OU0NPTkZJR19hdXRoMHN0b3JlIiwic2siOiIxem1qbXF3MWZLZExTcUoyN01MdTdqTjh0cWgifQ=="}[variant%3]
	o.do("ListStores", func(ctx context.Context) error {
		_, err := srv.ListStores(ctx, &openfgav1.ListStoresRequest{ContinuationToken: tok})
		return err
	})
	o.do("ReadAuthorizationModels", func(ctx context.Context) error {
		_, err := srv.ReadAuthorizationModels(ctx, &openfgav1.ReadAuthorizationModelsRequest{StoreId: baseSt, ContinuationToken: tok})
		return err
	})
}

func this() *openfgav1.Userset {
	return &openfgav1.Userset{Userset: &openfgav1.Userset_This{This: &openfgav1.DirectUserset{}}}
}

func hostileRewrite(r *hx.Rand, depth int) *openfgav1.Userset {
	if depth <= 0 {
		switch r.Intn(9) {
		case 0:
			if r.Chance(1, 2) {
				return &openfgav1.Userset{} // oneof unset
			}
			return this()
		case 1:
			if r.Chance(1, 2) {
				return nil
			}
			return this()
		case 2:
			return &openfgav1.Userset{Userset: &openfgav1.Userset_ComputedUserset{ComputedUserset: &openfgav1.ObjectRelation{Relation: maybe(r, "viewer"), Object: maybe(r, "")}}}
		case 3:
			return &openfgav1.Userset{Userset: &openfgav1.Userset_TupleToUserset{TupleToUserset: &openfgav1.TupleToUserset{Tupleset: &openfgav1.ObjectRelation{Relation: maybe(r, "parent")}, ComputedUserset: &openfgav1.ObjectRelation{Relation: maybe(r, "viewer")}}}}
		case 4:
			return &openfgav1.Userset{Userset: &openfgav1.Userset_TupleToUserset{}} // nil payload
		case 5:
			return &openfgav1.Userset{Userset: &openfgav1.Userset_ComputedUserset{}}
		default:
			return this()
		}
	}
	switch r.Intn(5) {
	case 0:
		n := hx.Pick(r, []int{0, 1, 2, 3})
		u := &openfgav1.Usersets{}
		for i := 0; i < n; i++ {
			u.Child = append(u.Child, hostileRewrite(r, depth-1))
		}
		return &openfgav1.Userset{Userset: &openfgav1.Userset_Union{Union: u}}
	case 1:
		u := &openfgav1.Usersets{Child: []*openfgav1.Userset{hostileRewrite(r, depth-1), hostileRewrite(r, 0)}}
		return &openfgav1.Userset{Userset: &openfgav1.Userset_Intersection{Intersection: u}}
	case 2:
		return &openfgav1.Userset{Userset: &openfgav1.Userset_Difference{Difference: &openfgav1.Difference{Base: hostileRewrite(r, depth-1), Subtract: hostileRewrite(r, 0)}}}
	case 3:
		return &openfgav1.Userset{Userset: &openfgav1.Userset_Union{}} // nil payload
	default:
		// a straight chain: depth without width
		return &openfgav1.Userset{Userset: &openfgav1.Userset_Union{Union: &openfgav1.Usersets{Child: []*openfgav1.Userset{hostileRewrite(r, depth-1), this()}}}}
	}
}

func deepValid(r *hx.Rand, depth int) *openfgav1.Userset {
	u := this()
	for i := 0; i < depth; i++ {
		switch r.Intn(3) {
		case 0:
			u = &openfgav1.Userset{Userset: &openfgav1.Userset_Union{Union: &openfgav1.Usersets{Child: []*openfgav1.Userset{this(), u}}}}
		case 1:
			u = &openfgav1.Userset{Userset: &openfgav1.Userset_Intersection{Intersection: &openfgav1.Usersets{Child: []*openfgav1.Userset{u, this()}}}}
		default:
			u = &openfgav1.Userset{Userset: &openfgav1.Userset_Difference{Difference: &openfgav1.Difference{Base: u, Subtract: this()}}}
		}
	}
	return u
}

func hostileRefs(r *hx.Rand) []*openfgav1.RelationReference {
	var out []*openfgav1.RelationReference
	for i := 0; i < 1+r.Intn(3); i++ {
		rr := &openfgav1.RelationReference{Type: maybe(r, hx.Pick(r, []string{"user", "group", "doc", "nope"})), Condition: hx.Pick(r, []string{"", "", "c1", "nope"})}
		switch r.Intn(5) {
		case 0:
			rr.RelationOrWildcard = &openfgav1.RelationReference_Relation{Relation: maybe(r, "member")}
		case 1:
			rr.RelationOrWildcard = &openfgav1.RelationReference_Wildcard{Wildcard: &openfgav1.Wildcard{}}
		case 2:
			rr.RelationOrWildcard = &openfgav1.RelationReference_Wildcard{} // nil payload
		}
		if r.Chance(1, 25) {
			rr = nil
		}
		out = append(out, rr)
	}
	return out
}

var hostileCEL = []string{"x < 10", "", "(", strings.Repeat("(", 300) + "x" + strings.Repeat(")", 300), strings.Repeat("!", 2000) + "true",
	"x < " + strings.Repeat("9", 400), "x in [" + strings.Repeat("1,", 5000) + "1]", "1/0 == 1", "\"a\".matches(\"(a*)*b\")", "x.y.z.w", "size(\"" + strings.Repeat("a", 20000) + "\") > 0",
	strings.Repeat("x < 10 && ", 800) + "true", "[1,2,3].all(i, [1,2,3].all(j, [1,2,3].all(k, i+j+k > 0)))", "true ? x : \"s\"", "\x00", "x < 10 // comment"}

func kindModel(r *hx.Rand, o *obs) {
	ctx0 := context.Background()
	cs, err := srv.CreateStore(ctx0, &openfgav1.CreateStoreRequest{Name: "c19-model"})
	if err != nil {
		return
	}
	st := cs.GetId()
	defer func() {
		_, _ = srv.DeleteStore(ctx0, &openfgav1.DeleteStoreRequest{StoreId: st})
	}()
	depth := hx.Pick(r, []int{0, 1, 2, 3, 6, 25, 200, 1000})
	var tds []*openfgav1.TypeDefinition
	if r.Chance(2, 3) {
		// the valid base model with one or two hostile spots
		m := proto.Clone(baseMod).(*openfgav1.AuthorizationModel)
		tds = m.GetTypeDefinitions()
		for k := 0; k < 1+r.Intn(2); k++ {
			td := tds[1+r.Intn(len(tds)-1)]
			var names []string
			for n := range td.GetRelations() {
				names = append(names, n)
			}
			sort.Strings(names)
			rn := hx.Pick(r, names)
			switch r.Intn(7) {
			case 0:
				td.Relations[rn] = hostileRewrite(r, depth)
			case 1, 6:
				// valid and deep: union(this, union(this, … )) / alternating operators
				td.Relations[rn] = deepValid(r, hx.Pick(r, []int{5, 24, 25, 26, 100, 1000, 3000})) // 3 message levels per rewrite level: protobuf's recursion limit (10000) caps the wire at ~3300
				if td.GetMetadata().GetRelations()[rn].GetDirectlyRelatedUserTypes() == nil {
					td.Metadata.Relations[rn] = &openfgav1.RelationMetadata{DirectlyRelatedUserTypes: []*openfgav1.RelationReference{{Type: "user"}}}
				}
			case 2:
				td.Metadata.Relations[rn] = &openfgav1.RelationMetadata{DirectlyRelatedUserTypes: hostileRefs(r)}
			case 3:
				td.Type = mutate(r, td.GetType())
			case 4:
				td.Relations[mutate(r, rn)] = this()
			case 5:
				// a chain of computed usersets r0 -> r1 -> … (long, acyclic) or a cycle
				// model validation is super-linear in the chain length (candidate finding): the quick tier stays below
				// the watchdog, the thorough tier includes the chains that reproduce it
				n := hx.Pick(r, []int{2, 30, 120})
				if thoroughCase {
					n = hx.Pick(r, []int{2, 30, 120, 300}) // 1000 takes 20 s .. 3 min per request: documented in the finding, not replayed on every run
				}
				for i := 0; i < n; i++ {
					next := fmt.Sprintf("q%d", i+1)
					if i == n-1 {
						next = hx.Pick(r, []string{rn, "q0"})
					}
					td.Relations[fmt.Sprintf("q%d", i)] = &openfgav1.Userset{Userset: &openfgav1.Userset_ComputedUserset{ComputedUserset: &openfgav1.ObjectRelation{Relation: next}}}
				}
			}
		}
	} else {
		tds = []*openfgav1.TypeDefinition{{Type: "user"}}
		nTypes := hx.Pick(r, []int{1, 2, 3, 3, 400})
		for t := 0; t < nTypes; t++ {
			name := hx.Pick(r, []string{"group", "doc", "folder"})
			if nTypes > 3 {
				name = fmt.Sprintf("t%d", t)
			}
			td := &openfgav1.TypeDefinition{Type: maybe(r, name), Relations: map[string]*openfgav1.Userset{}, Metadata: &openfgav1.Metadata{Relations: map[string]*openfgav1.RelationMetadata{}}}
			nRel := hx.Pick(r, []int{1, 2, 4})
			if nTypes == 1 && r.Chance(1, 6) {
				nRel = 300
			}
			for k := 0; k < nRel; k++ {
				rn := hx.Pick(r, []string{"viewer", "member", "parent", "blocked"})
				if nRel > 4 {
					rn = fmt.Sprintf("r%d", k)
				}
				rn = maybe(r, rn)
				d := depth
				if k > 0 && d > 6 {
					d = 2
				}
				td.Relations[rn] = hostileRewrite(r, d)
				if r.Chance(4, 5) {
					td.Metadata.Relations[rn] = &openfgav1.RelationMetadata{DirectlyRelatedUserTypes: hostileRefs(r)}
				}
			}
			if r.Chance(1, 10) {
				td.Metadata = nil
			}
			tds = append(tds, td)
		}
	}
	conds := map[string]*openfgav1.Condition{}
	for k, c := range baseMod.GetConditions() {
		conds[k] = proto.Clone(c).(*openfgav1.Condition)
	}
	if r.Chance(1, 4) {
		conds["c1"] = &openfgav1.Condition{Name: maybe(r, "c1"), Expression: hx.Pick(r, hostileCEL),
			Parameters: map[string]*openfgav1.ConditionParamTypeRef{"x": {TypeName: openfgav1.ConditionParamTypeRef_TypeName(hx.Pick(r, []int32{4, 3, 9, 10, 0, 1, 77}))}}}
		if r.Chance(1, 4) {
			conds["c1"].Parameters["x"].GenericTypes = []*openfgav1.ConditionParamTypeRef{{TypeName: openfgav1.ConditionParamTypeRef_TypeName(hx.Pick(r, []int32{3, 10, 9, 0}))}, nil}
		}
	}
	req := &openfgav1.WriteAuthorizationModelRequest{StoreId: st, TypeDefinitions: tds, SchemaVersion: hx.Pick(r, []string{"1.1", "1.1", "1.1", "1.1", "1.1", "1.1", "1.1", "1.1", "1.0", "1.2", "", "2"}), Conditions: conds}
	if f := os.Getenv("C19_DUMP"); f != "" {
		b, _ := proto.Marshal(req)
		_ = os.WriteFile(f, b, 0o644)
	}
	var mid string
	o.do("WriteAuthorizationModel", func(ctx context.Context) error {
		resp, err := srv.WriteAuthorizationModel(ctx, req)
		mid = resp.GetAuthorizationModelId()
		return err
	})
	o.do("ReadAuthorizationModels", func(ctx context.Context) error {
		_, err := srv.ReadAuthorizationModels(ctx, &openfgav1.ReadAuthorizationModelsRequest{StoreId: st, ContinuationToken: maybe(r, "")})
		return err
	})
	if mid == "" {
		return
	}
	// the model was accepted: every query must now cope with it
	typ := tds[len(tds)-1].GetType()
	var rel string
	for k := range tds[len(tds)-1].GetRelations() {
		rel = k
	}
	o.do("Write", func(ctx context.Context) error {
		_, err := srv.Write(ctx, &openfgav1.WriteRequest{StoreId: st, Writes: &openfgav1.WriteRequestWrites{TupleKeys: []*openfgav1.TupleKey{{Object: typ + ":1", Relation: rel, User: "user:m"}, {Object: typ + ":1", Relation: rel, User: typ + ":1#" + rel}}}})
		return err
	})
	o.do("Check", func(ctx context.Context) error {
		_, err := srv.Check(ctx, &openfgav1.CheckRequest{StoreId: st, TupleKey: &openfgav1.CheckRequestTupleKey{Object: typ + ":1", Relation: rel, User: "user:m"}, Context: hostileContext(r)})
		return err
	})
	o.do("ListObjects", func(ctx context.Context) error {
		_, err := srv.ListObjects(ctx, &openfgav1.ListObjectsRequest{StoreId: st, Type: typ, Relation: rel, User: "user:m"})
		return err
	})
	o.do("ListUsers", func(ctx context.Context) error {
		_, err := srv.ListUsers(ctx, &openfgav1.ListUsersRequest{StoreId: st, Object: &openfgav1.Object{Type: typ, Id: "1"}, Relation: rel, UserFilters: []*openfgav1.UserTypeFilter{{Type: "user"}}})
		return err
	})
	o.do("Expand", func(ctx context.Context) error {
		_, err := srv.Expand(ctx, &openfgav1.ExpandRequest{StoreId: st, TupleKey: &openfgav1.ExpandRequestTupleKey{Object: typ + ":1", Relation: rel}})
		return err
	})
	o.do("WriteAssertions", func(ctx context.Context) error {
		_, err := srv.WriteAssertions(ctx, &openfgav1.WriteAssertionsRequest{StoreId: st, AuthorizationModelId: mid, Assertions: []*openfgav1.Assertion{{TupleKey: &openfgav1.AssertionTupleKey{Object: maybe(r, typ+":1"), Relation: maybe(r, rel), User: maybe(r, "user:m")}, Expectation: true, Context: hostileContext(r)}, nil}})
		return err
	})
}

func kindMisc(r *hx.Rand, o *obs) {
	tok := maybe(r, hx.Pick(r, []string{"", "eyJwayI6IkxBVEVTVF9OU0NPTkZJR19hdXRoMHN0b3JlIiwic2siOiIxem1qbXF3MWZLZExTcUoyN01MdTdqTjh0cWgifQ==", "AAAA", strings.Repeat("A", 9000)}))
	ps := func() *wrapperspb.Int32Value {
		if r.Chance(1, 2) {
			return nil
		}
		return wrapperspb.Int32(hx.Pick(r, []int32{0, 1, 100, 101, -1, math.MaxInt32, math.MinInt32}))
	}
	o.do("Read", func(ctx context.Context) error {
		var tk *openfgav1.ReadRequestTupleKey
		if r.Chance(2, 3) {
			tk = &openfgav1.ReadRequestTupleKey{Object: maybe(r, hx.Pick(r, append(objs, "doc:", ""))), Relation: maybe(r, hx.Pick(r, append(rels, ""))), User: maybe(r, hx.Pick(r, append(users, "")))}
		}
		_, err := srv.Read(ctx, &openfgav1.ReadRequest{StoreId: storeID(r), TupleKey: tk, ContinuationToken: tok, PageSize: ps(), Consistency: consistency(r)})
		return err
	})
	o.do("ReadChanges", func(ctx context.Context) error {
		_, err := srv.ReadChanges(ctx, &openfgav1.ReadChangesRequest{StoreId: storeID(r), Type: maybe(r, hx.Pick(r, []string{"", "doc", "nope"})), ContinuationToken: tok, PageSize: ps()})
		return err
	})
	o.do("ListStores", func(ctx context.Context) error {
		_, err := srv.ListStores(ctx, &openfgav1.ListStoresRequest{ContinuationToken: tok, PageSize: ps(), Name: maybe(r, "")})
		return err
	})
	o.do("GetStore", func(ctx context.Context) error {
		_, err := srv.GetStore(ctx, &openfgav1.GetStoreRequest{StoreId: mutate(r, baseSt)})
		return err
	})
	o.do("CreateStore", func(ctx context.Context) error {
		resp, err := srv.CreateStore(ctx, &openfgav1.CreateStoreRequest{Name: mutate(r, "store-name")})
		if err == nil {
			_, _ = srv.DeleteStore(ctx, &openfgav1.DeleteStoreRequest{StoreId: resp.GetId()})
		}
		return err
	})
	o.do("ReadAuthorizationModel", func(ctx context.Context) error {
		_, err := srv.ReadAuthorizationModel(ctx, &openfgav1.ReadAuthorizationModelRequest{StoreId: storeID(r), Id: mutate(r, "01HVMMBCMGZNT3SED4Z17ECXCA")})
		return err
	})
	o.do("ReadAssertions", func(ctx context.Context) error {
		_, err := srv.ReadAssertions(ctx, &openfgav1.ReadAssertionsRequest{StoreId: storeID(r), AuthorizationModelId: mutate(r, "01HVMMBCMGZNT3SED4Z17ECXCA")})
		return err
	})
	// nil requests and zero values
	o.do("Check", func(ctx context.Context) error { _, err := srv.Check(ctx, &openfgav1.CheckRequest{}); return err })
	o.do("ListObjects", func(ctx context.Context) error {
		_, err := srv.ListObjects(ctx, &openfgav1.ListObjectsRequest{})
		return err
	})
	o.do("Write", func(ctx context.Context) error { _, err := srv.Write(ctx, &openfgav1.WriteRequest{}); return err })
}

func authzenEntity(r *hx.Rand) (string, string, *structpb.Struct) {
	return maybe(r, hx.Pick(r, []string{"user", "doc", "group"})), maybe(r, hx.Pick(r, []string{"m", "1", "g0", "*"})), hostileContext(r)
}

func kindAuthzen(r *hx.Rand, o *obs) {
	st, si, sp := authzenEntity(r)
	rt, ri, rp := authzenEntity(r)
	act := &authzenv1.Action{Name: maybe(r, hx.Pick(r, rels)), Properties: hostileContext(r)}
	subj := &authzenv1.Subject{Type: st, Id: si, Properties: sp}
	res := &authzenv1.Resource{Type: rt, Id: ri, Properties: rp}
	if r.Chance(1, 15) {
		subj = nil
	}
	if r.Chance(1, 15) {
		act = nil
	}
	o.do("Evaluation", func(ctx context.Context) error {
		_, err := srv.Evaluation(ctx, &authzenv1.EvaluationRequest{StoreId: storeID(r), Subject: subj, Resource: res, Action: act, Context: hostileContext(r)})
		return err
	})
	ev := &authzenv1.EvaluationsRequest{StoreId: storeID(r), Subject: subj, Resource: res, Action: act, Context: hostileContext(r)}
	for i := 0; i < hx.Pick(r, []int{0, 1, 4, 60}); i++ {
		it := &authzenv1.EvaluationsItemRequest{Context: hostileContext(r)}
		if r.Chance(1, 2) {
			it.Resource = &authzenv1.Resource{Type: maybe(r, "doc"), Id: maybe(r, "1"), Properties: hostileContext(r)}
		}
		if r.Chance(1, 20) {
			it = nil
		}
		ev.Evaluations = append(ev.Evaluations, it)
	}
	if r.Chance(1, 2) {
		ev.Options = &authzenv1.EvaluationsOptions{EvaluationsSemantic: authzenv1.EvaluationsSemantic(hx.Pick(r, []int32{0, 1, 2, 3, -1, 99}))}
	}
	o.do("Evaluations", func(ctx context.Context) error { _, err := srv.Evaluations(ctx, ev); return err })
	o.do("SubjectSearch", func(ctx context.Context) error {
		_, err := srv.SubjectSearch(ctx, &authzenv1.SubjectSearchRequest{StoreId: storeID(r), Subject: &authzenv1.SubjectFilter{Type: st, Properties: sp}, Resource: res, Action: act, Context: hostileContext(r)})
		return err
	})
	o.do("ResourceSearch", func(ctx context.Context) error {
		_, err := srv.ResourceSearch(ctx, &authzenv1.ResourceSearchRequest{StoreId: storeID(r), Subject: subj, Action: act, Resource: &authzenv1.ResourceFilter{Type: rt, Properties: rp}, Context: hostileContext(r)})
		return err
	})
	o.do("ActionSearch", func(ctx context.Context) error {
		_, err := srv.ActionSearch(ctx, &authzenv1.ActionSearchRequest{StoreId: storeID(r), Subject: subj, Resource: res, Context: hostileContext(r)})
		return err
	})
}

func exec(line string, st *hx.Stats) string {
	f := strings.Fields(line)
	if (len(f) != 3 && len(f) != 4) || f[0] != "c19" {
		return "badcase"
	}
	thoroughCase = len(f) == 4 && f[3] == "t"
	setup()
	var seed uint64
	fmt.Sscan(f[2], &seed)
	fmt.Fprintln(os.Stderr, "c19-current-case:", line)
	r := hx.NewRand(seed)
	o := &obs{codes: map[string]bool{}}
	defer func() {
		if p := recover(); p != nil {
			if os.Getenv("C19_STACK") != "" {
				fmt.Fprintln(os.Stderr, string(debug.Stack()))
			}
			if ps, ok := p.(string); ok && strings.Contains(ps, " @ ") {
				panic(p)
			}
			panic(fmt.Sprintf("%v @ %s", p, topFrames()))
		}
	}()
	switch f[1] {
	case "check":
		kindCheck(r, o)
	case "batch":
		kindBatch(r, o)
	case "list":
		kindList(r, o)
	case "write":
		kindWrite(r, o)
	case "model":
		kindModel(r, o)
	case "misc":
		kindMisc(r, o)
	case "authzen":
		kindAuthzen(r, o)
	case "numeric":
		kindNumeric(r, o)
	case "f26":
		kindF26(seed, o)
	case "f27":
		kindF27(seed, o)
	case "tok":
		kindTok(seed, o)
	case "wide":
		kindWide(seed, o)
	default:
		return "badkind"
	}
	return o.String()
}

// topFrames names the innermost frames of the panicking goroutine (the stack is still intact inside the deferred call)
func topFrames() string {
	pcs := make([]uintptr, 40)
	n := runtime.Callers(3, pcs)
	fr := runtime.CallersFrames(pcs[:n])
	var out []string
	for {
		f, more := fr.Next()
		if strings.Contains(f.Function, "openfga") && !strings.Contains(f.Function, "verifharness/hx") {
			fn := f.Function
			fn = strings.TrimPrefix(fn, "github.com/openfga/openfga/")
			out = append(out, fmt.Sprintf("%s:%d", fn, f.Line))
			if len(out) >= 4 {
				break
			}
		}
		if !more {
			break
		}
	}
	return strings.Join(out, "<")
}

func gen(r *hx.Rand, n int, tier string, emit func(string), st *hx.Stats) {
	for v := 0; v < 2; v++ {
		emit(fmt.Sprintf("c19 f26 %d", v))
		st.Inc("crafted-f26")
	}
	for v := 0; v < 3; v++ {
		emit(fmt.Sprintf("c19 f27 %d", v))
		st.Inc("crafted-f27")
	}
	for v := range hostileOffsets {
		emit(fmt.Sprintf("c19 tok %d", v))
		st.Inc("crafted-token-offset")
	}
	for v := 0; v < 4; v++ {
		emit(fmt.Sprintf("c19 wide %d", v))
		st.Inc("crafted-wide-early-hit")
	}
	kinds := []string{"check", "numeric", "batch", "list", "list", "write", "model", "model", "misc", "authzen", "check", "numeric"}
	for i := 0; i < n; i++ {
		k := kinds[i%len(kinds)]
		if tier == "thorough" {
			emit(fmt.Sprintf("c19 %s %d t", k, r.U64()>>1))
		} else {
			emit(fmt.Sprintf("c19 %s %d", k, r.U64()>>1))
		}
		st.Inc(k)
	}
}

func main() {
	defer cleanupTok()
	hx.Main(hx.Harness{Gen: gen, Exec: exec})
}
