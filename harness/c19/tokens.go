// C19, two crafted kinds with concrete hostile inputs (kept in every run):
//
//	c19 tok <i>    well-formed continuation tokens — built with the real encoder and the real token serializers —
//	               that carry an extreme numeric offset (negative, -pageSize, MinInt64, MaxInt64, …), sent to every
//	               paginated endpoint (Read, ReadChanges, ListStores, ReadAuthorizationModels) of a memory-backed and
//	               of a sqlite-backed server, with the default and with explicit page sizes.  A token is client input:
//	               the answer is a page or invalid_continuation_token, never a panic / internal error.
//	c19 wide <i>   a document with far more parents / usersets (300) than the resolve-node breadth limit where the user
//	               is allowed through the very first one, asked WITHOUT a deadline and watched by a watchdog: the
//	               answer is known after the first sub-check and must be returned, it must not wait for the caller's
//	               context to end.
package main

import (
	"context"
	"fmt"
	"math"
	"os"
	"path/filepath"
	"strconv"
	"sync"
	"time"

	openfgav1 "github.com/openfga/api/proto/openfga/v1"
	parser "github.com/openfga/language/pkg/go/transformer"
	"github.com/pressly/goose/v3"
	"google.golang.org/protobuf/types/known/wrapperspb"

	"github.com/openfga/openfga/assets"
	"github.com/openfga/openfga/pkg/encoder"
	"github.com/openfga/openfga/pkg/server"
	"github.com/openfga/openfga/pkg/storage"
	"github.com/openfga/openfga/pkg/storage/memory"
	"github.com/openfga/openfga/pkg/storage/sqlcommon"
	"github.com/openfga/openfga/pkg/storage/sqlite"
)

// ---- servers for the token kind ----

type tokSrv struct {
	name  string
	s     *server.Server
	store string
	ser   encoder.ContinuationTokenSerializer
}

var (
	tokOnce sync.Once
	tokSrvs []*tokSrv
	sqlDir  string
	sqlDS   storage.OpenFGADatastore
)

func sqliteDatastore() storage.OpenFGADatastore {
	goose.SetLogger(goose.NopLogger())
	goose.SetBaseFS(assets.EmbedMigrations)
	dir, err := os.MkdirTemp("", "verif-c19-sqlite-*")
	if err != nil {
		panic(err)
	}
	sqlDir = dir
	uri := fmt.Sprintf("file:%s?_pragma=journal_mode(WAL)&_pragma=busy_timeout(5000)&_pragma=synchronous(OFF)", filepath.Join(dir, "database.db"))
	db, err := goose.OpenDBWithDriver("sqlite", uri)
	if err != nil {
		panic(err)
	}
	if err := goose.Up(db, assets.SqliteMigrationDir); err != nil {
		panic(err)
	}
	_ = db.Close()
	ds, err := sqlite.New(uri, sqlcommon.NewConfig())
	if err != nil {
		panic(err)
	}
	sqlDS = ds
	return ds
}

func cleanupTok() {
	if sqlDS != nil {
		sqlDS.Close()
	}
	if sqlDir != "" {
		_ = os.RemoveAll(sqlDir)
	}
}

const tokDSL = `model
  schema 1.1
type user
type doc
  relations
    define viewer: [user]`

func tokSetup() {
	tokOnce.Do(func() {
		mk := func(name string, ds storage.OpenFGADatastore, ser encoder.ContinuationTokenSerializer) {
			s := server.MustNewServerWithOpts(server.WithDatastore(ds), server.WithContinuationTokenSerializer(ser))
			ctx := context.Background()
			ts := &tokSrv{name: name, s: s, ser: ser}
			m := parser.MustTransformDSLToProto(tokDSL)
			// several stores, several models, several tuples and changes: every endpoint has more than one page of 1
			for i := 0; i < 4; i++ {
				cs, err := s.CreateStore(ctx, &openfgav1.CreateStoreRequest{Name: fmt.Sprintf("c19-tok-%d", i)})
				if err != nil {
					panic(err)
				}
				ts.store = cs.GetId()
			}
			for i := 0; i < 3; i++ {
				if _, err := s.WriteAuthorizationModel(ctx, &openfgav1.WriteAuthorizationModelRequest{StoreId: ts.store,
					TypeDefinitions: m.GetTypeDefinitions(), SchemaVersion: m.GetSchemaVersion()}); err != nil {
					panic(err)
				}
			}
			var tks []*openfgav1.TupleKey
			for i := 0; i < 7; i++ {
				tks = append(tks, &openfgav1.TupleKey{Object: fmt.Sprintf("doc:%d", i), Relation: "viewer", User: "user:a"})
			}
			if _, err := s.Write(ctx, &openfgav1.WriteRequest{StoreId: ts.store, Writes: &openfgav1.WriteRequestWrites{TupleKeys: tks}}); err != nil {
				panic(err)
			}
			tokSrvs = append(tokSrvs, ts)
		}
		mk("memory", memory.New(), encoder.NewStringContinuationTokenSerializer())
		mk("sqlite", sqliteDatastore(), sqlcommon.NewSQLContinuationTokenSerializer())
	})
}

// the offsets a hostile client puts into an otherwise well-formed token
var hostileOffsets = []string{
	"-1", "-2", "-49", "-50", "-51", "-100", "-101", "-1000",
	strconv.FormatInt(math.MinInt64, 10), strconv.FormatInt(math.MinInt64+1, 10), strconv.FormatInt(math.MinInt64+50, 10),
	strconv.FormatInt(math.MaxInt64, 10), strconv.FormatInt(math.MaxInt64-1, 10), strconv.FormatInt(math.MaxInt64-49, 10), strconv.FormatInt(math.MaxInt64-50, 10),
	"9223372036854775800", "9223372036854775808", "-9223372036854775809", "18446744073709551615",
	strconv.FormatInt(math.MaxInt32, 10), strconv.FormatInt(math.MinInt32, 10), "4294967296", "-4294967296",
	"0", "1", "2", "3", "4", "5", "7", "8", "+3", "-0", "00", "1e3", "0x10", " 1", "1 ", "",
}

func kindTok(variant uint64, o *obs) {
	tokSetup()
	off := hostileOffsets[int(variant)%len(hostileOffsets)]
	b64 := encoder.NewBase64Encoder()
	enc := func(b []byte) string {
		t, err := b64.Encode(b)
		if err != nil {
			return ""
		}
		return t
	}
	sizes := []*wrapperspb.Int32Value{nil, wrapperspb.Int32(1), wrapperspb.Int32(50)}
	for _, ts := range tokSrvs {
		s, st := ts.s, ts.store
		// offset tokens (ListStores, ReadAuthorizationModels) …
		plain := enc([]byte(off))
		// … and serialized position tokens (Read, ReadChanges) with and without an object type
		var ser []string
		for _, typ := range []string{"", "doc", "nosuch"} {
			if b, err := ts.ser.Serialize(off, typ); err == nil { // an empty position is refused by the serializer itself
				ser = append(ser, enc(b))
			}
		}
		for _, ps := range sizes {
			for _, tok := range append([]string{plain}, ser...) {
				tok, ps := tok, ps
				o.do(ts.name+".ListStores", func(ctx context.Context) error {
					_, err := s.ListStores(ctx, &openfgav1.ListStoresRequest{ContinuationToken: tok, PageSize: ps})
					return err
				})
				o.do(ts.name+".ReadAuthorizationModels", func(ctx context.Context) error {
					_, err := s.ReadAuthorizationModels(ctx, &openfgav1.ReadAuthorizationModelsRequest{StoreId: st, ContinuationToken: tok, PageSize: ps})
					return err
				})
				o.do(ts.name+".Read", func(ctx context.Context) error {
					_, err := s.Read(ctx, &openfgav1.ReadRequest{StoreId: st, ContinuationToken: tok, PageSize: ps})
					return err
				})
				o.do(ts.name+".ReadFiltered", func(ctx context.Context) error {
					_, err := s.Read(ctx, &openfgav1.ReadRequest{StoreId: st, TupleKey: &openfgav1.ReadRequestTupleKey{Object: "doc:", Relation: "viewer", User: "user:a"}, ContinuationToken: tok, PageSize: ps})
					return err
				})
				o.do(ts.name+".ReadChanges", func(ctx context.Context) error {
					_, err := s.ReadChanges(ctx, &openfgav1.ReadChangesRequest{StoreId: st, Type: "doc", ContinuationToken: tok, PageSize: ps})
					return err
				})
			}
		}
	}
}

// ---- wide fan-out with an early hit, no deadline ----

const wideDSL = `model
  schema 1.1
type user
type group
  relations
    define member: [user]
    define nested: [user, group#nested]
type folder
  relations
    define viewer: [user, group#member]
type doc
  relations
    define parent: [folder]
    define viewer: viewer from parent
    define reader: [group#nested]
    define both: viewer and reader
    define any: viewer or reader`

const wideWatchdog = 20 * time.Second

var (
	wideOnce  sync.Once
	wideSrv   *server.Server
	wideStore string
)

func wideSetup() {
	wideOnce.Do(func() {
		ds := memory.New()
		// no request timeout, no ListObjects / ListUsers deadline: nothing but the answer ends a request
		wideSrv = server.MustNewServerWithOpts(server.WithDatastore(ds), server.WithRequestTimeout(0),
			server.WithListObjectsDeadline(0), server.WithListUsersDeadline(0))
		ctx := context.Background()
		cs, err := wideSrv.CreateStore(ctx, &openfgav1.CreateStoreRequest{Name: "c19-wide"})
		if err != nil {
			panic(err)
		}
		wideStore = cs.GetId()
		m := parser.MustTransformDSLToProto(wideDSL)
		if _, err := wideSrv.WriteAuthorizationModel(ctx, &openfgav1.WriteAuthorizationModelRequest{StoreId: wideStore,
			TypeDefinitions: m.GetTypeDefinitions(), SchemaVersion: m.GetSchemaVersion()}); err != nil {
			panic(err)
		}
		var tks []*openfgav1.TupleKey
		add := func(o, r, u string) { tks = append(tks, &openfgav1.TupleKey{Object: o, Relation: r, User: u}) }
		for i := 0; i < 300; i++ {
			f := fmt.Sprintf("folder:%d", i)
			g := fmt.Sprintf("group:%d", i)
			add("doc:1", "parent", f)
			add(f, "viewer", "user:anne")
			add("doc:1", "reader", g+"#nested")
			add(g, "nested", "user:anne")
			add("doc:2", "parent", f) // doc:2: the hit is behind a userset of the parent
			add(f, "viewer", g+"#member")
			add(g, "member", "user:bob")
		}
		for i := 0; i < len(tks); i += 40 {
			j := min(i+40, len(tks))
			if err := ds.Write(ctx, wideStore, nil, tks[i:j]); err != nil {
				panic(err)
			}
		}
	})
}

// doNoDeadline runs f with a context that has NO deadline; a watchdog (not the context) bounds the wait.
func (o *obs) doNoDeadline(name string, f func(ctx context.Context) error) {
	ctx, cancel := context.WithCancel(context.Background())
	defer cancel()
	type result struct {
		err error
		pan interface{}
		at  time.Time
	}
	done := make(chan result, 1)
	start := time.Now()
	go func() {
		defer func() {
			if p := recover(); p != nil {
				done <- result{pan: fmt.Sprintf("%v @ %s", p, topFrames()), at: time.Now()}
			}
		}()
		err := f(ctx)
		done <- result{err: err, at: time.Now()}
	}()
	var r result
	got := false
	select {
	case r = <-done:
		got = true
	case <-time.After(wideWatchdog):
		select { // a stalled process makes both ready at once: prefer the result, judge by its own time stamp
		case r = <-done:
			got = true
		default:
		}
	}
	o.n++
	if got && r.pan != nil {
		panic(r.pan)
	}
	if !got || r.at.Sub(start) > wideWatchdog {
		o.codes[name+":none"] = true
		o.slow = append(o.slow, name+"(no-return-after-20s-without-a-deadline)")
		o.worst, o.wms = name, wideWatchdog.Milliseconds()
		if !got {
			// release it: only now is the caller's context ended
			cancel()
			select {
			case <-done:
			case <-time.After(60 * time.Second):
				abandoned++
			}
		}
		return
	}
	code := "0"
	if r.err != nil {
		code = "err"
		if len(o.internal) < 3 {
			o.internal = append(o.internal, name+":"+clip(r.err.Error()))
		}
	}
	o.codes[name+":"+code] = true
	if ms := r.at.Sub(start).Milliseconds(); ms >= o.wms {
		o.wms, o.worst = ms, name
	}
}

func clip(s string) string {
	if len(s) > 120 {
		s = s[:120]
	}
	out := []rune(s)
	for i, c := range out {
		if c == ' ' || c == '\t' || c == '\n' {
			out[i] = '_'
		}
	}
	return string(out)
}

// wideHung: cases in which a request had to be released by ending its context; every such request costs the watchdog
var wideHung = 0

func kindWide(variant uint64, o *obs) {
	if wideHung >= 2 {
		o.skipped++
		return
	}
	wideSetup()
	type q struct{ obj, rel, user string }
	qs := [][]q{
		{{"doc:1", "viewer", "user:anne"}},                                    // tuple-to-userset, 300 parents, hit through the first
		{{"doc:1", "reader", "user:anne"}},                                    // userset, 300 usersets
		{{"doc:2", "viewer", "user:bob"}},                                     // tuple-to-userset whose sub-checks dispatch again
		{{"doc:1", "any", "user:anne"}, {"doc:1", "both", "user:anne"}},       // under a union / an intersection
	}[int(variant)%4]
	for _, x := range qs {
		x := x
		for rep := 0; rep < 3 && len(o.slow) == 0; rep++ { // the planner samples the strategy: give each its turn
			o.doNoDeadline("Check["+x.obj+"#"+x.rel+"]", func(ctx context.Context) error {
				resp, err := wideSrv.Check(ctx, &openfgav1.CheckRequest{StoreId: wideStore,
					TupleKey: &openfgav1.CheckRequestTupleKey{Object: x.obj, Relation: x.rel, User: x.user}})
				if err == nil && !resp.GetAllowed() {
					return fmt.Errorf("allowed=false, expected true")
				}
				return err
			})
		}
	}
	if len(o.slow) > 0 {
		wideHung++
		return
	}
	if variant%4 == 3 {
		o.doNoDeadline("BatchCheck[wide]", func(ctx context.Context) error {
			_, err := wideSrv.BatchCheck(ctx, &openfgav1.BatchCheckRequest{StoreId: wideStore, Checks: []*openfgav1.BatchCheckItem{
				{TupleKey: &openfgav1.CheckRequestTupleKey{Object: "doc:1", Relation: "viewer", User: "user:anne"}, CorrelationId: "a"},
				{TupleKey: &openfgav1.CheckRequestTupleKey{Object: "doc:1", Relation: "reader", User: "user:anne"}, CorrelationId: "b"}}})
			return err
		})
	}
}
