// Iterator accounting for C20: a datastore wrapper that counts every tuple iterator the datastore hands out as
// open until its Stop() is called, with optional fault injection (an error, or a cancellation of the request
// context, on the k-th Next after arming — the way a SQL driver fails in the middle of streaming rows).
//
// The property measured with it: once an RPC has returned (and after a short settle time for background producers
// that finish on their own) no iterator opened for it is still open.
package main

import (
	"context"
	"errors"
	"fmt"
	"sort"
	"strings"
	"sync"
	"time"

	openfgav1 "github.com/openfga/api/proto/openfga/v1"

	"github.com/openfga/openfga/pkg/storage"
)

var errInjected = errors.New("verif: injected datastore fault (connection reset by peer)")

type acctDS struct {
	storage.OpenFGADatastore

	mu     sync.Mutex
	nextID int
	open   map[int]string
	opened int

	// fault injection, armed per call
	faultKind string // "" | "err" | "cancel"
	faultAt   int    // the k-th Next (counted over all tracked iterators since arming), 1-based
	nexts     int
	fired     bool
	cancel    context.CancelFunc
}

func newAcct(ds storage.OpenFGADatastore) *acctDS {
	return &acctDS{OpenFGADatastore: ds, open: map[int]string{}}
}

// arm sets the fault for the next call; kind "" disarms.
func (d *acctDS) arm(kind string, at int, cancel context.CancelFunc) {
	d.mu.Lock()
	defer d.mu.Unlock()
	d.faultKind, d.faultAt, d.nexts, d.fired, d.cancel = kind, at, 0, false, cancel
}

func (d *acctDS) openCount() int {
	d.mu.Lock()
	defer d.mu.Unlock()
	return len(d.open)
}

func (d *acctDS) openedTotal() int {
	d.mu.Lock()
	defer d.mu.Unlock()
	return d.opened
}

// openKinds summarises the iterators still open: "Read(doc:1#parent)*1,ReadStartingWithUser(group#member)*2"
func (d *acctDS) openKinds() string {
	d.mu.Lock()
	defer d.mu.Unlock()
	count := map[string]int{}
	for _, k := range d.open {
		count[k]++
	}
	var ks []string
	for k, v := range count {
		ks = append(ks, fmt.Sprintf("%s*%d", k, v))
	}
	sort.Strings(ks)
	if len(ks) > 4 {
		ks = ks[:4]
	}
	return strings.Join(ks, ",")
}

// forget drops whatever is still recorded as open (after a leak was reported, so that the next case starts at 0)
func (d *acctDS) forget() {
	d.mu.Lock()
	defer d.mu.Unlock()
	d.open = map[int]string{}
}

// waitClosed polls until no iterator is open (background producers — iterator cache fills, pipeline workers —
// stop theirs shortly after the call returned) or max elapsed.
func (d *acctDS) waitClosed(max time.Duration) int {
	deadline := time.Now().Add(max)
	for {
		n := d.openCount()
		if n == 0 || time.Now().After(deadline) {
			return n
		}
		time.Sleep(2 * time.Millisecond)
	}
}

func clean(s string) string {
	return strings.Map(func(c rune) rune {
		if c == ' ' || c == '\t' || c == '\n' || c == ',' || c == '*' {
			return '_'
		}
		return c
	}, s)
}

func (d *acctDS) track(kind string, it storage.TupleIterator, err error) (storage.TupleIterator, error) {
	if err != nil || it == nil {
		return it, err
	}
	d.mu.Lock()
	defer d.mu.Unlock()
	d.nextID++
	d.opened++
	d.open[d.nextID] = clean(kind)
	return &acctIter{TupleIterator: it, ds: d, id: d.nextID}, nil
}

func (d *acctDS) Read(ctx context.Context, store string, f storage.ReadFilter, o storage.ReadOptions) (storage.TupleIterator, error) {
	it, err := d.OpenFGADatastore.Read(ctx, store, f, o)
	return d.track("Read("+f.Object+"#"+f.Relation+")", it, err)
}

func (d *acctDS) ReadUsersetTuples(ctx context.Context, store string, f storage.ReadUsersetTuplesFilter, o storage.ReadUsersetTuplesOptions) (storage.TupleIterator, error) {
	it, err := d.OpenFGADatastore.ReadUsersetTuples(ctx, store, f, o)
	return d.track("ReadUsersetTuples("+f.Object+"#"+f.Relation+")", it, err)
}

func (d *acctDS) ReadStartingWithUser(ctx context.Context, store string, f storage.ReadStartingWithUserFilter, o storage.ReadStartingWithUserOptions) (storage.TupleIterator, error) {
	it, err := d.OpenFGADatastore.ReadStartingWithUser(ctx, store, f, o)
	return d.track("ReadStartingWithUser("+f.ObjectType+"#"+f.Relation+")", it, err)
}

type acctIter struct {
	storage.TupleIterator
	ds *acctDS
	id int
}

// fault decides, for one Next call, whether the armed fault fires now
func (d *acctDS) fault() (string, context.CancelFunc) {
	d.mu.Lock()
	defer d.mu.Unlock()
	if d.faultKind == "" || d.fired {
		return "", nil
	}
	d.nexts++
	if d.nexts < d.faultAt {
		return "", nil
	}
	d.fired = true
	return d.faultKind, d.cancel
}

func (i *acctIter) Next(ctx context.Context) (*openfgav1.Tuple, error) {
	kind, cancel := i.ds.fault()
	switch kind {
	case "err":
		return nil, errInjected
	case "cancel":
		if cancel != nil {
			cancel()
		}
	}
	if kind == "cancel" {
		// like a SQL driver: streaming rows stops once the context is done
		if err := ctx.Err(); err != nil {
			return nil, err
		}
	}
	return i.TupleIterator.Next(ctx)
}

func (i *acctIter) Stop() {
	i.ds.mu.Lock()
	delete(i.ds.open, i.id)
	i.ds.mu.Unlock()
	i.TupleIterator.Stop()
}
