// Harness for C20 (queries terminate and release their resources) — SUPPORTING EVIDENCE for the runtime part
// of the property (the theorems of Props/C20.lean cover the logic of the evaluation and of the reducer /
// dispatch protocols; wall-clock deadlines and the goroutine census are measured here).
//
// Case line:
//
//	c20 <cfg> <family> <p1> <p2> <rpc> <variant> <mode> <ms> <model…> [tuples… req…]
//
//	cfg     v1 | b1 (breadth limit 1) | v2 (weighted_graph_check) | pipe (pipeline_list_objects) | cache |
//	        cut (ListUsers / ListObjects max-results 3) | opt (check + list-objects optimizations)
//	        every server reads through the iterator-accounting wrapper of acct.go
//	family  ring k -      a membership cycle of k groups
//	        fan  w -      fan-out w (w groups below one object, w objects for one user)
//	        tree b d      a ladder DAG of depth d, b folders per level: b^d paths through tuple-to-userset
//	        rand seed n   model and tuples from the shared generator (harness/fga)
//	        wide w -      w parents and w usersets on one document, the user allowed through every one (early hit)
//	        res seed flt  resources family: explicit tuples, contextual tuples and request on the line (sorted reads that
//	                      end on a duplicate object, contextual tuples repeating stored ones, many more matching users than
//	                      max-results); flt = - | errK | cancelK: datastore fault on the K-th Next; variant = repetitions
//	rpc     check | batch | listobjects | streamed | listusers | expand | read
//	mode    none (no deadline; the context is cancelled only after the call returned, as gRPC does)
//	        deadline ms | cancel ms (client cancellation after ms)
//
// Output: res=<class> t=<ontime|late|hang> g=<ok|lazy|leak:N> it=<ok|open:N:kinds> [stk=…]
//   - it=open: N iterators handed out by the datastore during the case were still not stopped 3 s after the call returned
//   - late: the call returned later than ms + slack (15 s), three times in a row; hang: it had not returned 15 s
//     (thorough: 30 s) after that
//   - leak: runtime.NumGoroutine() did not settle back to the value before the call within 10 s, and running
//     the same request again grew it again (a one-off growth is a lazily started background goroutine: `lazy`)
package main

import (
	"context"
	"errors"
	"fmt"
	"os"
	"runtime"
	"sort"
	"strconv"
	"strings"
	"sync"
	"time"

	openfgav1 "github.com/openfga/api/proto/openfga/v1"
	"google.golang.org/grpc"
	"google.golang.org/grpc/codes"
	"google.golang.org/grpc/metadata"
	"google.golang.org/grpc/status"

	"github.com/openfga/openfga/pkg/server"
	"github.com/openfga/openfga/pkg/storage"
	"github.com/openfga/openfga/pkg/storage/memory"
	"github.com/openfga/openfga/verifharness/fga"
	"github.com/openfga/openfga/verifharness/hx"
)

var slack = 15 * time.Second // generous: the machine may be heavily loaded; a real hang is unbounded

var hangCap = 15 * time.Second

var knownShapeHangs = 0
var maxKnownShapeHangs = 1

const settleMax = 10 * time.Second

// ---- servers ----

type srv struct {
	s    *server.Server
	ds   storage.OpenFGADatastore // the raw memory backend (set-up writes go here)
	acct *acctDS                  // what the server reads through: every iterator is accounted for
}

var (
	mu      sync.Mutex
	servers = map[string]*srv{}
)

func getServer(cfg string) *srv {
	mu.Lock()
	defer mu.Unlock()
	if s, ok := servers[cfg]; ok {
		return s
	}
	ds := memory.New()
	ac := newAcct(ds)
	opts := []server.OpenFGAServiceV1Option{server.WithDatastore(ac)}
	switch cfg {
	case "cut":
		// tiny result limits: the collectors stop reading long before the expansion is through
		opts = append(opts, server.WithListUsersMaxResults(3), server.WithListObjectsMaxResults(3))
	case "opt":
		opts = append(opts, server.WithExperimentals("enable-check-optimizations", "enable-list-objects-optimizations"))
	case "b1":
		opts = append(opts, server.WithResolveNodeBreadthLimit(1))
	case "v2":
		opts = append(opts, server.WithExperimentals("weighted_graph_check"))
	case "pipe":
		opts = append(opts, server.WithExperimentals("pipeline_list_objects"), server.WithListObjectsPipelineEnabled(true))
	case "cache":
		opts = append(opts, server.WithCheckQueryCacheEnabled(true), server.WithCheckQueryCacheTTL(2*time.Second),
			server.WithCheckIteratorCacheEnabled(true), server.WithCheckIteratorCacheTTL(2*time.Second),
			server.WithListObjectsIteratorCacheEnabled(true), server.WithListObjectsIteratorCacheTTL(2*time.Second))
	}
	s := &srv{s: server.MustNewServerWithOpts(opts...), ds: ds, acct: ac}
	servers[cfg] = s
	return s
}

// ---- the crafted model ----

func this() *fga.Rewrite           { return &fga.Rewrite{Kind: "this"} }
func cu(r string) *fga.Rewrite     { return &fga.Rewrite{Kind: "cu", Rel: r} }
func ttu(t, c string) *fga.Rewrite { return &fga.Rewrite{Kind: "ttu", Tupleset: t, Computed: c} }

func bigModel() *fga.Model {
	u := fga.Restr{Typ: "user"}
	gm := fga.Restr{Typ: "group", Rel: "member"}
	return &fga.Model{Types: []*fga.TypeDef{
		{Name: "user"},
		{Name: "group", Rels: []*fga.RelDef{{Name: "member", Rewrite: this(), Restrs: []fga.Restr{u, gm}}}},
		{Name: "folder", Rels: []*fga.RelDef{
			{Name: "parent", Rewrite: this(), Restrs: []fga.Restr{{Typ: "folder"}}},
			{Name: "viewer", Rewrite: &fga.Rewrite{Kind: "union", Kids: []*fga.Rewrite{this(), ttu("parent", "viewer")}}, Restrs: []fga.Restr{u, gm}},
		}},
		{Name: "doc", Rels: []*fga.RelDef{
			{Name: "parent", Rewrite: this(), Restrs: []fga.Restr{{Typ: "folder"}}},
			{Name: "viewer", Rewrite: this(), Restrs: []fga.Restr{u, gm}},
			{Name: "blocked", Rewrite: this(), Restrs: []fga.Restr{u, gm}},
			{Name: "owner", Rewrite: this(), Restrs: []fga.Restr{u}},
			{Name: "can", Rewrite: &fga.Rewrite{Kind: "diff", Kids: []*fga.Rewrite{cu("viewer"), cu("blocked")}}},
			{Name: "both", Rewrite: &fga.Rewrite{Kind: "inter", Kids: []*fga.Rewrite{cu("viewer"), cu("via")}}},
			{Name: "via", Rewrite: ttu("parent", "viewer")},
			{Name: "any", Rewrite: &fga.Rewrite{Kind: "union", Kids: []*fga.Rewrite{cu("viewer"), cu("via"), cu("owner")}}},
		}},
	}}
}

func familyTuples(family string, p1, p2 int) []fga.Tuple {
	var ts []fga.Tuple
	add := func(o, r, u string) { ts = append(ts, fga.Tuple{Obj: o, Rel: r, User: u}) }
	switch family {
	case "ring":
		k := p1
		for i := 0; i < k; i++ {
			add(fmt.Sprintf("group:g%d", i), "member", fmt.Sprintf("group:g%d#member", (i+1)%k))
		}
		add(fmt.Sprintf("group:g%d", k/2), "member", "user:m")
		add("doc:1", "viewer", "group:g0#member")
		add("doc:1", "blocked", fmt.Sprintf("group:g%d#member", k/3))
		add("folder:r", "viewer", "group:g0#member")
		add("doc:1", "parent", "folder:r")
	case "fan":
		w := p1
		for i := 0; i < w; i++ {
			add(fmt.Sprintf("group:f%d", i), "member", fmt.Sprintf("user:u%d", i))
			add("doc:1", "viewer", fmt.Sprintf("group:f%d#member", i))
			add(fmt.Sprintf("doc:d%d", i), "viewer", "user:m")
		}
		add(fmt.Sprintf("group:f%d", w-1), "member", "user:m")
		add("doc:1", "parent", "folder:r")
		add("folder:r", "viewer", "group:f0#member")
	case "wide":
		// far more parents / usersets than the breadth limit, and the user is allowed through every one of them:
		// the consumer of the dispatch pipeline leaves after the first outcome while the producer still has hundreds to send
		w := p1
		for i := 0; i < w; i++ {
			add("doc:1", "parent", fmt.Sprintf("folder:w%d", i))
			add(fmt.Sprintf("folder:w%d", i), "viewer", "user:m")
			add(fmt.Sprintf("group:w%d", i), "member", "user:m")
			add("doc:1", "viewer", fmt.Sprintf("group:w%d#member", i))
		}
	case "tree":
		b, d := p1, p2
		for l := 0; l+1 < d; l++ {
			for j := 0; j < b; j++ {
				for j2 := 0; j2 < b; j2++ {
					add(fmt.Sprintf("folder:t%d_%d", l, j), "parent", fmt.Sprintf("folder:t%d_%d", l+1, j2))
				}
			}
		}
		add(fmt.Sprintf("folder:t%d_%d", d-1, b-1), "viewer", "user:m")
		add("doc:1", "parent", "folder:t0_0")
		add("doc:1", "viewer", "user:v")
	}
	return ts
}

// ---- stores (one per distinct data set, reused) ----

type storeKey struct{ cfg, data string }

var stores = map[storeKey]string{}

func setup(sv *srv, cfg, dataKey string, m *fga.Model, tuples []fga.Tuple) (string, error) {
	if id, ok := stores[storeKey{cfg, dataKey}]; ok {
		return id, nil
	}
	ctx := context.Background()
	cs, err := sv.s.CreateStore(ctx, &openfgav1.CreateStoreRequest{Name: "c20-store"})
	if err != nil {
		return "", err
	}
	am := m.Proto("")
	if _, err := sv.s.WriteAuthorizationModel(ctx, &openfgav1.WriteAuthorizationModelRequest{StoreId: cs.GetId(),
		TypeDefinitions: am.GetTypeDefinitions(), SchemaVersion: am.GetSchemaVersion(), Conditions: am.GetConditions()}); err != nil {
		return "", err
	}
	for i := 0; i < len(tuples); i += 50 {
		j := i + 50
		if j > len(tuples) {
			j = len(tuples)
		}
		if err := sv.ds.Write(ctx, cs.GetId(), nil, fga.Keys(tuples[i:j])); err != nil {
			return "", err
		}
	}
	if len(stores) < 64 {
		stores[storeKey{cfg, dataKey}] = cs.GetId()
	}
	return cs.GetId(), nil
}

// ---- calls ----

type collector struct {
	ctx context.Context
	n   int
	grpc.ServerStream
}

func (c *collector) Context() context.Context     { return c.ctx }
func (c *collector) SetHeader(metadata.MD) error  { return nil }
func (c *collector) SendHeader(metadata.MD) error { return nil }
func (c *collector) SetTrailer(metadata.MD)       {}
func (c *collector) SendMsg(any) error            { return nil }
func (c *collector) RecvMsg(any) error            { return nil }
func (c *collector) Send(*openfgav1.StreamedListObjectsResponse) error {
	c.n++
	return nil
}

func classify(err error) string {
	switch {
	case err == nil:
		return "ok"
	case errors.Is(err, context.DeadlineExceeded) || status.Code(err) == codes.DeadlineExceeded:
		return "deadline"
	case errors.Is(err, context.Canceled) || status.Code(err) == codes.Canceled:
		return "canceled"
	}
	if st, ok := status.FromError(err); ok {
		return fmt.Sprintf("E%d", int(st.Code()))
	}
	return "Eother"
}

type request struct {
	rpc            string
	obj, rel, user string
	typ            string
	ctx            []fga.KV
	batch          []fga.Req
	ctxT           []fga.Tuple // contextual tuples
	fault          string      // "" | "err" | "cancel": injected on the faultAt-th Next of the datastore iterators
	faultAt        int
}

func (rq request) contextual() *openfgav1.ContextualTupleKeys {
	if len(rq.ctxT) == 0 {
		return nil
	}
	return &openfgav1.ContextualTupleKeys{TupleKeys: fga.Keys(rq.ctxT)}
}

func call(ctx context.Context, sv *srv, storeID string, rq request) string {
	s := sv.s
	switch rq.rpc {
	case "check":
		r, err := s.Check(ctx, &openfgav1.CheckRequest{StoreId: storeID, TupleKey: &openfgav1.CheckRequestTupleKey{Object: rq.obj, Relation: rq.rel, User: rq.user}, Context: fga.CtxStruct(rq.ctx), ContextualTuples: rq.contextual()})
		if err != nil {
			return classify(err)
		}
		if r.GetAllowed() {
			return "ok:T"
		}
		return "ok:F"
	case "batch":
		br := &openfgav1.BatchCheckRequest{StoreId: storeID}
		for i, q := range rq.batch {
			br.Checks = append(br.Checks, &openfgav1.BatchCheckItem{TupleKey: &openfgav1.CheckRequestTupleKey{Object: q.Obj, Relation: q.Rel, User: q.User},
				Context: fga.CtxStruct(q.Ctx), CorrelationId: strconv.Itoa(i), ContextualTuples: rq.contextual()})
		}
		r, err := s.BatchCheck(ctx, br)
		if err != nil {
			return classify(err)
		}
		return fmt.Sprintf("ok:n%d", len(r.GetResult()))
	case "listobjects":
		r, err := s.ListObjects(ctx, &openfgav1.ListObjectsRequest{StoreId: storeID, Type: rq.typ, Relation: rq.rel, User: rq.user, Context: fga.CtxStruct(rq.ctx), ContextualTuples: rq.contextual()})
		if err != nil {
			return classify(err)
		}
		_ = r
		return "ok:list"
	case "streamed":
		col := &collector{ctx: ctx}
		if err := s.StreamedListObjects(&openfgav1.StreamedListObjectsRequest{StoreId: storeID, Type: rq.typ, Relation: rq.rel, User: rq.user, Context: fga.CtxStruct(rq.ctx), ContextualTuples: rq.contextual()}, col); err != nil {
			return classify(err)
		}
		return "ok:stream"
	case "listusers":
		ot, oid, _ := fga.UserParts(rq.obj)
		_, err := s.ListUsers(ctx, &openfgav1.ListUsersRequest{StoreId: storeID, Object: &openfgav1.Object{Type: ot, Id: oid}, Relation: rq.rel,
			UserFilters: []*openfgav1.UserTypeFilter{{Type: "user"}}, Context: fga.CtxStruct(rq.ctx)})
		if err != nil {
			return classify(err)
		}
		return "ok:users"
	case "expand":
		_, err := s.Expand(ctx, &openfgav1.ExpandRequest{StoreId: storeID, TupleKey: &openfgav1.ExpandRequestTupleKey{Object: rq.obj, Relation: rq.rel}, ContextualTuples: rq.contextual()})
		if err != nil {
			return classify(err)
		}
		return "ok:tree"
	case "read":
		_, err := s.Read(ctx, &openfgav1.ReadRequest{StoreId: storeID, TupleKey: &openfgav1.ReadRequestTupleKey{Object: rq.obj, Relation: rq.rel}})
		if err != nil {
			return classify(err)
		}
		return "ok:page"
	}
	return "badrpc"
}

func settle(max time.Duration) int {
	deadline := time.Now().Add(max)
	prev := runtime.NumGoroutine()
	stable := 0
	for time.Now().Before(deadline) {
		time.Sleep(3 * time.Millisecond)
		g := runtime.NumGoroutine()
		if g == prev {
			stable++
			if stable >= 3 {
				return g
			}
		} else {
			stable = 0
			prev = g
		}
	}
	return prev
}

func waitBack(g0 int, max time.Duration) int {
	deadline := time.Now().Add(max)
	for {
		g := runtime.NumGoroutine()
		if g <= g0 || time.Now().After(deadline) {
			return g
		}
		time.Sleep(5 * time.Millisecond)
	}
}

// stacks summarises the goroutines that are parked inside openfga code (function at the top of each stack)
func stacks() string {
	buf := make([]byte, 4<<20)
	n := runtime.Stack(buf, true)
	count := map[string]int{}
	for _, g := range strings.Split(string(buf[:n]), "\n\n") {
		lines := strings.Split(g, "\n")
		for _, l := range lines[1:] {
			if strings.Contains(l, "github.com/openfga/openfga/") && !strings.HasPrefix(l, "\t") && !strings.Contains(l, "verifharness") {
				f := l
				if i := strings.LastIndex(f, "("); i > 0 {
					f = f[:i]
				}
				f = strings.TrimPrefix(f, "github.com/openfga/openfga/")
				count[f]++
				break
			}
		}
	}
	var ks []string
	for k, v := range count {
		ks = append(ks, fmt.Sprintf("%s*%d", strings.ReplaceAll(k, " ", ""), v))
	}
	sort.Strings(ks)
	if len(ks) > 6 {
		ks = ks[:6]
	}
	return strings.Join(ks, ",")
}

type outcome struct {
	res string
	t   string
	g0  int
	g1  int
}

func runOnce(sv *srv, storeID string, rq request, mode string, ms int) outcome {
	g0 := settle(2 * time.Second)
	var ctx context.Context
	var cancel context.CancelFunc
	limit := time.Duration(ms) * time.Millisecond
	switch mode {
	case "deadline":
		ctx, cancel = context.WithTimeout(context.Background(), limit)
	default:
		ctx, cancel = context.WithCancel(context.Background())
	}
	type fin struct {
		res string
		at  time.Time
	}
	done := make(chan fin, 1)
	sv.acct.arm(rq.fault, rq.faultAt, cancel)
	start := time.Now()
	go func() {
		defer func() {
			if p := recover(); p != nil {
				done <- fin{"PANIC:" + strings.ReplaceAll(fmt.Sprint(p), " ", "_"), time.Now()}
			}
		}()
		r := call(ctx, sv, storeID, rq)
		done <- fin{r, time.Now()}
	}()
	var timer *time.Timer
	if mode == "cancel" {
		timer = time.AfterFunc(limit, cancel)
	}
	bound := slack
	if mode != "none" {
		bound = limit + slack
	} else {
		bound = hangCap
	}
	o := outcome{g0: g0, t: "ontime"}
	// The verdict is taken from the time the call itself finished, never from which channel of a select fired:
	// when the whole process is stalled (an overloaded machine) both become ready at once and select picks at random.
	var f fin
	got := false
	select {
	case f = <-done:
		got = true
	case <-time.After(bound):
		select {
		case f = <-done:
			got = true
		case <-time.After(hangCap):
			select {
			case f = <-done:
				got = true
			default:
			}
		}
	}
	if !got {
		o.t = "hang"
		o.res = "none"
	} else {
		o.res = f.res
		if f.at.Sub(start) > bound {
			o.t = "late"
		}
	}
	_ = start
	if timer != nil {
		timer.Stop()
	}
	cancel() // the transport cancels the request context once the handler has returned
	sv.acct.arm("", 0, nil)
	o.g1 = waitBack(g0, settleMax)
	return o
}

var casesOnServer = map[string]int{}
var memGuard = ""

// recycle drops a server (and its memory datastore with every store written so far) after 300 cases
func recycle(cfg string) {
	mu.Lock()
	defer mu.Unlock()
	casesOnServer[cfg]++
	if casesOnServer[cfg] < 300 {
		return
	}
	casesOnServer[cfg] = 0
	if sv, ok := servers[cfg]; ok {
		sv.s.Close()
		delete(servers, cfg)
		for k := range stores {
			if k.cfg == cfg {
				delete(stores, k)
			}
		}
	}
}

func exec(line string, st *hx.Stats) string {
	if memGuard != "" {
		return memGuard
	}
	var ms0 runtime.MemStats
	runtime.ReadMemStats(&ms0)
	if ms0.HeapInuse > 10<<30 {
		memGuard = fmt.Sprintf("res=memory-guard t=ontime g=ok heapGB=%d", ms0.HeapInuse>>30)
		return memGuard
	}
	t := fga.NewToks(line)
	t.Expect("c20")
	cfg := t.Next()
	family := t.Next()
	p1 := t.Int()
	p2s := t.Next()
	p2, _ := strconv.Atoi(p2s)
	rpc := t.Next()
	variant := t.Int()
	mode := t.Next()
	ms := t.Int()
	m := fga.DecodeModel(t)
	recycle(cfg)
	sv := getServer(cfg)
	var tuples []fga.Tuple
	var rq request
	rq.rpc = rpc
	repeats := 1
	if family == "res" {
		// resources family: explicit tuples, contextual tuples and request; p2 = fault spec, variant = repetitions
		tuples = fga.DecodeTuples(t, "tuples")
		rq.ctxT = fga.DecodeTuples(t, "ctx")
		q := fga.DecodeReq(t)
		rq.obj, rq.rel, rq.user, rq.ctx = q.Obj, q.Rel, q.User, q.Ctx
		rq.typ = fga.TypeOf(q.Obj)
		for _, rel := range []string{q.Rel, "viewer", "viag", "via", "both"} {
			rq.batch = append(rq.batch, fga.Req{Obj: q.Obj, Rel: rel, User: q.User})
		}
		switch {
		case strings.HasPrefix(p2s, "err"):
			rq.fault = "err"
			rq.faultAt, _ = strconv.Atoi(p2s[3:])
		case strings.HasPrefix(p2s, "cancel"):
			rq.fault = "cancel"
			rq.faultAt, _ = strconv.Atoi(p2s[6:])
		}
		repeats = variant
		if repeats < 1 {
			repeats = 1
		}
	} else if family == "rand" {
		tuples = fga.DecodeTuples(t, "tuples")
		q := fga.DecodeReq(t)
		rq.obj, rq.rel, rq.user, rq.ctx = q.Obj, q.Rel, q.User, q.Ctx
		rq.typ = fga.TypeOf(q.Obj)
		if strings.Contains(rq.user, "#") && (rpc == "listobjects" || rpc == "streamed") {
			// fine: usersets are legal ListObjects subjects
		}
		rq.batch = []fga.Req{q, {Obj: q.Obj, Rel: q.Rel, User: "user:x", Ctx: q.Ctx}, {Obj: q.Obj, Rel: q.Rel, User: "user:y", Ctx: q.Ctx}}
	} else {
		tuples = familyTuples(family, p1, p2)
		rels := []string{"viewer", "can", "both", "via", "any"}
		users := []string{"user:m", "user:nobody", "user:u0"}
		rq.obj = "doc:1"
		rq.rel = rels[variant%len(rels)]
		rq.user = users[(variant/len(rels))%len(users)]
		rq.typ = "doc"
		if rpc == "listobjects" || rpc == "streamed" {
			rq.rel = []string{"viewer", "any", "can", "via"}[variant%4]
			rq.user = []string{"user:m", "user:nobody"}[(variant/4)%2]
		}
		if rpc == "expand" {
			rq.rel = []string{"viewer", "any", "can"}[variant%3]
		}
		for i := 0; i < 6; i++ {
			rq.batch = append(rq.batch, fga.Req{Obj: "doc:1", Rel: rels[(variant+i)%len(rels)], User: users[i%len(users)]})
		}
		if family == "wide" {
			repeats = 2
		}
	}
	dataKey := fmt.Sprintf("%s/%d/%d", family, p1, p2)
	if family == "res" {
		dataKey = fmt.Sprintf("res/%d", p1)
	}
	if family == "rand" {
		dataKey = fmt.Sprintf("rand/%d/%s", p1, p2s)
	}
	storeID, err := setup(sv, cfg, dataKey, m, tuples)
	if err != nil {
		return "setup-error " + strings.ReplaceAll(err.Error(), "\t", " ")
	}
	dup := 0
	if dupThis(m) {
		dup = 1
	}
	if cfg == "pipe" && dup == 1 && (rpc == "listobjects" || rpc == "streamed") && knownShapeHangs >= maxKnownShapeHangs {
		// each hang costs a watchdog and parks goroutines for good: observe the known shape (finding L4) only a few times per run
		st.Inc("skipped-known-hang-shape")
		return "res=skipped t=skipped g=skipped dup=1"
	}
	sv.acct.forget()
	opened0 := sv.acct.openedTotal()
	o := runOnce(sv, storeID, rq, mode, ms)
	// the planner picks the strategy of a userset / tuple-to-userset by sampling: the same request is repeated so that
	// every offered strategy (default, weight2, recursive) gets its turn; growth of the census or an open iterator in
	// any of the runs counts
	for k := 1; k < repeats && o.t == "ontime" && o.g1 <= o.g0; k++ {
		o2 := runOnce(sv, storeID, rq, mode, ms)
		o2.res = o.res
		o = o2
	}
	g := "ok"
	extra := ""
	if o.t == "hang" {
		st.Inc("hang")
		if cfg == "pipe" && dup == 1 {
			knownShapeHangs++
		}
		return fmt.Sprintf("res=%s t=hang g=unknown dup=%d stk=%s", o.res, dup, stacks())
	}
	if o.t == "late" {
		// twice more: a loaded machine can delay a return; a real responsiveness problem repeats
		for k := 0; k < 2 && o.t == "late"; k++ {
			o2 := runOnce(sv, storeID, rq, mode, ms)
			if o2.t == "ontime" {
				o.t = "ontime"
				st.Inc("late-once")
			}
		}
	}
	if o.g1 > o.g0 {
		// one-off growth (a lazily started background goroutine) or a leak per request?
		o2 := runOnce(sv, storeID, rq, mode, ms)
		o3 := runOnce(sv, storeID, rq, mode, ms)
		if o2.g1 > o2.g0 || o3.g1 > o3.g0 {
			g = fmt.Sprintf("leak:%d", (o2.g1-o2.g0)+(o3.g1-o3.g0))
			extra = " stk=" + stacks()
		} else {
			g = "lazy"
		}
	}
	st.Inc("res:" + o.res)
	// iterator accounting: everything the datastore handed out since the case started must have been stopped
	it := "ok"
	if n := sv.acct.waitClosed(3 * time.Second); n > 0 {
		it = fmt.Sprintf("open:%d:%s", n, sv.acct.openKinds())
		sv.acct.forget()
		st.Inc("iterator-left-open")
	}
	if sv.acct.openedTotal() > opened0 {
		st.Inc("cases-with-iterators")
	}
	if rq.fault != "" {
		st.Inc("fault:" + rq.fault)
	}
	return fmt.Sprintf("res=%s t=%s g=%s it=%s dup=%d%s", o.res, o.t, g, it, dup, extra)
}

// dupThis: some relation has two direct-assignment leaves in its rewrite and a userset restriction on itself
func dupThis(m *fga.Model) bool {
	var count func(rw *fga.Rewrite) int
	count = func(rw *fga.Rewrite) int {
		n := 0
		if rw.Kind == "this" {
			n = 1
		}
		for _, k := range rw.Kids {
			n += count(k)
		}
		return n
	}
	for _, t := range m.Types {
		for _, rd := range t.Rels {
			if count(rd.Rewrite) >= 2 {
				for _, x := range rd.Restrs {
					if x.Rel != "" {
						return true
					}
				}
			}
		}
	}
	return false
}

// ---- generator ----

// ---- the resources family ----

// resModel: every Check strategy and every ListUsers / Expand node kind over small relations
func resModel() *fga.Model {
	u := fga.Restr{Typ: "user"}
	uw := fga.Restr{Typ: "user", Wild: true}
	gm := fga.Restr{Typ: "group", Rel: "member"}
	tm := fga.Restr{Typ: "team", Rel: "member"}
	op := func(kind string, kids ...*fga.Rewrite) *fga.Rewrite { return &fga.Rewrite{Kind: kind, Kids: kids} }
	return &fga.Model{Types: []*fga.TypeDef{
		{Name: "user"},
		{Name: "group", Rels: []*fga.RelDef{{Name: "member", Rewrite: this(), Restrs: []fga.Restr{u, uw}}}},
		{Name: "team", Rels: []*fga.RelDef{{Name: "member", Rewrite: this(), Restrs: []fga.Restr{u, tm}}}},
		{Name: "folder", Rels: []*fga.RelDef{{Name: "viewer", Rewrite: this(), Restrs: []fga.Restr{u, gm}}}},
		{Name: "doc", Rels: []*fga.RelDef{
			{Name: "parent", Rewrite: this(), Restrs: []fga.Restr{{Typ: "folder"}}},
			{Name: "gparent", Rewrite: this(), Restrs: []fga.Restr{{Typ: "group"}}},
			{Name: "viewer", Rewrite: this(), Restrs: []fga.Restr{gm}},  // userset of weight 2: weight2 fast path
			{Name: "tviewer", Rewrite: this(), Restrs: []fga.Restr{tm}}, // recursive userset: recursive fast path
			{Name: "viag", Rewrite: ttu("gparent", "member")},           // tuple-to-userset of weight 2
			{Name: "via", Rewrite: ttu("parent", "viewer")},             // tuple-to-userset of weight 3: dispatching resolver
			{Name: "allowed", Rewrite: this(), Restrs: []fga.Restr{u, uw}},
			{Name: "editor", Rewrite: this(), Restrs: []fga.Restr{u}},
			{Name: "both", Rewrite: op("inter", cu("allowed"), cu("editor"))},
			{Name: "either", Rewrite: op("union", cu("allowed"), cu("editor"))},
			{Name: "minus", Rewrite: op("diff", cu("allowed"), cu("editor"))},
			{Name: "mix", Rewrite: op("union", cu("viewer"), cu("viag"), cu("via"), cu("both"))},
		}},
	}}
}

type resShape struct {
	dupEnd   int  // 0 none, 1 user + wildcard on the LAST group, 2 on the first, 3 in the middle
	ctxDup   int  // 0 none, 1 contextual tuple repeats the LAST stored membership, 2 the first, 3 a new one
	hit      bool // the request's user is allowed (evaluation may stop early) or not (every iterator is drained)
	groups   int
	parents  int
	many     int // users on allowed / editor (ListUsers cut-off needs more than 2 x max-results)
	teamLen  int
	wildcard bool // doc:1#allowed@user:*
}

func resWorld(sh resShape) ([]fga.Tuple, []fga.Tuple) {
	var ts, cx []fga.Tuple
	add := func(o, r, u string) { ts = append(ts, fga.Tuple{Obj: o, Rel: r, User: u}) }
	name := func(i int) string { return fmt.Sprintf("group:g%02d", i) }
	last := sh.groups - 1
	// anne is a member of every group but g01 (the one the document points at when the answer must be "no")
	for i := 0; i < sh.groups; i++ {
		if i != 1 || sh.hit {
			add(name(i), "member", "user:anne")
		}
	}
	switch sh.dupEnd {
	case 1:
		add(name(last), "member", "user:*")
	case 2:
		add(name(0), "member", "user:*")
	case 3:
		add(name(last/2), "member", "user:*")
	}
	switch sh.ctxDup {
	case 1:
		cx = append(cx, fga.Tuple{Obj: name(last), Rel: "member", User: "user:anne"})
	case 2:
		cx = append(cx, fga.Tuple{Obj: name(0), Rel: "member", User: "user:anne"})
	case 3:
		cx = append(cx, fga.Tuple{Obj: "group:zz", Rel: "member", User: "user:anne"})
	}
	add("doc:1", "viewer", name(1)+"#member")
	add("doc:1", "gparent", name(1))
	// teams: a chain t0 <- t1 <- … ; anne sits at the far end (hit) or nowhere
	for i := 0; i+1 < sh.teamLen; i++ {
		add(fmt.Sprintf("team:t%d", i), "member", fmt.Sprintf("team:t%d#member", i+1))
	}
	if sh.hit {
		add(fmt.Sprintf("team:t%d", sh.teamLen-1), "member", "user:anne")
	} else {
		add("team:other", "member", "user:anne")
	}
	add("doc:1", "tviewer", "team:t0#member")
	for i := 0; i < sh.parents; i++ {
		f := fmt.Sprintf("folder:p%02d", i)
		add("doc:1", "parent", f)
		if sh.hit || i%2 == 1 {
			add(f, "viewer", name(0)+"#member")
		}
		if sh.hit && i == 0 {
			add(f, "viewer", "user:anne")
		}
	}
	for i := 0; i < sh.many; i++ {
		add("doc:1", "allowed", fmt.Sprintf("user:u%02d", i))
		if i%5 != 4 {
			add("doc:1", "editor", fmt.Sprintf("user:u%02d", i))
		}
	}
	if sh.hit {
		add("doc:1", "allowed", "user:anne")
		add("doc:1", "editor", "user:anne")
	}
	if sh.wildcard {
		add("doc:1", "allowed", "user:*")
	}
	return ts, cx
}

var resEnc = ""

func resLine(cfg string, seed int, fault, rpc string, repeats int, mode string, ms int, sh resShape, rel, user string) string {
	if resEnc == "" {
		resEnc = resModel().Encode()
	}
	ts, cx := resWorld(sh)
	rq := fga.Req{Obj: "doc:1", Rel: rel, User: user}
	return fmt.Sprintf("c20 %s res %d %s %s %d %s %d %s %s %s %s", cfg, seed, fault, rpc, repeats, mode, ms, resEnc,
		fga.EncodeTuples("tuples", ts), fga.EncodeTuples("ctx", cx), rq.Encode())
}

// craftedRes: the shapes that matter, in every run
func craftedRes(bigEnc string) []string {
	base := resShape{groups: 4, parents: 3, many: 25, teamLen: 3}
	end := base
	end.dupEnd = 1
	ctxEnd := base
	ctxEnd.ctxDup = 1
	hit := base
	hit.hit = true
	var out []string
	k := 0
	next := func() int { k++; return 900000 + k }
	for _, cfg := range []string{"v1", "v2"} {
		// a sorted read that ENDS on a duplicate object; nobody has access, so every iterator is drained
		for _, rel := range []string{"viewer", "viag"} {
			out = append(out, resLine(cfg, next(), "-", "check", 6, "none", 0, end, rel, "user:anne"))
			out = append(out, resLine(cfg, next(), "-", "check", 6, "none", 0, ctxEnd, rel, "user:anne"))
		}
		out = append(out, resLine(cfg, next(), "-", "check", 3, "none", 0, end, "tviewer", "user:anne"))
		out = append(out, resLine(cfg, next(), "-", "batch", 2, "none", 0, end, "mix", "user:anne"))
	}
	// collectors that stop reading at max-results while the expansion has many more results
	for _, rel := range []string{"both", "either", "minus", "mix"} {
		out = append(out, resLine("cut", next(), "-", "listusers", 2, "none", 0, hit, rel, "user:anne"))
	}
	out = append(out, resLine("cut", next(), "-", "listobjects", 2, "none", 0, hit, "mix", "user:anne"))
	// a fault in the middle of a streamed read
	for _, f := range []string{"err1", "err2", "cancel2"} {
		out = append(out, resLine("v1", next(), f, "expand", 1, "none", 0, base, "via", "user:anne"))
		out = append(out, resLine("v1", next(), f, "expand", 1, "none", 0, base, "mix", "user:anne"))
		out = append(out, resLine("v1", next(), f, "check", 2, "none", 0, base, "via", "user:anne"))
		out = append(out, resLine("v1", next(), f, "listusers", 1, "none", 0, hit, "mix", "user:anne"))
		out = append(out, resLine("v1", next(), f, "listobjects", 1, "none", 0, hit, "mix", "user:anne"))
	}
	out = append(out, resLine("pipe", next(), "err2", "listobjects", 1, "none", 0, hit, "mix", "user:anne"))
	out = append(out, resLine("v1", next(), "-", "read", 1, "none", 0, base, "parent", "user:anne"))
	// wide fan-out with an early hit and NO deadline: tuple-to-userset (variant 3 = via) and userset (variant 0 = viewer)
	for _, cfg := range []string{"v1", "cache"} {
		out = append(out, fmt.Sprintf("c20 %s wide 300 - check 3 none 0 %s", cfg, bigEnc))
		out = append(out, fmt.Sprintf("c20 %s wide 300 - check 0 none 0 %s", cfg, bigEnc))
	}
	return out
}

func genRes(c *hx.Rand, cfgs []string) (string, string) {
	sh := resShape{groups: 2 + c.Intn(5), parents: 1 + c.Intn(6), many: hx.Pick(c, []int{0, 3, 7, 8, 25}), teamLen: 1 + c.Intn(4),
		dupEnd: hx.Pick(c, []int{0, 1, 1, 2, 3}), ctxDup: hx.Pick(c, []int{0, 0, 1, 1, 2, 3}), hit: c.Chance(1, 3), wildcard: c.Chance(1, 4)}
	cfg := hx.Pick(c, append([]string{"cut", "cut", "opt"}, cfgs...))
	rpc := hx.Pick(c, []string{"check", "check", "check", "batch", "listobjects", "streamed", "listusers", "listusers", "expand", "expand", "read"})
	rel := hx.Pick(c, []string{"viewer", "viewer", "viag", "tviewer", "via", "both", "either", "minus", "mix"})
	user := hx.Pick(c, []string{"user:anne", "user:anne", "user:bob", "user:u03"})
	fault := "-"
	if c.Chance(2, 5) {
		fault = hx.Pick(c, []string{"err", "err", "cancel"}) + strconv.Itoa(1+c.Intn(5))
	}
	repeats := 1
	if rpc == "check" && fault == "-" {
		repeats = 4
	}
	mode, ms := "none", 0
	if c.Chance(1, 4) {
		mode, ms = pickMode(c, true)
	}
	return resLine(cfg, 1000+c.Intn(1<<20), fault, rpc, repeats, mode, ms, sh, rel, user), rpc
}

func gen(r *hx.Rand, n int, tier string, emit func(string), st *hx.Stats) {
	big := bigModel()
	bigEnc := big.Encode()
	for _, l := range craftedRes(bigEnc) {
		emit(l)
		st.Inc("crafted-resources")
	}
	maxRing, maxFan := 60, 300
	treeB, treeD := 4, 9
	if tier == "thorough" {
		maxRing, maxFan = 200, 2000
		treeB, treeD = 5, 11
	}
	cfgs := []string{"v1", "v1", "b1", "b1", "v2", "pipe", "cache"}
	rpcs := []string{"check", "check", "batch", "listobjects", "streamed", "listusers", "expand"}
	for i := 0; i < n; i++ {
		c := r.Fork()
		cfg := hx.Pick(c, cfgs)
		rpc := hx.Pick(c, rpcs)
		variant := c.Intn(30)
		var family string
		var p1 int
		p2 := "-"
		tail := ""
		heavy := false
		switch c.Intn(10) {
		case 8, 9:
			l, rrpc := genRes(c, cfgs)
			emit(l)
			st.Inc("res")
			st.Inc("rpc:" + rrpc)
			continue
		case 0, 1:
			family = "ring"
			p1 = hx.Pick(c, []int{2, 3, 7, 24, 25, 26, maxRing / 2, maxRing})
		case 2, 3:
			family = "fan"
			p1 = hx.Pick(c, []int{1, 9, 10, 11, 50, maxFan / 2, maxFan})
		case 4, 5:
			family = "tree"
			p1 = 2 + c.Intn(treeB-1)
			d := 3 + c.Intn(treeD-2)
			p2 = strconv.Itoa(d)
			heavy = true
			if c.Chance(2, 3) {
				variant = hx.Pick(c, []int{7, 8, 9, 23, 24}) // nobody has access: every path is explored
			}
		default:
			family = "rand"
			seed := c.Intn(1 << 30)
			p1 = seed
			rr := hx.NewRand(uint64(seed))
			m, _ := fga.GenModel(rr, fga.DefaultOpts())
			if len(m.Types) < 2 {
				i--
				continue
			}
			tuples := fga.GenTuples(rr, m, 4+rr.Intn(14))
			rq := fga.GenReq(rr, m, tuples)
			p2 = strconv.Itoa(len(tuples))
			mode, ms := pickMode(c, false)
			emit(fmt.Sprintf("c20 %s rand %d %s %s %d %s %d %s %s %s", cfg, p1, p2, rpc, variant, mode, ms, m.Encode(), fga.EncodeTuples("tuples", tuples), rq.Encode()))
			st.Inc("rand")
			st.Inc("mode:" + mode)
			continue
		}
		mode, ms := pickMode(c, heavy)
		if cfg == "b1" && !heavy && (rpc == "check" || rpc == "batch") && c.Chance(3, 4) {
			// pool of one and no deadline: a sender that blocks on its channel blocks the whole reducer for good
			mode, ms = "none", 0
		}
		emit(fmt.Sprintf("c20 %s %s %d %s %s %d %s %d %s%s", cfg, family, p1, p2, rpc, variant, mode, ms, bigEnc, tail))
		st.Inc(family)
		st.Inc("mode:" + mode)
		st.Inc("rpc:" + rpc)
		st.Inc("cfg:" + cfg)
	}
}

// pickMode: heavy graphs (exponentially many paths) always get a deadline or a cancellation
func pickMode(c *hx.Rand, heavy bool) (string, int) {
	k := c.Intn(10)
	switch {
	case k < 3 && !heavy:
		return "none", 0
	case k < 7:
		return "deadline", hx.Pick(c, []int{0, 1, 2, 5, 10, 20, 50, 100, 200})
	default:
		return "cancel", hx.Pick(c, []int{0, 1, 3, 7, 15, 40, 120})
	}
}

func main() {
	if v := os.Getenv("C20_SLACK_MS"); v != "" {
		if n, err := strconv.Atoi(v); err == nil {
			slack = time.Duration(n) * time.Millisecond
		}
	}
	for _, a := range os.Args {
		if a == "thorough" {
			hangCap = 30 * time.Second
			maxKnownShapeHangs = 2
		}
	}
	hx.Main(hx.Harness{Gen: gen, Exec: exec})
}
