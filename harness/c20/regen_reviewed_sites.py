#!/usr/bin/env python3
"""Regenerate `reviewedStopSites` in lean/OpenFGAVerif/Props/C20.lean from the current Gen/Release.lean.

Run it AFTER reviewing the diff of Gen/Release.lean (every new / changed iterator-obtaining site must have a covering
disposition for a reason you agree with): it only copies the table.
    python3 harness/c20/regen_reviewed_sites.py
"""
import os, re
root = os.path.dirname(os.path.dirname(os.path.dirname(os.path.abspath(__file__))))
gen = open(os.path.join(root, "lean/OpenFGAVerif/Gen/Release.lean")).read()
sites = re.search(r"def stopSites : List \(String × String × String × String × String\) := \[\n(.*?)\n\]\n", gen, re.S).group(1)
p = os.path.join(root, "lean/OpenFGAVerif/Props/C20.lean")
s = open(p).read()
s2 = re.sub(r"(def reviewedStopSites : List \(String × String × String × String × String\) := \[\n)(.*?)(\n\]\n)",
            lambda m: m.group(1) + sites + m.group(3), s, count=1, flags=re.S)
if s2 != s:
    open(p, "w").write(s2)
    print("reviewedStopSites updated")
else:
    print("reviewedStopSites unchanged")
