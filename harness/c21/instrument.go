package main

// Source instrumentation for C21: inserts the add-only `verifhook` call sites into
// reporting.go, cycle.go, basic.go and pipeline.go of a repository tree.
//
// Two uses:
//   - `c21 instrument-into <tree>` writes the instrumented files and the hook package into a
//     scratch worktree; `git diff` of that worktree is /verif/hooks/c21.patch (the patch the
//     coordinator may commit to /repo);
//   - at run time, when the repository under test does not contain the hooks yet, the same
//     insertion is applied to copies of the *current* sources and handed to `go build -overlay`,
//     so that the event trace comes from the code as it is today (mutations included).
//
// The insertion is purely additive: every inserted line is inside an `if verifhook.Enabled { … }`
// block (or is that block's import).  A site whose anchor statement is no longer present is skipped;
// the trace acceptor then notices the missing events.

import (
	"bytes"
	"fmt"
	"go/ast"
	"go/parser"
	"go/printer"
	"go/token"
	"os"
	"path/filepath"
	"sort"
	"strings"
)

const hookImport = "github.com/openfga/openfga/internal/listobjects/pipeline/internal/verifhook"
const pipelineDir = "internal/listobjects/pipeline"

var hookedFiles = []string{
	pipelineDir + "/internal/track/reporting.go",
	pipelineDir + "/internal/worker/cycle.go",
	pipelineDir + "/internal/worker/basic.go",
	pipelineDir + "/pipeline.go",
}

type insertion struct {
	off  int    // byte offset (always a line start)
	text string // complete lines
	seq  int
}

type instr struct {
	fset  *token.FileSet
	file  *ast.File
	src   []byte
	ins   []insertion
	sites []string
}

func (x *instr) text(n ast.Node) string {
	var sb strings.Builder
	_ = printer.Fprint(&sb, x.fset, n)
	return strings.Join(strings.Fields(sb.String()), " ")
}

func (x *instr) lineStart(pos token.Pos) int {
	off := x.fset.Position(pos).Offset
	for off > 0 && x.src[off-1] != '\n' {
		off--
	}
	return off
}

func (x *instr) lineEnd(pos token.Pos) int { // offset just after the newline that ends the line containing pos
	off := x.fset.Position(pos).Offset
	for off < len(x.src) && x.src[off] != '\n' {
		off++
	}
	if off < len(x.src) {
		off++
	}
	return off
}

func (x *instr) indentOf(pos token.Pos) string {
	s := x.lineStart(pos)
	e := s
	for e < len(x.src) && (x.src[e] == '\t' || x.src[e] == ' ') {
		e++
	}
	return string(x.src[s:e])
}

func block(indent string, body ...string) string {
	var sb strings.Builder
	sb.WriteString(indent + "if verifhook.Enabled {\n")
	for _, b := range body {
		sb.WriteString(indent + "\t" + b + "\n")
	}
	sb.WriteString(indent + "}\n")
	return sb.String()
}

func (x *instr) before(st ast.Stmt, site string, body ...string) {
	x.ins = append(x.ins, insertion{x.lineStart(st.Pos()), block(x.indentOf(st.Pos()), body...), len(x.ins)})
	x.sites = append(x.sites, site)
}

func (x *instr) after(st ast.Stmt, site string, body ...string) {
	x.ins = append(x.ins, insertion{x.lineEnd(st.End() - 1), block(x.indentOf(st.Pos()), body...), len(x.ins)})
	x.sites = append(x.sites, site)
}

func (x *instr) bodyStart(fd *ast.FuncDecl, site string, body ...string) {
	if len(fd.Body.List) == 0 {
		return
	}
	x.before(fd.Body.List[0], site, body...)
}

func (x *instr) bodyEnd(fd *ast.FuncDecl, site string, body ...string) {
	if len(fd.Body.List) == 0 {
		return
	}
	last := fd.Body.List[len(fd.Body.List)-1]
	ind := x.indentOf(fd.Body.List[0].Pos())
	x.ins = append(x.ins, insertion{x.lineStart(fd.Body.Rbrace), block(ind, body...), len(x.ins)})
	_ = last
	x.sites = append(x.sites, site)
}

func recvName(fd *ast.FuncDecl) string {
	if fd.Recv == nil || len(fd.Recv.List) != 1 {
		return ""
	}
	t := fd.Recv.List[0].Type
	if s, ok := t.(*ast.StarExpr); ok {
		t = s.X
	}
	if ix, ok := t.(*ast.IndexExpr); ok {
		t = ix.X
	}
	if id, ok := t.(*ast.Ident); ok {
		return id.Name
	}
	return ""
}

func (x *instr) fn(recv, name string) *ast.FuncDecl {
	for _, d := range x.file.Decls {
		if fd, ok := d.(*ast.FuncDecl); ok && fd.Name.Name == name && recvName(fd) == recv && fd.Body != nil {
			return fd
		}
	}
	return nil
}

// stmts returns every statement (at any depth, function literals included) of n whose one-line text satisfies pred.
func (x *instr) stmts(n ast.Node, pred func(string, ast.Stmt) bool) []ast.Stmt {
	var out []ast.Stmt
	ast.Inspect(n, func(m ast.Node) bool {
		if st, ok := m.(ast.Stmt); ok {
			switch st.(type) {
			case *ast.BlockStmt, *ast.IfStmt, *ast.ForStmt, *ast.RangeStmt, *ast.SelectStmt, *ast.SwitchStmt, *ast.CaseClause, *ast.CommClause, *ast.LabeledStmt:
			default:
				if pred(x.text(st), st) {
					out = append(out, st)
				}
			}
		}
		return true
	})
	return out
}

func eq(s string) func(string, ast.Stmt) bool {
	return func(t string, _ ast.Stmt) bool { return t == s }
}

func (x *instr) addImport() error {
	// already imported?
	for _, im := range x.file.Imports {
		if strings.Trim(im.Path.Value, `"`) == hookImport {
			return nil
		}
	}
	var decl *ast.GenDecl
	for _, d := range x.file.Decls {
		if gd, ok := d.(*ast.GenDecl); ok && gd.Tok == token.IMPORT && gd.Lparen.IsValid() {
			decl = gd
			break
		}
	}
	if decl == nil {
		return fmt.Errorf("no parenthesised import block")
	}
	line := "\t\"" + hookImport + "\"\n"
	// sorted position inside the group of github.com/openfga/openfga imports, if there is one
	var group []*ast.ImportSpec
	for _, s := range decl.Specs {
		is := s.(*ast.ImportSpec)
		if strings.HasPrefix(strings.Trim(is.Path.Value, `"`), "github.com/openfga/openfga/") {
			group = append(group, is)
		}
	}
	if len(group) > 0 {
		for _, is := range group {
			if strings.Trim(is.Path.Value, `"`) > hookImport {
				x.ins = append(x.ins, insertion{x.lineStart(is.Pos()), line, len(x.ins)})
				return nil
			}
		}
		lastSpec := group[len(group)-1]
		x.ins = append(x.ins, insertion{x.lineEnd(lastSpec.End() - 1), line, len(x.ins)})
		return nil
	}
	x.ins = append(x.ins, insertion{x.lineStart(decl.Rparen), "\n" + line, len(x.ins)})
	return nil
}

func (x *instr) apply() []byte {
	sort.SliceStable(x.ins, func(i, j int) bool {
		if x.ins[i].off != x.ins[j].off {
			return x.ins[i].off < x.ins[j].off
		}
		return x.ins[i].seq < x.ins[j].seq
	})
	var out bytes.Buffer
	prev := 0
	for _, in := range x.ins {
		out.Write(x.src[prev:in.off])
		out.WriteString(in.text)
		prev = in.off
	}
	out.Write(x.src[prev:])
	return out.Bytes()
}

// instrumentFile returns the instrumented source of one of the hooked files, the list of sites that were
// instrumented, and whether the file already contained hooks (then it is returned unchanged).
func instrumentFile(rel string, src []byte) ([]byte, []string, bool, error) {
	if bytes.Contains(src, []byte("verifhook.")) {
		return src, nil, true, nil
	}
	fset := token.NewFileSet()
	f, err := parser.ParseFile(fset, rel, src, parser.ParseComments)
	if err != nil {
		return nil, nil, false, err
	}
	x := &instr{fset: fset, file: f, src: src}
	lockBlock := []string{"verifhook.Lock()", "defer verifhook.Unlock()"}
	switch filepath.Base(rel) {
	case "reporting.go":
		if fd := x.fn("StatusPool", "inc"); fd != nil {
			x.bodyStart(fd, "sp.inc", "verifhook.Lock()",
				`defer func() { verifhook.Event("sp.inc", sp, sp.inflight.Load()); verifhook.Unlock() }()`)
		}
		if fd := x.fn("StatusPool", "dec"); fd != nil {
			x.bodyStart(fd, "sp.dec.lock", lockBlock...)
			for _, st := range x.stmts(fd.Body, func(t string, st ast.Stmt) bool {
				as, ok := st.(*ast.AssignStmt)
				return ok && len(as.Lhs) == 1 && strings.Contains(t, "sp.inflight.Add(")
			}) {
				lhs := x.text(st.(*ast.AssignStmt).Lhs[0])
				x.after(st, "sp.dec", `verifhook.Event("sp.dec", sp, `+lhs+`)`)
				break
			}
			for _, st := range x.stmts(fd.Body, eq("close(sp.quiescence)")) {
				x.before(st, "sp.latch", `verifhook.Event("sp.latch", sp)`)
			}
		}
		if fd := x.fn("StatusPool", "set"); fd != nil {
			if un := x.stmts(fd.Body, eq("defer sp.mu.Unlock()")); len(un) > 0 {
				x.after(un[0], "sp.set.lock", lockBlock...)
			} else {
				x.bodyStart(fd, "sp.set.lock", lockBlock...)
			}
			for _, st := range x.stmts(fd.Body, eq("sp.pool[index] = false")) {
				x.after(st, "sp.report", `verifhook.Event("sp.report", sp, index)`)
			}
			for _, st := range x.stmts(fd.Body, eq("close(sp.ready)")) {
				x.before(st, "sp.ready", `verifhook.Event("sp.ready", sp)`)
			}
		}
	case "cycle.go":
		if fd := x.fn("CycleGroup", "Join"); fd != nil {
			rets := x.stmts(fd.Body, func(t string, st ast.Stmt) bool { _, ok := st.(*ast.ReturnStmt); return ok })
			if len(rets) > 0 {
				x.before(rets[len(rets)-1], "cg.join", `verifhook.Event("cg.join", g.statusPool, &m, label)`)
			}
		}
		if fd := x.fn("Membership", "SignalReady"); fd != nil {
			x.bodyStart(fd, "m.sr.begin", `verifhook.Event("m.sr.begin", m)`)
			x.bodyEnd(fd, "m.sr.end", `verifhook.Event("m.sr.end", m)`)
		}
		if fd := x.fn("Membership", "WaitForAllReady"); fd != nil {
			x.bodyStart(fd, "m.wait.end", `defer verifhook.Event("m.wait.end", m)`)
		}
		if fd := x.fn("Membership", "Sleep"); fd != nil {
			x.bodyEnd(fd, "m.sleep.end", `verifhook.Event("m.sleep.end", m)`)
		}
		if fd := x.fn("Membership", "Wake"); fd != nil {
			x.bodyStart(fd, "m.wake", "verifhook.Lock()", "defer verifhook.Unlock()", `verifhook.Event("m.wake", m)`)
			for _, st := range x.stmts(fd.Body, eq("close(m.wake)")) {
				x.before(st, "m.wake.close", `verifhook.Event("m.wake.close", m)`)
			}
		}
	case "basic.go":
		if fd := x.fn("Basic", "Execute"); fd != nil {
			for _, st := range x.stmts(fd.Body, eq("wgStandard.Wait()")) {
				x.after(st, "ex.stddone", `verifhook.Event("ex.stddone", w.Membership)`)
			}
			for _, st := range x.stmts(fd.Body, eq("defer wgRecursive.Wait()")) {
				x.before(st, "ex.exit", `defer verifhook.Event("ex.exit", w.Membership)`)
			}
			for _, st := range x.stmts(fd.Body, eq("w.Cleanup()")) {
				x.before(st, "ex.cleanup.begin", `verifhook.Event("ex.cleanup.begin", w.Membership)`)
				x.after(st, "ex.cleanup.end", `verifhook.Event("ex.cleanup.end", w.Membership)`)
			}
		}
	case "pipeline.go":
		if fd := x.fn("", "createWorker"); fd != nil {
			for _, st := range x.stmts(fd.Body, eq("basic.Membership.Inc()")) {
				x.after(st, "msg.inc", "src, dst := worker.EdgeLabels(e)", `verifhook.Event("msg.inc", basic.Membership, m, src, dst, m.Value)`)
			}
			for _, st := range x.stmts(fd.Body, eq("basic.Membership.Dec()")) {
				x.before(st, "msg.done", `verifhook.Event("msg.done", basic.Membership, m)`)
			}
		}
		if fd := x.fn("Builder", "Build"); fd != nil {
			for _, st := range x.stmts(fd.Body, func(t string, _ ast.Stmt) bool {
				return strings.HasPrefix(t, "subscriber.Listen(w.Subscribe(current.edge")
			}) {
				x.after(st, "pl.edge", "src, dst := worker.EdgeLabels(current.edge)",
					`verifhook.Event("pl.edge", src, dst, worker.IsCyclical(current.edge))`)
			}
		}
	default:
		return nil, nil, false, fmt.Errorf("no instrumentation rules for %s", rel)
	}
	if len(x.ins) == 0 {
		return nil, nil, false, fmt.Errorf("%s: no instrumentation site found", rel)
	}
	if err := x.addImport(); err != nil {
		return nil, nil, false, fmt.Errorf("%s: %w", rel, err)
	}
	out := x.apply()
	// the result must still parse
	if _, err := parser.ParseFile(token.NewFileSet(), rel, out, 0); err != nil {
		return nil, nil, false, fmt.Errorf("%s: instrumented source does not parse: %w", rel, err)
	}
	return out, x.sites, false, nil
}

// hookPackageFiles returns name -> content of the verifhook package (kept as *.go.txt next to the harness).
func hookPackageFiles(harnessDir string) (map[string][]byte, error) {
	out := map[string][]byte{}
	for _, n := range []string{"verifhook_verif.go", "verifhook_noverif.go"} {
		b, err := os.ReadFile(filepath.Join(harnessDir, "hooksrc", n+".txt"))
		if err != nil {
			return nil, err
		}
		out[n] = b
	}
	return out, nil
}

// instrumentInto writes the hooks into a (scratch) tree: used to produce /verif/hooks/c21.patch.
func instrumentInto(tree, harnessDir string) error {
	for _, rel := range hookedFiles {
		p := filepath.Join(tree, rel)
		src, err := os.ReadFile(p)
		if err != nil {
			return err
		}
		out, sites, already, err := instrumentFile(rel, src)
		if err != nil {
			return err
		}
		if already {
			fmt.Printf("%s: already hooked\n", rel)
			continue
		}
		if err := os.WriteFile(p, out, 0o644); err != nil {
			return err
		}
		fmt.Printf("%s: %d sites: %s\n", rel, len(sites), strings.Join(sites, " "))
	}
	files, err := hookPackageFiles(harnessDir)
	if err != nil {
		return err
	}
	dir := filepath.Join(tree, pipelineDir, "internal", "verifhook")
	if err := os.MkdirAll(dir, 0o755); err != nil {
		return err
	}
	for n, b := range files {
		if err := os.WriteFile(filepath.Join(dir, n), b, 0o644); err != nil {
			return err
		}
	}
	return nil
}
