// Harness for C21 (cycle-group teardown of the streaming ListObjects pipeline).
//
// The code under test lives behind two `internal` boundaries
// (internal/listobjects/pipeline/internal/{track,worker}), which the harness module cannot import.
// Exec therefore drives a helper process that is compiled *inside* the repository tree with
// `go build -overlay` (nothing is written to the repository): drvsrc/*.go.txt become the package
// internal/listobjects/pipeline/internal/verifdrv.  When the repository does not contain the
// `verifhook` call sites (see /verif/hooks/c21.patch), the same overlay carries instrumented copies of
// the *current* reporting.go / cycle.go / basic.go / pipeline.go (instrument.go), so that real pipeline
// runs yield an event trace either way; once the hooks are committed the files are used as they are.
//
// Case kinds (one line each):
//
//	pool  <ops…>                                raw StatusPool script (single goroutine), compared exactly with Model.Cycle.Pool
//	raw   <n> - <ops…>                          CycleGroup/Membership script, arbitrary op order, compared with the primitives
//	sched <n> <outs> <ops…>                     a schedule of the protocol (valid for the transition system), executed on the
//	                                            real CycleGroup; observations compared, property checked on the observations
//	pipe  <shape> <k> <entries> <selfs> <objType> <relation> <chunk> <procs> <buf> <user> <tuples…>
//	                                            real pipeline on a cyclic model: result set, termination, event trace
//	search <n> <outs> <depth> <incs>            model-side bounded search for a bad interleaving (no implementation call)
package main

import (
	"bufio"
	"crypto/sha256"
	"encoding/hex"
	"encoding/json"
	"fmt"
	"io"
	"os"
	"os/exec"
	"path/filepath"
	"runtime"
	"strconv"
	"strings"
	"sync"
	"time"

	"github.com/openfga/openfga/verifharness/hx"
)

func repoDir() string {
	if r := os.Getenv("VERIF_REPO"); r != "" {
		return r
	}
	return "/repo"
}

func harnessDir() string {
	if _, file, _, ok := runtime.Caller(0); ok {
		if _, err := os.Stat(filepath.Join(filepath.Dir(file), "drvsrc")); err == nil {
			return filepath.Dir(file)
		}
	}
	return "/verif/harness/c21"
}

func verifRoot() string { return filepath.Dir(filepath.Dir(harnessDir())) }

// ---- helper process ----------------------------------------------------------------------------------------

type helper struct {
	cmd    *exec.Cmd
	in     io.WriteCloser
	out    *bufio.Reader
	banner string
}

var (
	helperOnce  sync.Once
	helperExe   string
	helperErr   string
	helperNote  string // "hooks=repo" | "hooks=overlay" | "hooks=none:<why>"
	current     *helper
	helperMutex sync.Mutex
)

func buildHelper() {
	repo := repoDir()
	hd := harnessDir()
	tag := hex.EncodeToString(func() []byte { h := sha256.Sum256([]byte(repo)); return h[:4] }())
	work := filepath.Join(verifRoot(), ".build", "work", "c21drv-"+tag)
	_ = os.MkdirAll(work, 0o755)
	overlay := map[string]string{}
	drvDir := filepath.Join(repo, pipelineDir, "internal", "verifdrv")
	for _, n := range []string{"main.go", "trace_on.go", "trace_off.go"} {
		overlay[filepath.Join(drvDir, n)] = filepath.Join(hd, "drvsrc", n+".txt")
	}
	hooks := "repo"
	var why []string
	needPkg := false
	for _, rel := range hookedFiles {
		src, err := os.ReadFile(filepath.Join(repo, rel))
		if err != nil {
			why = append(why, err.Error())
			continue
		}
		out, _, already, err := instrumentFile(rel, src)
		if err != nil {
			why = append(why, err.Error())
			continue
		}
		if already {
			continue
		}
		hooks = "overlay"
		needPkg = true
		p := filepath.Join(work, strings.ReplaceAll(rel, "/", "__"))
		if err := os.WriteFile(p, out, 0o644); err != nil {
			why = append(why, err.Error())
			continue
		}
		overlay[filepath.Join(repo, rel)] = p
	}
	pkgDir := filepath.Join(repo, pipelineDir, "internal", "verifhook")
	if _, err := os.Stat(pkgDir); err != nil {
		needPkg = true
	} else {
		needPkg = false
	}
	if needPkg {
		for _, n := range []string{"verifhook_verif.go", "verifhook_noverif.go"} {
			overlay[filepath.Join(pkgDir, n)] = filepath.Join(hd, "hooksrc", n+".txt")
		}
	}
	tags := "verif,verifhooks"
	if len(why) > 0 {
		// no trace: build the helper against the plain sources
		hooks = "none:" + strings.ReplaceAll(strings.Join(why, ";"), " ", "_")
		tags = "verif"
		for k := range overlay {
			if !strings.HasPrefix(k, drvDir) {
				delete(overlay, k)
			}
		}
	}
	helperNote = "hooks=" + hooks
	ovPath := filepath.Join(work, "overlay.json")
	b, _ := json.MarshalIndent(map[string]interface{}{"Replace": overlay}, "", " ")
	if err := os.WriteFile(ovPath, b, 0o644); err != nil {
		helperErr = err.Error()
		return
	}
	exe := filepath.Join(work, "drv")
	cmd := exec.Command("go", "build", "-mod=readonly", "-tags", tags, "-overlay", ovPath, "-o", exe,
		"./"+pipelineDir+"/internal/verifdrv")
	cmd.Dir = repo
	env := os.Environ()
	env = append(env, "GOFLAGS=", "GOPROXY=off", "CGO_ENABLED=0")
	cmd.Env = env
	outb, err := cmd.CombinedOutput()
	if err != nil {
		msg := strings.Join(strings.Fields(string(outb)), " ")
		if len(msg) > 600 {
			msg = msg[:600]
		}
		helperErr = "go build of the in-tree driver failed: " + msg
		return
	}
	helperExe = exe
}

func startHelper() (*helper, error) {
	cmd := exec.Command(helperExe)
	cmd.Stderr = nil
	in, err := cmd.StdinPipe()
	if err != nil {
		return nil, err
	}
	outp, err := cmd.StdoutPipe()
	if err != nil {
		return nil, err
	}
	if err := cmd.Start(); err != nil {
		return nil, err
	}
	h := &helper{cmd: cmd, in: in, out: bufio.NewReaderSize(outp, 1<<20)}
	banner, err := h.out.ReadString('\n')
	if err != nil {
		return nil, err
	}
	h.banner = strings.TrimSpace(banner)
	return h, nil
}

func (h *helper) call(line string, timeout time.Duration) (string, error) {
	if _, err := io.WriteString(h.in, line+"\n"); err != nil {
		return "", err
	}
	type res struct {
		s   string
		err error
	}
	ch := make(chan res, 1)
	go func() {
		s, err := h.out.ReadString('\n')
		ch <- res{s, err}
	}()
	select {
	case r := <-ch:
		return strings.TrimRight(r.s, "\r\n"), r.err
	case <-time.After(timeout):
		return "", fmt.Errorf("helper did not answer within %s", timeout)
	}
}

func callHelper(line string) string {
	helperOnce.Do(buildHelper)
	if helperErr != "" {
		return "HELPER-BUILD-FAILED " + helperErr
	}
	helperMutex.Lock()
	defer helperMutex.Unlock()
	for attempt := 0; attempt < 2; attempt++ {
		if current == nil {
			h, err := startHelper()
			if err != nil {
				return "HELPER-START-FAILED " + strings.ReplaceAll(err.Error(), "\t", " ")
			}
			current = h
		}
		s, err := current.call(line, 60*time.Second)
		if err == nil {
			return s
		}
		_ = current.cmd.Process.Kill()
		_ = current.cmd.Wait()
		current = nil
		if attempt == 1 || !strings.HasPrefix(line, "pool") {
			return "HELPER-DIED " + strings.ReplaceAll(err.Error(), "\t", " ")
		}
	}
	return "HELPER-DIED"
}

// ---- generator ------------------------------------------------------------------------------------------------

func genPool(c *hx.Rand) string {
	var ops []string
	regs := 0
	reported := false
	n := 2 + c.Intn(13)
	pre := c.Intn(4)
	for i := 0; i < pre; i++ {
		ops = append(ops, "g")
		regs++
	}
	for len(ops) < n+pre {
		if regs == 0 || (!reported && c.Chance(1, 8)) {
			if regs == 0 && c.Chance(1, 3) {
				break
			}
			ops = append(ops, "g")
			regs++
			continue
		}
		r := c.Intn(regs)
		switch c.Intn(5) {
		case 0, 1:
			ops = append(ops, "i"+strconv.Itoa(r))
		case 2, 3:
			ops = append(ops, "d"+strconv.Itoa(r))
		default:
			ops = append(ops, "r"+strconv.Itoa(r))
			reported = true
		}
	}
	return "pool " + strings.Join(ops, " ")
}

func genRaw(c *hx.Rand) string {
	n := 1 + c.Intn(5)
	var ops []string
	l := 2 + c.Intn(14)
	for i := 0; i < l; i++ {
		m := strconv.Itoa(c.Intn(n))
		switch c.Intn(8) {
		case 0, 1:
			ops = append(ops, "I"+m+".0")
		case 2, 3:
			ops = append(ops, "D"+m+".0")
		case 4, 5, 6:
			ops = append(ops, "Y"+m)
		default:
			ops = append(ops, "K"+m)
		}
	}
	return fmt.Sprintf("raw %d - %s", n, strings.Join(ops, " "))
}

func genTopo(c *hx.Rand, n int) ([][]int, string) {
	outs := make([][]int, n)
	for i := 0; i < n; i++ {
		switch c.Intn(4) {
		case 0:
		case 1, 2:
			outs[i] = []int{(i + 1) % n}
		default:
			outs[i] = []int{c.Intn(n), c.Intn(n)}
		}
	}
	if n > 0 && len(outs[n-1]) == 0 {
		outs[n-1] = []int{0}
	}
	return outs, encOuts(outs)
}

func encOuts(outs [][]int) string {
	var parts []string
	for i, o := range outs {
		if len(o) == 0 {
			continue
		}
		ds := make([]string, len(o))
		for j, d := range o {
			ds[j] = strconv.Itoa(d)
		}
		parts = append(parts, strconv.Itoa(i)+">"+strings.Join(ds, "."))
	}
	if len(parts) == 0 {
		return "-"
	}
	return strings.Join(parts, ";")
}

// genSched walks the protocol with a small bookkeeping copy of the enabling rules (the Lean driver re-validates the
// schedule with Model.Cycle.step, so a mistake here only produces SKIPs).
func genSched(c *hx.Rand) string {
	n := 1 + c.Intn(5)
	outs, enc := genTopo(c, n)
	const (
		running = iota
		waiting
		passed
		done
	)
	pc := make([]int, n)
	wokenF := make([]bool, n)
	type msg struct{ i, k int }
	var msgs []msg
	inflight := n
	closed := false
	var ops []string
	steps := 4 + c.Intn(30)
	stopEarly := c.Chance(1, 4)
	for s := 0; s < 200; s++ {
		if stopEarly && len(ops) >= steps {
			break
		}
		type cand struct {
			op string
			w  int
			do func()
		}
		var cs []cand
		for i := 0; i < n; i++ {
			i := i
			active := pc[i] == running
			for _, m := range msgs {
				if outs[m.i][m.k] == i {
					active = true
				}
			}
			if active && len(outs[i]) > 0 && len(msgs) < 6 && len(ops) < steps {
				k := c.Intn(len(outs[i]))
				cs = append(cs, cand{fmt.Sprintf("I%d.%d", i, k), 3, func() { msgs = append(msgs, msg{i, k}); inflight++ }})
			}
			if pc[i] == running {
				cs = append(cs, cand{"Y" + strconv.Itoa(i), 2, func() {
					pc[i] = waiting
					inflight--
					if inflight == 0 {
						closed = true
					}
				}})
			}
			allReported := true
			for _, p := range pc {
				if p == running {
					allReported = false
				}
			}
			if pc[i] == waiting && closed && allReported {
				cs = append(cs, cand{"W" + strconv.Itoa(i), 3, func() { pc[i] = passed }})
			}
			if pc[i] == passed && (i == n-1 || wokenF[i]) {
				cs = append(cs, cand{"K" + strconv.Itoa(i), 3, func() {
					pc[i] = done
					nx := i - 1
					if i == 0 {
						nx = n - 1
					}
					wokenF[nx] = true
				}})
			}
		}
		for j, m := range msgs {
			j, m := j, m
			cs = append(cs, cand{fmt.Sprintf("D%d.%d", m.i, m.k), 2, func() {
				msgs = append(msgs[:j], msgs[j+1:]...)
				inflight--
				if inflight == 0 {
					closed = true
				}
			}})
		}
		if len(cs) == 0 {
			break
		}
		tot := 0
		for _, x := range cs {
			tot += x.w
		}
		r := c.Intn(tot)
		for _, x := range cs {
			if r < x.w {
				ops = append(ops, x.op)
				x.do()
				break
			}
			r -= x.w
		}
	}
	if len(ops) == 0 {
		ops = []string{"Y0"}
	}
	return fmt.Sprintf("sched %d %s %s", n, enc, strings.Join(ops, " "))
}

func genPipe(c *hx.Rand, tier string) string {
	ids := []string{"a", "b", "c", "d", "e"}
	nid := 2 + c.Intn(4)
	id := func() string { return ids[c.Intn(nid)] }
	user := func() string {
		if c.Chance(3, 4) {
			return "u0"
		}
		return "u1"
	}
	chunk := 1 + c.Intn(3)
	if c.Chance(1, 6) {
		chunk = 100
	}
	procs := 1 + c.Intn(4)
	buf := c.Intn(4)
	if c.Chance(1, 6) {
		buf = 128
	}
	nt := 3 + c.Intn(24)
	if tier == "thorough" && c.Chance(1, 10) {
		nt += 40
		nid = 5
	}
	var tuples []string
	var head string
	switch c.Intn(6) {
	case 0: // TTU cycle company <-> org below document
		types := []string{"company", "org"}
		for i := 0; i < nt; i++ {
			switch c.Intn(4) {
			case 0:
				tuples = append(tuples, fmt.Sprintf("%s:%s#employee@user:%s", hx.Pick(c, types), id(), user()))
			case 1, 2:
				tuples = append(tuples, fmt.Sprintf("%s:%s#parent@%s:%s", hx.Pick(c, types), id(), hx.Pick(c, types), id()))
			default:
				tuples = append(tuples, fmt.Sprintf("document:%s#parent@%s:%s", id(), hx.Pick(c, types), id()))
			}
		}
		head = "ttu 0 0 0 document viewer"
	case 1: // three mutually recursive relations, the queried one included
		for i := 0; i < nt; i++ {
			switch c.Intn(8) {
			case 0:
				tuples = append(tuples, fmt.Sprintf("team:%s#member@user:%s", id(), user()))
			case 1:
				tuples = append(tuples, fmt.Sprintf("org:%s#employee@user:%s", id(), user()))
			case 2:
				tuples = append(tuples, fmt.Sprintf("document:%s#viewer@team:%s#member", id(), id()))
			case 3:
				tuples = append(tuples, fmt.Sprintf("document:%s#viewer@org:%s#employee", id(), id()))
			case 4:
				tuples = append(tuples, fmt.Sprintf("team:%s#member@document:%s#viewer", id(), id()))
			case 5:
				tuples = append(tuples, fmt.Sprintf("team:%s#member@org:%s#employee", id(), id()))
			case 6:
				tuples = append(tuples, fmt.Sprintf("org:%s#employee@document:%s#viewer", id(), id()))
			default:
				tuples = append(tuples, fmt.Sprintf("org:%s#employee@team:%s#member", id(), id()))
			}
		}
		head = "mean 0 0 0 document viewer"
	default: // ring of k userset relations
		k := 1 + c.Intn(4)
		entries := c.Intn(1 << k)
		selfs := c.Intn(1 << k)
		inside := c.Chance(1, 3)
		for i := 0; i < nt; i++ {
			t := c.Intn(k)
			switch c.Intn(5) {
			case 0:
				tuples = append(tuples, fmt.Sprintf("t%d:%s#member@user:%s", t, id(), user()))
			case 1, 2, 3:
				tgt := (t + 1) % k
				if k == 1 || (selfs&(1<<t) != 0 && c.Chance(1, 3)) {
					tgt = t
				}
				tuples = append(tuples, fmt.Sprintf("t%d:%s#member@t%d:%s#member", t, id(), tgt, id()))
			default:
				e := 0
				if entries&(1<<t) != 0 {
					e = t
				}
				tuples = append(tuples, fmt.Sprintf("document:%s#viewer@t%d:%s#member", id(), e, id()))
			}
		}
		if inside {
			head = fmt.Sprintf("ring %d %d %d t0 member", k, entries, selfs)
		} else {
			head = fmt.Sprintf("ring %d %d %d document viewer", k, entries, selfs)
		}
	}
	return fmt.Sprintf("pipe %s %d %d %d u0 %s", head, chunk, procs, buf, strings.Join(tuples, " "))
}

func gen(r *hx.Rand, n int, tier string, emit func(string), st *hx.Stats) {
	// two model-side searches first (exhaustive up to the depth bound; small on purpose)
	for i, sc := range []string{"search 1 0>0 5 2", "search 2 0>1;1>0 6 2", "search 2 0>1.0;1>0 6 2"} {
		if i < n {
			st.Inc("search")
			emit(sc)
		}
	}
	for i := 3; i < n; i++ {
		c := r.Fork()
		switch k := c.Intn(20); {
		case k < 3:
			st.Inc("pool")
			emit(genPool(c))
		case k < 6:
			st.Inc("raw")
			emit(genRaw(c))
		case k < 12:
			st.Inc("sched")
			emit(genSched(c))
		default:
			st.Inc("pipe")
			emit(genPipe(c, tier))
		}
	}
}

var stuck int

func execCase(line string, st *hx.Stats) string {
	f := strings.Fields(line)
	if len(f) == 0 {
		return "badcase"
	}
	if f[0] == "search" {
		return "n/a"
	}
	if f[0] == "pipe" && stuck >= 3 {
		// three pipeline runs already hung or killed the helper: do not wait for more of them
		return "skipped-after-timeouts"
	}
	out := callHelper(line)
	if f[0] == "pipe" {
		if strings.HasPrefix(out, "timeout") || strings.HasPrefix(out, "HELPER-DIED") {
			stuck++
		}
		return out + " | " + helperNote
	}
	return out
}

func main() {
	if len(os.Args) >= 3 && os.Args[1] == "instrument-into" {
		if err := instrumentInto(os.Args[2], harnessDir()); err != nil {
			fmt.Fprintln(os.Stderr, err)
			os.Exit(1)
		}
		return
	}
	hx.Main(hx.Harness{Gen: gen, Exec: execCase})
}
