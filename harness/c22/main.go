// Harness for C22 (internal concurrent queues): runs the REAL mpmc.Queue and mpsc.Accumulator.
//
// Case kinds (one line each):
//
//	mq <cap> <ext> <op>...      scripted single-goroutine history on mpmc.Queue
//	    s<v>  Send(ctx, v) with a context that is cancelled the moment the call would park
//	    S<v>  Send with an already cancelled context
//	    r     Recv with the cancel-on-park context        R  Recv with a cancelled context (try-receive)
//	    c     Close                                       g<n>  Grow(n)
//	    output per op: <result>:<Size()>/<Capacity()>, result ∈ T F B(would block) v<val> ok err
//	aq <op>...                  scripted history on mpsc.Accumulator: s<v> r t(TryRecv) c
//	mstress <cap> <ext> <P> <C> <items> <closeMode>   P producers × C consumers on mpmc.Queue
//	astress <P> <items> <closeMode>                    P producers, one consumer on mpsc.Accumulator
//	    closeMode 0: Close after all producers returned; 1: Close races with the producers
//	    output: per-goroutine logs (values sent with ok flags, values received)
//	win <cap> <nR> <k>          prescribed interleaving on mpmc.Queue without repository hooks: nR receivers
//	                            are stopped inside Recv between "observed empty" and the channel receive
//	                            (the context's Done() is evaluated exactly there), then k Sends complete,
//	                            then the receivers are released; output: how many returned, Size()
//	winS <cap> <nS> <k>         same on the full side: queue full (no extensions), nS senders stopped
//	                            before parking on `full`, k Recvs complete, senders released
package main

import (
	"context"
	"fmt"
	"sort"
	"strconv"
	"strings"
	"sync"
	"sync/atomic"
	"time"

	"github.com/openfga/openfga/internal/containers/mpmc"
	"github.com/openfga/openfga/internal/containers/mpsc"
	"github.com/openfga/openfga/verifharness/hx"
)

// parkCtx is cancelled at the moment the callee evaluates Done() (i.e. is about to block in a select).
type parkCtx struct {
	context.Context
	parked atomic.Bool
}

var closedCh = func() chan struct{} { c := make(chan struct{}); close(c); return c }()

func (p *parkCtx) Done() <-chan struct{} { p.parked.Store(true); return closedCh }
func (p *parkCtx) Err() error {
	if p.parked.Load() {
		return context.Canceled
	}
	return nil
}

// windowCtx stops the callee inside Done() until released; it is never cancelled.
type windowCtx struct {
	context.Context
	at      chan struct{}
	release chan struct{}
}

func (w *windowCtx) Done() <-chan struct{} {
	select {
	case w.at <- struct{}{}:
	default:
	}
	<-w.release
	return nil
}
func (w *windowCtx) Err() error { return nil }

func cancelledCtx() context.Context {
	c, cancel := context.WithCancel(context.Background())
	cancel()
	return c
}

var bg = context.Background()

// ---------------------------------------------------------------- generators

func pick(r *hx.Rand, xs ...int) int { return xs[r.Intn(len(xs))] }

func genMq(r *hx.Rand, tier string) string {
	capacity := pick(r, 2, 2, 2, 2, 4, 4, 4, 8, 8, 16, 2, 4, 2, 4, 8, 1, 3, 0, 6)
	ext := pick(r, 0, 0, 1, 2, -1, -1)
	n := 4 + r.Intn(28)
	if tier == "thorough" {
		n = 4 + r.Intn(60)
	}
	ops := make([]string, 0, n)
	v := 1
	for i := 0; i < n; i++ {
		switch k := r.Intn(100); {
		case k < 38:
			ops = append(ops, "s"+strconv.Itoa(v))
			v++
		case k < 42:
			ops = append(ops, "S"+strconv.Itoa(v))
			v++
		case k < 74:
			ops = append(ops, "r")
		case k < 82:
			ops = append(ops, "R")
		case k < 86 && i > n/2:
			ops = append(ops, "c")
		case k < 92:
			ops = append(ops, "g"+strconv.Itoa(pick(r, 2, 4, 8, 16, 32, 3, 6, 0)))
		default:
			// a burst that wraps the ring
			for j := 0; j < 3 && len(ops) < n; j++ {
				ops = append(ops, "s"+strconv.Itoa(v), "r")
				v++
			}
		}
	}
	return fmt.Sprintf("mq %d %d %s", capacity, ext, strings.Join(ops, " "))
}

func genAq(r *hx.Rand, tier string) string {
	n := 3 + r.Intn(24)
	ops := make([]string, 0, n)
	v := 1
	for i := 0; i < n; i++ {
		switch k := r.Intn(100); {
		case k < 40:
			ops = append(ops, "s"+strconv.Itoa(v))
			v++
		case k < 65:
			ops = append(ops, "r")
		case k < 88:
			ops = append(ops, "t")
		case k < 94 && i > n/2:
			ops = append(ops, "c")
		default:
			ops = append(ops, "s"+strconv.Itoa(v), "t")
			v++
		}
	}
	return "aq " + strings.Join(ops, " ")
}

func gen(r *hx.Rand, n int, tier string, emit func(string), st *hx.Stats) {
	for i := 0; i < n; i++ {
		c := r.Fork()
		k := c.Intn(1000)
		switch {
		case k < 410:
			st.Inc("mq")
			emit(genMq(c, tier))
		case k < 620:
			st.Inc("aq")
			emit(genAq(c, tier))
		case k < 760:
			st.Inc("mstress")
			items := 20 + c.Intn(180)
			if tier == "thorough" {
				items = 50 + c.Intn(1500)
			}
			emit(fmt.Sprintf("mstress %d %d %d %d %d %d", pick(c, 2, 2, 4, 8, 64), pick(c, 0, 0, 1, 3, -1, -1), 1+c.Intn(4), 1+c.Intn(4), items, c.Intn(2)))
		case k < 870:
			st.Inc("astress")
			items := 20 + c.Intn(180)
			if tier == "thorough" {
				items = 50 + c.Intn(1500)
			}
			emit(fmt.Sprintf("astress %d %d %d", 1+c.Intn(4), items, c.Intn(2)))
		case k < 920:
			st.Inc("win")
			// mostly the pipeline's discipline (one consumer); sometimes the general container claim
			nR := pick(c, 1, 1, 1, 1, 1, 1, 1, 1, 1, 1, 1, 2, 3)
			emit(fmt.Sprintf("win %d %d %d", pick(c, 2, 4, 8), nR, 1+c.Intn(3)))
		case k < 935:
			st.Inc("winC")
			emit(fmt.Sprintf("winC %d %d %d", pick(c, 2, 4), 1+c.Intn(3), c.Intn(3)))
		case k < 955:
			st.Inc("race")
			capacity := pick(c, 4, 8)
			nS := 2 + c.Intn(3)
			perm := make([]int, nS)
			for j := range perm {
				perm[j] = j
			}
			hx.Shuffle(c, perm)
			ps := make([]string, nS)
			for j, x := range perm {
				ps[j] = strconv.Itoa(x)
			}
			emit(fmt.Sprintf("race %d %s", capacity, strings.Join(ps, ",")))
		case k < 970:
			st.Inc("awin")
			emit(fmt.Sprintf("awin %d %d", 1+c.Intn(4), c.Intn(2)))
		default:
			st.Inc("winS")
			emit(fmt.Sprintf("winS %d %d %d", pick(c, 2, 4), pick(c, 1, 1, 1, 1, 1, 1, 1, 1, 1, 1, 1, 2, 3), 1+c.Intn(2)))
		}
	}
}

// ---------------------------------------------------------------- executors

func execMq(f []string) string {
	capacity, _ := strconv.Atoi(f[1])
	ext, _ := strconv.Atoi(f[2])
	q, err := mpmc.NewQueue[int](capacity, ext)
	if err != nil {
		return "new:err"
	}
	out := []string{"new:ok"}
	for _, op := range f[3:] {
		res := ""
		switch op[0] {
		case 's':
			v, _ := strconv.Atoi(op[1:])
			ctx := &parkCtx{Context: bg}
			ok := q.Send(ctx, v)
			res = map[bool]string{true: "T", false: "F"}[ok]
			if !ok && ctx.parked.Load() {
				res = "B"
			}
		case 'S':
			v, _ := strconv.Atoi(op[1:])
			res = map[bool]string{true: "T", false: "F"}[q.Send(cancelledCtx(), v)]
		case 'r':
			ctx := &parkCtx{Context: bg}
			v, ok := q.Recv(ctx)
			if ok {
				res = "v" + strconv.Itoa(v)
			} else if ctx.parked.Load() {
				res = "B"
			} else {
				res = "F"
			}
		case 'R':
			v, ok := q.Recv(cancelledCtx())
			if ok {
				res = "v" + strconv.Itoa(v)
			} else {
				res = "F"
			}
		case 'c':
			q.Close()
			res = "ok"
		case 'g':
			n, _ := strconv.Atoi(op[1:])
			if q.Grow(n) != nil {
				res = "err"
			} else {
				res = "ok"
			}
		default:
			return "badop"
		}
		out = append(out, fmt.Sprintf("%s:%d/%d", res, q.Size(), q.Capacity()))
	}
	return strings.Join(out, " ")
}

func execAq(f []string) string {
	a := mpsc.NewAccumulator[int]()
	out := []string{}
	for _, op := range f[1:] {
		switch op[0] {
		case 's':
			v, _ := strconv.Atoi(op[1:])
			out = append(out, map[bool]string{true: "T", false: "F"}[a.Send(v)])
		case 'r':
			ctx := &parkCtx{Context: bg}
			v, ok := a.Recv(ctx)
			if ok {
				out = append(out, "v"+strconv.Itoa(v))
			} else if ctx.parked.Load() {
				out = append(out, "B")
			} else {
				out = append(out, "F")
			}
		case 't':
			v, ok := a.TryRecv()
			if ok {
				out = append(out, "v"+strconv.Itoa(v))
			} else {
				out = append(out, "F")
			}
		case 'c':
			a.Close()
			out = append(out, "ok")
		default:
			return "badop"
		}
	}
	return strings.Join(out, " ")
}

// poisoned is set once a concurrent case timed out: its goroutines may still spin or block, so the
// remaining concurrent cases of this run are skipped (scripted cases still run).
var poisoned atomic.Bool

// poisonedAll is set when a scripted (single-goroutine) case did not return: the stuck goroutine keeps
// spinning, so every remaining case of this run is skipped.
var poisonedAll atomic.Bool

// guarded runs one case with a watchdog (a stuck case must not stop the run, and the Go runtime's
// global deadlock detector must not kill the process).
func guarded(scripted bool, f func() string) string {
	res := make(chan string, 1)
	go func() {
		defer func() {
			if p := recover(); p != nil {
				res <- "PANIC " + strings.ReplaceAll(strings.ReplaceAll(fmt.Sprint(p), "\n", " "), "\t", " ")
			}
		}()
		res <- f()
	}()
	limit := 15 * time.Second
	if scripted {
		limit = 5 * time.Second
	}
	select {
	case r := <-res:
		return r
	case <-time.After(limit):
		if scripted {
			poisonedAll.Store(true)
			return "TIMEOUT a scripted operation did not return (spinning or blocked with a cancelled context)"
		}
		poisoned.Store(true)
		return "TIMEOUT the case did not finish (an operation that must not block is blocked)"
	}
}

// panics raised inside worker goroutines of the current concurrent case
var panicMsg atomic.Pointer[string]

func catchPanic() {
	if p := recover(); p != nil {
		m := "PANIC " + strings.ReplaceAll(strings.ReplaceAll(fmt.Sprint(p), "\n", " "), "\t", " ")
		panicMsg.CompareAndSwap(nil, &m)
	}
}

func takePanic() string {
	if m := panicMsg.Swap(nil); m != nil {
		return *m
	}
	return ""
}

const valBase = 1000000

func fmtInts(xs []int) string {
	if len(xs) == 0 {
		return "-"
	}
	ss := make([]string, len(xs))
	for i, x := range xs {
		ss[i] = strconv.Itoa(x)
	}
	return strings.Join(ss, ",")
}

// stress runs P producers and C consumers; send/recv are the queue's operations.
func stress(p, c, items, closeMode int, send func(int) bool, recv func() (int, bool), closeQ func()) string {
	failed := make([][]int, p)
	got := make([][]int, c)
	var pw, cw sync.WaitGroup
	var sentOK atomic.Int64
	for i := 0; i < p; i++ {
		pw.Add(1)
		go func(i int) {
			defer pw.Done()
			defer catchPanic()
			for j := 0; j < items; j++ {
				if send(i*valBase + j) {
					sentOK.Add(1)
				} else {
					failed[i] = append(failed[i], j)
				}
			}
		}(i)
	}
	for i := 0; i < c; i++ {
		cw.Add(1)
		go func(i int) {
			defer cw.Done()
			defer catchPanic()
			for {
				v, ok := recv()
				if !ok {
					return
				}
				got[i] = append(got[i], v)
			}
		}(i)
	}
	pdone := make(chan struct{})
	go func() { pw.Wait(); close(pdone) }()
	waitProducers := func() bool {
		select {
		case <-pdone:
			return true
		case <-time.After(5 * time.Second):
			poisoned.Store(true)
			return false
		}
	}
	if closeMode == 1 {
		// close while producers are (probably) still running
		t0 := time.Now()
		for sentOK.Load() < int64(p*items/2) && time.Since(t0) < 5*time.Second {
			time.Sleep(20 * time.Microsecond)
		}
		closeQ()
		if !waitProducers() {
			return "TIMEOUT producers did not terminate after Close"
		}
	} else {
		if !waitProducers() {
			closeQ()
			return "TIMEOUT producers blocked although consumers are receiving"
		}
		closeQ()
	}
	done := make(chan struct{})
	go func() { cw.Wait(); close(done) }()
	select {
	case <-done:
	case <-time.After(5 * time.Second):
		poisoned.Store(true)
		return "TIMEOUT consumers did not terminate after Close"
	}
	if m := takePanic(); m != "" {
		return m
	}
	var sb strings.Builder
	for i := 0; i < p; i++ {
		fmt.Fprintf(&sb, "p%d=%d:%s ", i, items, fmtInts(failed[i]))
	}
	for i := 0; i < c; i++ {
		fmt.Fprintf(&sb, "c%d=%s ", i, fmtInts(got[i]))
	}
	return strings.TrimSpace(sb.String())
}

func execMstress(f []string) string {
	capacity, _ := strconv.Atoi(f[1])
	ext, _ := strconv.Atoi(f[2])
	p, _ := strconv.Atoi(f[3])
	c, _ := strconv.Atoi(f[4])
	items, _ := strconv.Atoi(f[5])
	cm, _ := strconv.Atoi(f[6])
	q := mpmc.MustQueue[int](capacity, ext)
	return stress(p, c, items, cm,
		func(v int) bool { return q.Send(bg, v) },
		func() (int, bool) { return q.Recv(bg) },
		q.Close)
}

func execAstress(f []string) string {
	p, _ := strconv.Atoi(f[1])
	items, _ := strconv.Atoi(f[2])
	cm, _ := strconv.Atoi(f[3])
	a := mpsc.NewAccumulator[int]()
	return stress(p, 1, items, cm,
		func(v int) bool { return a.Send(v) },
		func() (int, bool) { return a.Recv(bg) },
		a.Close)
}

// a parked goroutine stays parked for good, so waiting longer only costs time on real violations
const stuckWait = 500 * time.Millisecond

func waitGroupTimeout(wg *sync.WaitGroup, d time.Duration) {
	c := make(chan struct{})
	go func() { wg.Wait(); close(c) }()
	select {
	case <-c:
	case <-time.After(d):
	}
}

func newWindow() *windowCtx {
	return &windowCtx{Context: bg, at: make(chan struct{}, 1), release: make(chan struct{})}
}

func waitAt(ws []*windowCtx) bool {
	for _, w := range ws {
		select {
		case <-w.at:
		case <-time.After(5 * time.Second):
			return false
		}
	}
	return true
}

func execWin(f []string) string {
	capacity, _ := strconv.Atoi(f[1])
	nR, _ := strconv.Atoi(f[2])
	k, _ := strconv.Atoi(f[3])
	q := mpmc.MustQueue[int](capacity, -1)
	ws := make([]*windowCtx, nR)
	res := make(chan int, nR)
	var wg sync.WaitGroup
	for i := range ws {
		ws[i] = newWindow()
		wg.Add(1)
		go func(w *windowCtx) {
			defer wg.Done()
			defer catchPanic()
			v, ok := q.Recv(w)
			if ok {
				res <- v
			} else {
				res <- -1
			}
		}(ws[i])
	}
	if !waitAt(ws) {
		poisoned.Store(true)
		return "TIMEOUT receivers did not reach the park point"
	}
	for i := 0; i < k; i++ {
		if !q.Send(bg, 100+i) {
			return "senderr"
		}
	}
	for _, w := range ws {
		close(w.release)
	}
	want := nR
	if k < want {
		want = k
	}
	var got []int
	deadline := time.After(stuckWait)
loop:
	for len(got) < want {
		select {
		case v := <-res:
			got = append(got, v)
		case <-deadline:
			break loop
		}
	}
	if len(got) == want {
		// nobody else may return
		select {
		case v := <-res:
			got = append(got, v)
		case <-time.After(2 * time.Millisecond):
		}
	}
	size := q.Size()
	q.Close()
	waitGroupTimeout(&wg, time.Second)
	if m := takePanic(); m != "" {
		return m
	}
	sort.Ints(got)
	return fmt.Sprintf("ret=%d size=%d vals=%s", len(got), size, fmtInts(got))
}

// loopCtx stops the callee at its second Err() call: inside Send that is the first evaluation of the
// loop condition, i.e. after `pos = head.Load()` and before `cell.Sequence.Load()`, read lock held.
type loopCtx struct {
	context.Context
	calls   atomic.Int32
	at      chan struct{}
	release chan struct{}
}

func (l *loopCtx) Err() error {
	if l.calls.Add(1) == 2 {
		l.at <- struct{}{}
		<-l.release
	}
	return nil
}
func (l *loopCtx) Done() <-chan struct{} { return nil }

// race <cap> <perm>: len(perm) senders all load the same head position and stop; they are then released
// one at a time in the order perm (each runs to completion): all but the first find their position
// taken (diff > 0), reload head and claim the next one.  The queue must contain the values in release order.
func execRace(f []string) string {
	capacity, _ := strconv.Atoi(f[1])
	var perm []int
	for _, x := range strings.Split(f[2], ",") {
		v, _ := strconv.Atoi(x)
		perm = append(perm, v)
	}
	n := len(perm)
	if n > capacity {
		return "badcase"
	}
	q := mpmc.MustQueue[int](capacity, 0)
	ctxs := make([]*loopCtx, n)
	dones := make([]chan bool, n)
	for i := 0; i < n; i++ {
		ctxs[i] = &loopCtx{Context: bg, at: make(chan struct{}, 1), release: make(chan struct{})}
		dones[i] = make(chan bool, 1)
		go func(i int) {
			defer catchPanic()
			dones[i] <- q.Send(ctxs[i], 100+i)
		}(i)
	}
	for i := 0; i < n; i++ {
		select {
		case <-ctxs[i].at:
		case <-time.After(5 * time.Second):
			poisoned.Store(true)
			return "TIMEOUT senders did not reach the loop head"
		}
	}
	oks := make([]string, 0, n)
	for _, i := range perm {
		close(ctxs[i].release)
		select {
		case ok := <-dones[i]:
			oks = append(oks, map[bool]string{true: "T", false: "F"}[ok])
		case <-time.After(5 * time.Second):
			poisoned.Store(true)
			return "TIMEOUT a released sender did not complete"
		}
	}
	var got []int
	for {
		v, ok := q.Recv(cancelledCtx())
		if !ok {
			break
		}
		got = append(got, v)
	}
	if m := takePanic(); m != "" {
		return m
	}
	return fmt.Sprintf("sends=%s order=%s", strings.Join(oks, ""), fmtInts(got))
}

// winC <cap> <nR> <k>: nR receivers stopped before parking, k Sends, then Close, then release:
// every receiver must return (k of them with an item, in any assignment; the rest with false).
func execWinC(f []string) string {
	capacity, _ := strconv.Atoi(f[1])
	nR, _ := strconv.Atoi(f[2])
	k, _ := strconv.Atoi(f[3])
	q := mpmc.MustQueue[int](capacity, -1)
	ws := make([]*windowCtx, nR)
	res := make(chan int, nR)
	var wg sync.WaitGroup
	for i := range ws {
		ws[i] = newWindow()
		wg.Add(1)
		go func(w *windowCtx) {
			defer wg.Done()
			defer catchPanic()
			v, ok := q.Recv(w)
			if ok {
				res <- v
			} else {
				res <- -1
			}
		}(ws[i])
	}
	if !waitAt(ws) {
		poisoned.Store(true)
		return "TIMEOUT receivers did not reach the park point"
	}
	for i := 0; i < k; i++ {
		if !q.Send(bg, 100+i) {
			return "senderr"
		}
	}
	q.Close()
	for _, w := range ws {
		close(w.release)
	}
	items, falses := 0, 0
	deadline := time.After(stuckWait)
loop:
	for items+falses < nR {
		select {
		case v := <-res:
			if v >= 0 {
				items++
			} else {
				falses++
			}
		case <-deadline:
			break loop
		}
	}
	size := q.Size()
	if m := takePanic(); m != "" {
		return m
	}
	return fmt.Sprintf("ret=%d size=%d items=%d", items+falses, size, items)
}

// awin <k> <close>: the accumulator's consumer is stopped between "tail.Next is nil" and the select;
// k Sends complete (and optionally Close); released, it must receive all k values, then (if closed) false.
func execAwin(f []string) string {
	k, _ := strconv.Atoi(f[1])
	cl, _ := strconv.Atoi(f[2])
	a := mpsc.NewAccumulator[int]()
	w := newWindow()
	type rv struct {
		v  int
		ok bool
	}
	res := make(chan rv, 1)
	go func() {
		defer catchPanic()
		v, ok := a.Recv(w)
		res <- rv{v, ok}
	}()
	if !waitAt([]*windowCtx{w}) {
		poisoned.Store(true)
		return "TIMEOUT consumer did not reach the park point"
	}
	for i := 0; i < k; i++ {
		if !a.Send(100 + i) {
			return "senderr"
		}
	}
	if cl == 1 {
		a.Close()
	}
	close(w.release)
	var got []int
	select {
	case r := <-res:
		if r.ok {
			got = append(got, r.v)
		}
	case <-time.After(stuckWait):
		a.Close()
		return "ret=0 stuck"
	}
	// the rest is linked already: try-receive must find it
	for {
		v, ok := a.TryRecv()
		if !ok {
			break
		}
		got = append(got, v)
	}
	closedSeen := "-"
	if cl == 1 {
		_, ok := a.Recv(bg)
		closedSeen = strconv.FormatBool(!ok)
	}
	if m := takePanic(); m != "" {
		return m
	}
	return fmt.Sprintf("ret=%d vals=%s closed=%s", len(got), fmtInts(got), closedSeen)
}

func execWinS(f []string) string {
	capacity, _ := strconv.Atoi(f[1])
	nS, _ := strconv.Atoi(f[2])
	k, _ := strconv.Atoi(f[3])
	if k > capacity {
		k = capacity
	}
	q := mpmc.MustQueue[int](capacity, 0)
	for i := 0; i < capacity; i++ {
		if !q.Send(bg, i) {
			return "fillerr"
		}
	}
	ws := make([]*windowCtx, nS)
	res := make(chan bool, nS)
	var wg sync.WaitGroup
	for i := range ws {
		ws[i] = newWindow()
		wg.Add(1)
		go func(i int, w *windowCtx) { defer wg.Done(); defer catchPanic(); res <- q.Send(w, 100+i) }(i, ws[i])
	}
	if !waitAt(ws) {
		poisoned.Store(true)
		return "TIMEOUT senders did not reach the park point"
	}
	for i := 0; i < k; i++ {
		if _, ok := q.Recv(bg); !ok {
			return "recverr"
		}
	}
	for _, w := range ws {
		close(w.release)
	}
	want := nS
	if k < want {
		want = k
	}
	got := 0
	deadline := time.After(stuckWait)
loop:
	for got < want {
		select {
		case ok := <-res:
			if ok {
				got++
			}
		case <-deadline:
			break loop
		}
	}
	if got == want {
		select {
		case ok := <-res:
			if ok {
				got++
			}
		case <-time.After(2 * time.Millisecond):
		}
	}
	size := q.Size()
	q.Close()
	waitGroupTimeout(&wg, time.Second)
	if m := takePanic(); m != "" {
		return m
	}
	return fmt.Sprintf("ret=%d size=%d", got, size)
}

func exec(line string, st *hx.Stats) string {
	f := strings.Fields(line)
	if len(f) == 0 {
		return "badcase"
	}
	scripted := f[0] == "mq" || f[0] == "aq"
	if poisonedAll.Load() || (poisoned.Load() && !scripted) {
		return "SKIPPED after a timeout in this run"
	}
	var run func() string
	switch {
	case f[0] == "mq" && len(f) >= 3:
		run = func() string { return execMq(f) }
	case f[0] == "aq":
		run = func() string { return execAq(f) }
	case f[0] == "mstress" && len(f) == 7:
		run = func() string { return execMstress(f) }
	case f[0] == "astress" && len(f) == 4:
		run = func() string { return execAstress(f) }
	case f[0] == "win" && len(f) == 4:
		run = func() string { return execWin(f) }
	case f[0] == "winS" && len(f) == 4:
		run = func() string { return execWinS(f) }
	case f[0] == "winC" && len(f) == 4:
		run = func() string { return execWinC(f) }
	case f[0] == "race" && len(f) == 3:
		run = func() string { return execRace(f) }
	case f[0] == "awin" && len(f) == 3:
		run = func() string { return execAwin(f) }
	default:
		return "badcase"
	}
	return guarded(scripted, run)
}

func main() { hx.Main(hx.Harness{Gen: gen, Exec: exec}) }
