// throwaway prototype: deterministic reproduction of the mpmc lost wake-up using a hookable context
package main

import (
	"context"
	"fmt"
	"time"

	"github.com/openfga/openfga/internal/containers/mpmc"
)

type hookCtx struct {
	context.Context
	atDone  chan struct{} // signalled when Done() is evaluated (thread is about to park)
	release chan struct{} // Done() returns only after this is closed
}

func (h *hookCtx) Done() <-chan struct{} {
	h.atDone <- struct{}{}
	<-h.release
	return nil // never cancelled
}
func (h *hookCtx) Err() error { return nil }

func main() {
	q := mpmc.MustQueue[int](4, 0)
	bg := context.Background()
	type res struct {
		who int
		v   int
		ok  bool
	}
	out := make(chan res, 2)
	var hs [2]*hookCtx
	for i := 0; i < 2; i++ {
		hs[i] = &hookCtx{Context: bg, atDone: make(chan struct{}, 8), release: make(chan struct{})}
		go func(i int) {
			v, ok := q.Recv(hs[i])
			out <- res{i, v, ok}
		}(i)
	}
	<-hs[0].atDone
	<-hs[1].atDone
	// both receivers observed "empty" and are between RUnlock and the channel receive
	fmt.Println("send a:", q.Send(bg, 101), "send b:", q.Send(bg, 102), "size:", q.Size())
	close(hs[0].release)
	close(hs[1].release)
	r1 := <-out
	fmt.Println("first receiver returned:", r1)
	select {
	case r2 := <-out:
		fmt.Println("second receiver returned:", r2, "=> NO lost wake-up")
	case <-time.After(2 * time.Second):
		fmt.Println("second receiver still parked after 2s with size =", q.Size(), "=> LOST WAKE-UP reproduced")
		q.Send(bg, 103)
		r2 := <-out
		fmt.Println("after a third send the parked receiver returns:", r2, "size:", q.Size())
	}
}
