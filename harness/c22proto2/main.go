package main

import (
	"context"
	"fmt"
	"sync"
	"time"

	"github.com/openfga/openfga/internal/containers/mpmc"
)

func main() {
	bg := context.Background()
	stuck := 0
	const trials = 3000000
	t0 := time.Now()
	for tr := 0; tr < trials; tr++ {
		q := mpmc.MustQueue[int](4, 0)
		out := make(chan int, 2)
		var start sync.WaitGroup
		start.Add(1)
		for i := 0; i < 2; i++ {
			go func() {
				start.Wait()
				v, _ := q.Recv(bg)
				out <- v
			}()
		}
		var sw sync.WaitGroup
		for i := 0; i < 2; i++ {
			sw.Add(1)
			go func(i int) {
				defer sw.Done()
				start.Wait()
				q.Send(bg, 100+i)
			}(i)
		}
		start.Done()
		sw.Wait()
		got := 0
		timeout := time.After(50 * time.Millisecond)
	loop:
		for got < 2 {
			select {
			case <-out:
				got++
			case <-timeout:
				break loop
			}
		}
		if got < 2 {
			stuck++
			if stuck <= 3 {
				fmt.Printf("trial %d: receiver stuck with size=%d\n", tr, q.Size())
			}
			q.Close()
		}
	}
	fmt.Printf("trials=%d stuck=%d elapsed=%v\n", trials, stuck, time.Since(t0))
}
