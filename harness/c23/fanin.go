package main

import (
	"context"
	"errors"
	"fmt"
	"strings"
	"time"

	"github.com/openfga/openfga/internal/iterator"
	"github.com/openfga/openfga/pkg/storage"
	"github.com/openfga/openfga/verifharness/hx"
)

// fi <chan;chan;…>: the real iterator.FanInIteratorChannels over closed input channels. A channel is a comma
// list of tokens iK (message carrying an iterator that yields "K"), eK (message carrying only the error "eK"),
// bK (both); "-" is an empty channel. Output: the received messages as tokens in arrival order.
func execFanIn(f []string) string {
	if len(f) != 2 {
		return "badcase"
	}
	var chans []<-chan *iterator.Msg
	for _, spec := range strings.Split(f[1], ";") {
		var toks []string
		if spec != "-" {
			toks = strings.Split(spec, ",")
		}
		ch := make(chan *iterator.Msg, len(toks))
		for _, t := range toks {
			m := &iterator.Msg{}
			if t[0] == 'i' || t[0] == 'b' {
				m.Iter = storage.NewStaticIterator[string]([]string{t[1:]})
			}
			if t[0] == 'e' || t[0] == 'b' {
				m.Err = errors.New("e" + t[1:])
			}
			ch <- m
		}
		close(ch)
		chans = append(chans, ch)
	}
	ctx, cancel := context.WithCancel(context.Background())
	defer cancel()
	out := iterator.FanInIteratorChannels(ctx, chans)
	var got []string
	timeout := time.After(20 * time.Second)
	for {
		select {
		case m, ok := <-out:
			if !ok {
				if len(got) == 0 {
					return "-"
				}
				return strings.Join(got, ",")
			}
			tok := ""
			if m.Iter != nil {
				v, err := m.Iter.Next(ctx)
				m.Iter.Stop()
				if err != nil {
					tok = "i?" + err.Error()
				} else {
					tok = "i" + v
				}
			}
			if m.Err != nil {
				if tok != "" {
					tok = "b" + tok[1:]
				} else {
					tok = m.Err.Error()
				}
			}
			if tok == "" {
				tok = "empty"
			}
			got = append(got, tok)
		case <-timeout:
			return "HANG after " + strings.Join(got, ",")
		}
	}
}

func genFanIn(r *hx.Rand, st *hx.Stats) string {
	st.Inc("fi")
	n := 1 + r.Intn(5)
	id := 0
	var chans []string
	for c := 0; c < n; c++ {
		k := r.Intn(6)
		if k == 0 {
			chans = append(chans, "-")
			continue
		}
		var toks []string
		for j := 0; j < k; j++ {
			id++
			kind := "i"
			switch x := r.Intn(10); {
			case x < 2:
				kind = "e" // error-only message (a producer that failed part-way)
			case x < 3:
				kind = "b"
			}
			if j == k-1 && r.Chance(1, 3) {
				kind = "e"
			}
			toks = append(toks, fmt.Sprintf("%s%d", kind, id))
		}
		chans = append(chans, strings.Join(toks, ","))
	}
	return "fi " + strings.Join(chans, ";")
}
