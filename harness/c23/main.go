// Harness for C23 (iterator adapters and shared iterators).
//
// Case kinds (one line each):
//
//	ad <adapter> <param> <scripts> <ops>
//	    adapter: static combined concat merge filter cond bool validate validatenil skipto oc
//	    scripts: ';'-separated scripts, a script is ','-separated elements "k.t" (item) / "!e" (error), "_" = empty script,
//	             "0" = no input at all
//	    ops:     n h s = Next/Head/Stop with a live context, N H = Next/Head with a cancelled context
//	    output:  results joined by ',' + " | " + one "id:remaining:stops" per input
//	sh <admissionMs> <script> <acts>
//	    one shared iterator (through IteratorDatastore.Read) over one scripted tuple iterator, driven from ONE goroutine:
//	    acts: c (new clone), n<i> N<i> h<i> H<i> s<i>, x (wait until the admission timer has stopped the original; last act only)
//	    output: results + " | " + "remaining:stops:nextCalls" of the underlying iterator
//	shc <script> <pauseAt> <order>
//	    cancellation isolation: clones A and B of one shared iterator; A's context is cancelled while the batch fetch A
//	    triggered is blocked inside the underlying iterator's pauseAt-th Next (gated on channels, no sleeps); B (live
//	    context) then drains.  order 0: B is cloned before A reads, 1: after A was cancelled.
//	    output: "A=<seq> B=<seq> | made:remaining:stops:nextCalls" (sequences abbreviated as in shs)
//	shs <script> <plan>
//	    stress: one goroutine per plan entry ("-1" = read until an error, k = stop after k items), all started together
//	    output: one observed sequence per goroutine, ';'-separated, + " | " + underlying state
package main

import (
	"context"
	"errors"
	"fmt"
	"strconv"
	"strings"
	"sync"
	"time"

	openfgav1 "github.com/openfga/api/proto/openfga/v1"

	"github.com/openfga/openfga/internal/iterator"
	"github.com/openfga/openfga/pkg/storage"
	"github.com/openfga/openfga/pkg/storage/storagewrappers/sharediterator"
	"github.com/openfga/openfga/verifharness/hx"
)

// ---------- scripted iterator ----------

type scriptErr struct{ id int }

func (e scriptErr) Error() string { return "E" + strconv.Itoa(e.id) }

type el[T any] struct {
	val   T
	errID int
	isErr bool
}

type scriptIter[T any] struct {
	mu    sync.Mutex
	id    int
	rem   []el[T]
	stops int
	nexts int
}

func (s *scriptIter[T]) Next(ctx context.Context) (T, error) {
	var zero T
	if ctx.Err() != nil {
		return zero, ctx.Err()
	}
	s.mu.Lock()
	defer s.mu.Unlock()
	s.nexts++
	if len(s.rem) == 0 {
		return zero, storage.ErrIteratorDone
	}
	e := s.rem[0]
	s.rem = s.rem[1:]
	if e.isErr {
		return zero, scriptErr{e.errID}
	}
	return e.val, nil
}

func (s *scriptIter[T]) Head(ctx context.Context) (T, error) {
	var zero T
	if ctx.Err() != nil {
		return zero, ctx.Err()
	}
	s.mu.Lock()
	defer s.mu.Unlock()
	if len(s.rem) == 0 {
		return zero, storage.ErrIteratorDone
	}
	e := s.rem[0]
	if e.isErr {
		return zero, scriptErr{e.errID}
	}
	return e.val, nil
}

func (s *scriptIter[T]) Stop() {
	s.mu.Lock()
	defer s.mu.Unlock()
	s.rem = nil
	s.stops++
}

func (s *scriptIter[T]) IsOrdered() bool { return true }

func (s *scriptIter[T]) state() string {
	s.mu.Lock()
	defer s.mu.Unlock()
	return fmt.Sprintf("%d:%d:%d", s.id, len(s.rem), s.stops)
}

// ---------- items ----------

type item struct{ k, t int }

func (i *item) String() string { return fmt.Sprintf("%d.%d", i.k, i.t) }

// predicate shared with the Lean driver: outcome by tag%6 as two chained filter functions
//
//	0: (true,true) keep   1: (false,-) drop   2: (err 100+k,-)   3: (true,false) drop   4: (true, err 200+k)   5: (false,[err]) drop
func f1(k, t int) (bool, error) {
	switch t % 6 {
	case 1, 5:
		return false, nil
	case 2:
		return false, scriptErr{100 + k}
	}
	return true, nil
}
func f2(k, t int) (bool, error) {
	switch t % 6 {
	case 3:
		return false, nil
	case 4, 5:
		return false, scriptErr{200 + k}
	}
	return true, nil
}
func pred(k, t int) (bool, error) {
	ok, err := f1(k, t)
	if err != nil || !ok {
		return ok, err
	}
	return f2(k, t)
}

func parseScript[T any](id int, s string, mk func(k, t int) T) *scriptIter[T] {
	it := &scriptIter[T]{id: id}
	if s == "_" {
		return it
	}
	s = expandScript(s)
	for _, e := range strings.Split(s, ",") {
		if strings.HasPrefix(e, "!") {
			n, _ := strconv.Atoi(e[1:])
			it.rem = append(it.rem, el[T]{errID: n, isErr: true})
			continue
		}
		kt := strings.SplitN(e, ".", 2)
		k, _ := strconv.Atoi(kt[0])
		t, _ := strconv.Atoi(kt[1])
		it.rem = append(it.rem, el[T]{val: mk(k, t)})
	}
	return it
}

// expandScript expands the compact notation "#n" (items i.(i%3) for i<n) and "#n@e!id" (the same with error `id`
// inserted before position e; e == n appends it).
func expandScript(s string) string {
	if !strings.HasPrefix(s, "#") {
		return s
	}
	body := s[1:]
	errAt, errID := -1, 0
	if i := strings.IndexByte(body, '@'); i >= 0 {
		ei := strings.SplitN(body[i+1:], "!", 2)
		errAt, _ = strconv.Atoi(ei[0])
		errID, _ = strconv.Atoi(ei[1])
		body = body[:i]
	}
	n, _ := strconv.Atoi(body)
	parts := make([]string, 0, n+1)
	for i := 0; i < n; i++ {
		if i == errAt {
			parts = append(parts, "!"+strconv.Itoa(errID))
		}
		parts = append(parts, fmt.Sprintf("%d.%d", i, i%3))
	}
	if errAt == n {
		parts = append(parts, "!"+strconv.Itoa(errID))
	}
	if len(parts) == 0 {
		return "_"
	}
	return strings.Join(parts, ",")
}

func parseScripts[T any](s string, mk func(k, t int) T) []*scriptIter[T] {
	if s == "0" {
		return nil
	}
	var out []*scriptIter[T]
	for i, sc := range strings.Split(s, ";") {
		out = append(out, parseScript(i, sc, mk))
	}
	return out
}

func errTok(err error) string {
	var se scriptErr
	switch {
	case errors.Is(err, storage.ErrIteratorDone):
		return "D"
	case errors.Is(err, context.Canceled), errors.Is(err, context.DeadlineExceeded):
		return "C"
	case errors.As(err, &se):
		return "E" + strconv.Itoa(se.id)
	case strings.HasPrefix(err.Error(), "head() not supported"):
		return "HU"
	case strings.HasPrefix(err.Error(), "iterator ") && strings.HasSuffix(err.Error(), " is not in ascending order"):
		return "NA" + strings.TrimSuffix(strings.TrimPrefix(err.Error(), "iterator "), " is not in ascending order")
	}
	return "?" + strings.ReplaceAll(err.Error(), " ", "_")
}

func resTok(val string, err error) string {
	if err == nil {
		if val == "" {
			return "ZERO"
		}
		return val
	}
	if val != "" {
		return errTok(err) + "+" + val
	}
	return errTok(err)
}

var (
	liveCtx      = context.Background()
	cancelledCtx = func() context.Context {
		c, cancel := context.WithCancel(context.Background())
		cancel()
		return c
	}()
)

func runOps[T any](it storage.Iterator[T], ops string, show func(T) string) []string {
	var out []string
	for _, o := range ops {
		switch o {
		case 'n':
			v, err := it.Next(liveCtx)
			out = append(out, resTok(show(v), err))
		case 'N':
			v, err := it.Next(cancelledCtx)
			out = append(out, resTok(show(v), err))
		case 'h':
			v, err := it.Head(liveCtx)
			out = append(out, resTok(show(v), err))
		case 'H':
			v, err := it.Head(cancelledCtx)
			out = append(out, resTok(show(v), err))
		case 's':
			it.Stop()
		}
	}
	return out
}

func states[T any](ins []*scriptIter[T]) string {
	parts := make([]string, len(ins))
	for i, s := range ins {
		parts[i] = s.state()
	}
	if len(parts) == 0 {
		return "-"
	}
	return strings.Join(parts, ",")
}

func join(rs []string) string {
	if len(rs) == 0 {
		return "-"
	}
	return strings.Join(rs, ",")
}

// ---------- value encodings ----------

func mkItem(k, t int) *item { return &item{k, t} }
func showItem(i *item) string {
	if i == nil {
		return ""
	}
	return i.String()
}

func mkStr(k, t int) string { return fmt.Sprintf("%03d.%d", k, t) }
func showStr(s string) string {
	if s == "" {
		return ""
	}
	kt := strings.SplitN(s, ".", 2)
	k, _ := strconv.Atoi(kt[0])
	return fmt.Sprintf("%d.%s", k, kt[1])
}

func mkTK(k, t int) *openfgav1.TupleKey {
	return &openfgav1.TupleKey{Object: fmt.Sprintf("o:%03d", k), Relation: "r", User: "u:" + strconv.Itoa(t)}
}
func ktOfTK(tk *openfgav1.TupleKey) (int, int) {
	k, _ := strconv.Atoi(strings.TrimPrefix(tk.GetObject(), "o:"))
	t, _ := strconv.Atoi(strings.TrimPrefix(tk.GetUser(), "u:"))
	return k, t
}
func showTK(tk *openfgav1.TupleKey) string {
	if tk == nil {
		return ""
	}
	k, t := ktOfTK(tk)
	return fmt.Sprintf("%d.%d", k, t)
}
func mkTuple(k, t int) *openfgav1.Tuple { return &openfgav1.Tuple{Key: mkTK(k, t)} }
func showTuple(t *openfgav1.Tuple) string {
	if t == nil {
		return ""
	}
	return showTK(t.GetKey())
}

func asIters[T any](ins []*scriptIter[T]) []storage.Iterator[T] {
	out := make([]storage.Iterator[T], len(ins))
	for i, s := range ins {
		out[i] = s
	}
	return out
}

// ---------- adapters ----------

func execAdapter(f []string) string {
	adapter, param, scripts, ops := f[1], f[2], f[3], f[4]
	if ops == "-" {
		ops = ""
	}
	switch adapter {
	case "static":
		var items []*item
		for _, e := range parseScript(0, scripts, mkItem).rem {
			items = append(items, e.val)
		}
		it := storage.NewStaticIterator[*item](items)
		return join(runOps(it, ops, showItem)) + " | -"
	case "combined":
		ins := parseScripts(scripts, mkItem)
		it := storage.NewCombinedIterator(asIters(ins)...)
		return join(runOps(it, ops, showItem)) + " | " + states(ins)
	case "concat":
		ins := parseScripts(scripts, mkItem)
		it := iterator.Concat[*item](ins[0], ins[1])
		return join(runOps(it, ops, showItem)) + " | " + states(ins)
	case "merge":
		ins := parseScripts(scripts, mkItem)
		it := iterator.Merge[*item](ins[0], ins[1], func(a, b *item) int { return a.k - b.k })
		return join(runOps(it, ops, showItem)) + " | " + states(ins)
	case "filter":
		ins := parseScripts(scripts, mkItem)
		it := iterator.NewFilteredIterator[*item](ins[0],
			func(i *item) (bool, error) { return f1(i.k, i.t) },
			func(i *item) (bool, error) { return f2(i.k, i.t) })
		return join(runOps(it, ops, showItem)) + " | " + states(ins)
	case "validate":
		ins := parseScripts(scripts, mkItem)
		it := iterator.Validate[*item](ins[0], func(i *item) (bool, error) { return pred(i.k, i.t) })
		return join(runOps(it, ops, showItem)) + " | " + states(ins)
	case "validatenil":
		ins := parseScripts(scripts, mkItem)
		it := iterator.Validate[*item](ins[0], nil)
		return join(runOps(it, ops, showItem)) + " | " + states(ins)
	case "cond":
		ins := parseScripts(scripts, mkTK)
		it := storage.NewConditionsFilteredTupleKeyIterator(ins[0], func(tk *openfgav1.TupleKey) (bool, error) {
			k, t := ktOfTK(tk)
			return pred(k, t)
		})
		return join(runOps(it, ops, showTK)) + " | " + states(ins)
	case "bool":
		ins := parseScripts(scripts, mkTK)
		it := storage.NewFilteredTupleKeyIterator(ins[0], func(tk *openfgav1.TupleKey) bool {
			_, t := ktOfTK(tk)
			return t%2 == 0
		})
		return join(runOps(it, ops, showTK)) + " | " + states(ins)
	case "skipto":
		ins := parseScripts(scripts, mkStr)
		ctx := liveCtx
		if strings.HasSuffix(param, "c") {
			ctx = cancelledCtx
			param = strings.TrimSuffix(param, "c")
		}
		target, _ := strconv.Atoi(param)
		// items are "kkk.t"; the target "kkk.0" is the smallest string of key k, so `>=` on strings is `>=` on keys and
		// an item with tag 0 is *equal* to the target (a `>` instead of `>=` is then visible)
		err := iterator.SkipTo(ctx, ins[0], fmt.Sprintf("%03d.0", target))
		first := "nil"
		if err != nil {
			first = errTok(err)
		}
		return join(append([]string{first}, runOps[string](ins[0], ops, showStr)...)) + " | " + states(ins)
	case "oc":
		ins := parseScripts(scripts, mkTuple)
		its := make([]storage.TupleIterator, len(ins))
		for i, s := range ins {
			its[i] = s
		}
		it := storage.NewOrderedCombinedIterator(storage.ObjectMapper(), its...)
		return join(runOps[*openfgav1.Tuple](it, ops, showTuple)) + " | " + states(ins)
	}
	return "badadapter"
}

// ---------- shared iterator ----------

// scriptReader is the inner RelationshipTupleReader: every Read returns a fresh scripted iterator over `script`.
type scriptReader struct {
	storage.RelationshipTupleReader
	mu     sync.Mutex
	script string
	made   []*scriptIter[*openfgav1.Tuple]
}

func (r *scriptReader) Read(ctx context.Context, store string, filter storage.ReadFilter, options storage.ReadOptions) (storage.TupleIterator, error) {
	r.mu.Lock()
	defer r.mu.Unlock()
	it := parseScript(len(r.made), r.script, mkTuple)
	r.made = append(r.made, it)
	return it, nil
}

func (r *scriptReader) first() *scriptIter[*openfgav1.Tuple] {
	r.mu.Lock()
	defer r.mu.Unlock()
	if len(r.made) == 0 {
		return nil
	}
	return r.made[0]
}

func (r *scriptReader) count() int {
	r.mu.Lock()
	defer r.mu.Unlock()
	return len(r.made)
}

func underState(it *scriptIter[*openfgav1.Tuple]) string {
	if it == nil {
		return "none"
	}
	it.mu.Lock()
	defer it.mu.Unlock()
	return fmt.Sprintf("%d:%d:%d", len(it.rem), it.stops, it.nexts)
}

var readFilter = storage.ReadFilter{Object: "o:1", Relation: "r"}

func execShared(f []string) string {
	adm, _ := strconv.Atoi(f[1])
	script, acts := f[2], f[3]
	inner := &scriptReader{script: script}
	st := sharediterator.NewSharedIteratorDatastoreStorage()
	admission := time.Hour
	if adm > 0 {
		admission = time.Duration(adm) * time.Millisecond
	}
	ds := sharediterator.NewSharedIteratorDatastore(inner, st,
		sharediterator.WithMaxAdmissionTime(admission), sharediterator.WithMaxIdleTime(time.Hour))
	var clones []storage.TupleIterator
	var out []string
	for _, a := range strings.Split(acts, ",") {
		if a == "" || a == "-" {
			continue
		}
		if a == "c" {
			it, err := ds.Read(liveCtx, "s", readFilter, storage.ReadOptions{})
			if err != nil {
				out = append(out, "cerr")
				continue
			}
			clones = append(clones, it)
			out = append(out, "c"+strconv.Itoa(inner.count()))
			continue
		}
		if a == "x" {
			// wait until the admission timer has stopped the original: a probe Read then reaches the producer again
			deadline := time.Now().Add(5 * time.Second)
			fired := false
			for time.Now().Before(deadline) {
				before := inner.count()
				it, err := ds.Read(liveCtx, "s", readFilter, storage.ReadOptions{})
				if err == nil {
					it.Stop()
				}
				if inner.count() > before {
					fired = true
					break
				}
				time.Sleep(2 * time.Millisecond)
			}
			if fired {
				out = append(out, "x")
			} else {
				out = append(out, "xtimeout")
			}
			continue
		}
		i, _ := strconv.Atoi(a[1:])
		if i >= len(clones) {
			out = append(out, "noclone")
			continue
		}
		it := clones[i]
		switch a[0] {
		case 'n':
			v, err := it.Next(liveCtx)
			out = append(out, resTok(showTuple(v), err))
		case 'N':
			v, err := it.Next(cancelledCtx)
			out = append(out, resTok(showTuple(v), err))
		case 'h':
			v, err := it.Head(liveCtx)
			out = append(out, resTok(showTuple(v), err))
		case 'H':
			v, err := it.Head(cancelledCtx)
			out = append(out, resTok(showTuple(v), err))
		case 's':
			it.Stop()
			out = append(out, "s")
		}
	}
	return join(out) + " | " + underState(inner.first())
}

// gatedIter blocks the pauseAt-th Next call until the harness lets it go on; the call is then forwarded unchanged with
// the context it was given (the scripted iterator answers a cancelled context with the context's error and changes nothing).
type gatedIter struct {
	*scriptIter[*openfgav1.Tuple]
	mu      sync.Mutex
	calls   int
	pauseAt int
	reached chan struct{}
	proceed chan struct{}
}

func (g *gatedIter) Next(ctx context.Context) (*openfgav1.Tuple, error) {
	g.mu.Lock()
	g.calls++
	hit := g.calls == g.pauseAt
	g.mu.Unlock()
	if hit {
		close(g.reached)
		select {
		case <-g.proceed:
		case <-time.After(20 * time.Second): // failure path only
		}
	}
	return g.scriptIter.Next(ctx)
}

type gatedReader struct {
	storage.RelationshipTupleReader
	mu   sync.Mutex
	made int
	g    *gatedIter
}

func (r *gatedReader) Read(ctx context.Context, store string, filter storage.ReadFilter, options storage.ReadOptions) (storage.TupleIterator, error) {
	r.mu.Lock()
	defer r.mu.Unlock()
	r.made++
	if r.made == 1 {
		return r.g, nil
	}
	return &scriptIter[*openfgav1.Tuple]{id: r.made}, nil // not reached while the original is alive
}

func execSharedCancel(f []string) string {
	script, order := f[1], f[3]
	pauseAt, _ := strconv.Atoi(f[2])
	g := &gatedIter{scriptIter: parseScript(0, script, mkTuple), pauseAt: pauseAt, reached: make(chan struct{}), proceed: make(chan struct{})}
	inner := &gatedReader{g: g}
	st := sharediterator.NewSharedIteratorDatastoreStorage()
	ds := sharediterator.NewSharedIteratorDatastore(inner, st,
		sharediterator.WithMaxAdmissionTime(time.Hour), sharediterator.WithMaxIdleTime(time.Hour))
	var prefix []string
	for _, e := range strings.Split(expandScript(script), ",") {
		if e != "_" && !strings.HasPrefix(e, "!") {
			prefix = append(prefix, e)
		}
	}
	drain := func(ctx context.Context, it storage.TupleIterator) string {
		var toks []string
		for {
			v, err := it.Next(ctx)
			toks = append(toks, resTok(showTuple(v), err))
			if err != nil || len(toks) > len(prefix)+3 {
				break
			}
		}
		return compress(toks, prefix)
	}
	ctxA, cancelA := context.WithCancel(context.Background())
	defer cancelA()
	itA, err := ds.Read(ctxA, "s", readFilter, storage.ReadOptions{})
	if err != nil {
		return "cerr"
	}
	var itB storage.TupleIterator
	if order == "0" {
		if itB, err = ds.Read(liveCtx, "s", readFilter, storage.ReadOptions{}); err != nil {
			return "cerr"
		}
	}
	doneA := make(chan string, 1)
	go func() { doneA <- drain(ctxA, itA) }()
	select {
	case <-g.reached:
	case <-time.After(20 * time.Second): // failure path only
		close(g.proceed)
		return "gate-not-reached A=" + <-doneA
	}
	cancelA()
	close(g.proceed)
	resA := <-doneA
	if itB == nil {
		if itB, err = ds.Read(liveCtx, "s", readFilter, storage.ReadOptions{}); err != nil {
			return "cerr"
		}
	}
	resB := drain(liveCtx, itB)
	itA.Stop()
	itB.Stop()
	inner.mu.Lock()
	made := inner.made
	inner.mu.Unlock()
	return fmt.Sprintf("A=%s B=%s | %d:%s", resA, resB, made, underState(g.scriptIter))
}

func execSharedStress(f []string) string {
	script := f[1]
	var plan []int
	for _, p := range strings.Split(f[2], ",") {
		n, _ := strconv.Atoi(p)
		plan = append(plan, n)
	}
	inner := &scriptReader{script: script}
	st := sharediterator.NewSharedIteratorDatastoreStorage()
	ds := sharediterator.NewSharedIteratorDatastore(inner, st,
		sharediterator.WithMaxAdmissionTime(time.Hour), sharediterator.WithMaxIdleTime(time.Hour))
	// the first Read creates the shared iterator; keep its clone open until every goroutine has cloned, so that the
	// underlying iterator cannot be released (and a second one created) in between
	keep, err := ds.Read(liveCtx, "s", readFilter, storage.ReadOptions{})
	if err != nil {
		return "cerr"
	}
	// the item subsequence of the script, used only to abbreviate the output ("P<k>" = its first k items)
	var prefix []string
	for _, e := range strings.Split(expandScript(script), ",") {
		if e != "_" && !strings.HasPrefix(e, "!") {
			prefix = append(prefix, e)
		}
	}
	seqs := make([]string, len(plan))
	var wg sync.WaitGroup
	start := make(chan struct{})
	for g, k := range plan {
		wg.Add(1)
		go func(g, k int) {
			defer wg.Done()
			<-start
			it, err := ds.Read(liveCtx, "s", readFilter, storage.ReadOptions{})
			if err != nil {
				seqs[g] = "cerr"
				return
			}
			defer it.Stop()
			var toks []string
			for n := 0; k < 0 || n < k; n++ {
				v, err := it.Next(liveCtx)
				toks = append(toks, resTok(showTuple(v), err))
				if err != nil {
					break
				}
			}
			seqs[g] = compress(toks, prefix)
		}(g, k)
	}
	close(start)
	wg.Wait()
	keep.Stop()
	return strings.Join(seqs, ";") + " | " + fmt.Sprintf("%d:", inner.count()) + underState(inner.first())
}

// compress abbreviates a leading run of tokens that equals the first k items of the script as "P<k>".
func compress(toks, prefix []string) string {
	k := 0
	for k < len(toks) && k < len(prefix) && toks[k] == prefix[k] {
		k++
	}
	out := append([]string{"P" + strconv.Itoa(k)}, toks[k:]...)
	return strings.Join(out, ",")
}

// firstFull is the sequence observed by the first goroutine that read until an error.
func firstFull(seqs []string, plan string) string {
	for i, p := range strings.Split(plan, ",") {
		if p == "-1" && i < len(seqs) {
			return seqs[i]
		}
	}
	return ""
}

func exec(line string, st *hx.Stats) string {
	f := strings.Fields(line)
	switch f[0] {
	case "ad":
		return execAdapter(f)
	case "sh":
		return execShared(f)
	case "shs":
		return execSharedStress(f)
	case "shc":
		return execSharedCancel(f)
	case "fi":
		return execFanIn(f)
	case "shr":
		// shr <script> <plan> <rounds>: the stress case repeated; prints the first deviating round's output (same format as
		// shs) or the last round's.  Used to reproduce the rare stale-fetch interleaving of fetchAndWait.
		rounds, _ := strconv.Atoi(f[3])
		last := ""
		for i := 0; i < rounds; i++ {
			last = execSharedStress(f[:3])
			seqs := strings.Split(strings.SplitN(last, " | ", 2)[0], ";")
			for gi, sq := range seqs {
				// goroutines with plan -1 must all observe the same sequence
				if strings.Split(f[2], ",")[gi] == "-1" && sq != firstFull(seqs, f[2]) {
					return last
				}
			}
		}
		return last
	}
	return "badcase"
}

// ---------- generator ----------

type genCfg struct {
	maxLen   int
	keyRange int
	sorted   bool
	errPct   int
	tagRange int
}

func genScript(r *hx.Rand, c genCfg) string {
	n := r.Intn(c.maxLen + 1)
	if n == 0 {
		return "_"
	}
	keys := make([]int, n)
	for i := range keys {
		keys[i] = r.Intn(c.keyRange)
	}
	if c.sorted {
		for i := 1; i < n; i++ {
			for j := i; j > 0 && keys[j-1] > keys[j]; j-- {
				keys[j-1], keys[j] = keys[j], keys[j-1]
			}
		}
	}
	parts := make([]string, 0, n)
	for i := 0; i < n; i++ {
		if r.Intn(100) < c.errPct {
			parts = append(parts, "!"+strconv.Itoa(1+r.Intn(9)))
		} else {
			parts = append(parts, fmt.Sprintf("%d.%d", keys[i], r.Intn(c.tagRange)))
		}
	}
	return strings.Join(parts, ",")
}

func scriptLen(s string) int {
	s = expandScript(s)
	if s == "_" || s == "0" {
		return 0
	}
	return strings.Count(s, ",") + 1
}

func genOps(r *hx.Rand, total int, headOK bool) string {
	mode := r.Intn(10)
	var sb strings.Builder
	switch {
	case mode < 3: // plain drain
		for i := 0; i < total+3; i++ {
			sb.WriteByte('n')
		}
	case mode < 5 && headOK: // head/next alternation
		for i := 0; i < total+2; i++ {
			sb.WriteByte('h')
			if r.Chance(1, 3) {
				sb.WriteByte('h')
			}
			sb.WriteByte('n')
		}
	default:
		n := r.Intn(total + 6)
		for i := 0; i < n; i++ {
			switch x := r.Intn(100); {
			case x < 55:
				sb.WriteByte('n')
			case x < 75:
				sb.WriteByte('h')
			case x < 80:
				sb.WriteByte('s')
			case x < 88:
				sb.WriteByte('N')
			default:
				sb.WriteByte('H')
			}
		}
		if r.Chance(1, 2) {
			for i := 0; i < 3; i++ {
				sb.WriteByte('n')
			}
		}
	}
	if sb.Len() == 0 {
		return "-"
	}
	return sb.String()
}

var adapters = []string{"static", "combined", "concat", "merge", "filter", "cond", "bool", "validate", "validatenil", "skipto", "oc", "oc", "merge", "combined"}

func genAdapter(r *hx.Rand, st *hx.Stats) string {
	ad := hx.Pick(r, adapters)
	st.Inc("ad:" + ad)
	errPct := 0
	switch r.Intn(4) {
	case 0:
		errPct = 12
	case 1:
		errPct = 30
	}
	if errPct > 0 {
		st.Inc("with-errors")
	}
	cfg := genCfg{maxLen: 6, keyRange: 6, sorted: r.Intn(10) < 8, errPct: errPct, tagRange: 12}
	param := "-"
	var scripts []string
	headOK := true
	switch ad {
	case "static":
		cfg.errPct = 0
		scripts = []string{genScript(r, cfg)}
	case "combined", "oc":
		n := r.Intn(5)
		if n == 0 {
			scripts = []string{"0"}
		}
		for i := 0; i < n; i++ {
			scripts = append(scripts, genScript(r, cfg))
		}
	case "concat", "merge":
		scripts = []string{genScript(r, cfg), genScript(r, cfg)}
		headOK = false
	case "filter":
		headOK = false
		cfg.maxLen = 8
		scripts = []string{genScript(r, cfg)}
	case "skipto":
		cfg.tagRange = 2
		scripts = []string{genScript(r, cfg)}
		param = strconv.Itoa(r.Intn(8))
		if r.Chance(1, 10) {
			param += "c"
		}
	default:
		cfg.maxLen = 8
		scripts = []string{genScript(r, cfg)}
	}
	total := 0
	for _, s := range scripts {
		total += scriptLen(s)
	}
	return fmt.Sprintf("ad %s %s %s %s", ad, param, strings.Join(scripts, ";"), genOps(r, total, headOK))
}

func genSharedScript(r *hx.Rand, big bool) string {
	n := r.Intn(9)
	if big {
		n = 95 + r.Intn(120)
		if r.Chance(1, 3) {
			return fmt.Sprintf("#%d@%d!%d", n, r.Intn(n+1), 1+r.Intn(9))
		}
		return fmt.Sprintf("#%d", n)
	}
	if n == 0 {
		return "_"
	}
	parts := make([]string, 0, n+1)
	errAt := -1
	if r.Chance(1, 3) {
		errAt = r.Intn(n + 1)
	}
	for i := 0; i < n; i++ {
		if i == errAt {
			parts = append(parts, "!"+strconv.Itoa(1+r.Intn(9)))
		}
		parts = append(parts, fmt.Sprintf("%d.%d", i, r.Intn(3)))
	}
	if errAt == n {
		parts = append(parts, "!"+strconv.Itoa(1+r.Intn(9)))
	}
	return strings.Join(parts, ",")
}

func genShared(r *hx.Rand, st *hx.Stats) string {
	big := r.Chance(1, 8)
	script := genSharedScript(r, big)
	total := scriptLen(script)
	nclones := 1 + r.Intn(4)
	acts := []string{"c"}
	made := 1
	steps := r.Intn(3*total/2+8) + 2
	if big {
		steps = total + r.Intn(total)
	}
	for i := 0; i < steps; i++ {
		if made < nclones && r.Chance(1, 5) {
			acts = append(acts, "c")
			made++
			continue
		}
		c := r.Intn(made)
		switch x := r.Intn(100); {
		case x < 70:
			acts = append(acts, "n"+strconv.Itoa(c))
		case x < 82:
			acts = append(acts, "h"+strconv.Itoa(c))
		case x < 88:
			acts = append(acts, "s"+strconv.Itoa(c))
		case x < 94:
			acts = append(acts, "N"+strconv.Itoa(c))
		default:
			acts = append(acts, "H"+strconv.Itoa(c))
		}
	}
	adm := 0
	if !big && r.Chance(1, 12) {
		st.Inc("sh:expiry")
		adm = 40
		if r.Chance(1, 2) {
			for c := 0; c < made; c++ {
				acts = append(acts, "s"+strconv.Itoa(c))
			}
		}
		acts = append(acts, "x")
		// after expiry the existing clones keep working
		for i := 0; i < 3; i++ {
			acts = append(acts, "n"+strconv.Itoa(r.Intn(made)))
		}
		if r.Chance(1, 2) {
			for c := 0; c < made; c++ {
				acts = append(acts, "s"+strconv.Itoa(c))
			}
		}
	}
	if big {
		st.Inc("sh:big")
	} else {
		st.Inc("sh:small")
	}
	return fmt.Sprintf("sh %d %s %s", adm, script, strings.Join(acts, ","))
}

func genSharedStress(r *hx.Rand, st *hx.Stats) string {
	st.Inc("shs")
	script := genSharedScript(r, r.Chance(1, 2))
	total := scriptLen(script)
	g := 2 + r.Intn(10)
	plan := make([]string, g)
	for i := range plan {
		if r.Chance(2, 3) {
			plan[i] = "-1"
		} else {
			plan[i] = strconv.Itoa(r.Intn(total + 2))
		}
	}
	return fmt.Sprintf("shs %s %s", script, strings.Join(plan, ","))
}

func gen(r *hx.Rand, n int, tier string, emit func(string), st *hx.Stats) {
	for i := 0; i < n; i++ {
		c := r.Fork()
		// a few repeated stress cases per run: 16 goroutines on a short script with an error, many rounds — this is what
		// makes a stale fetch in fetchAndWait (finding F18, fixed by the re-check in fetchMore) show up reliably
		if i%400 == 7 {
			st.Inc("shr")
			scripts := []string{"0.0,!7", "!7,0.0", "#30@20!8", "0.0,1.1,!3,2.0"}
			plan := strings.TrimSuffix(strings.Repeat("-1,", 16), ",")
			emit(fmt.Sprintf("shr %s %s %d", hx.Pick(c, scripts), plan, 1500))
			continue
		}
		// a small share: a clone cancelled in the middle of the batch fetch it triggered, another clone reads on
		if c.Intn(60) == 0 {
			st.Inc("shc")
			n := 101 + c.Intn(160)
			script := fmt.Sprintf("#%d", n)
			calls := n + 1 // underlying Next calls of a full drain: n items and the call that reports Done
			if c.Chance(1, 4) {
				e := c.Intn(n + 1)
				script = fmt.Sprintf("#%d@%d!%d", n, e, 1+c.Intn(9))
				calls = e + 1 // e items and the call that reports the error
			}
			emit(fmt.Sprintf("shc %s %d %d", script, 1+c.Intn(calls), c.Intn(2)))
			continue
		}
		// fan-in of iterator channels, with error-only messages among the inputs
		if c.Intn(25) == 0 {
			emit(genFanIn(c, st))
			continue
		}
		switch k := c.Intn(20); {
		case k < 13:
			emit(genAdapter(c, st))
		case k < 18:
			emit(genShared(c, st))
		default:
			emit(genSharedStress(c, st))
		}
	}
}

func main() { hx.Main(hx.Harness{Gen: gen, Exec: exec}) }
