// Harness for C24 (cache keys): runs the REAL key builder (pkg/storage/cache/keys), PbValue / Tuple
// serialisers and every exported key function on generated inputs and prints the key bytes.
//
// Case kinds (one self-contained line each; byte strings are hex, "-" = empty):
//
//	val <v> <v> ...                      generic Builder values written one after the other -> bytes
//	pb <pbspec>                          (*keys.PbValue).WriteTo                            -> bytes
//	tup <tuple>                          (*keys.Tuple).WriteTo                              -> bytes
//	tupamb <o> <r> <u> <name> <pbspec>   tuple without condition + String + PbValue  vs  tuple with condition -> bytes bytes
//	site <name> arg=hex|#u64 ...         plain exported key functions                       -> key bytes
//	inv <seed> <store> <model> <ctx> <tuples>        storage.InvariantCacheKey              -> u64
//	sub <seed> <store> <model> <obj> <rel> <user> <ctx> <tuples>   graph.NewResolveCheckRequest + CheckCacheKey (V1 wiring) -> key
//	v2req <seed> <store> <model> <objid> <relidx> <userid> <ctx> <tuples> <edge>   check.NewRequest + EdgeCacheKey (V2 wiring)
//	read <seed> <store> <obj> <rel> <user> <conds>                  storage.ReadKey
//	rut  <seed> <store> <obj> <rel> <refs> <conds>                  storage.ReadUsersetTuplesKey
//	rswu <seed> <store> <otype> <rel> <uf> <oids> <conds>           storage.ReadStartingWithUserKey
//	f7wrap <n>                           CachedDatastore over the memory store: nil vs empty ObjectIDs
//	pair <caseA> ## <caseB>              both cases; the driver compares key equality with semantic equality
package main

import (
	"context"
	"fmt"
	"math"
	"sort"
	"strconv"
	"strings"
	"sync"
	"time"

	"golang.org/x/sync/singleflight"
	"google.golang.org/protobuf/types/known/structpb"

	openfgav1 "github.com/openfga/api/proto/openfga/v1"
	parser "github.com/openfga/language/pkg/go/transformer"

	"github.com/openfga/openfga/internal/check"
	"github.com/openfga/openfga/internal/graph"
	"github.com/openfga/openfga/internal/modelgraph"
	"github.com/openfga/openfga/pkg/storage"
	"github.com/openfga/openfga/pkg/storage/cache/keys"
	"github.com/openfga/openfga/pkg/storage/memory"
	"github.com/openfga/openfga/pkg/storage/storagewrappers"
	"github.com/openfga/openfga/pkg/tuple"
	"github.com/openfga/openfga/verifharness/hx"
)

// ---------------------------------------------------------------------------------------------
// parsing of specs (shared by Exec)

type toks struct {
	t []string
	i int
}

func (p *toks) next() string {
	if p.i >= len(p.t) {
		panic("spec: out of tokens")
	}
	s := p.t[p.i]
	p.i++
	return s
}

func unh(s string) string { return string(hx.MustUnH(s)) }

// generic Builder value: n x y<hex2> t f u<dec> s<hex> b<hex> a<n> m<n> p
func parseVal(p *toks) keys.Serializable {
	t := p.next()
	switch t[0] {
	case 'n':
		return keys.Null{}
	case 'x':
		return keys.Unset{}
	case 'y':
		return keys.Byte(hx.MustUnH(t[1:])[0])
	case 't':
		return keys.Bool(true)
	case 'f':
		return keys.Bool(false)
	case 'u':
		v, err := strconv.ParseUint(t[1:], 10, 64)
		if err != nil {
			panic(err)
		}
		return keys.Uint64(v)
	case 's':
		return keys.String(unh(t[1:]))
	case 'b':
		return keys.Bytes(hx.MustUnH(t[1:]))
	case 'a':
		n, _ := strconv.Atoi(t[1:])
		a := make(keys.Array, n)
		for i := range a {
			a[i] = parseVal(p)
		}
		return a
	case 'm':
		n, _ := strconv.Atoi(t[1:])
		m := make(keys.Map, n)
		for i := range m {
			k := parseVal(p)
			v := parseVal(p)
			m[i] = keys.MapEntry{Key: k, Value: v}
		}
		return m
	case 'p':
		k := parseVal(p)
		v := parseVal(p)
		return keys.Pair{Key: k, Value: v}
	}
	panic("bad value token " + t)
}

// structpb spec: U Z N T F D<16hex> S<hex> L<n> l M<n> (K<hex> value)* q
func parsePb(p *toks) *structpb.Value {
	t := p.next()
	switch t[0] {
	case 'U':
		return &structpb.Value{}
	case 'Z':
		return nil
	case 'N':
		return structpb.NewNullValue()
	case 'T':
		return structpb.NewBoolValue(true)
	case 'F':
		return structpb.NewBoolValue(false)
	case 'D':
		bits, err := strconv.ParseUint(t[1:], 16, 64)
		if err != nil {
			panic(err)
		}
		return structpb.NewNumberValue(math.Float64frombits(bits))
	case 'S':
		return structpb.NewStringValue(unh(t[1:]))
	case 'L':
		n, _ := strconv.Atoi(t[1:])
		vs := make([]*structpb.Value, n)
		for i := range vs {
			vs[i] = parsePb(p)
		}
		return structpb.NewListValue(&structpb.ListValue{Values: vs})
	case 'l':
		return &structpb.Value{Kind: &structpb.Value_ListValue{}}
	case 'M':
		return structpb.NewStructValue(parseStructBody(t, p))
	case 'q':
		return &structpb.Value{Kind: &structpb.Value_StructValue{}}
	}
	panic("bad pb token " + t)
}

func parseStructBody(t string, p *toks) *structpb.Struct {
	n, _ := strconv.Atoi(t[1:])
	fs := make(map[string]*structpb.Value, n)
	for i := 0; i < n; i++ {
		k := p.next()
		if k[0] != 'K' {
			panic("expected key token")
		}
		fs[unh(k[1:])] = parsePb(p)
	}
	return &structpb.Struct{Fields: fs}
}

// a struct-or-nil spec: "q" = nil *structpb.Struct, "M<n>,..." = struct
func parseStruct(spec string) *structpb.Struct {
	if spec == "q" {
		return nil
	}
	p := &toks{t: strings.Split(spec, ",")}
	t := p.next()
	if t[0] != 'M' {
		panic("struct spec must start with M")
	}
	return parseStructBody(t, p)
}

// tuple: o<hex>;r<hex>;u<hex>;c0   |   o..;r..;u..;c1;<namehex>;<structspec>
func parseTuple(spec string) *openfgav1.TupleKey {
	f := strings.Split(spec, ";")
	tk := &openfgav1.TupleKey{Object: unh(f[0][1:]), Relation: unh(f[1][1:]), User: unh(f[2][1:])}
	if f[3] == "c1" {
		tk.Condition = &openfgav1.RelationshipCondition{Name: unh(f[4]), Context: parseStruct(f[5])}
	}
	return tk
}

func parseTuples(spec string) []*openfgav1.TupleKey {
	if spec == "-" {
		return nil
	}
	var out []*openfgav1.TupleKey
	for _, s := range strings.Split(spec, "|") {
		out = append(out, parseTuple(s))
	}
	return out
}

// string lists: "nil" | "[]" | h,h,h
func parseList(spec string) []string {
	switch spec {
	case "nil":
		return nil
	case "[]":
		return []string{}
	}
	var out []string
	for _, s := range strings.Split(spec, ",") {
		out = append(out, unh(s))
	}
	return out
}

func setSeed(s string) {
	v, err := strconv.ParseUint(s, 10, 64)
	if err != nil {
		panic(err)
	}
	keys.Seed = v
}

// ---------------------------------------------------------------------------------------------
// the fixed model of the v2req cases

const v2DSL = `model
  schema 1.1
type user
type group
  relations
    define member: [user, user:*, group#member, user with c1]
type doc
  relations
    define parent: [doc]
    define viewer: [user, group#member, user with c1] or viewer from parent
condition c1(x: int) {
  x < 10
}`

var v2Rels = []string{"doc#viewer", "doc#parent", "group#member"}

var (
	v2Once  sync.Once
	v2Model *openfgav1.AuthorizationModel
)

func v2Graph(modelID string) *modelgraph.AuthorizationModelGraph {
	v2Once.Do(func() { v2Model = parser.MustTransformDSLToProto(v2DSL) })
	m := &openfgav1.AuthorizationModel{Id: modelID, SchemaVersion: v2Model.GetSchemaVersion(), TypeDefinitions: v2Model.GetTypeDefinitions(), Conditions: v2Model.GetConditions()}
	g, err := modelgraph.New(m)
	if err != nil {
		panic(err)
	}
	return g
}

// ---------------------------------------------------------------------------------------------
// Exec

func exec(line string, st *hx.Stats) string {
	if strings.HasPrefix(line, "pair ") {
		ab := strings.SplitN(line[5:], " ## ", 2)
		return exec1(ab[0]) + " ## " + exec1(ab[1])
	}
	return exec1(line)
}

func exec1(line string) string {
	f := strings.Fields(line)
	switch f[0] {
	case "val":
		var kb keys.Builder
		for _, spec := range f[1:] {
			p := &toks{t: strings.Split(spec, ",")}
			kb.Serialize(parseVal(p))
		}
		return hx.H(kb.Bytes())
	case "pb":
		var kb keys.Builder
		p := &toks{t: strings.Split(f[1], ",")}
		v := parsePb(p)
		kb.Serialize((*keys.PbValue)(v))
		return hx.H(kb.Bytes())
	case "tup":
		var kb keys.Builder
		kb.Serialize((*keys.Tuple)(parseTuple(f[1])))
		return hx.H(kb.Bytes())
	case "tupamb":
		o, r, u, name := unh(f[1]), unh(f[2]), unh(f[3]), unh(f[4])
		ctx := parseStruct(f[5])
		var a, b keys.Builder
		a.Serialize((*keys.Tuple)(&openfgav1.TupleKey{Object: o, Relation: r, User: u}))
		a.Serialize(keys.String(name))
		a.Serialize((*keys.PbValue)(structpb.NewStructValue(ctx)))
		b.Serialize((*keys.Tuple)(&openfgav1.TupleKey{Object: o, Relation: r, User: u, Condition: &openfgav1.RelationshipCondition{Name: name, Context: ctx}}))
		return hx.H(a.Bytes()) + " " + hx.H(b.Bytes())
	case "site":
		args := map[string]string{}
		nums := map[string]uint64{}
		for _, kv := range f[2:] {
			i := strings.IndexByte(kv, '=')
			k, v := kv[:i], kv[i+1:]
			if strings.HasPrefix(v, "#") {
				n, err := strconv.ParseUint(v[1:], 10, 64)
				if err != nil {
					panic(err)
				}
				nums[k] = n
			} else {
				args[k] = unh(v)
			}
		}
		var k keys.Key
		switch f[1] {
		case "changelogCacheKey":
			k = storage.ChangelogCacheKey(args["storeID"])
		case "invalidIteratorCacheKey":
			k = storage.InvalidIteratorCacheKey(args["storeID"])
		case "invalidIteratorByObjectRelationCacheKey":
			k = storage.InvalidIteratorByObjectRelationCacheKey(args["storeID"], args["object"], args["relation"])
		case "invalidIteratorByUserObjectTypeCacheKey":
			k = storage.InvalidIteratorByUserObjectTypeCacheKey(args["storeID"], args["user"], args["objectType"])
		case "checkCacheKey":
			k = storage.CheckCacheKey(args["storeID"], args["object"], args["relation"], args["user"], nums["invariant"])
		case "modelgraphCacheKey":
			k = modelgraph.CacheKey(args["storeID"], args["modelID"])
		case "modelCacheKey":
			k = storagewrappers.ModelCacheKey(args["storeID"], args["modelID"])
		default:
			return "badsite"
		}
		return hx.H(k.Bytes())
	case "inv":
		setSeed(f[1])
		v := storage.InvariantCacheKey(unh(f[2]), unh(f[3]), parseStruct(f[4]), parseTuples(f[5])...)
		return strconv.FormatUint(v, 10)
	case "sub":
		setSeed(f[1])
		req, err := graph.NewResolveCheckRequest(graph.ResolveCheckRequestParams{
			StoreID: unh(f[2]), AuthorizationModelID: unh(f[3]),
			TupleKey:         &openfgav1.TupleKey{Object: unh(f[4]), Relation: unh(f[5]), User: unh(f[6])},
			Context:          parseStruct(f[7]),
			ContextualTuples: parseTuples(f[8]),
		})
		if err != nil {
			return "reqerr"
		}
		tk := req.GetTupleKey()
		k := storage.CheckCacheKey(req.GetStoreID(), tk.GetObject(), tk.GetRelation(), tk.GetUser(), req.GetInvariantCacheKey())
		return hx.H(k.Bytes())
	case "v2req":
		setSeed(f[1])
		store, modelID := unh(f[2]), unh(f[3])
		g := v2Graph(modelID)
		relIdx, _ := strconv.Atoi(f[5])
		objRel := v2Rels[relIdx%len(v2Rels)]
		ot, rel := tuple.SplitObjectRelation(objRel)
		tk := &openfgav1.TupleKey{Object: ot + ":" + unh(f[4]), Relation: rel, User: "user:" + unh(f[6])}
		req, err := check.NewRequest(check.RequestParams{StoreID: store, Model: g, TupleKey: tk, Context: parseStruct(f[7]), ContextualTuples: parseTuples(f[8])})
		if err != nil {
			return "reqerr " + strings.ReplaceAll(err.Error(), " ", "_")
		}
		// pick an edge deterministically
		var labels []string
		edges := g.GetEdges()
		for from := range edges {
			labels = append(labels, from)
		}
		sort.Strings(labels)
		type pe struct {
			sortKey string
			idx     int
			from    string
		}
		var all []pe
		for _, from := range labels {
			for i, e := range edges[from] {
				all = append(all, pe{from + "\x00" + e.GetTo().GetUniqueLabel() + "\x00" + strconv.Itoa(int(e.GetEdgeType())) + "\x00" + e.GetTuplesetRelation() + "\x00" + e.GetRelationDefinition(), i, from})
			}
		}
		sort.Slice(all, func(i, j int) bool { return all[i].sortKey < all[j].sortKey })
		ei, _ := strconv.Atoi(f[9])
		sel := all[ei%len(all)]
		e := edges[sel.from][sel.idx]
		ek := check.EdgeCacheKey(req, e)
		return fmt.Sprintf("%s %d %s %s %d %s %s %s", hx.H(req.GetCacheKey().Bytes()), req.GetInvariantCacheKey(),
			hx.HS(tk.GetObject()), hx.HS(e.GetRelationDefinition()), uint64(e.GetEdgeType()), hx.HS(e.GetTo().GetUniqueLabel()), hx.HS(e.GetTuplesetRelation()), hx.H(ek.Bytes()))
	case "read":
		setSeed(f[1])
		k := storage.ReadKey(unh(f[2]), storage.ReadFilter{Object: unh(f[3]), Relation: unh(f[4]), User: unh(f[5]), Conditions: parseList(f[6])})
		return hx.H(k.Bytes())
	case "rut":
		setSeed(f[1])
		var refs []*openfgav1.RelationReference
		if f[5] != "nil" {
			for _, s := range strings.Split(f[5], ",") {
				p := strings.Split(s, ";")
				ref := &openfgav1.RelationReference{Type: unh(p[1])}
				switch p[0] {
				case "1":
					ref.RelationOrWildcard = &openfgav1.RelationReference_Relation{Relation: unh(p[2])}
				case "2":
					ref.RelationOrWildcard = &openfgav1.RelationReference_Wildcard{Wildcard: &openfgav1.Wildcard{}}
				}
				refs = append(refs, ref)
			}
		}
		k := storage.ReadUsersetTuplesKey(unh(f[2]), storage.ReadUsersetTuplesFilter{Object: unh(f[3]), Relation: unh(f[4]), AllowedUserTypeRestrictions: refs, Conditions: parseList(f[6])})
		return hx.H(k.Bytes())
	case "rswu":
		setSeed(f[1])
		var uf []*openfgav1.ObjectRelation
		if f[5] != "nil" {
			for _, s := range strings.Split(f[5], ",") {
				p := strings.Split(s, ";")
				uf = append(uf, &openfgav1.ObjectRelation{Object: unh(p[0]), Relation: unh(p[1])})
			}
		}
		flt := storage.ReadStartingWithUserFilter{ObjectType: unh(f[3]), Relation: unh(f[4]), UserFilter: uf, Conditions: parseList(f[7])}
		switch f[6] {
		case "nil":
		case "[]":
			flt.ObjectIDs = storage.NewSortedSet()
		default:
			flt.ObjectIDs = storage.NewSortedSet(parseList(f[6])...)
		}
		k := storage.ReadStartingWithUserKey(unh(f[2]), flt)
		return hx.H(k.Bytes())
	case "f7wrap":
		n, _ := strconv.Atoi(f[1])
		return f7wrap(n)
	}
	return "badcase"
}

// f7wrap: does the shared key of nil / empty ObjectIDs produce a different answer through the real
// caching wrapper?  Prints tuple counts: direct(nil) direct(empty) cached(nil) cached(empty after nil).
func f7wrap(n int) string {
	ctx := context.Background()
	ds := memory.New()
	defer ds.Close()
	store := "01HVMMBCMGZNT3SED4Z17ECXCA"
	var ws []*openfgav1.TupleKey
	for i := 0; i < n; i++ {
		ws = append(ws, &openfgav1.TupleKey{Object: "doc:" + strconv.Itoa(i), Relation: "viewer", User: "user:x"})
	}
	if err := ds.Write(ctx, store, nil, ws); err != nil {
		return "writeerr"
	}
	cache, err := storage.NewInMemoryLRUCache[any]()
	if err != nil {
		return "cacheerr"
	}
	defer cache.Stop()
	var wg sync.WaitGroup
	cd := storagewrappers.NewCachedDatastore(ctx, ds, cache, 1000, time.Hour, &singleflight.Group{}, &wg)
	count := func(r storage.RelationshipTupleReader, oids storage.SortedSet) int {
		it, err := r.ReadStartingWithUser(ctx, store, storage.ReadStartingWithUserFilter{
			ObjectType: "doc", Relation: "viewer", UserFilter: []*openfgav1.ObjectRelation{{Object: "user:x"}}, ObjectIDs: oids,
		}, storage.ReadStartingWithUserOptions{})
		if err != nil {
			return -1
		}
		c := 0
		for {
			_, err := it.Next(ctx)
			if err != nil {
				break
			}
			c++
		}
		it.Stop()
		wg.Wait()
		return c
	}
	dn := count(ds, nil)
	de := count(ds, storage.NewSortedSet())
	cn := count(cd, nil)
	// give the asynchronous cache admission a moment
	for i := 0; i < 50; i++ {
		wg.Wait()
		time.Sleep(2 * time.Millisecond)
		if cache.Get(storage.ReadStartingWithUserKey(store, storage.ReadStartingWithUserFilter{ObjectType: "doc", Relation: "viewer", UserFilter: []*openfgav1.ObjectRelation{{Object: "user:x"}}})) != nil {
			break
		}
	}
	ce := count(cd, storage.NewSortedSet())
	return fmt.Sprintf("direct_nil=%d direct_empty=%d cached_nil=%d cached_empty_after_nil=%d", dn, de, cn, ce)
}

// ---------------------------------------------------------------------------------------------
// Gen

var sepBytes = []byte{0x00, 0x01, 0x02, 0x03, 0x04, 0x05, 0x06, 0x07, 0x08, 0x09, 0x0a, 0x0b, '#', ':', '@', '|', ',', ';', '*', 0x7f, 0x80, 0xff, 0xc3, 0xa9, 'a', 'b', 'c'}

func rbytes(r *hx.Rand, tier string) []byte {
	var n int
	switch k := r.Intn(100); {
	case k < 12:
		n = 0
	case k < 50:
		n = 1 + r.Intn(3)
	case k < 90:
		n = 1 + r.Intn(12)
	case k < 96:
		n = hx.Pick(r, []int{126, 127, 128, 129, 255, 256})
	case k < 99:
		n = 30 + r.Intn(60)
	default:
		if tier == "thorough" || r.Chance(1, 4) {
			n = hx.Pick(r, []int{16383, 16384, 16385})
		} else {
			n = 300
		}
	}
	b := make([]byte, n)
	if n > 300 {
		c := sepBytes[r.Intn(len(sepBytes))]
		for i := range b {
			b[i] = c
		}
		b[r.Intn(n)] = byte(r.Intn(256))
		return b
	}
	for i := range b {
		if r.Chance(1, 5) {
			b[i] = byte(r.Intn(256))
		} else {
			b[i] = sepBytes[r.Intn(len(sepBytes))]
		}
	}
	return b
}

// short byte strings for places where many of them are combined
func sbytes(r *hx.Rand) []byte {
	n := r.Intn(4)
	if r.Chance(1, 30) {
		n = hx.Pick(r, []int{127, 128})
	}
	b := make([]byte, n)
	for i := range b {
		b[i] = sepBytes[r.Intn(len(sepBytes))]
	}
	return b
}

func genVal(r *hx.Rand, depth int, tier string) string {
	k := r.Intn(14)
	if depth <= 0 && k >= 10 {
		k = r.Intn(10)
	}
	switch k {
	case 0:
		return "n"
	case 1:
		return "x"
	case 2:
		return "y" + hx.H([]byte{byte(r.Intn(13))})
	case 3:
		return "t"
	case 4:
		return "f"
	case 5:
		if r.Bool() {
			// little-endian bytes that look like tags / lengths
			var v uint64
			for i := 0; i < 8; i++ {
				v |= uint64(r.Intn(13)) << (8 * uint(i))
			}
			return "u" + strconv.FormatUint(v, 10)
		}
		return "u" + strconv.FormatUint(r.U64()>>uint(r.Intn(64)), 10)
	case 6, 7, 8:
		return "s" + hx.H(rbytes(r, tier))
	case 9:
		return "b" + hx.H(rbytes(r, tier))
	case 10, 11:
		n := r.Intn(4)
		if r.Chance(1, 40) {
			n = 128
		}
		parts := []string{"a" + strconv.Itoa(n)}
		for i := 0; i < n; i++ {
			d := depth - 1
			if n > 10 {
				d = 0
			}
			parts = append(parts, genVal(r, d, "quick"))
		}
		return strings.Join(parts, ",")
	case 12:
		n := r.Intn(3)
		parts := []string{"m" + strconv.Itoa(n)}
		for i := 0; i < 2*n; i++ {
			parts = append(parts, genVal(r, depth-1, "quick"))
		}
		return strings.Join(parts, ",")
	default:
		return "p," + genVal(r, depth-1, "quick") + "," + genVal(r, depth-1, "quick")
	}
}

// near-collision rewriting of a sequence of value specs
func mutateVals(r *hx.Rand, vs []string) []string {
	out := append([]string{}, vs...)
	if len(out) == 0 {
		return []string{"n"}
	}
	i := r.Intn(len(out))
	v := out[i]
	switch r.Intn(9) {
	case 0: // identical
	case 1: // string <-> bytes
		if v[0] == 's' && !strings.Contains(v, ",") {
			out[i] = "b" + v[1:]
		} else if v[0] == 'b' && !strings.Contains(v, ",") {
			out[i] = "s" + v[1:]
		} else {
			out[i] = "n"
		}
	case 2: // move one byte across a field boundary
		if i+1 < len(out) && out[i][0] == 's' && out[i+1][0] == 's' && !strings.Contains(out[i], ",") && !strings.Contains(out[i+1], ",") {
			a, b := hx.MustUnH(out[i][1:]), hx.MustUnH(out[i+1][1:])
			if len(b) > 0 {
				a = append(append([]byte{}, a...), b[0])
				b = b[1:]
				out[i], out[i+1] = "s"+hx.H(a), "s"+hx.H(b)
			}
		} else {
			out = append(out, "s-")
		}
	case 3: // array <-> flat sequence, array <-> map
		if v[0] == 'a' {
			p := strings.SplitN(v, ",", 2)
			n, _ := strconv.Atoi(p[0][1:])
			if n%2 == 0 && r.Bool() {
				rest := ""
				if len(p) > 1 {
					rest = "," + p[1]
				}
				out[i] = "m" + strconv.Itoa(n/2) + rest
			} else if len(p) > 1 {
				// elements written without the header
				out[i] = "a0"
				out = append(out[:i+1], append(splitTop(p[1]), out[i+1:]...)...)
			}
		} else {
			out[i] = "a1," + v
		}
	case 4: // null / unset / false / byte 0 / empty string
		if v == "t" {
			out[i] = "f"
		} else if v == "f" {
			out[i] = "t"
		} else {
			out[i] = hx.Pick(r, []string{"n", "x", "f", "t", "y00", "y01", "s-", "b-", "a0", "m0", "u0", "u1"})
		}
	case 5: // drop or duplicate a field
		if r.Bool() && len(out) > 1 {
			out = append(out[:i], out[i+1:]...)
		} else {
			out = append(out[:i+1], out[i:]...)
		}
	case 6: // swap two fields
		j := r.Intn(len(out))
		out[i], out[j] = out[j], out[i]
	case 7: // a string whose content is the encoding of another field
		out[i] = "s" + hx.H([]byte{4, 1, 'a'})
	case 8: // pair <-> array of two
		if v[0] == 'p' {
			out[i] = "a2" + v[1:]
		} else {
			out[i] = "p," + v + ",n"
		}
	}
	return out
}

// splitTop splits a comma-joined run of complete value specs into top-level specs.
func splitTop(s string) []string {
	t := strings.Split(s, ",")
	var out []string
	i := 0
	var one func() []string
	one = func() []string {
		tok := t[i]
		i++
		cur := []string{tok}
		n := 0
		switch tok[0] {
		case 'a':
			n, _ = strconv.Atoi(tok[1:])
		case 'm':
			n, _ = strconv.Atoi(tok[1:])
			n *= 2
		case 'p':
			n = 2
		}
		for k := 0; k < n; k++ {
			cur = append(cur, one()...)
		}
		return cur
	}
	for i < len(t) {
		out = append(out, strings.Join(one(), ","))
	}
	return out
}

type pbField struct {
	k string
	v string
}

func genPb(r *hx.Rand, depth int) string {
	k := r.Intn(12)
	if depth <= 0 && k >= 8 {
		k = r.Intn(8)
	}
	switch k {
	case 0:
		return "U"
	case 1:
		return "N"
	case 2:
		return hx.Pick(r, []string{"T", "F"})
	case 3, 4:
		bits := hx.Pick(r, []uint64{0, 1 << 63, math.Float64bits(1), math.Float64bits(-1.5), 0x7ff8000000000001, 0x7ff8000000000000, 0x7ff0000000000000, math.Float64bits(1e300), 0x0404040404040404, r.U64()})
		return fmt.Sprintf("D%016x", bits)
	case 5, 6:
		return "S" + hx.H(sbytes(r))
	case 7:
		return hx.Pick(r, []string{"l", "q", "L0", "M0"})
	case 8, 9:
		n := r.Intn(4)
		parts := []string{"L" + strconv.Itoa(n)}
		for i := 0; i < n; i++ {
			if r.Chance(1, 12) {
				parts = append(parts, "Z")
			} else {
				parts = append(parts, genPb(r, depth-1))
			}
		}
		return strings.Join(parts, ",")
	default:
		return pbStruct(genFields(r, depth))
	}
}

func genFields(r *hx.Rand, depth int) []pbField {
	n := r.Intn(5)
	seen := map[string]bool{}
	var fs []pbField
	for i := 0; i < n; i++ {
		k := hx.H(sbytes(r))
		if r.Chance(1, 3) && len(fs) > 0 {
			// a key that has an existing key as a prefix (order stress)
			prev := fs[r.Intn(len(fs))].k
			if prev == "-" {
				k = hx.H([]byte{0})
			} else {
				k = prev + hx.H([]byte{byte(r.Intn(256))})
			}
		}
		if seen[k] {
			continue
		}
		seen[k] = true
		v := "Z"
		if !r.Chance(1, 15) {
			v = genPb(r, depth-1)
		}
		fs = append(fs, pbField{k, v})
	}
	return fs
}

func pbStruct(fs []pbField) string {
	parts := []string{"M" + strconv.Itoa(len(fs))}
	for _, f := range fs {
		parts = append(parts, "K"+f.k, f.v)
	}
	return strings.Join(parts, ",")
}

func genStructSpec(r *hx.Rand, depth int) string {
	if r.Chance(1, 6) {
		return "q"
	}
	return pbStruct(genFields(r, depth))
}

// semantically equal rewriting of a struct spec: permute the fields at the top level
func permStruct(r *hx.Rand, spec string) string {
	if spec == "q" {
		return "M0"
	}
	if spec == "M0" {
		return "q"
	}
	p := &toks{t: strings.Split(spec, ",")}
	head := p.next()
	n, _ := strconv.Atoi(head[1:])
	var fs []pbField
	for i := 0; i < n; i++ {
		k := p.next()
		start := p.i
		skipPb(p)
		fs = append(fs, pbField{k[1:], strings.Join(p.t[start:p.i], ",")})
	}
	hx.Shuffle(r, fs)
	return pbStruct(fs)
}

func skipPb(p *toks) {
	t := p.next()
	switch t[0] {
	case 'L':
		n, _ := strconv.Atoi(t[1:])
		for i := 0; i < n; i++ {
			skipPb(p)
		}
	case 'M':
		n, _ := strconv.Atoi(t[1:])
		for i := 0; i < n; i++ {
			p.next()
			skipPb(p)
		}
	}
}

// a small different-meaning rewriting of a pb spec
func tweakPb(r *hx.Rand, spec string) string {
	t := strings.Split(spec, ",")
	i := r.Intn(len(t))
	switch t[i][0] {
	case 'S':
		t[i] = "S" + hx.H(append(hx.MustUnH(strings.TrimPrefix(t[i], "S")), byte(r.Intn(256))))
	case 'K':
		// changing a key may create a duplicate; use a fresh long key
		t[i] = "K" + hx.H([]byte{0xee, byte(r.Intn(256)), byte(r.Intn(256)), 0xee})
	case 'D':
		if t[i] == "D0000000000000000" {
			t[i] = "D8000000000000000"
		} else {
			t[i] = "D0000000000000000"
		}
	case 'T':
		t[i] = "F"
	case 'F':
		t[i] = "T"
	case 'N':
		t[i] = "U"
	case 'U':
		t[i] = "N"
	case 'Z':
		t[i] = "N"
	case 'l':
		t[i] = "q"
	case 'q':
		t[i] = "l"
	default:
		return "S" + hx.H([]byte(spec)[:1])
	}
	return strings.Join(t, ",")
}

type gtuple struct {
	o, r, u []byte
	cond    bool
	name    []byte
	ctx     string
}

func (t gtuple) spec() string {
	s := "o" + hx.H(t.o) + ";r" + hx.H(t.r) + ";u" + hx.H(t.u)
	if !t.cond {
		return s + ";c0"
	}
	return s + ";c1;" + hx.H(t.name) + ";" + t.ctx
}

func (t gtuple) key() string {
	n := ""
	if t.cond {
		n = string(t.name)
	}
	return string(t.o) + "\x00\x01" + string(t.r) + "\x00\x01" + string(t.u) + "\x00\x01" + n
}

func genTuple(r *hx.Rand) gtuple {
	t := gtuple{o: sbytes(r), r: sbytes(r), u: sbytes(r)}
	if r.Chance(2, 5) {
		t.cond = true
		t.name = sbytes(r)
		t.ctx = genStructSpec(r, 2)
	}
	return t
}

func tuplesSpec(ts []gtuple) string {
	if len(ts) == 0 {
		return "-"
	}
	p := make([]string, len(ts))
	for i, t := range ts {
		p[i] = t.spec()
	}
	return strings.Join(p, "|")
}

// distinctKeys keeps the first tuple of every sort key (object, relation, user, condition name).
func distinctKeys(ts []gtuple) []gtuple {
	seen := map[string]bool{}
	var out []gtuple
	for _, t := range ts {
		if seen[t.key()] {
			continue
		}
		seen[t.key()] = true
		out = append(out, t)
	}
	return out
}

func genTuples(r *hx.Rand, allowDup bool) []gtuple {
	n := r.Intn(5)
	if r.Chance(1, 10) {
		n = 8 + r.Intn(5) // up to 12: still insertion sort
	}
	big := r.Chance(1, 25)
	if big {
		n = 13 + r.Intn(20) // pdqsort territory: only with pairwise different sort keys
	}
	var ts []gtuple
	for i := 0; i < n; i++ {
		if len(ts) > 0 && r.Chance(1, 3) {
			// near duplicate: same object/relation, maybe same user
			t := ts[r.Intn(len(ts))]
			switch r.Intn(4) {
			case 0:
				t.u = sbytes(r)
			case 1:
				t.cond, t.name, t.ctx = true, sbytes(r), genStructSpec(r, 1)
			case 2:
				t.cond = false
			case 3:
				if t.cond {
					t.ctx = genStructSpec(r, 1) // same sort key, different context
				}
			}
			ts = append(ts, t)
			continue
		}
		ts = append(ts, genTuple(r))
	}
	if big || !allowDup {
		ts = distinctKeys(ts)
	}
	return ts
}

func listSpec(r *hx.Rand, l [][]byte, nilable bool) string {
	if len(l) == 0 {
		if nilable && r.Bool() {
			return "nil"
		}
		return "[]"
	}
	p := make([]string, len(l))
	for i, b := range l {
		p[i] = hx.H(b)
	}
	return strings.Join(p, ",")
}

func genConds(r *hx.Rand) [][]byte {
	n := r.Intn(4)
	var out [][]byte
	for i := 0; i < n; i++ {
		if len(out) > 0 && r.Chance(1, 5) {
			out = append(out, out[r.Intn(len(out))])
		} else {
			out = append(out, sbytes(r))
		}
	}
	return out
}

func shuffled(r *hx.Rand, l [][]byte) [][]byte {
	c := append([][]byte{}, l...)
	hx.Shuffle(r, c)
	return c
}

func seedStr(r *hx.Rand) string {
	return strconv.FormatUint(hx.Pick(r, []uint64{0, 1, 0xdeadbeef, r.U64()}), 10)
}

// idBytes: identifier-like strings (no '#', ':', '@', whitespace, control characters) for the request-level cases
func idBytes(r *hx.Rand) []byte {
	al := []byte("abcXYZ019_-.|,;=/")
	n := 1 + r.Intn(6)
	b := make([]byte, n)
	for i := range b {
		b[i] = al[r.Intn(len(al))]
	}
	return b
}

func genV2Tuples(r *hx.Rand) []gtuple {
	n := r.Intn(4)
	var ts []gtuple
	for i := 0; i < n; i++ {
		var t gtuple
		switch r.Intn(5) {
		case 0:
			t = gtuple{o: append([]byte("group:"), idBytes(r)...), r: []byte("member"), u: append([]byte("user:"), idBytes(r)...)}
		case 1:
			t = gtuple{o: append([]byte("group:"), idBytes(r)...), r: []byte("member"), u: append([]byte("user:"), idBytes(r)...), cond: true, name: []byte("c1"), ctx: genStructSpec(r, 1)}
		case 2:
			t = gtuple{o: append([]byte("doc:"), idBytes(r)...), r: []byte("viewer"), u: append(append([]byte("group:"), idBytes(r)...), []byte("#member")...)}
		case 3:
			t = gtuple{o: append([]byte("doc:"), idBytes(r)...), r: []byte("parent"), u: append([]byte("doc:"), idBytes(r)...)}
		default:
			t = gtuple{o: append([]byte("group:"), idBytes(r)...), r: []byte("member"), u: []byte("user:*")}
		}
		ts = append(ts, t)
	}
	return distinctKeys(ts)
}

func gen(r *hx.Rand, n int, tier string, emit func(string), st *hx.Stats) {
	emit("f7wrap 3")
	st.Inc("f7wrap")
	for i := 0; i < n; i++ {
		c := r.Fork()
		switch k := c.Intn(100); {
		case k < 10:
			st.Inc("val")
			m := 1 + c.Intn(4)
			vs := make([]string, m)
			for j := range vs {
				vs[j] = genVal(c, 3, tier)
			}
			emit("val " + strings.Join(vs, " "))
		case k < 22:
			st.Inc("pair-val")
			m := 1 + c.Intn(3)
			vs := make([]string, m)
			for j := range vs {
				vs[j] = genVal(c, 2, "quick")
			}
			ws := mutateVals(c, vs)
			emit("pair val " + strings.Join(vs, " ") + " ## val " + strings.Join(ws, " "))
		case k < 30:
			st.Inc("pb")
			emit("pb " + genPb(c, 4))
		case k < 40:
			st.Inc("pair-pb")
			fs := genFields(c, 3)
			a := pbStruct(fs)
			var b string
			if c.Bool() {
				st.Inc("pair-pb-perm")
				b = permStruct(c, a)
			} else {
				b = tweakPb(c, a)
			}
			emit("pair pb " + a + " ## pb " + b)
		case k < 44:
			st.Inc("tup")
			emit("tup " + genTuple(c).spec())
		case k < 48:
			st.Inc("pair-tup")
			t := genTuple(c)
			u := t
			switch c.Intn(6) {
			case 0:
				if u.cond {
					u.ctx = permStruct(c, u.ctx)
				}
			case 1:
				if len(u.r) > 0 { // move a byte from relation to object
					u.o = append(append([]byte{}, u.o...), u.r[0])
					u.r = u.r[1:]
				}
			case 2:
				if u.cond {
					u.cond = false
				} else {
					u.cond, u.name, u.ctx = true, nil, "q"
				}
			case 3:
				if u.cond {
					u.ctx = tweakPb(c, u.ctx)
					if !strings.HasPrefix(u.ctx, "M") && u.ctx != "q" {
						u.ctx = "M0"
					}
				}
			case 4:
				u.u = append(append([]byte{}, u.u...), 0)
			case 5:
				if u.cond {
					u.name = append(append([]byte{}, u.name...), 'n')
				} else {
					u.r = append(append([]byte{}, u.r...), 'n')
				}
			}
			emit("pair tup " + t.spec() + " ## tup " + u.spec())
		case k < 50:
			st.Inc("tupamb")
			emit(fmt.Sprintf("tupamb %s %s %s %s %s", hx.H(sbytes(c)), hx.H(sbytes(c)), hx.H(sbytes(c)), hx.H(sbytes(c)), genStructSpec(c, 2)))
		case k < 58:
			st.Inc("site")
			emit(genSite(c, tier))
		case k < 64:
			st.Inc("pair-site")
			a := genSite(c, "quick")
			b := a
			switch c.Intn(3) {
			case 0:
			case 1:
				b = genSite(c, "quick")
			default:
				b = mutateSite(c, a)
			}
			emit("pair " + a + " ## " + b)
		case k < 70:
			st.Inc("inv")
			emit(fmt.Sprintf("inv %s %s %s %s %s", seedStr(c), hx.H(sbytes(c)), hx.H(sbytes(c)), genStructSpec(c, 3), tuplesSpec(genTuples(c, true))))
		case k < 82:
			genInvPair(c, emit, st)
		case k < 84:
			st.Inc("sub")
			emit(fmt.Sprintf("sub %s %s %s %s %s %s %s %s", seedStr(c), hx.H(idBytes(c)), hx.H(idBytes(c)), hx.H(sbytes(c)), hx.H(sbytes(c)), hx.H(sbytes(c)), genStructSpec(c, 2), tuplesSpec(genTuples(c, true))))
		case k < 87:
			st.Inc("v2req")
			emit(fmt.Sprintf("v2req %s %s %s %s %d %s %s %s %d", seedStr(c), hx.H(idBytes(c)), hx.H(idBytes(c)), hx.H(idBytes(c)), c.Intn(3), hx.H(idBytes(c)), genStructSpec(c, 2), tuplesSpec(genV2Tuples(c)), c.Intn(64)))
		case k < 91:
			st.Inc("iter")
			emit(genIter(c, nil))
		default:
			genIterPair(c, emit, st)
		}
	}
}

var siteArgs = map[string][]string{
	"changelogCacheKey":                       {"storeID"},
	"invalidIteratorCacheKey":                 {"storeID"},
	"invalidIteratorByObjectRelationCacheKey": {"storeID", "object", "relation"},
	"invalidIteratorByUserObjectTypeCacheKey": {"storeID", "user", "objectType"},
	"checkCacheKey":                           {"storeID", "object", "relation", "user", "#invariant"},
	"modelgraphCacheKey":                      {"storeID", "modelID"},
	"modelCacheKey":                           {"storeID", "modelID"},
}

var siteNames = []string{"changelogCacheKey", "invalidIteratorCacheKey", "invalidIteratorByObjectRelationCacheKey", "invalidIteratorByUserObjectTypeCacheKey", "checkCacheKey", "checkCacheKey", "modelgraphCacheKey", "modelCacheKey"}

func genSite(r *hx.Rand, tier string) string {
	name := hx.Pick(r, siteNames)
	parts := []string{"site", name}
	for _, a := range siteArgs[name] {
		if a[0] == '#' {
			parts = append(parts, a[1:]+"=#"+strconv.FormatUint(hx.Pick(r, []uint64{0, 1, 0x0404040404040404, r.U64()}), 10))
		} else {
			parts = append(parts, a+"="+hx.H(rbytes(r, tier)))
		}
	}
	return strings.Join(parts, " ")
}

// mutateSite: same site, arguments re-split / swapped / one changed; or another site with the same arguments
func mutateSite(r *hx.Rand, s string) string {
	f := strings.Fields(s)
	args := f[2:]
	switch r.Intn(6) {
	case 4, 5: // change exactly one argument
		i := r.Intn(len(args))
		a := strings.SplitN(args[i], "=", 2)
		if strings.HasPrefix(a[1], "#") {
			v, _ := strconv.ParseUint(a[1][1:], 10, 64)
			args[i] = a[0] + "=#" + strconv.FormatUint(v+1, 10)
		} else {
			b := hx.MustUnH(a[1])
			if len(b) > 0 && len(b) < 400 && r.Bool() {
				b = append([]byte{}, b...)
				b[r.Intn(len(b))] ^= 1
			} else if len(b) < 400 {
				b = append(append([]byte{}, b...), 'q')
			}
			args[i] = a[0] + "=" + hx.H(b)
		}
	case 0: // move a byte from one string argument to the next
		for i := 0; i+1 < len(args); i++ {
			a, b := strings.SplitN(args[i], "=", 2), strings.SplitN(args[i+1], "=", 2)
			if strings.HasPrefix(a[1], "#") || strings.HasPrefix(b[1], "#") {
				continue
			}
			x, y := hx.MustUnH(a[1]), hx.MustUnH(b[1])
			if len(y) > 0 && len(y) < 400 {
				x = append(append([]byte{}, x...), y[0])
				y = y[1:]
				args[i], args[i+1] = a[0]+"="+hx.H(x), b[0]+"="+hx.H(y)
				break
			}
		}
	case 1: // swap the values of two string arguments
		if len(args) >= 3 {
			a, b := strings.SplitN(args[1], "=", 2), strings.SplitN(args[2], "=", 2)
			if !strings.HasPrefix(a[1], "#") && !strings.HasPrefix(b[1], "#") {
				args[1], args[2] = a[0]+"="+b[1], b[0]+"="+a[1]
			}
		}
	case 2: // sibling site with the same leading arguments
		sib := map[string]string{"changelogCacheKey": "invalidIteratorCacheKey", "invalidIteratorCacheKey": "changelogCacheKey",
			"modelgraphCacheKey": "modelCacheKey", "modelCacheKey": "modelgraphCacheKey",
			"invalidIteratorByObjectRelationCacheKey": "invalidIteratorByUserObjectTypeCacheKey"}
		if o, ok := sib[f[1]]; ok {
			f[1] = o
			if o == "invalidIteratorByUserObjectTypeCacheKey" {
				args[1] = "user=" + strings.SplitN(args[1], "=", 2)[1]
				args[2] = "objectType=" + strings.SplitN(args[2], "=", 2)[1]
			}
		}
	default: // change the last argument slightly
		a := strings.SplitN(args[len(args)-1], "=", 2)
		if strings.HasPrefix(a[1], "#") {
			v, _ := strconv.ParseUint(a[1][1:], 10, 64)
			args[len(args)-1] = a[0] + "=#" + strconv.FormatUint(v^1, 10)
		} else {
			b := hx.MustUnH(a[1])
			if len(b) < 400 {
				args[len(args)-1] = a[0] + "=" + hx.H(append(append([]byte{}, b...), 0))
			}
		}
	}
	return strings.Join(append(f[:2], args...), " ")
}

func genInvPair(r *hx.Rand, emit func(string), st *hx.Stats) {
	seed := seedStr(r)
	store, model := sbytes(r), sbytes(r)
	ctx := genStructSpec(r, 2)
	mk := func(store, model []byte, ctx string, ts []gtuple) string {
		return fmt.Sprintf("inv %s %s %s %s %s", seed, hx.H(store), hx.H(model), ctx, tuplesSpec(ts))
	}
	switch k := r.Intn(12); {
	case k < 3: // permutation, pairwise different sort keys (must be equal)
		st.Inc("pair-inv-perm")
		ts := genTuples(r, false)
		us := append([]gtuple{}, ts...)
		hx.Shuffle(r, us)
		emit("pair " + mk(store, model, ctx, ts) + " ## " + mk(store, model, permStruct(r, ctx), us))
	case k < 5: // permutation with duplicated sort keys, different contexts (F24)
		st.Inc("pair-inv-dupperm")
		t := genTuple(r)
		t.cond, t.name, t.ctx = true, sbytes(r), pbStruct([]pbField{{"78", "D3ff0000000000000"}})
		u := t
		u.ctx = pbStruct([]pbField{{"78", "D4000000000000000"}})
		ts := []gtuple{t, u}
		if r.Bool() {
			ts = append(ts, genTuple(r))
		}
		ts2 := []gtuple{}
		if len(ts) == 3 {
			ts2 = []gtuple{ts[1], ts[2], ts[0]}
			if ts[2].key() == t.key() {
				ts2 = []gtuple{ts[1], ts[0], ts[2]}
			}
		} else {
			ts2 = []gtuple{ts[1], ts[0]}
		}
		emit("pair " + mk(store, model, ctx, ts) + " ## " + mk(store, model, ctx, ts2))
	case k < 6: // identical duplicates reordered (equal whatever the sort does)
		st.Inc("pair-inv-samedup")
		t := genTuple(r)
		o := genTuple(r)
		emit("pair " + mk(store, model, ctx, []gtuple{t, o, t}) + " ## " + mk(store, model, ctx, []gtuple{t, t, o}))
	case k < 7: // store / model re-split, or only one of them changed
		st.Inc("pair-inv-resplit")
		s2, m2 := append(append([]byte{}, store...), 'a'), model
		if r.Chance(1, 3) {
			s2, m2 = store, append(append([]byte{}, model...), 'a')
		} else if len(model) > 0 && r.Bool() {
			s2, m2 = append(append([]byte{}, store...), model[0]), model[1:]
		}
		ts := genTuples(r, false)
		emit("pair " + mk(store, model, ctx, ts) + " ## " + mk(s2, m2, ctx, ts))
	case k < 8: // context tweak
		st.Inc("pair-inv-ctx")
		ts := genTuples(r, false)
		c2 := tweakPb(r, ctx)
		if !strings.HasPrefix(c2, "M") && c2 != "q" {
			c2 = "M1,K61,N"
		}
		emit("pair " + mk(store, model, ctx, ts) + " ## " + mk(store, model, c2, ts))
	case k < 9: // condition of a tuple vs a following tuple: [t(cond name, ctx)] vs [t(no cond)] + …
		st.Inc("pair-inv-condshift")
		t := genTuple(r)
		t.cond, t.name, t.ctx = true, sbytes(r), genStructSpec(r, 1)
		u := t
		u.cond = false
		// second list: tuple without condition followed by a tuple whose object is the condition name
		v := gtuple{o: t.name, r: sbytes(r), u: sbytes(r)}
		emit("pair " + mk(store, model, ctx, []gtuple{t}) + " ## " + mk(store, model, ctx, distinctKeys([]gtuple{u, v})))
	case k < 10: // nil condition vs condition with empty name and nil context
		st.Inc("pair-inv-emptycond")
		t := genTuple(r)
		t.cond = false
		u := t
		u.cond, u.name, u.ctx = true, nil, "q"
		emit("pair " + mk(store, model, ctx, []gtuple{t}) + " ## " + mk(store, model, ctx, []gtuple{u}))
	case k < 11: // one tuple changed / dropped
		st.Inc("pair-inv-tuple")
		ts := genTuples(r, false)
		us := append([]gtuple{}, ts...)
		if len(us) > 0 && r.Bool() {
			i := r.Intn(len(us))
			switch r.Intn(4) {
			case 0:
				us[i].o = append(append([]byte{}, us[i].o...), 'z')
			case 1:
				us[i].r = append(append([]byte{}, us[i].r...), 'z')
			case 2:
				us[i].u = append(append([]byte{}, us[i].u...), 'z')
			default:
				if us[i].cond {
					us[i].name = append(append([]byte{}, us[i].name...), 'z')
				} else {
					us[i].u = append(append([]byte{}, us[i].u...), 'y')
				}
			}
			us = distinctKeys(us)
		} else {
			us = distinctKeys(append(us, genTuple(r)))
		}
		emit("pair " + mk(store, model, ctx, ts) + " ## " + mk(store, model, ctx, us))
	default: // unrelated
		st.Inc("pair-inv-random")
		emit("pair " + mk(store, model, ctx, genTuples(r, false)) + " ## " + mk(sbytes(r), sbytes(r), genStructSpec(r, 2), genTuples(r, false)))
	}
}

type iterIn struct {
	kind             string
	seed             string
	store, a, b, usr []byte
	conds            [][]byte
	refs             []string // k;type;rel
	uf               []string // obj;rel
	oids             string
}

func (x iterIn) line(r *hx.Rand) string {
	cs := listSpec(r, x.conds, true)
	switch x.kind {
	case "read":
		return fmt.Sprintf("read %s %s %s %s %s %s", x.seed, hx.H(x.store), hx.H(x.a), hx.H(x.b), hx.H(x.usr), cs)
	case "rut":
		rs := "nil"
		if len(x.refs) > 0 {
			rs = strings.Join(x.refs, ",")
		}
		return fmt.Sprintf("rut %s %s %s %s %s %s", x.seed, hx.H(x.store), hx.H(x.a), hx.H(x.b), rs, cs)
	default:
		us := "nil"
		if len(x.uf) > 0 {
			us = strings.Join(x.uf, ",")
		}
		return fmt.Sprintf("rswu %s %s %s %s %s %s %s", x.seed, hx.H(x.store), hx.H(x.a), hx.H(x.b), us, x.oids, cs)
	}
}

func genIterIn(r *hx.Rand) iterIn {
	x := iterIn{kind: hx.Pick(r, []string{"read", "rut", "rswu", "rswu"}), seed: seedStr(r), store: sbytes(r), a: sbytes(r), b: sbytes(r), usr: sbytes(r), conds: genConds(r)}
	n := r.Intn(4)
	for i := 0; i < n; i++ {
		t := sbytes(r)
		switch r.Intn(4) {
		case 0:
			x.refs = append(x.refs, "0;"+hx.H(t)+";-")
		case 1:
			x.refs = append(x.refs, "1;"+hx.H(t)+";"+hx.H(sbytes(r)))
		case 2:
			x.refs = append(x.refs, "2;"+hx.H(t)+";-")
		default:
			// plain type that spells a rendered relation / wildcard reference
			x.refs = append(x.refs, "0;"+hx.H(append(append([]byte{}, t...), []byte(hx.Pick(r, []string{"#m", ":*"}))...))+";-")
		}
	}
	n = r.Intn(3)
	for i := 0; i < n; i++ {
		if r.Bool() {
			x.uf = append(x.uf, hx.H(sbytes(r))+";-")
		} else {
			x.uf = append(x.uf, hx.H(sbytes(r))+";"+hx.H(sbytes(r)))
		}
	}
	switch r.Intn(4) {
	case 0:
		x.oids = "nil"
	case 1:
		x.oids = "[]"
	default:
		k := 1 + r.Intn(4)
		var l [][]byte
		for i := 0; i < k; i++ {
			l = append(l, sbytes(r))
		}
		x.oids = listSpec(r, l, false)
	}
	return x
}

func genIter(r *hx.Rand, x *iterIn) string {
	if x == nil {
		y := genIterIn(r)
		x = &y
	}
	return x.line(r)
}

func genIterPair(r *hx.Rand, emit func(string), st *hx.Stats) {
	x := genIterIn(r)
	y := x
	switch r.Intn(12) {
	case 9, 10, 11: // exactly one of the hashed lists changes by one element
		st.Inc("pair-iter-onelist")
		v := hx.H(append(sbytes(r), 'v'))
		switch r.Intn(4) {
		case 0:
			y.conds = append(append([][]byte{}, x.conds...), hx.MustUnH(v))
		case 1:
			x.kind, y.kind = "rut", "rut"
			if len(x.refs) > 0 && r.Bool() {
				// same type, another shape (plain / #relation / wildcard)
				p := strings.SplitN(x.refs[0], ";", 3)
				nk := hx.Pick(r, []string{"0", "1", "2"})
				if nk == p[0] {
					nk = strconv.Itoa((int(p[0][0]-'0') + 1) % 3)
				}
				rel := "-"
				if nk == "1" {
					rel = hx.H([]byte{'m'})
				}
				y.refs = append([]string{nk + ";" + p[1] + ";" + rel}, x.refs[1:]...)
			} else if len(x.refs) > 0 && r.Bool() {
				y.refs = append([]string{}, x.refs[1:]...)
			} else {
				y.refs = append(append([]string{}, x.refs...), hx.Pick(r, []string{"0;", "1;", "2;"})+v+";-")
			}
		case 2:
			x.kind, y.kind = "rswu", "rswu"
			if len(x.uf) > 0 && r.Bool() {
				// same object, another relation
				p := strings.SplitN(x.uf[0], ";", 2)
				nr := "-"
				if p[1] == "-" {
					nr = hx.H([]byte{'m'})
				}
				y.uf = append([]string{p[0] + ";" + nr}, x.uf[1:]...)
			} else if len(x.uf) > 0 && r.Bool() {
				y.uf = append([]string{}, x.uf[1:]...)
			} else {
				y.uf = append(append([]string{}, x.uf...), v+";-")
			}
		default:
			x.kind, y.kind = "rswu", "rswu"
			switch {
			case x.oids == "nil" || x.oids == "[]":
				y.oids = v
			case r.Bool():
				y.oids = x.oids + "," + v
			default:
				y.oids = hx.Pick(r, []string{"nil", "[]"})
			}
		}
	case 0: // permuted lists (must be equal)
		st.Inc("pair-iter-perm")
		y.conds = shuffled(r, x.conds)
		y.refs = append([]string{}, x.refs...)
		hx.Shuffle(r, y.refs)
		y.uf = append([]string{}, x.uf...)
		hx.Shuffle(r, y.uf)
		if x.oids != "nil" && x.oids != "[]" {
			p := strings.Split(x.oids, ",")
			hx.Shuffle(r, p)
			y.oids = strings.Join(p, ",")
		}
	case 1: // nil vs empty object ids (F7: same key by contract)
		st.Inc("pair-iter-nil-empty-oids")
		x.kind, y.kind = "rswu", "rswu"
		x.oids, y.oids = "nil", "[]"
	case 2: // Conditions nil / [] / [""]
		st.Inc("pair-iter-emptycond")
		x.conds = nil
		if r.Bool() {
			y.conds = [][]byte{{}}
		} else {
			y.conds = nil
		}
	case 3: // a value moves between the hashed lists
		st.Inc("pair-iter-crosslist")
		x.kind, y.kind = "rswu", "rswu"
		v := sbytes(r)
		x.uf, x.conds, x.oids = []string{hx.H(v) + ";-"}, nil, "nil"
		switch r.Intn(2) {
		case 0:
			y.uf, y.conds, y.oids = nil, [][]byte{v}, "nil"
		default:
			y.uf, y.conds, y.oids = nil, nil, hx.H(v)
		}
	case 4: // duplicate an element of a list (multiset differs)
		st.Inc("pair-iter-dup")
		if len(x.conds) > 0 {
			y.conds = append(append([][]byte{}, x.conds...), x.conds[0])
		} else {
			y.conds = [][]byte{{'c'}}
		}
	case 5: // plain field change
		st.Inc("pair-iter-field")
		switch r.Intn(4) {
		case 0:
			y.store = append(append([]byte{}, x.store...), 0)
		case 1:
			y.a = append(append([]byte{}, x.a...), 0)
		case 2:
			y.b = append(append([]byte{}, x.b...), 0)
		default:
			x.kind, y.kind = "read", "read"
			y.usr = append(append([]byte{}, x.usr...), 0)
		}
	case 6: // re-split object / relation
		st.Inc("pair-iter-resplit")
		if len(x.b) > 0 {
			y.a = append(append([]byte{}, x.a...), x.b[0])
			y.b = x.b[1:]
		} else {
			y.a = append(append([]byte{}, x.a...), 4)
		}
	case 7: // different kind, same fields
		st.Inc("pair-iter-kind")
		x.kind, y.kind = "read", "rut"
		x.usr = nil
	default: // rendering collision: {type "a#b"} vs {type a, relation b}; {object "a#b"} vs {a, b}
		st.Inc("pair-iter-render")
		t, m := []byte{'t'}, []byte{'m'}
		x.refs = []string{"0;" + hx.H(append(append(append([]byte{}, t...), '#'), m...)) + ";-"}
		y.refs = []string{"1;" + hx.H(t) + ";" + hx.H(m)}
		x.uf = []string{hx.H(append(append(append([]byte{}, t...), '#'), m...)) + ";-"}
		y.uf = []string{hx.H(t) + ";" + hx.H(m)}
	}
	emit("pair " + x.line(r) + " ## " + y.line(r))
}

func main() { hx.Main(hx.Harness{Gen: gen, Exec: exec}) }
