// Harness for C25 (condition evaluation): runs the real internal/condition code —
// types.DecodeParameterType + ParameterType.ConvertValue, CastContextToTypedParameters,
// EvaluableCondition.Evaluate and eval.EvaluateTupleCondition — on generated parameter types,
// values, conditions (a tiny CEL fragment) and request / stored contexts.
//
// Case lines (fields separated by one space, no TAB):
//
//	conv    <typeref> <value>     DecodeParameterType, then ConvertValue(structpb(value).AsInterface())
//	convraw <typeref> <value>     ConvertValue on the raw Go value (float64 NaN/Inf stay numbers)
//	slow    <typeref> <value>     like conv, but the conversion has to finish within 5 s (else TIMEOUT)
//	sloweval <eval fields>        like eval, with the same 5 s deadline
//	cast    <params> <ctx>        CastContextToTypedParameters
//	eval    <tupleCondName> <ec:0|1> <condName> <params> <okc|raw> <expr> <tup> <req> <extra>
//
// value   := N | T | F | D<16 hex: float64 bits> | S<hex>. | L value* ; | M (<keyhex>. value)* ;
// typeref := <letter> [ '<' typeref* '>' ]   a any, b bool, s string, i int, u uint, d double, D duration,
//
//	t timestamp, p ipaddress, l list, m map, z unspecified, x<n>. unknown enum value
//
// params  := - | name:typeref(,name:typeref)*
// ctx     := ~ (nil) | M…;
// expr    := prefix encoding of the CEL fragment (see renderExpr) or hex of raw CEL source
package main

import (
	"context"
	"encoding/hex"
	"errors"
	"fmt"
	"math"
	"math/big"
	"net/netip"
	"reflect"
	"regexp"
	"sort"
	"strconv"
	"strings"
	"time"

	openfgav1 "github.com/openfga/api/proto/openfga/v1"
	"google.golang.org/protobuf/types/known/structpb"

	"github.com/openfga/openfga/internal/condition"
	"github.com/openfga/openfga/internal/condition/eval"
	"github.com/openfga/openfga/internal/condition/types"
	"github.com/openfga/openfga/verifharness/hx"
)

// ---------------------------------------------------------------- values

type V struct {
	K    byte // N T F D S L M
	Bits uint64
	S    []byte
	L    []V
	Keys []string
	Vals []V
}

func vNull() V                 { return V{K: 'N'} }
func vBool(b bool) V           { return V{K: map[bool]byte{true: 'T', false: 'F'}[b]} }
func vNum(f float64) V         { return V{K: 'D', Bits: math.Float64bits(f)} }
func vBits(b uint64) V         { return V{K: 'D', Bits: b} }
func vStr(s string) V          { return V{K: 'S', S: []byte(s)} }
func vList(xs ...V) V          { return V{K: 'L', L: xs} }
func vMap(k []string, v []V) V { return V{K: 'M', Keys: k, Vals: v} }

func hexOrEmpty(b []byte) string { return hex.EncodeToString(b) }

func (v V) enc() string {
	switch v.K {
	case 'N', 'T', 'F':
		return string(v.K)
	case 'D':
		return fmt.Sprintf("D%016x", v.Bits)
	case 'S':
		return "S" + hexOrEmpty(v.S) + "."
	case 'L':
		var sb strings.Builder
		sb.WriteByte('L')
		for _, x := range v.L {
			sb.WriteString(x.enc())
		}
		sb.WriteByte(';')
		return sb.String()
	case 'M':
		var sb strings.Builder
		sb.WriteByte('M')
		for i, k := range v.Keys {
			sb.WriteString(hexOrEmpty([]byte(k)))
			sb.WriteByte('.')
			sb.WriteString(v.Vals[i].enc())
		}
		sb.WriteByte(';')
		return sb.String()
	}
	panic("bad value kind")
}

func readHexDot(s string) ([]byte, string) {
	i := strings.IndexByte(s, '.')
	if i < 0 {
		panic("missing '.' in " + s)
	}
	b, err := hex.DecodeString(s[:i])
	if err != nil {
		panic("bad hex " + s[:i])
	}
	return b, s[i+1:]
}

func decV(s string) (V, string) {
	if s == "" {
		panic("empty value")
	}
	switch s[0] {
	case 'N', 'T', 'F':
		return V{K: s[0]}, s[1:]
	case 'D':
		b, err := strconv.ParseUint(s[1:17], 16, 64)
		if err != nil {
			panic(err)
		}
		return V{K: 'D', Bits: b}, s[17:]
	case 'S':
		b, rest := readHexDot(s[1:])
		return V{K: 'S', S: b}, rest
	case 'L':
		s = s[1:]
		v := V{K: 'L'}
		for s[0] != ';' {
			var x V
			x, s = decV(s)
			v.L = append(v.L, x)
		}
		return v, s[1:]
	case 'M':
		s = s[1:]
		v := V{K: 'M'}
		for s[0] != ';' {
			var k []byte
			k, s = readHexDot(s)
			var x V
			x, s = decV(s)
			v.Keys = append(v.Keys, string(k))
			v.Vals = append(v.Vals, x)
		}
		return v, s[1:]
	}
	panic("bad value " + s)
}

func mustV(s string) V {
	v, rest := decV(s)
	if rest != "" {
		panic("trailing value input " + rest)
	}
	return v
}

func (v V) toPB() *structpb.Value {
	switch v.K {
	case 'N':
		return structpb.NewNullValue()
	case 'T':
		return structpb.NewBoolValue(true)
	case 'F':
		return structpb.NewBoolValue(false)
	case 'D':
		return structpb.NewNumberValue(math.Float64frombits(v.Bits))
	case 'S':
		return structpb.NewStringValue(string(v.S))
	case 'L':
		l := &structpb.ListValue{}
		for _, x := range v.L {
			l.Values = append(l.Values, x.toPB())
		}
		return structpb.NewListValue(l)
	case 'M':
		return structpb.NewStructValue(v.toStruct())
	}
	panic("bad kind")
}

func (v V) toStruct() *structpb.Struct {
	st := &structpb.Struct{Fields: map[string]*structpb.Value{}}
	for i, k := range v.Keys {
		st.Fields[k] = v.Vals[i].toPB()
	}
	return st
}

func (v V) toAny() any {
	switch v.K {
	case 'N':
		return nil
	case 'T':
		return true
	case 'F':
		return false
	case 'D':
		return math.Float64frombits(v.Bits)
	case 'S':
		return string(v.S)
	case 'L':
		out := make([]any, len(v.L))
		for i, x := range v.L {
			out[i] = x.toAny()
		}
		return out
	case 'M':
		out := map[string]any{}
		for i, k := range v.Keys {
			out[k] = v.Vals[i].toAny()
		}
		return out
	}
	panic("bad kind")
}

// encTyped prints what ConvertValue returned, by dynamic Go type.
func encTyped(x any) string {
	switch t := x.(type) {
	case nil:
		return "N"
	case bool:
		if t {
			return "B1"
		}
		return "B0"
	case string:
		return "S" + hexOrEmpty([]byte(t)) + "."
	case float64:
		return fmt.Sprintf("D%016x", math.Float64bits(t))
	case int64:
		return fmt.Sprintf("I%d.", t)
	case uint64:
		return fmt.Sprintf("U%d.", t)
	case time.Duration:
		return fmt.Sprintf("R%d.", int64(t))
	case time.Time:
		n := new(big.Int).Mul(big.NewInt(t.Unix()), big.NewInt(1_000_000_000))
		n.Add(n, big.NewInt(int64(t.Nanosecond())))
		return "Z" + n.String() + "."
	case types.IPAddress:
		s, err := t.ConvertToNative(reflect.TypeOf(""))
		if err != nil {
			return "P?"
		}
		a, err := netip.ParseAddr(s.(string))
		if err != nil {
			return "P?"
		}
		return "P" + hex.EncodeToString(a.AsSlice()) + "."
	case []any:
		var sb strings.Builder
		sb.WriteByte('L')
		for _, e := range t {
			sb.WriteString(encTyped(e))
		}
		sb.WriteByte(';')
		return sb.String()
	case map[string]any:
		keys := make([]string, 0, len(t))
		for k := range t {
			keys = append(keys, k)
		}
		sort.Strings(keys)
		var sb strings.Builder
		sb.WriteByte('M')
		for _, k := range keys {
			sb.WriteString(hexOrEmpty([]byte(k)))
			sb.WriteByte('.')
			sb.WriteString(encTyped(t[k]))
		}
		sb.WriteByte(';')
		return sb.String()
	}
	return fmt.Sprintf("?%T", x)
}

// ---------------------------------------------------------------- type refs

type TR struct {
	N byte // a b s i u d D t p l m z x
	X int  // enum value for 'x'
	G []TR
}

func (t TR) enc() string {
	s := string(t.N)
	if t.N == 'x' {
		s += strconv.Itoa(t.X) + "."
	}
	if len(t.G) > 0 {
		s += "<"
		for _, g := range t.G {
			s += g.enc()
		}
		s += ">"
	}
	return s
}

func decTR(s string) (TR, string) {
	t := TR{N: s[0]}
	s = s[1:]
	if t.N == 'x' {
		i := strings.IndexByte(s, '.')
		t.X, _ = strconv.Atoi(s[:i])
		s = s[i+1:]
	}
	if s != "" && s[0] == '<' {
		s = s[1:]
		for s[0] != '>' {
			var g TR
			g, s = decTR(s)
			t.G = append(t.G, g)
		}
		s = s[1:]
	}
	return t, s
}

var typeNames = map[byte]openfgav1.ConditionParamTypeRef_TypeName{
	'a': openfgav1.ConditionParamTypeRef_TYPE_NAME_ANY,
	'b': openfgav1.ConditionParamTypeRef_TYPE_NAME_BOOL,
	's': openfgav1.ConditionParamTypeRef_TYPE_NAME_STRING,
	'i': openfgav1.ConditionParamTypeRef_TYPE_NAME_INT,
	'u': openfgav1.ConditionParamTypeRef_TYPE_NAME_UINT,
	'd': openfgav1.ConditionParamTypeRef_TYPE_NAME_DOUBLE,
	'D': openfgav1.ConditionParamTypeRef_TYPE_NAME_DURATION,
	't': openfgav1.ConditionParamTypeRef_TYPE_NAME_TIMESTAMP,
	'p': openfgav1.ConditionParamTypeRef_TYPE_NAME_IPADDRESS,
	'l': openfgav1.ConditionParamTypeRef_TYPE_NAME_LIST,
	'm': openfgav1.ConditionParamTypeRef_TYPE_NAME_MAP,
	'z': openfgav1.ConditionParamTypeRef_TYPE_NAME_UNSPECIFIED,
}

func (t TR) toProto() *openfgav1.ConditionParamTypeRef {
	r := &openfgav1.ConditionParamTypeRef{}
	if t.N == 'x' {
		r.TypeName = openfgav1.ConditionParamTypeRef_TypeName(t.X)
	} else {
		r.TypeName = typeNames[t.N]
	}
	for _, g := range t.G {
		r.GenericTypes = append(r.GenericTypes, g.toProto())
	}
	return r
}

type Param struct {
	Name string
	T    TR
}

func encParams(ps []Param) string {
	if len(ps) == 0 {
		return "-"
	}
	var parts []string
	for _, p := range ps {
		parts = append(parts, p.Name+":"+p.T.enc())
	}
	return strings.Join(parts, ",")
}

func decParams(s string) []Param {
	if s == "-" {
		return nil
	}
	var out []Param
	for s != "" {
		i := strings.IndexByte(s, ':')
		name := s[:i]
		var t TR
		t, s = decTR(s[i+1:])
		out = append(out, Param{name, t})
		if s != "" {
			if s[0] != ',' {
				panic("bad params")
			}
			s = s[1:]
		}
	}
	return out
}

func paramsProto(ps []Param) map[string]*openfgav1.ConditionParamTypeRef {
	if len(ps) == 0 {
		return nil
	}
	m := map[string]*openfgav1.ConditionParamTypeRef{}
	for _, p := range ps {
		m[p.Name] = p.T.toProto()
	}
	return m
}

// ---------------------------------------------------------------- the CEL fragment

// renderExpr turns the prefix encoding into CEL source.
//
//	E := T | F | & E E | '|' E E | ! E | = A A | < A A | > A A | @ A A      (@: "A in A")
//	A := p<name>. | i<dec>. | u<dec>. | d<16hex> | s<hex>. | b1 | b0 | n
//	   | R<hex>. duration("…") | Z<hex>. timestamp("…") | P<hex>. ipaddress("…")
//	   | x<name>.<keyhex>. name["key"] | y<name>.<dec>. name[idx]
func renderExpr(s string) (string, string) {
	switch s[0] {
	case 'T':
		return "true", s[1:]
	case 'F':
		return "false", s[1:]
	case '&', '|':
		a, r := renderExpr(s[1:])
		b, r2 := renderExpr(r)
		op := " && "
		if s[0] == '|' {
			op = " || "
		}
		return "(" + a + op + b + ")", r2
	case '!':
		a, r := renderExpr(s[1:])
		return "!(" + a + ")", r
	case '=', '<', '>', '@':
		a, r := renderAtom(s[1:])
		b, r2 := renderAtom(r)
		op := map[byte]string{'=': " == ", '<': " < ", '>': " > ", '@': " in "}[s[0]]
		return "(" + a + op + b + ")", r2
	}
	panic("bad expr " + s)
}

func readDot(s string) (string, string) {
	i := strings.IndexByte(s, '.')
	return s[:i], s[i+1:]
}

func celString(b []byte) string { return strconv.Quote(string(b)) }

func renderAtom(s string) (string, string) {
	switch s[0] {
	case 'p':
		return readDot(s[1:])
	case 'i':
		return readDot(s[1:])
	case 'u':
		d, r := readDot(s[1:])
		return d + "u", r
	case 'd':
		b, _ := strconv.ParseUint(s[1:17], 16, 64)
		f := math.Float64frombits(b)
		t := strconv.FormatFloat(f, 'g', -1, 64)
		if !strings.ContainsAny(t, ".e") {
			t += ".0"
		}
		return t, s[17:]
	case 's':
		b, r := readHexDot(s[1:])
		return celString(b), r
	case 'b':
		if s[1] == '1' {
			return "true", s[2:]
		}
		return "false", s[2:]
	case 'n':
		return "null", s[1:]
	case 'R':
		b, r := readHexDot(s[1:])
		return "duration(" + celString(b) + ")", r
	case 'Z':
		b, r := readHexDot(s[1:])
		return "timestamp(" + celString(b) + ")", r
	case 'P':
		b, r := readHexDot(s[1:])
		return "ipaddress(" + celString(b) + ")", r
	case 'x':
		name, r := readDot(s[1:])
		k, r2 := readHexDot(r)
		return name + "[" + celString(k) + "]", r2
	case 'y':
		name, r := readDot(s[1:])
		idx, r2 := readDot(r)
		return name + "[" + idx + "]", r2
	}
	panic("bad atom " + s)
}

// ---------------------------------------------------------------- exec

var missingRe = regexp.MustCompile(`missing context parameters '\[([^\]]*)\]'`)

func class(err error) string {
	var pte *condition.ParameterTypeError
	if errors.As(err, &pte) {
		return "type"
	}
	var ce *condition.CompilationError
	if errors.As(err, &ce) {
		return "compile"
	}
	msg := err.Error()
	if m := missingRe.FindStringSubmatch(msg); m != nil {
		names := strings.Fields(m[1])
		sort.Strings(names)
		return "missing:" + strings.Join(names, ",")
	}
	switch {
	case strings.Contains(msg, "condition was not found"):
		return "notfound"
	case strings.Contains(msg, "failed to evaluate condition expression"), strings.Contains(msg, "failed to convert condition output"):
		return "cel"
	case strings.Contains(msg, "failed to construct condition partial vars"):
		return "partialvars"
	}
	return "other"
}

func guard(f func() string) (res string) {
	defer func() {
		if p := recover(); p != nil {
			res = "PANIC"
		}
	}()
	return f()
}

func ctxOf(s string) (*structpb.Struct, bool) {
	if s == "~" {
		return nil, false
	}
	return mustV(s).toStruct(), true
}

func evalResult(r condition.EvaluationResult, err error) string {
	if err != nil {
		return "err:" + class(err)
	}
	ms := append([]string{}, r.MissingParameters...)
	sort.Strings(ms)
	b := "0"
	if r.ConditionMet {
		b = "1"
	}
	return "met:" + b + ",miss:[" + strings.Join(ms, ",") + "]"
}

// exec runs one case under a deadline: a conversion that does not come back (see F14) must not hang the run;
// the goroutine is abandoned and the verdict is TIMEOUT.
func exec(line string, st *hx.Stats) string {
	done := make(chan string, 1)
	go func() { done <- guard(func() string { return execCase(line, st) }) }()
	select {
	case res := <-done:
		return res
	case <-time.After(8 * time.Second):
		return "TIMEOUT"
	}
}

func execCase(line string, st *hx.Stats) string {
	f := strings.Fields(line)
	switch f[0] {
	case "conv", "convraw":
		tr, rest := decTR(f[1])
		if rest != "" {
			panic("bad typeref")
		}
		v := mustV(f[2])
		return guard(func() string {
			pt, err := types.DecodeParameterType(tr.toProto())
			if err != nil {
				return "DECERR"
			}
			var in any
			if f[0] == "conv" {
				in = v.toPB().AsInterface()
			} else {
				in = v.toAny()
			}
			out, err := pt.ConvertValue(in)
			if err != nil {
				return "ERR"
			}
			return encTyped(out)
		})
	case "slow":
		// the conversion must terminate promptly: run it with a deadline (the goroutine is abandoned on timeout)
		tr, _ := decTR(f[1])
		v := mustV(f[2])
		done := make(chan string, 1)
		go func() {
			done <- guard(func() string {
				pt, err := types.DecodeParameterType(tr.toProto())
				if err != nil {
					return "DECERR"
				}
				out, err := pt.ConvertValue(v.toPB().AsInterface())
				if err != nil {
					return "ERR"
				}
				return encTyped(out)
			})
		}()
		select {
		case res := <-done:
			return "done " + res
		case <-time.After(5 * time.Second):
			return "TIMEOUT"
		}
	case "cast":
		ps := decParams(f[1])
		c, ok := ctxOf(f[2])
		var fields map[string]*structpb.Value
		if ok {
			fields = c.GetFields()
		}
		ec := condition.NewUncompiled(&openfgav1.Condition{Name: "c", Expression: "true", Parameters: paramsProto(ps)})
		return guard(func() string {
			m, err := ec.CastContextToTypedParameters(fields)
			if err != nil {
				return "ERR:" + class(err)
			}
			if m == nil {
				return "nil"
			}
			return encTyped(map[string]any(m))
		})
	case "eval":
		return execEval(f)
	case "sloweval":
		// the same as eval, but the whole evaluation has to finish within 5 s
		done := make(chan string, 1)
		go func() { done <- guard(func() string { return execEval(f) }) }()
		select {
		case res := <-done:
			return "done " + res
		case <-time.After(5 * time.Second):
			return "TIMEOUT"
		}
	}
	return "badcase"
}

func execEval(f []string) string {
	tupName := string(hx.MustUnH(f[1]))
	hasEC := f[2] == "1"
	condName := string(hx.MustUnH(f[3]))
	ps := decParams(f[4])
	var source string
	if f[5] == "okc" {
		var rest string
		source, rest = renderExpr(f[6])
		if rest != "" {
			panic("trailing expr input")
		}
	} else {
		source = string(hx.MustUnH(f[6]))
	}
	tup, hasTup := ctxOf(f[7])
	req, _ := ctxOf(f[8])
	extra, hasExtra := ctxOf(f[9])
	mk := func() *condition.EvaluableCondition {
		return condition.NewUncompiled(&openfgav1.Condition{Name: condName, Expression: source, Parameters: paramsProto(ps)})
	}
	tk := &openfgav1.TupleKey{Object: "doc:1", Relation: "viewer", User: "user:anne"}
	if tupName != "" || hasTup {
		tk.Condition = &openfgav1.RelationshipCondition{Name: tupName, Context: tup}
	}
	t := guard(func() string {
		var ec *condition.EvaluableCondition
		if hasEC {
			ec = mk()
		}
		b, err := eval.EvaluateTupleCondition(context.Background(), tk, ec, req)
		if err != nil {
			if b {
				return "err-but-true:" + class(err)
			}
			return "err:" + class(err)
		}
		return strconv.FormatBool(b)
	})
	// Evaluate directly: [request fields (nil if absent), stored fields, extra]
	var maps []map[string]*structpb.Value
	maps = append(maps, req.GetFields())
	if hasTup {
		maps = append(maps, tup.GetFields())
	}
	if hasExtra {
		maps = append(maps, extra.GetFields())
	}
	ec := mk()
	e1 := guard(func() string { return evalResult(ec.Evaluate(context.Background(), maps...)) })
	e2 := "-"
	if e1 == "err:compile" {
		// the same object again: Compile() reports its error only once
		e2 = guard(func() string { return evalResult(ec.Evaluate(context.Background(), maps...)) })
	}
	return "T=" + t + " E=" + e1 + " E2=" + e2
}

// ---------------------------------------------------------------- generator

var prims = []byte{'a', 'b', 's', 'i', 'u', 'd', 'D', 't', 'p'}

func genType(r *hx.Rand, depth int) TR {
	k := r.Intn(14)
	if depth >= 2 && k >= 9 {
		k = r.Intn(9)
	}
	switch {
	case k < 9:
		return TR{N: prims[k]}
	case k < 12:
		return TR{N: 'l', G: []TR{genType(r, depth+1)}}
	default:
		return TR{N: 'm', G: []TR{genType(r, depth+1)}}
	}
}

// biased towards the numeric types, which carry most of the repo-owned conversion logic
func genTypeNumBias(r *hx.Rand) TR {
	switch r.Intn(10) {
	case 0, 1, 2:
		return TR{N: 'i'}
	case 3, 4:
		return TR{N: 'u'}
	case 5, 6:
		return TR{N: 'd'}
	case 7:
		return TR{N: 'l', G: []TR{{N: []byte{'i', 'u', 'd'}[r.Intn(3)]}}}
	}
	return genType(r, 0)
}

func genBadType(r *hx.Rand) TR {
	switch r.Intn(7) {
	case 0:
		return TR{N: 'z'}
	case 1:
		return TR{N: 'x', X: 12 + r.Intn(100)}
	case 2:
		return TR{N: 'l'}
	case 3:
		return TR{N: 'm', G: []TR{{N: 'i'}, {N: 's'}}}
	case 4:
		return TR{N: 'i', G: []TR{{N: 's'}}}
	case 5:
		return TR{N: 'l', G: []TR{{N: 'z'}}}
	}
	return TR{N: 'm', G: []TR{{N: 'l'}}}
}

var intPool = []string{"-5", "-1", "0", "1", "2", "7", "100", "9223372036854775807", "-9223372036854775808"}
var uintPool = []string{"0", "1", "2", "7", "100", "9223372036854775807"}
var doublePool = []float64{0, 0.5, 1.5, -2.25, 3, 1e10, -0.0, 100}
var stringPool = []string{"", "a", "b", "abc", "NaN", "1", "k"}
var durPool = []string{"1h", "90m", "1.5h", "0", "-5s", "1h30m", "100ms", "3600s", "1us", "2h45m30.5s"}
var tsPool = []string{"2024-01-01T00:00:00Z", "2024-01-01T01:00:00+01:00", "1999-12-31T23:59:59.5Z", "2024-02-29T12:30:00-08:00", "1970-01-01T00:00:00Z", "0001-01-01T00:00:00Z", "9999-12-31T23:59:59.999999999Z", "1969-12-31T23:59:59Z"}
var ipPool = []string{"1.2.3.4", "::ffff:1.2.3.4", "10.0.0.1", "2001:db8::1", "2001:0db8:0:0:0:0:0:1", "255.255.255.255", "::1", "::ffff:102:304", "::"}
var keyPool = []string{"k", "a", "q", "key one"}

// intEncodings gives several context encodings of the same integer
func intEncodings(r *hx.Rand, dec string) V {
	n, _ := new(big.Int).SetString(dec, 10)
	f, _ := new(big.Float).SetInt(n).Float64()
	exact := new(big.Float).SetFloat64(f).Cmp(new(big.Float).SetInt(n)) == 0
	k := r.Intn(7)
	if k < 3 && exact {
		return vNum(f)
	}
	switch k {
	case 3:
		return vStr(dec + ".0")
	case 4:
		if n.Sign() >= 0 {
			return vStr("+" + dec)
		}
	case 5:
		return vStr(dec + "e0")
	case 6:
		return vStr(dec + "0e-1")
	}
	return vStr(dec)
}

func doubleEncodings(r *hx.Rand, f float64) V {
	switch r.Intn(4) {
	case 0:
		return vStr(strconv.FormatFloat(f, 'g', -1, 64))
	case 1:
		return vStr(strconv.FormatFloat(f, 'e', -1, 64))
	}
	return vNum(f)
}

// genValid returns a context value that converts to type t
func genValid(r *hx.Rand, t TR, depth int) V {
	switch t.N {
	case 'a':
		return genAny(r, depth)
	case 'b':
		return vBool(r.Bool())
	case 's':
		return vStr(hx.Pick(r, stringPool))
	case 'i':
		return intEncodings(r, hx.Pick(r, intPool))
	case 'u':
		return intEncodings(r, hx.Pick(r, uintPool))
	case 'd':
		return doubleEncodings(r, hx.Pick(r, doublePool))
	case 'D':
		return vStr(hx.Pick(r, durPool))
	case 't':
		return vStr(hx.Pick(r, tsPool))
	case 'p':
		return vStr(hx.Pick(r, ipPool))
	case 'l':
		n := r.Intn(4)
		xs := make([]V, n)
		for i := range xs {
			xs[i] = genValid(r, t.G[0], depth+1)
		}
		return vList(xs...)
	case 'm':
		ks := append([]string{}, keyPool...)
		hx.Shuffle(r, ks)
		n := r.Intn(4)
		vs := make([]V, n)
		for i := range vs {
			vs[i] = genValid(r, t.G[0], depth+1)
		}
		return vMap(ks[:n], vs)
	}
	return vNull()
}

func genAny(r *hx.Rand, depth int) V {
	k := r.Intn(9)
	if depth >= 2 && k >= 7 {
		k = r.Intn(7)
	}
	switch k {
	case 0:
		return vNull()
	case 1:
		return vBool(r.Bool())
	case 2, 3:
		return vNum(hx.Pick(r, doublePool))
	case 4:
		return vNum(float64(r.Intn(9) - 2))
	case 5, 6:
		return vStr(hx.Pick(r, stringPool))
	case 7:
		n := r.Intn(3)
		xs := make([]V, n)
		for i := range xs {
			xs[i] = genAny(r, depth+1)
		}
		return vList(xs...)
	}
	ks := append([]string{}, keyPool...)
	hx.Shuffle(r, ks)
	n := r.Intn(3)
	vs := make([]V, n)
	for i := range vs {
		vs[i] = genAny(r, depth+1)
	}
	return vMap(ks[:n], vs)
}

// genMistyped returns a value that does not convert to t (for 'a' everything converts)
func genMistyped(r *hx.Rand, t TR) V {
	bad := map[byte][]V{
		'b': {vStr("true"), vNum(1), vNull(), vList()},
		's': {vNum(1), vBool(true), vNull(), vMap(nil, nil)},
		'i': {vNum(1.5), vStr("abc"), vBool(true), vNull(), vStr(""), vStr("1.5"), vStr("0x10"), vList(vNum(1)), vBits(0x7ff0000000000000), vBits(0x7ff8000000000001), vStr(" 1"), vStr("1_000")},
		'u': {vNum(-1), vStr("-1"), vNum(0.5), vStr("abc"), vNull(), vStr("-1e100"), vBool(false), vStr("-0.5")},
		'd': {vStr("0.1"), vStr("abc"), vBool(true), vNull(), vStr("1e400"), vStr("5e-324"), vList(), vBits(0x7ff8000000000000), vStr("9223372036854775807")},
		'D': {vStr("1"), vStr("1 h"), vNum(3600), vStr(""), vStr("h"), vStr("1d"), vNull()},
		't': {vStr("2024-01-01"), vStr("2024-13-01T00:00:00Z"), vStr("2023-02-29T00:00:00Z"), vNum(0), vStr("2024-01-01T00:00:00"), vStr("2024-01-01t00:00:00Z"), vStr("2024-01-01T24:00:00Z"), vNull()},
		'p': {vStr("1.2.3"), vStr("1.2.3.256"), vStr("01.2.3.4"), vStr("::g"), vNum(1), vStr(""), vStr("1.2.3.4/8"), vNull()},
		'l': {vMap(nil, nil), vStr("[]"), vNull(), vNum(0)},
		'm': {vList(), vStr("{}"), vNull(), vBool(true)},
	}
	switch t.N {
	case 'a':
		return genAny(r, 0)
	case 'l':
		if r.Bool() && t.G[0].N != 'a' {
			return vList(genValid(r, t.G[0], 1), genMistyped(r, t.G[0]))
		}
	case 'm':
		if r.Bool() && t.G[0].N != 'a' {
			return vMap([]string{"k", "q"}, []V{genValid(r, t.G[0], 1), genMistyped(r, t.G[0])})
		}
	}
	return hx.Pick(r, bad[t.N])
}

// numeric strings for the conversion table
func genNumString(r *hx.Rand) string {
	switch r.Intn(16) {
	case 0:
		return hx.Pick(r, []string{"", "+", "-", ".", "e5", "1e", "1e+", "1e-", "+-1", "--1", "1.2.3", "1..2", "Inf", "inf", "+Inf", "-inf", "+inf", "-Inf", "INF", "infinity", "NaN", "nan", "0x10", "1_0", " 1", "1 ", "1e5x", "１", "1,5", "1p", "1P-2", "0b1", "1e1e1", "1.e1", ".e1", ".5e1", "5.e-1"})
	case 1: // boundaries of int64 / uint64 / 2^53
		base := hx.Pick(r, []string{"9223372036854775807", "9223372036854775808", "18446744073709551615", "18446744073709551616", "9007199254740992", "9007199254740993", "4611686018427387904", "36893488147419103232", "18446744073709551617", "18446744073709553665", "18446744073709552640"})
		n, _ := new(big.Int).SetString(base, 10)
		n.Add(n, big.NewInt(int64(r.Intn(5)-2)))
		s := n.String()
		if r.Chance(1, 3) {
			s = "-" + s
		}
		if r.Chance(1, 4) {
			s += ".0"
		}
		return s
	case 2: // exactly representable fractions
		return hx.Pick(r, []string{"0.5", "0.25", "1.5", "-2.75", "0.125", "1.0", "10e-1", "25e-2", "1e0", "5e-1", "0.1", "0.3", "1e-1", "3.0000000000000001", "0.99999999999999999999999", "1.00000000000000000001", "4.9406564584124654e-324", "5e-324", "2.2250738585072014e-308", "1.7976931348623157e308", "1.7976931348623159e308", "1e308", "1e309", "4.94065645841246544176568792868221372365059802614324764425585682500675507270208751865299836361635992379796564695445717730926656710355939796398774796010781878126300713190311404527845817167848982103688718636056998730723050006387409153564984387312473397273169615140031715385398074126238565591171395345125846e-324"})
	case 3: // big exponents (bounded: the real converter's error messages call big.Float.String(), whose
		// cost is quadratic in the decimal exponent — "1e-1000000" takes minutes; see the `slow` case)
		e := hx.Pick(r, []int{20, 55, 56, 100, 308, 400, 1000, 5000})
		s := strconv.Itoa(1+r.Intn(99)) + hx.Pick(r, []string{"e", "E", "e+", "e-", "E-"}) + strconv.Itoa(e+r.Intn(3))
		if r.Chance(1, 3) {
			s = "-" + s
		}
		return s
	case 4: // exponent range errors, overflow to Inf, underflow to 0, extreme but representable exponents
		return hx.Pick(r, []string{"1e2147483647", "1e2147483648", "1e-2147483648", "1e-2147483649", "1e-2147483650", "1e9223372036854775807", "1e9223372036854775808", "1e-9223372036854775808", "1e-9223372036854775809", "1e99999999999999999999", "0e99999999999999999999", "0e9223372036854775807", "0e-5", "1p2147483647", "3p2147483646", "1p-2147483650", "0.1e2147483647", "10e2147483646", "1e1000000000", "1e-1000000000", "1e2000000000", "-1e-2000000000", "-1e1500000000", "1e924870900", "1e-930000000", "1e646456992", "1e646456993", "1e-646456993", "1e-646456994", "1e-646457012", "1p2147483646", "1p-2147483648", "1p-2147483649", "1e300000000", "1e-300000000"})
	case 5: // binary exponent
		return strconv.Itoa(r.Intn(40)) + hx.Pick(r, []string{"p", "P", "p-", "p+"}) + strconv.Itoa(r.Intn(70))
	case 6: // long mantissas (rounding to 64 bits)
		var sb strings.Builder
		n := 18 + r.Intn(25)
		for i := 0; i < n; i++ {
			sb.WriteByte(byte('0' + r.Intn(10)))
			if i == n/2 && r.Chance(1, 3) {
				sb.WriteByte('.')
			}
		}
		if r.Chance(1, 3) {
			sb.WriteString("e" + strconv.Itoa(r.Intn(60)-30))
		}
		return sb.String()
	case 7: // halfway cases at 64 bits: (2^64 + odd) * 2^k
		n := new(big.Int).Lsh(big.NewInt(1), 64)
		n.Add(n, big.NewInt(int64(r.Intn(8))))
		n.Lsh(n, uint(r.Intn(4)))
		n.Add(n, big.NewInt(int64(r.Intn(3)-1)))
		return n.String()
	}
	// generic: sign digits [. digits] [e sign digits]
	var sb strings.Builder
	sb.WriteString(hx.Pick(r, []string{"", "", "", "+", "-"}))
	for i, n := 0, r.Intn(6); i < n; i++ {
		sb.WriteByte(byte('0' + r.Intn(10)))
	}
	if r.Chance(1, 2) {
		sb.WriteByte('.')
		for i, n := 0, r.Intn(5); i < n; i++ {
			sb.WriteByte(byte('0' + r.Intn(10)))
		}
	}
	if r.Chance(1, 3) {
		sb.WriteString(hx.Pick(r, []string{"e", "E", "e-", "e+"}))
		sb.WriteString(strconv.Itoa(r.Intn(25)))
	}
	if r.Chance(1, 20) {
		sb.WriteByte(hx.Pick(r, []byte{' ', 'x', '_', '.', 'e', '-'}))
	}
	return sb.String()
}

func genNumBits(r *hx.Rand) uint64 {
	switch r.Intn(8) {
	case 0:
		return hx.Pick(r, []uint64{0, 1 << 63, 0x7ff0000000000000, 0xfff0000000000000, 0x7ff8000000000000, 0x7ff0000000000001, 0xfff8000000000000, 1, 0x000fffffffffffff, 0x0010000000000000, 0x7fefffffffffffff, 0xffefffffffffffff})
	case 1: // around 2^63 and 2^64
		return math.Float64bits(hx.Pick(r, []float64{9223372036854775807, 9223372036854774784, 9223372036854777856, -9223372036854775808, -9223372036854777856, 18446744073709551615, 1e19, 2e19, 4503599627370496, 4503599627370495.5, 9007199254740992}))
	case 2:
		return math.Float64bits(float64(r.Intn(2001) - 1000))
	case 3:
		return math.Float64bits(float64(r.Intn(2001)-1000) / 8)
	case 4:
		return math.Float64bits(math.Ldexp(float64(1+r.Intn(1<<20)), r.Intn(120)-60))
	}
	return r.U64()
}

func genValueAny(r *hx.Rand) V {
	switch r.Intn(10) {
	case 0, 1, 2:
		return vStr(genNumString(r))
	case 3, 4:
		return vBits(genNumBits(r))
	case 5:
		return genAny(r, 0)
	case 6:
		return vStr(hx.Pick(r, append(append(append([]string{}, durPool...), tsPool...), ipPool...)))
	case 7:
		n := r.Intn(4)
		xs := make([]V, n)
		for i := range xs {
			if r.Bool() {
				xs[i] = vStr(genNumString(r))
			} else {
				xs[i] = vBits(genNumBits(r))
			}
		}
		return vList(xs...)
	case 8:
		n := r.Intn(3)
		vs := make([]V, n)
		for i := range vs {
			if r.Bool() {
				vs[i] = vStr(genNumString(r))
			} else {
				vs[i] = vBits(genNumBits(r))
			}
		}
		return vMap(keyPool[:n], vs)
	}
	return hx.Pick(r, []V{vNull(), vBool(true), vBool(false), vStr(""), vList(), vMap(nil, nil)})
}

var paramNames = []string{"x", "y", "z", "w", "v"}

// literal atom of type t (primitive, non-any), semantically from the same pools as the contexts
func genLiteral(r *hx.Rand, t TR) (string, bool) {
	switch t.N {
	case 'b':
		if r.Bool() {
			return "b1", true
		}
		return "b0", true
	case 's':
		return "s" + hex.EncodeToString([]byte(hx.Pick(r, stringPool))) + ".", true
	case 'i':
		return "i" + hx.Pick(r, intPool) + ".", true
	case 'u':
		return "u" + hx.Pick(r, uintPool) + ".", true
	case 'd':
		return fmt.Sprintf("d%016x", math.Float64bits(hx.Pick(r, doublePool))), true
	case 'D':
		return "R" + hex.EncodeToString([]byte(hx.Pick(r, durPool))) + ".", true
	case 't':
		return "Z" + hex.EncodeToString([]byte(hx.Pick(r, tsPool))) + ".", true
	case 'p':
		return "P" + hex.EncodeToString([]byte(hx.Pick(r, ipPool))) + ".", true
	case 'a':
		switch r.Intn(5) {
		case 0:
			return "n", true
		case 1:
			return "b1", true
		case 2:
			return "s" + hex.EncodeToString([]byte(hx.Pick(r, stringPool))) + ".", true
		case 3:
			return "i" + strconv.Itoa(r.Intn(9)-2) + ".", true
		}
		return fmt.Sprintf("d%016x", math.Float64bits(hx.Pick(r, doublePool))), true
	}
	return "", false
}

func sameType(a, b TR) bool { return a.enc() == b.enc() }

// genCmp builds one well-typed comparison over the declared parameters
func genCmp(r *hx.Rand, ps []Param) string {
	if len(ps) == 0 {
		return hx.Pick(r, []string{"T", "F"})
	}
	for try := 0; try < 8; try++ {
		p := hx.Pick(r, ps)
		pa := "p" + p.Name + "."
		switch p.T.N {
		case 'l':
			el := p.T.G[0]
			lit, ok := genLiteral(r, el)
			switch r.Intn(3) {
			case 0:
				if ok {
					return "@" + lit + pa
				}
			case 1:
				if ok {
					op := "="
					if el.N != 'p' && el.N != 'a' && r.Chance(1, 3) {
						op = hx.Pick(r, []string{"<", ">"})
					}
					return op + "y" + p.Name + "." + strconv.Itoa(r.Intn(3)) + "." + lit
				}
			case 2:
				// element parameter `in` list parameter
				for _, q := range ps {
					if sameType(q.T, el) && q.T.N != 'l' && q.T.N != 'm' {
						return "@p" + q.Name + "." + pa
					}
				}
			}
		case 'm':
			el := p.T.G[0]
			key := hex.EncodeToString([]byte(hx.Pick(r, keyPool)))
			if r.Bool() {
				return "@s" + key + "." + pa
			}
			if lit, ok := genLiteral(r, el); ok {
				return "=x" + p.Name + "." + key + "." + lit
			}
		default:
			op := "="
			if p.T.N != 'p' && r.Chance(1, 2) {
				op = hx.Pick(r, []string{"<", ">"})
			}
			if p.T.N == 'a' && op != "=" && r.Chance(2, 3) {
				op = "="
			}
			// parameter vs parameter of the same type
			if r.Chance(1, 4) {
				for _, q := range ps {
					if q.Name != p.Name && sameType(q.T, p.T) {
						return op + pa + "p" + q.Name + "."
					}
				}
			}
			if lit, ok := genLiteral(r, p.T); ok {
				if r.Chance(1, 5) && p.T.N != 'a' {
					return op + lit + pa
				}
				return op + pa + lit
			}
		}
	}
	return "T"
}

func genExpr(r *hx.Rand, ps []Param, depth int) string {
	if depth >= 3 {
		return genCmp(r, ps)
	}
	switch r.Intn(10) {
	case 0, 1:
		return "&" + genExpr(r, ps, depth+1) + genExpr(r, ps, depth+1)
	case 2, 3:
		return "|" + genExpr(r, ps, depth+1) + genExpr(r, ps, depth+1)
	case 4:
		return "!" + genExpr(r, ps, depth+1)
	case 5:
		return hx.Pick(r, []string{"T", "F"})
	}
	return genCmp(r, ps)
}

var rawBad = []string{"x +", "1", "undeclared_zz == 1", "\"a\"", "1 == \"a\"", "", "true &&", "x == ", "duration(\"1h\")", "[1, 2]", "true ? 1 : 2"}

func genCtxLine(r *hx.Rand, keys []string, vals []V) string {
	if keys == nil {
		return "~"
	}
	idx := make([]int, len(keys))
	for i := range idx {
		idx[i] = i
	}
	hx.Shuffle(r, idx)
	ks := make([]string, len(keys))
	vs := make([]V, len(keys))
	for i, j := range idx {
		ks[i], vs[i] = keys[j], vals[j]
	}
	return vMap(ks, vs).enc()
}

func gen(r *hx.Rand, n int, tier string, emit func(string), st *hx.Stats) {
	// deterministic liveness cases in every run (regression of F14): short numeric strings with a huge
	// decimal exponent must be rejected promptly — the error message used to be built with
	// big.Float.String(), quadratic in the exponent (minutes of CPU for these inputs)
	st.Add("slow", 4)
	emit("slow i " + vStr("1e-3000000").enc())
	emit("slow u " + vStr("1e-3000000").enc())
	emit("slow d " + vStr("1e100000000").enc())
	emit("sloweval " + hx.HS("c") + " 1 " + hx.HS("c") + " x:i okc <px.i10. ~ " + vMap([]string{"x"}, []V{vStr("1e-3000000")}).enc() + " ~")
	for i := 4; i < n; i++ {
		c := r.Fork()
		switch k := c.Intn(20); {
		case k < 5:
			// conversion table, through structpb
			var t TR
			if c.Chance(1, 12) {
				t = genBadType(c)
				st.Inc("conv-badtype")
			} else {
				t = genTypeNumBias(c)
			}
			var v V
			switch c.Intn(4) {
			case 0:
				v = genValidOrAny(c, t)
				st.Inc("conv-valid")
			case 1:
				v = genMistypedOrAny(c, t)
				st.Inc("conv-mistyped")
			default:
				v = genValueAny(c)
				st.Inc("conv-random")
			}
			emit("conv " + t.enc() + " " + v.enc())
		case k < 7:
			t := genTypeNumBias(c)
			st.Inc("convraw")
			emit("convraw " + t.enc() + " " + genValueAny(c).enc())
		case k < 8:
			st.Inc("cast")
			ps, _, _ := genParams(c)
			keys, vals := []string{}, []V{}
			for _, p := range ps {
				switch c.Intn(4) {
				case 0:
				case 1:
					keys, vals = append(keys, p.Name), append(vals, genMistypedOrAny(c, p.T))
				default:
					keys, vals = append(keys, p.Name), append(vals, genValidOrAny(c, p.T))
				}
			}
			if c.Chance(1, 3) {
				keys, vals = append(keys, "undeclared"), append(vals, genAny(c, 0))
			}
			line := genCtxLine(c, keys, vals)
			if len(keys) == 0 && c.Bool() {
				line = "~"
			}
			emit("cast " + encParams(ps) + " " + line)
		default:
			emit(genEval(c, st))
		}
	}
}

func wellFormed(t TR) bool {
	switch t.N {
	case 'z', 'x':
		return false
	case 'l', 'm':
		return len(t.G) == 1 && wellFormed(t.G[0])
	}
	return len(t.G) == 0
}

func genValidOrAny(r *hx.Rand, t TR) V {
	if wellFormed(t) {
		return genValid(r, t, 0)
	}
	return genAny(r, 0)
}

func genMistypedOrAny(r *hx.Rand, t TR) V {
	if wellFormed(t) {
		return genMistyped(r, t)
	}
	return genAny(r, 0)
}

func genParams(r *hx.Rand) (ps []Param, allGood bool, n int) {
	n = hx.Pick(r, []int{0, 1, 1, 2, 2, 2, 3, 3, 4})
	allGood = true
	for i := 0; i < n; i++ {
		t := genType(r, 0)
		if r.Chance(1, 40) {
			t = genBadType(r)
			allGood = false
		}
		ps = append(ps, Param{paramNames[i], t})
	}
	return
}

func genEval(r *hx.Rand, st *hx.Stats) string {
	ps, allGood, _ := genParams(r)
	condName := hx.Pick(r, []string{"c", "cond1", "in_region"})
	tupName := condName
	hasEC := "1"
	switch r.Intn(30) {
	case 0:
		tupName = ""
		st.Inc("eval-unconditioned")
	case 1:
		tupName = condName + "x"
		st.Inc("eval-name-mismatch")
	case 2:
		hasEC = "0"
		st.Inc("eval-nil-condition")
	}
	kind, expr := "okc", ""
	if r.Chance(1, 25) || !allGood && r.Chance(1, 2) {
		kind = "raw"
		expr = hx.HS(hx.Pick(r, rawBad))
		st.Inc("eval-raw-bad-expr")
	} else {
		good := []Param{}
		for _, p := range ps {
			if wellFormed(p.T) {
				good = append(good, p)
			}
		}
		expr = genExpr(r, good, 0)
	}
	var reqK, tupK, extK []string
	var reqV, tupV, extV []V
	for _, p := range ps {
		status := r.Intn(16)
		switch {
		case status < 3: // request only
			reqK, reqV = append(reqK, p.Name), append(reqV, genValidOrAny(r, p.T))
			st.Inc("param-request-only")
		case status < 6: // stored only
			tupK, tupV = append(tupK, p.Name), append(tupV, genValidOrAny(r, p.T))
			st.Inc("param-stored-only")
		case status < 8: // both, same value
			v := genValidOrAny(r, p.T)
			reqK, reqV = append(reqK, p.Name), append(reqV, v)
			tupK, tupV = append(tupK, p.Name), append(tupV, v)
			st.Inc("param-both-agree")
		case status < 11: // both, conflicting values
			reqK, reqV = append(reqK, p.Name), append(reqV, genValidOrAny(r, p.T))
			tupK, tupV = append(tupK, p.Name), append(tupV, genValidOrAny(r, p.T))
			st.Inc("param-both-conflict")
		case status < 13: // omitted
			st.Inc("param-omitted")
		case status < 14: // mistyped in the request, valid stored value wins
			reqK, reqV = append(reqK, p.Name), append(reqV, genMistypedOrAny(r, p.T))
			tupK, tupV = append(tupK, p.Name), append(tupV, genValidOrAny(r, p.T))
			st.Inc("param-mistyped-request-shadowed")
		case status < 15: // valid in the request, mistyped stored value wins
			reqK, reqV = append(reqK, p.Name), append(reqV, genValidOrAny(r, p.T))
			tupK, tupV = append(tupK, p.Name), append(tupV, genMistypedOrAny(r, p.T))
			st.Inc("param-mistyped-stored")
		default: // mistyped, one side only
			if r.Bool() {
				reqK, reqV = append(reqK, p.Name), append(reqV, genMistypedOrAny(r, p.T))
			} else {
				tupK, tupV = append(tupK, p.Name), append(tupV, genMistypedOrAny(r, p.T))
			}
			st.Inc("param-mistyped")
		}
	}
	if r.Chance(1, 6) {
		reqK, reqV = append(reqK, "undeclared"), append(reqV, genAny(r, 0))
	}
	if r.Chance(1, 10) {
		tupK, tupV = append(tupK, "other"), append(tupV, genAny(r, 0))
	}
	if r.Chance(1, 8) && len(ps) > 0 {
		p := hx.Pick(r, ps)
		extK, extV = append(extK, p.Name), append(extV, genValidOrAny(r, p.T))
	}
	// nil vs empty contexts
	if reqK == nil && r.Bool() {
		reqK, reqV = []string{}, []V{}
	}
	if tupK == nil && r.Bool() {
		tupK, tupV = []string{}, []V{}
	}
	st.Inc("eval")
	return strings.Join([]string{"eval", hx.HS(tupName), hasEC, hx.HS(condName), encParams(ps), kind, expr,
		genCtxLine(r, tupK, tupV), genCtxLine(r, reqK, reqV), genCtxLine(r, extK, extV)}, " ")
}

func main() { hx.Main(hx.Harness{Gen: gen, Exec: exec}) }
