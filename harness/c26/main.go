// Harness for C26 (API access control): runs the REAL server in-process with a real
// access-control store (FGA on FGA) over the memory datastore, and the REAL authz.Authorizer
// against a scripted Check/ListObjects backend.
//
// Case lines
//
//	api <method> <ident> <store> <grants> <wspec> <extra>
//	    method : an OpenFGA / AuthZEN RPC handler name
//	    ident  : none (no claims in ctx) | empty (ClientID "") | self (caller holds the grants) |
//	             other (somebody else holds the grants)
//	    store  : 0..3 (target stores) | r (the access-control store) | n (a store that does not exist)
//	    grants : comma separated tuples written to the access-control store for this case ("-" none)
//	             s<i>.<rel>        store:<Si>#<rel>@application:<c>
//	             m<i>.<mod>.<rel>  module:<Si>|<mod>#<rel>@application:<c>
//	             k<i>.<mod>.<j>    module:<Si>|<mod>#store@store:<Sj>          (stored link)
//	             y.<rel>           system:fga#<rel>@application:<c>
//	             w.<rel>           system:fga#<rel>@application:*
//	             l<i>              store:<Si>#system@system:fga                (stored link)
//	    wspec  : Write only — sequence of tuple kinds (a e b c p x r, prefix d = delete), "-" otherwise
//	    extra  : ListStores only — p<pageSize>[.<nameStore>]; "-" otherwise
//	  output : ok | forbidden | forbidden+mid (refused, but the model-id response header was set) | err:<code>
//	           (ListStores: "ok <store names, canonical order>")
//
//	au <method> <client> <storeResult> <modules>     Authorizer.Authorize against a scripted server
//	    client : none | empty | <id>;  storeResult: A(llowed) D(enied) E(rror);  modules: m1:A,m2:E | -
//	  output : allow | deny <cause class>
//
//	las <client> <E | comma separated hex objects | ->   Authorizer.ListAuthorizedStores, scripted
//	  output : err | ok <hex ids>
package main

import (
	"context"
	"errors"
	"fmt"
	"go/ast"
	"go/parser"
	"go/token"
	"os"
	"path/filepath"
	"sort"
	"strconv"
	"strings"
	"sync"

	"google.golang.org/grpc"
	"google.golang.org/grpc/codes"
	"google.golang.org/grpc/status"
	"google.golang.org/protobuf/types/known/wrapperspb"

	authzenv1 "github.com/openfga/api/proto/authzen/v1"
	openfgav1 "github.com/openfga/api/proto/openfga/v1"
	dsl "github.com/openfga/language/pkg/go/transformer"

	"github.com/openfga/openfga/internal/authz"
	"github.com/openfga/openfga/internal/utils/apimethod"
	"github.com/openfga/openfga/pkg/authclaims"
	"github.com/openfga/openfga/pkg/logger"
	"github.com/openfga/openfga/pkg/server"
	"github.com/openfga/openfga/pkg/storage"
	"github.com/openfga/openfga/pkg/storage/memory"
	"github.com/openfga/openfga/pkg/typesystem"
	"github.com/openfga/openfga/verifharness/hx"
)

// fallback copy of the reference access-control model (pkg/server/server_authz_test.go: rootStoreModel);
// at run time the harness prefers the constant found in the checked tree (VERIF_REPO).
const rootStoreModelFallback = `
model
  schema 1.1

type system
  relations
    define can_call_create_stores: [application, application:*] or admin
    define can_call_list_stores: [application, application:*] or admin
    define admin: [application]

type application

type module
  relations
    define can_call_write: [application] or writer or writer from store
    define store: [store]
    define writer: [application]

type store
  relations
    define system: [system]
    define creator: [application]
    define can_call_delete_store: [application] or admin
    define can_call_get_store: [application] or admin
    define can_call_check: [application] or reader
    define can_call_expand: [application] or reader
    define can_call_list_objects: [application] or reader
    define can_call_list_users: [application] or reader
    define can_call_read: [application] or reader
    define can_call_read_assertions: [application] or reader or model_writer
    define can_call_read_authorization_models: [application] or reader or model_writer
    define can_call_read_changes: [application] or reader
    define can_call_write: [application] or writer
    define can_call_write_assertions: [application] or model_writer
    define can_call_write_authorization_models: [application] or model_writer
    define model_writer: [application] or admin
    define reader: [application] or admin
    define writer: [application] or admin
    define admin: [application] or creator or admin from system
`

func rootModelDSL() string {
	repo := os.Getenv("VERIF_REPO")
	if repo == "" {
		repo = "/repo"
	}
	fset := token.NewFileSet()
	f, err := parser.ParseFile(fset, filepath.Join(repo, "pkg/server/server_authz_test.go"), nil, 0)
	if err != nil {
		return rootStoreModelFallback
	}
	for _, d := range f.Decls {
		gd, ok := d.(*ast.GenDecl)
		if !ok || gd.Tok != token.CONST {
			continue
		}
		for _, s := range gd.Specs {
			vs := s.(*ast.ValueSpec)
			for i, n := range vs.Names {
				if n.Name == "rootStoreModel" && i < len(vs.Values) {
					if bl, ok := vs.Values[i].(*ast.BasicLit); ok {
						if u, err := strconv.Unquote(bl.Value); err == nil {
							// the test constant is indented with tabs; normalise to the DSL's two-space nesting
							var out []string
							for _, line := range strings.Split(u, "\n") {
								t := strings.TrimSpace(line)
								switch {
								case t == "":
									out = append(out, "")
								case strings.HasPrefix(t, "model"), strings.HasPrefix(t, "type "):
									out = append(out, t)
								case strings.HasPrefix(t, "schema"), strings.HasPrefix(t, "relations"):
									out = append(out, "  "+t)
								default:
									out = append(out, "    "+t)
								}
							}
							return strings.Join(out, "\n")
						}
					}
				}
			}
		}
	}
	return rootStoreModelFallback
}

const nStores = 4
const ghostStore = "01HZZZZZZZZZZZZZZZZZZZZZZZ"

type world struct {
	ds       storage.OpenFGADatastore
	srv      *server.Server
	rootID   string
	rootMID  string
	storeID  [nStores]string
	modelID  [nStores]string
	name     map[string]string // store id -> canonical name ("r", "0".."3")
	counter  int
	skip     context.Context
	typeDefs []*openfgav1.TypeDefinition
	rootDefs []*openfgav1.TypeDefinition
	tr       *recTransport
}

var (
	theWorld *world
	once     sync.Once
)

func directUser() *openfgav1.RelationMetadata {
	return &openfgav1.RelationMetadata{DirectlyRelatedUserTypes: []*openfgav1.RelationReference{{Type: "user"}}}
}

func this() *openfgav1.Userset { return &openfgav1.Userset{Userset: &openfgav1.Userset_This{}} }

// target-store model: ta (module ma; relation ext belongs to module mb), tb (mb), tc (mc), plain (no module)
func targetTypeDefs() []*openfgav1.TypeDefinition {
	mk := func(name, module string, rels map[string]string) *openfgav1.TypeDefinition {
		td := &openfgav1.TypeDefinition{Type: name, Relations: map[string]*openfgav1.Userset{}, Metadata: &openfgav1.Metadata{Module: module, Relations: map[string]*openfgav1.RelationMetadata{}}}
		for r, relModule := range rels {
			td.Relations[r] = this()
			md := directUser()
			md.Module = relModule
			td.Metadata.Relations[r] = md
		}
		return td
	}
	return []*openfgav1.TypeDefinition{
		{Type: "user"},
		mk("ta", "ma", map[string]string{"member": "", "ext": "mb"}),
		mk("tb", "mb", map[string]string{"member": ""}),
		mk("tc", "mc", map[string]string{"member": ""}),
		mk("plain", "", map[string]string{"member": ""}),
	}
}

func must(err error) {
	if err != nil {
		panic(err)
	}
}

func getWorld() *world {
	once.Do(func() {
		w := &world{ds: memory.New(), name: map[string]string{}}
		w.skip = authclaims.ContextWithSkipAuthzCheck(context.Background(), true)
		boot := server.MustNewServerWithOpts(server.WithDatastore(w.ds))
		ctx := context.Background()
		root, err := boot.CreateStore(ctx, &openfgav1.CreateStoreRequest{Name: "root-store"})
		must(err)
		w.rootID = root.GetId()
		w.rootDefs = dsl.MustTransformDSLToProto(rootModelDSL()).GetTypeDefinitions()
		wm, err := boot.WriteAuthorizationModel(ctx, &openfgav1.WriteAuthorizationModelRequest{
			StoreId: w.rootID, SchemaVersion: typesystem.SchemaVersion1_1, TypeDefinitions: w.rootDefs,
		})
		must(err)
		w.rootMID = wm.GetAuthorizationModelId()
		w.name[w.rootID] = "r"
		w.typeDefs = targetTypeDefs()
		for i := 0; i < nStores; i++ {
			st, err := boot.CreateStore(ctx, &openfgav1.CreateStoreRequest{Name: fmt.Sprintf("store-%d", i%3)}) // stores 0 and 3 share a name
			must(err)
			w.storeID[i] = st.GetId()
			w.name[st.GetId()] = strconv.Itoa(i)
			m, err := boot.WriteAuthorizationModel(ctx, &openfgav1.WriteAuthorizationModelRequest{StoreId: st.GetId(), SchemaVersion: typesystem.SchemaVersion1_1, TypeDefinitions: w.typeDefs})
			must(err)
			w.modelID[i] = m.GetAuthorizationModelId()
		}
		boot.Close()
		w.tr = &recTransport{keys: map[string][]string{}}
		w.srv = server.MustNewServerWithOpts(
			server.WithDatastore(w.ds),
			server.WithTransport(w.tr),
			server.WithExperimentals("enable-access-control", "authzen"),
			server.WithAccessControlParams(true, w.rootID, w.rootMID, "oidc"),
			server.WithAuthzenBaseURL("https://pdp.example"),
		)
		if !w.srv.IsAccessControlEnabled() {
			panic("access control is not enabled on the harness server")
		}
		theWorld = w
	})
	return theWorld
}

func (w *world) sid(s string) string {
	switch s {
	case "r":
		return w.rootID
	case "n":
		return ghostStore
	}
	i, err := strconv.Atoi(s)
	if err != nil || i < 0 || i >= nStores {
		panic("bad store " + s)
	}
	return w.storeID[i]
}

func (w *world) mid(s string) string {
	switch s {
	case "r":
		return w.rootMID
	case "n":
		return "01HZZZZZZZZZZZZZZZZZZZZZZY"
	}
	i, _ := strconv.Atoi(s)
	return w.modelID[i]
}

// grantTuple translates one grant token into a tuple of the access-control store.
func (w *world) grantTuple(g, client string) *openfgav1.TupleKey {
	app := "application:" + client
	p := strings.Split(g, ".")
	switch {
	case p[0] == "y" && len(p) == 2:
		return &openfgav1.TupleKey{Object: "system:fga", Relation: p[1], User: app}
	case p[0] == "w" && len(p) == 2:
		return &openfgav1.TupleKey{Object: "system:fga", Relation: p[1], User: "application:*"}
	case g[0] == 's' && len(p) == 2:
		return &openfgav1.TupleKey{Object: "store:" + w.sid(p[0][1:]), Relation: p[1], User: app}
	case g[0] == 'm' && len(p) == 3:
		return &openfgav1.TupleKey{Object: "module:" + w.sid(p[0][1:]) + "|" + p[1], Relation: p[2], User: app}
	case g[0] == 'k' && len(p) == 3:
		return &openfgav1.TupleKey{Object: "module:" + w.sid(p[0][1:]) + "|" + p[1], Relation: "store", User: "store:" + w.sid(p[2])}
	case g[0] == 'l' && len(p) == 1:
		return &openfgav1.TupleKey{Object: "store:" + w.sid(g[1:]), Relation: "system", User: "system:fga"}
	}
	panic("bad grant " + g)
}

func classify(err error) string {
	if err == nil {
		return "ok"
	}
	st, ok := status.FromError(err)
	if !ok {
		return "err:nostatus"
	}
	if st.Code() == codes.Code(openfgav1.AuthErrorCode_forbidden) {
		return "forbidden"
	}
	return "err:" + strconv.Itoa(int(st.Code()))
}

// recTransport records the response headers the server sets during one call
type recTransport struct {
	mu   sync.Mutex
	keys map[string][]string
}

func (t *recTransport) SetHeader(_ context.Context, key, value string) {
	t.mu.Lock()
	defer t.mu.Unlock()
	k := strings.ToLower(key)
	t.keys[k] = append(t.keys[k], value)
}

func (t *recTransport) reset() {
	t.mu.Lock()
	defer t.mu.Unlock()
	t.keys = map[string][]string{}
}

// has: some value set for the header equals want (the authorizer's nested Check on the access-control store sets
// the same header with the access-control model id, so presence alone says nothing)
func (t *recTransport) has(key, want string) bool {
	t.mu.Lock()
	defer t.mu.Unlock()
	for _, v := range t.keys[strings.ToLower(key)] {
		if v == want {
			return true
		}
	}
	return false
}

type nullStream struct {
	grpc.ServerStream
	ctx context.Context
}

func (m *nullStream) Context() context.Context                             { return m.ctx }
func (m *nullStream) Send(*openfgav1.StreamedListObjectsResponse) error { return nil }

func (w *world) writeTuples(spec string) (*openfgav1.WriteRequestWrites, *openfgav1.WriteRequestDeletes) {
	var wr []*openfgav1.TupleKey
	var dl []*openfgav1.TupleKeyWithoutCondition
	del := false
	for _, ch := range spec {
		if ch == 'd' {
			del = true
			continue
		}
		w.counter++
		id := strconv.Itoa(w.counter)
		var obj, rel string
		switch ch {
		case 'a':
			obj, rel = "ta:"+id, "member"
		case 'e':
			obj, rel = "ta:"+id, "ext"
		case 'b':
			obj, rel = "tb:"+id, "member"
		case 'c':
			obj, rel = "tc:"+id, "member"
		case 'p':
			obj, rel = "plain:"+id, "member"
		case 'x':
			obj, rel = "zz:"+id, "member"
		case 'r':
			obj, rel = "ta:"+id, "nope"
		default:
			panic("bad write kind")
		}
		if del {
			dl = append(dl, &openfgav1.TupleKeyWithoutCondition{Object: obj, Relation: rel, User: "user:u"})
		} else {
			wr = append(wr, &openfgav1.TupleKey{Object: obj, Relation: rel, User: "user:u"})
		}
		del = false
	}
	var wrs *openfgav1.WriteRequestWrites
	var dls *openfgav1.WriteRequestDeletes
	if len(wr) > 0 {
		wrs = &openfgav1.WriteRequestWrites{TupleKeys: wr}
	}
	if len(dl) > 0 {
		dls = &openfgav1.WriteRequestDeletes{TupleKeys: dl}
	}
	return wrs, dls
}

func (w *world) api(f []string) string {
	if len(f) != 7 {
		return "badcase"
	}
	method, ident, store, grants, wspec, extra := f[1], f[2], f[3], f[4], f[5], f[6]
	w.counter++
	caller := "c" + strconv.Itoa(w.counter)
	holder := caller
	if ident == "other" {
		holder = caller + "x"
	}
	// write the grants
	var gt []*openfgav1.TupleKey
	if grants != "-" {
		seen := map[string]bool{}
		for _, g := range strings.Split(grants, ",") {
			t := w.grantTuple(g, holder)
			k := t.GetObject() + "#" + t.GetRelation() + "@" + t.GetUser()
			if !seen[k] {
				seen[k] = true
				gt = append(gt, t)
			}
		}
	}
	if len(gt) > 0 {
		_, err := w.srv.Write(w.skip, &openfgav1.WriteRequest{StoreId: w.rootID, AuthorizationModelId: w.rootMID, Writes: &openfgav1.WriteRequestWrites{TupleKeys: gt}})
		if err != nil {
			return "SETUP-ERR " + strings.ReplaceAll(err.Error(), "\t", " ")
		}
		defer func() {
			var dl []*openfgav1.TupleKeyWithoutCondition
			for _, t := range gt {
				dl = append(dl, &openfgav1.TupleKeyWithoutCondition{Object: t.GetObject(), Relation: t.GetRelation(), User: t.GetUser()})
			}
			_, err := w.srv.Write(w.skip, &openfgav1.WriteRequest{StoreId: w.rootID, AuthorizationModelId: w.rootMID, Deletes: &openfgav1.WriteRequestDeletes{TupleKeys: dl}})
			must(err)
		}()
	}
	ctx := context.Background()
	switch ident {
	case "none":
	case "empty":
		ctx = authclaims.ContextWithAuthClaims(ctx, &authclaims.AuthClaims{ClientID: ""})
	case "self", "other":
		ctx = authclaims.ContextWithAuthClaims(ctx, &authclaims.AuthClaims{ClientID: caller})
	default:
		return "badcase"
	}
	sid := ""
	if store != "-" {
		sid = w.sid(store)
	}
	s := w.srv
	tk := &openfgav1.CheckRequestTupleKey{Object: "ta:1", Relation: "member", User: "user:u"}
	subj := &authzenv1.Subject{Type: "user", Id: "u"}
	res := &authzenv1.Resource{Type: "ta", Id: "1"}
	act := &authzenv1.Action{Name: "member"}
	var err error
	w.tr.reset()
	switch method {
	case "ReadAuthorizationModel":
		_, err = s.ReadAuthorizationModel(ctx, &openfgav1.ReadAuthorizationModelRequest{StoreId: sid, Id: w.mid(store)})
	case "ReadAuthorizationModels":
		_, err = s.ReadAuthorizationModels(ctx, &openfgav1.ReadAuthorizationModelsRequest{StoreId: sid})
	case "Read":
		_, err = s.Read(ctx, &openfgav1.ReadRequest{StoreId: sid})
	case "Write":
		wr, dl := w.writeTuples(wspec)
		_, err = s.Write(ctx, &openfgav1.WriteRequest{StoreId: sid, Writes: wr, Deletes: dl})
	case "ListObjects":
		_, err = s.ListObjects(ctx, &openfgav1.ListObjectsRequest{StoreId: sid, Type: "ta", Relation: "member", User: "user:u"})
	case "StreamedListObjects":
		err = s.StreamedListObjects(&openfgav1.StreamedListObjectsRequest{StoreId: sid, Type: "ta", Relation: "member", User: "user:u"}, &nullStream{ctx: ctx})
	case "Check":
		_, err = s.Check(ctx, &openfgav1.CheckRequest{StoreId: sid, TupleKey: tk})
	case "BatchCheck":
		_, err = s.BatchCheck(ctx, &openfgav1.BatchCheckRequest{StoreId: sid, Checks: []*openfgav1.BatchCheckItem{{TupleKey: tk, CorrelationId: "1"}}})
	case "ListUsers":
		_, err = s.ListUsers(ctx, &openfgav1.ListUsersRequest{StoreId: sid, Object: &openfgav1.Object{Type: "ta", Id: "1"}, Relation: "member", UserFilters: []*openfgav1.UserTypeFilter{{Type: "user"}}})
	case "WriteAssertions":
		_, err = s.WriteAssertions(ctx, &openfgav1.WriteAssertionsRequest{StoreId: sid, AuthorizationModelId: w.mid(store), Assertions: []*openfgav1.Assertion{}})
	case "ReadAssertions":
		_, err = s.ReadAssertions(ctx, &openfgav1.ReadAssertionsRequest{StoreId: sid, AuthorizationModelId: w.mid(store)})
	case "WriteAuthorizationModel":
		tds := w.typeDefs
		if store == "r" {
			tds = w.rootDefs // keep the latest model of the access-control store what it was
		}
		if store == "n" {
			// an invalid model: a store that does not exist must not acquire a model through an authorized case
			tds = []*openfgav1.TypeDefinition{{Type: "doc", Relations: map[string]*openfgav1.Userset{"r": this()},
				Metadata: &openfgav1.Metadata{Relations: map[string]*openfgav1.RelationMetadata{"r": {DirectlyRelatedUserTypes: []*openfgav1.RelationReference{{Type: "undefined_type"}}}}}}}
		}
		var wr *openfgav1.WriteAuthorizationModelResponse
		wr, err = s.WriteAuthorizationModel(ctx, &openfgav1.WriteAuthorizationModelRequest{StoreId: sid, SchemaVersion: typesystem.SchemaVersion1_1, TypeDefinitions: tds})
		if err == nil && store != "r" && store != "n" {
			i, _ := strconv.Atoi(store)
			w.modelID[i] = wr.GetAuthorizationModelId() // the latest model of the store
		}
	case "Expand":
		_, err = s.Expand(ctx, &openfgav1.ExpandRequest{StoreId: sid, TupleKey: &openfgav1.ExpandRequestTupleKey{Object: "ta:1", Relation: "member"}})
	case "ReadChanges":
		_, err = s.ReadChanges(ctx, &openfgav1.ReadChangesRequest{StoreId: sid})
	case "GetStore":
		_, err = s.GetStore(ctx, &openfgav1.GetStoreRequest{StoreId: sid})
	case "DeleteStore":
		_, err = s.DeleteStore(ctx, &openfgav1.DeleteStoreRequest{StoreId: sid})
		if err == nil && store != "n" {
			// put the store back (same id, same name) so that later cases see the same world
			nm := "root-store"
			if store != "r" {
				i, _ := strconv.Atoi(store)
				nm = fmt.Sprintf("store-%d", i%3)
			}
			_, e2 := w.ds.CreateStore(context.Background(), &openfgav1.Store{Id: sid, Name: nm})
			must(e2)
		}
	case "CreateStore":
		var r *openfgav1.CreateStoreResponse
		r, err = s.CreateStore(ctx, &openfgav1.CreateStoreRequest{Name: "created-by-case"})
		if err == nil {
			must(w.ds.DeleteStore(context.Background(), r.GetId()))
		}
	case "ListStores":
		return w.listStores(ctx, extra)
	case "Evaluation":
		_, err = s.Evaluation(ctx, &authzenv1.EvaluationRequest{StoreId: sid, Subject: subj, Resource: res, Action: act})
	case "Evaluations", "EvaluationsDeny", "EvaluationsPermit":
		req := &authzenv1.EvaluationsRequest{StoreId: sid, Evaluations: []*authzenv1.EvaluationsItemRequest{{Subject: subj, Resource: res, Action: act}}}
		if method == "EvaluationsDeny" {
			req.Options = &authzenv1.EvaluationsOptions{EvaluationsSemantic: authzenv1.EvaluationsSemantic_deny_on_first_deny}
		} else if method == "EvaluationsPermit" {
			req.Options = &authzenv1.EvaluationsOptions{EvaluationsSemantic: authzenv1.EvaluationsSemantic_permit_on_first_permit}
		}
		var r *authzenv1.EvaluationsResponse
		r, err = s.Evaluations(ctx, req)
		if err == nil {
			// the short-circuit variants report a failed Check per item instead of failing the RPC
			for _, e := range r.GetEvaluations() {
				if c := e.GetContext(); c != nil {
					if ev := c.GetFields()["error"]; ev != nil {
						stc := ev.GetStructValue().GetFields()["status"].GetNumberValue()
						if strings.Contains(ev.GetStructValue().GetFields()["message"].GetStringValue(), "the principal is not authorized to perform the action") {
							return "forbidden"
						}
						return "err:item" + strconv.Itoa(int(stc))
					}
				}
			}
		}
	case "SubjectSearch":
		_, err = s.SubjectSearch(ctx, &authzenv1.SubjectSearchRequest{StoreId: sid, Resource: res, Action: act, Subject: &authzenv1.SubjectFilter{Type: "user"}})
	case "ResourceSearch":
		_, err = s.ResourceSearch(ctx, &authzenv1.ResourceSearchRequest{StoreId: sid, Subject: subj, Action: act, Resource: &authzenv1.ResourceFilter{Type: "ta"}})
	case "ActionSearch":
		_, err = s.ActionSearch(ctx, &authzenv1.ActionSearchRequest{StoreId: sid, Subject: subj, Resource: res})
	case "ActionSearchUnknownType":
		_, err = s.ActionSearch(ctx, &authzenv1.ActionSearchRequest{StoreId: sid, Subject: subj, Resource: &authzenv1.Resource{Type: "zz", Id: "1"}})
	case "GetConfiguration":
		_, err = s.GetConfiguration(ctx, &authzenv1.GetConfigurationRequest{StoreId: sid})
	default:
		return "badcase"
	}
	cl := classify(err)
	if cl == "forbidden" && store != "r" && store != "n" && store != "-" && w.tr.has(server.AuthorizationModelIDHeader, w.mid(store)) {
		// the call was refused, yet the resolved authorization model id of the target store went out as a response header
		return "forbidden+mid"
	}
	return cl
}

func (w *world) listStores(ctx context.Context, extra string) string {
	ps, name := int32(0), ""
	if strings.HasPrefix(extra, "p") {
		parts := strings.SplitN(extra[1:], ".", 2)
		n, _ := strconv.Atoi(parts[0])
		ps = int32(n)
		if len(parts) == 2 {
			switch parts[1] {
			case "r":
				name = "root-store"
			case "z":
				name = "no-such-name"
			default:
				i, _ := strconv.Atoi(parts[1])
				name = fmt.Sprintf("store-%d", i%3)
			}
		}
	}
	var got []string
	tok := ""
	for page := 0; page < 64; page++ {
		req := &openfgav1.ListStoresRequest{ContinuationToken: tok, Name: name}
		if ps > 0 {
			req.PageSize = wrapperspb.Int32(ps)
		}
		r, err := w.srv.ListStores(ctx, req)
		if err != nil {
			if page == 0 {
				return classify(err)
			}
			return "err:page" + strconv.Itoa(page) + ":" + classify(err)
		}
		for _, st := range r.GetStores() {
			n, ok := w.name[st.GetId()]
			if !ok {
				n = "?"
			}
			got = append(got, n)
		}
		tok = r.GetContinuationToken()
		if tok == "" {
			break
		}
	}
	if len(got) == 0 {
		return "ok -"
	}
	// canonical order (the response is ordered by store id, i.e. by random ULIDs); duplicates are kept
	rank := map[string]int{"r": 0, "0": 1, "1": 2, "2": 3, "3": 4, "?": 5}
	sort.SliceStable(got, func(i, j int) bool { return rank[got[i]] < rank[got[j]] })
	return "ok " + strings.Join(got, ",")
}

// ---- scripted backend for the unit-level cases ----------------------------------------------------

type scripted struct {
	store   byte            // A D E
	modules map[string]byte // module name -> A D E
	lo      []string
	loErr   bool
	mu      sync.Mutex
	calls   []string
}

func (s *scripted) Check(ctx context.Context, req *openfgav1.CheckRequest) (*openfgav1.CheckResponse, error) {
	if !authclaims.SkipAuthzCheckFromContext(ctx) {
		return nil, errors.New("authorizer did not disable the nested authz check")
	}
	obj := req.GetTupleKey().GetObject()
	s.mu.Lock()
	s.calls = append(s.calls, req.GetTupleKey().GetUser()+" "+req.GetTupleKey().GetRelation()+" "+obj)
	s.mu.Unlock()
	r := byte('D')
	if strings.HasPrefix(obj, "module:") {
		if _, m, ok := strings.Cut(obj, "|"); ok {
			if v, ok := s.modules[m]; ok {
				r = v
			}
		}
	} else {
		r = s.store
	}
	switch r {
	case 'A':
		return &openfgav1.CheckResponse{Allowed: true}, nil
	case 'E':
		return nil, errors.New("scripted failure")
	}
	return &openfgav1.CheckResponse{Allowed: false}, nil
}

func (s *scripted) ListObjects(ctx context.Context, req *openfgav1.ListObjectsRequest) (*openfgav1.ListObjectsResponse, error) {
	if s.loErr {
		return nil, errors.New("scripted failure")
	}
	return &openfgav1.ListObjectsResponse{Objects: s.lo}, nil
}

func clientCtx(c string) context.Context {
	ctx := context.Background()
	switch c {
	case "none":
	case "empty":
		ctx = authclaims.ContextWithAuthClaims(ctx, &authclaims.AuthClaims{ClientID: ""})
	default:
		ctx = authclaims.ContextWithAuthClaims(ctx, &authclaims.AuthClaims{ClientID: c})
	}
	return ctx
}

func causeClass(err error) string {
	m := err.Error()
	switch {
	case strings.HasPrefix(m, "client ID not found"):
		return "noclient"
	case strings.HasPrefix(m, "error getting relation"):
		return "unknownmethod"
	case strings.HasPrefix(m, "check returned error"):
		return "checkerror"
	case m == "check returned not allowed":
		return "notallowed"
	case strings.HasPrefix(m, "the principal cannot write tuples of more than"):
		return "toomanymodules"
	}
	return "other"
}

func authorizeUnit(f []string) string {
	if len(f) != 5 {
		return "badcase"
	}
	sc := &scripted{store: f[3][0], modules: map[string]byte{}}
	var mods []string
	if f[4] != "-" {
		for _, m := range strings.Split(f[4], ",") {
			n, r, _ := strings.Cut(m, ":")
			mods = append(mods, n)
			sc.modules[n] = r[0]
		}
	}
	a := authz.NewAuthorizer(&authz.Config{StoreID: "01HROOTROOTROOTROOTROOTROO", ModelID: "01HMODELMODELMODELMODELMOD"}, sc, logger.NewNoopLogger())
	err := a.Authorize(clientCtx(f[2]), "01HSTORESTORESTORESTORESTOR", apimethod.APIMethod(f[1]), mods...)
	if err == nil {
		return "allow"
	}
	c := causeClass(err)
	// with several failing modules the reported cause depends on goroutine order: report the decision only
	if len(mods) > 0 && (c == "checkerror" || c == "notallowed") && sc.store != 'A' {
		nfail := 0
		for _, m := range mods {
			if sc.modules[m] != 'A' {
				nfail++
			}
		}
		if nfail > 1 {
			return "deny module"
		}
	}
	return "deny " + c
}

func listAuthorizedUnit(f []string) string {
	if len(f) != 3 {
		return "badcase"
	}
	sc := &scripted{}
	switch f[2] {
	case "E":
		sc.loErr = true
	case "-":
		sc.lo = []string{}
	default:
		for _, h := range strings.Split(f[2], ",") {
			sc.lo = append(sc.lo, string(hx.MustUnH(h)))
		}
	}
	a := authz.NewAuthorizer(&authz.Config{StoreID: "01HROOTROOTROOTROOTROOTROO", ModelID: "01HMODELMODELMODELMODELMOD"}, sc, logger.NewNoopLogger())
	ids, err := a.ListAuthorizedStores(clientCtx(f[1]))
	if err != nil {
		return "err"
	}
	if ids == nil {
		return "ok nil"
	}
	out := make([]string, len(ids))
	for i, s := range ids {
		out[i] = hx.HS(s)
	}
	if len(out) == 0 {
		return "ok empty"
	}
	return "ok " + strings.Join(out, ",")
}

func exec(line string, st *hx.Stats) string {
	f := strings.Fields(line)
	if len(f) == 0 {
		return "badcase"
	}
	switch f[0] {
	case "api":
		return getWorld().api(f)
	case "au":
		return authorizeUnit(f)
	case "las":
		return listAuthorizedUnit(f)
	}
	return "badcase"
}

// ---- generator --------------------------------------------------------------------------------------

var storeMethods = []string{
	"ReadAuthorizationModel", "ReadAuthorizationModels", "Read", "Write", "ListObjects", "StreamedListObjects", "Check", "BatchCheck",
	"ListUsers", "WriteAssertions", "ReadAssertions", "WriteAuthorizationModel", "Expand", "ReadChanges", "GetStore", "DeleteStore",
	"Evaluation", "Evaluations", "EvaluationsDeny", "EvaluationsPermit", "SubjectSearch", "ResourceSearch", "ActionSearch", "ActionSearchUnknownType", "GetConfiguration",
}

var storeRelations = []string{
	"can_call_delete_store", "can_call_get_store", "can_call_check", "can_call_expand", "can_call_list_objects", "can_call_list_users",
	"can_call_read", "can_call_read_assertions", "can_call_read_authorization_models", "can_call_read_changes", "can_call_write",
	"can_call_write_assertions", "can_call_write_authorization_models",
}
var storeRoles = []string{"admin", "reader", "writer", "model_writer", "creator"}

// the relation a method needs (only used to bias the generator towards relevant grants)
var needs = map[string]string{
	"ReadAuthorizationModel": "can_call_read_authorization_models", "ReadAuthorizationModels": "can_call_read_authorization_models",
	"Read": "can_call_read", "Write": "can_call_write", "ListObjects": "can_call_list_objects", "StreamedListObjects": "can_call_list_objects",
	"Check": "can_call_check", "BatchCheck": "can_call_check", "ListUsers": "can_call_list_users", "WriteAssertions": "can_call_write_assertions",
	"ReadAssertions": "can_call_read_assertions", "WriteAuthorizationModel": "can_call_write_authorization_models", "Expand": "can_call_expand",
	"ReadChanges": "can_call_read_changes", "GetStore": "can_call_get_store", "DeleteStore": "can_call_delete_store",
	"Evaluation": "can_call_check", "Evaluations": "can_call_check", "EvaluationsDeny": "can_call_check", "EvaluationsPermit": "can_call_check",
	"SubjectSearch": "can_call_list_users", "ResourceSearch": "can_call_list_objects", "ActionSearch": "can_call_check", "ActionSearchUnknownType": "can_call_check",
}

func genGrants(c *hx.Rand, method, store string) string {
	var g []string
	n := 0
	switch c.Intn(6) {
	case 0:
		n = 0
	case 1, 2:
		n = 1
	default:
		n = 1 + c.Intn(5)
	}
	stores := []string{"0", "1", "2", "3", "r", "n"}
	mods := []string{"ma", "mb", "mc"}
	for i := 0; i < n; i++ {
		s := store
		if c.Chance(1, 3) || s == "" {
			s = hx.Pick(c, stores)
		}
		switch c.Intn(12) {
		case 0, 1, 2: // the relation this method needs (on the target or another store)
			if r, ok := needs[method]; ok {
				g = append(g, "s"+s+"."+r)
			} else {
				g = append(g, "s"+s+"."+hx.Pick(c, storeRelations))
			}
		case 3:
			g = append(g, "s"+s+"."+hx.Pick(c, storeRelations))
		case 4, 5:
			g = append(g, "s"+s+"."+hx.Pick(c, storeRoles))
		case 6, 7:
			g = append(g, "m"+s+"."+hx.Pick(c, mods)+"."+hx.Pick(c, []string{"can_call_write", "writer"}))
		case 8:
			g = append(g, "y."+hx.Pick(c, []string{"admin", "can_call_list_stores", "can_call_create_stores"}))
		case 9:
			if c.Chance(1, 2) {
				g = append(g, "w."+hx.Pick(c, []string{"can_call_list_stores", "can_call_create_stores"}))
			} else {
				g = append(g, "s"+s+".can_call_get_store")
			}
		case 10:
			g = append(g, "k"+s+"."+hx.Pick(c, mods)+"."+hx.Pick(c, stores))
		case 11:
			g = append(g, "l"+s)
		}
	}
	if len(g) == 0 {
		return "-"
	}
	return strings.Join(g, ",")
}

func genWspec(c *hx.Rand) string {
	kinds := "aaeebbcp"
	n := 1 + c.Intn(3)
	if c.Chance(1, 8) {
		n = 1 + c.Intn(5)
	}
	var sb strings.Builder
	for i := 0; i < n; i++ {
		if c.Chance(1, 5) {
			sb.WriteByte('d')
		}
		switch {
		case c.Chance(1, 14):
			sb.WriteByte('x')
		case c.Chance(1, 14):
			sb.WriteByte('r')
		case c.Chance(1, 2) && i > 0:
			sb.WriteByte('a') // bias towards single-module requests
		default:
			sb.WriteByte(kinds[c.Intn(len(kinds))])
		}
	}
	return sb.String()
}

func genIdent(c *hx.Rand) string {
	switch c.Intn(10) {
	case 0:
		return "none"
	case 1:
		return "empty"
	case 2, 3:
		return "other"
	}
	return "self"
}

func gen(r *hx.Rand, n int, tier string, emit func(string), st *hx.Stats) {
	// hx.NewRand(seed) and hx.NewRand(seed+1) are the same stream shifted by one draw: re-seed from a mixed output
	r = hx.NewRand(r.U64())
	for i := 0; i < n; i++ {
		c := r.Fork()
		switch k := c.Intn(20); {
		case k < 9: // store-scoped API call
			m := hx.Pick(c, storeMethods)
			if c.Chance(1, 4) {
				m = "Write"
			}
			store := hx.Pick(c, []string{"0", "1", "2", "3", "0", "1", "r", "n"})
			ws := "-"
			if m == "Write" {
				ws = genWspec(c)
			}
			st.Inc("api:" + m)
			emit(fmt.Sprintf("api %s %s %s %s %s -", m, genIdent(c), store, genGrants(c, m, store), ws))
		case k < 13: // ListStores
			g := genGrants(c, "GetStore", "")
			if c.Chance(2, 3) {
				if g == "-" {
					g = "y.can_call_list_stores"
				} else {
					g += ",y.can_call_list_stores"
				}
			}
			if c.Chance(1, 4) { // the F3 shape: may list, may get nothing
				g = hx.Pick(c, []string{"y.can_call_list_stores", "w.can_call_list_stores", "y.can_call_list_stores,s0.can_call_check", "y.can_call_list_stores,m1.ma.writer"})
			}
			extra := "p" + strconv.Itoa(c.Intn(4))
			if c.Chance(1, 4) {
				extra += "." + hx.Pick(c, []string{"0", "1", "2", "3", "r", "z"})
			}
			st.Inc("api:ListStores")
			emit(fmt.Sprintf("api ListStores %s - %s - %s", genIdent(c), g, extra))
		case k < 14:
			st.Inc("api:CreateStore")
			emit(fmt.Sprintf("api CreateStore %s - %s - -", genIdent(c), genGrants(c, "CreateStore", "")))
		case k < 19: // unit-level Authorize
			m := hx.Pick(c, []string{"Write", "Write", "Check", "Read", "ListStores", "CreateStore", "GetStore", "Bogus", "", "write", "BatchCheck", "StreamedListObjects", "ReadAuthorizationModel", "ListUsers", "Expand", "ReadChanges", "DeleteStore", "WriteAssertions", "ReadAssertions", "WriteAuthorizationModel", "ReadAuthorizationModels", "ListObjects"})
			cl := hx.Pick(c, []string{"none", "empty", "app1", "app1", "app1", "app1"})
			sr := hx.Pick(c, []string{"A", "D", "D", "D", "E"})
			nm := 0
			switch c.Intn(5) {
			case 0:
				nm = 0
			case 1, 2:
				nm = 1
			default:
				nm = 1 + c.Intn(4)
			}
			var ms []string
			for j := 0; j < nm; j++ {
				ms = append(ms, fmt.Sprintf("m%d:%s", j, hx.Pick(c, []string{"A", "A", "A", "D", "E"})))
			}
			mm := "-"
			if len(ms) > 0 {
				mm = strings.Join(ms, ",")
			}
			st.Inc("au")
			emit(fmt.Sprintf("au %s %s %s %s", hx.HS(m), cl, sr, mm))
		default:
			cl := hx.Pick(c, []string{"none", "empty", "app1", "app1"})
			var o string
			switch c.Intn(5) {
			case 0:
				o = "E"
			case 1:
				o = "-"
			default:
				var xs []string
				for j := 0; j < 1+c.Intn(3); j++ {
					xs = append(xs, hx.HS(hx.Pick(c, []string{"store:a", "store:01HX", "store:", "x", "store:store:b", "module:m", "store"})))
				}
				o = strings.Join(xs, ",")
			}
			st.Inc("las")
			emit(fmt.Sprintf("las %s %s", cl, o))
		}
	}
}

func main() {
	hx.Main(hx.Harness{Gen: gen, Exec: execUnhex})
}

// the unit-level method name travels hex encoded (it may be empty or contain anything)
func execUnhex(line string, st *hx.Stats) string {
	f := strings.Fields(line)
	if len(f) == 5 && f[0] == "au" {
		f[1] = string(hx.MustUnH(f[1]))
		if f[1] == "" {
			f[1] = "\x00empty"
		}
		if f[1] == "\x00empty" {
			// strings.Fields would drop an empty field: call the unit directly
			return authorizeUnit([]string{"au", "", f[2], f[3], f[4]})
		}
		return authorizeUnit(f)
	}
	return exec(line, st)
}
