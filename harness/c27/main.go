// Harness for C27 (authentication): runs the REAL presharedkey and OIDC authenticators.
// OIDC needs a discovery document and a JWKS: both are served by an httptest server on loopback.
//
// Case lines
//
//	psk <keys> <hdrs>
//	    keys : comma separated hex keys ("-" is the empty key; at least one)
//	    hdrs : comma separated hex `authorization` metadata values, or "none" (no metadata at all)
//	  output : accept | missing | unauth | ctor-error
//
//	oidc <cfg> <hf> <sig> <exp> <iat> <nbf> <aud> <iss> <sub> <azp> <client_id> <cid> <scope>
//	    cfg  : 0 plain | 1 alias + subjects | 2 empty-string alias + empty-string subject | 3 custom client-id claim | 4 one subject
//	    hf   : std ("Bearer x") | lower ("bearer x") | upper ("BEARER x") | none | basic | nospace | twosp
//	    sig  : good | otherkey | unknownkid | nokid | garbage | hs256pub | none | rs384 | ps256 | rs512 | malformed | kid2
//	    exp/iat/nbf : absent | past | future | bad            (bad = a JSON string)
//	    aud  : absent | cfg | other | listcfg | listother | empty | emptylist | bad
//	    iss  : absent | main | alias | other | empty | bad
//	    sub  : absent | alice | bob | other | empty | bad
//	    azp/client_id/cid : absent | s:<hex> | bad
//	    scope: absent | s:<hex> | bad
//	  output : accept sub=<hex> cid=<hex> scopes=<sorted hex,..> | reject invalid_claims | reject missing_bearer | reject other:<code>
//
//	mw <keys> <hdrs>      the authn middleware (AuthFunc) over the preshared authenticator: claims reach the context iff accepted
//	  output : ctx-claims | err-missing | err-unauth
package main

import (
	"context"
	"crypto/rand"
	"crypto/rsa"
	"encoding/base64"
	"encoding/json"
	"errors"
	"fmt"
	"math/big"
	"net/http"
	"net/http/httptest"
	"sort"
	"strconv"
	"strings"
	"sync"
	"time"

	jwt "github.com/golang-jwt/jwt/v5"
	"google.golang.org/grpc/codes"
	"google.golang.org/grpc/metadata"
	"google.golang.org/grpc/status"

	openfgav1 "github.com/openfga/api/proto/openfga/v1"

	"github.com/openfga/openfga/internal/authn"
	"github.com/openfga/openfga/internal/authn/oidc"
	"github.com/openfga/openfga/internal/authn/presharedkey"
	authnmw "github.com/openfga/openfga/internal/middleware/authn"
	"github.com/openfga/openfga/pkg/authclaims"
	"github.com/openfga/openfga/verifharness/hx"
)

const (
	audCfg   = "openfga-audience"
	aliasIss = "https://alias.issuer.example/"
)

type world struct {
	srv      *httptest.Server
	key1     *rsa.PrivateKey // kid "k1" in the JWKS
	key2     *rsa.PrivateKey // kid "k2" in the JWKS
	outsider *rsa.PrivateKey // not in the JWKS
	auths    [5]*oidc.RemoteOidcAuthenticator
}

var (
	theWorld *world
	once     sync.Once
)

func jwk(kid string, pub *rsa.PublicKey) map[string]string {
	return map[string]string{"kty": "RSA", "use": "sig", "kid": kid,
		"n": base64.RawURLEncoding.EncodeToString(pub.N.Bytes()),
		"e": base64.RawURLEncoding.EncodeToString(big.NewInt(int64(pub.E)).Bytes())}
}

func must(err error) {
	if err != nil {
		panic(err)
	}
}

func getWorld() *world {
	once.Do(func() {
		w := &world{}
		var err error
		w.key1, err = rsa.GenerateKey(rand.Reader, 2048)
		must(err)
		w.key2, err = rsa.GenerateKey(rand.Reader, 2048)
		must(err)
		w.outsider, err = rsa.GenerateKey(rand.Reader, 2048)
		must(err)
		mux := http.NewServeMux()
		mux.HandleFunc("/jwks", func(rw http.ResponseWriter, _ *http.Request) {
			rw.Header().Set("Content-Type", "application/json")
			_ = json.NewEncoder(rw).Encode(map[string]any{"keys": []map[string]string{jwk("k1", &w.key1.PublicKey), jwk("k2", &w.key2.PublicKey)}})
		})
		mux.HandleFunc("/.well-known/openid-configuration", func(rw http.ResponseWriter, _ *http.Request) {
			rw.Header().Set("Content-Type", "application/json")
			// the discovery document advertises an issuer that is NOT configured (the one "other" tokens carry): only the
			// configured issuer and aliases may be accepted, whatever the provider says about itself (seeded change C27c-1)
			_ = json.NewEncoder(rw).Encode(map[string]string{"issuer": "https://evil.example/", "jwks_uri": w.srv.URL + "/jwks"})
		})
		w.srv = httptest.NewServer(mux)
		mk := func(aliases, subjects, cidClaims []string) *oidc.RemoteOidcAuthenticator {
			a, err := oidc.NewRemoteOidcAuthenticator(w.srv.URL, aliases, audCfg, subjects, cidClaims)
			must(err)
			return a
		}
		w.auths[0] = mk(nil, nil, nil)
		w.auths[1] = mk([]string{aliasIss}, []string{"alice", "bob"}, nil)
		w.auths[2] = mk([]string{""}, []string{""}, nil)
		w.auths[3] = mk([]string{aliasIss}, nil, []string{"cid"})
		w.auths[4] = mk(nil, []string{"alice"}, nil)
		theWorld = w
	})
	return theWorld
}

func b64(b []byte) string { return base64.RawURLEncoding.EncodeToString(b) }

// build the bearer token of an oidc case
func (w *world) token(f []string) (string, error) {
	sig, exp, iat, nbf, aud, iss, sub, azp, clientID, cid, scope := f[3], f[4], f[5], f[6], f[7], f[8], f[9], f[10], f[11], f[12], f[13]
	now := time.Now()
	claims := jwt.MapClaims{}
	tm := func(name, v string) {
		switch v {
		case "past":
			claims[name] = now.Add(-time.Hour).Unix()
		case "future":
			claims[name] = now.Add(time.Hour).Unix()
		case "bad":
			claims[name] = "tomorrow"
		}
	}
	tm("exp", exp)
	tm("iat", iat)
	tm("nbf", nbf)
	switch aud {
	case "cfg":
		claims["aud"] = audCfg
	case "other":
		claims["aud"] = "someone-else"
	case "listcfg":
		claims["aud"] = []string{"x", audCfg}
	case "listother":
		claims["aud"] = []string{"x", "y"}
	case "empty":
		claims["aud"] = ""
	case "emptylist":
		claims["aud"] = []string{}
	case "bad":
		claims["aud"] = 42
	}
	switch iss {
	case "main":
		claims["iss"] = w.srv.URL
	case "alias":
		claims["iss"] = aliasIss
	case "other":
		claims["iss"] = "https://evil.example/"
	case "empty":
		claims["iss"] = ""
	case "bad":
		claims["iss"] = 7
	}
	switch sub {
	case "alice", "bob":
		claims["sub"] = sub
	case "other":
		claims["sub"] = "mallory"
	case "empty":
		claims["sub"] = ""
	case "bad":
		claims["sub"] = []string{"alice"}
	}
	str := func(name, v string) {
		switch {
		case v == "bad":
			claims[name] = 12345
		case strings.HasPrefix(v, "s:"):
			claims[name] = string(hx.MustUnH(v[2:]))
		}
	}
	str("azp", azp)
	str("client_id", clientID)
	str("cid", cid)
	str("scope", scope)

	var method jwt.SigningMethod = jwt.SigningMethodRS256
	var key any = w.key1
	kid := "k1"
	switch sig {
	case "good":
	case "kid2":
		key, kid = w.key2, "k2"
	case "otherkey":
		key = w.outsider
	case "unknownkid":
		key, kid = w.outsider, "kX"
	case "nokid":
		kid = ""
	case "rs384":
		method = jwt.SigningMethodRS384
	case "rs512":
		method = jwt.SigningMethodRS512
	case "ps256":
		method = jwt.SigningMethodPS256
	case "hs256pub":
		method = jwt.SigningMethodHS256
		key = w.key1.PublicKey.N.Bytes()
	case "none":
		method = jwt.SigningMethodNone
		key = jwt.UnsafeAllowNoneSignatureType
	case "garbage", "malformed":
	default:
		return "", errors.New("bad sig kind")
	}
	t := jwt.NewWithClaims(method, claims)
	if kid != "" {
		t.Header["kid"] = kid
	}
	s, err := t.SignedString(key)
	if err != nil {
		return "", err
	}
	switch sig {
	case "garbage":
		parts := strings.Split(s, ".")
		raw, _ := base64.RawURLEncoding.DecodeString(parts[2])
		raw[len(raw)/2] ^= 0x40
		s = parts[0] + "." + parts[1] + "." + b64(raw)
	case "malformed":
		parts := strings.Split(s, ".")
		s = parts[0] + "." + parts[1]
	}
	return s, nil
}

func header(hf, tok string) (metadata.MD, bool) {
	switch hf {
	case "std":
		return metadata.Pairs("authorization", "Bearer "+tok), true
	case "lower":
		return metadata.Pairs("authorization", "bearer "+tok), true
	case "upper":
		return metadata.Pairs("authorization", "BEARER "+tok), true
	case "basic":
		return metadata.Pairs("authorization", "Basic "+tok), true
	case "nospace":
		return metadata.Pairs("authorization", "Bearer"+tok), true
	case "twosp":
		return metadata.Pairs("authorization", "Bearer  "+tok), true
	}
	return nil, false
}

func oidcCase(f []string) string {
	if len(f) != 14 {
		return "badcase"
	}
	w := getWorld()
	cfg, err := strconv.Atoi(f[1])
	if err != nil || cfg < 0 || cfg > 4 {
		return "badcase"
	}
	tok, err := w.token(f)
	if err != nil {
		return "TOKEN-ERR " + err.Error()
	}
	ctx := context.Background()
	if md, ok := header(f[2], tok); ok {
		ctx = metadata.NewIncomingContext(ctx, md)
	}
	claims, err := w.auths[cfg].Authenticate(ctx)
	if err != nil {
		if errors.Is(err, authn.ErrMissingBearerToken) {
			return "reject missing_bearer"
		}
		if st, ok := status.FromError(err); ok && st.Code() == codes.Code(openfgav1.AuthErrorCode_invalid_claims) {
			return "reject invalid_claims"
		}
		return "reject other:" + strings.ReplaceAll(err.Error(), " ", "_")
	}
	var sc []string
	for s := range claims.Scopes {
		sc = append(sc, hx.HS(s))
	}
	sort.Strings(sc)
	scs := "-"
	if len(sc) > 0 {
		scs = strings.Join(sc, ",")
	}
	return fmt.Sprintf("accept sub=%s cid=%s scopes=%s", hx.HS(claims.Subject), hx.HS(claims.ClientID), scs)
}

func parseKeys(s string) []string {
	var keys []string
	if s == "nokeys" {
		return keys
	}
	for _, k := range strings.Split(s, ",") {
		keys = append(keys, string(hx.MustUnH(k)))
	}
	return keys
}

func hdrCtx(s string) context.Context {
	ctx := context.Background()
	if s == "none" {
		return ctx
	}
	var vals []string
	for _, h := range strings.Split(s, ",") {
		vals = append(vals, string(hx.MustUnH(h)))
	}
	md := metadata.MD{}
	md["authorization"] = vals
	return metadata.NewIncomingContext(ctx, md)
}

func pskCase(f []string) string {
	if len(f) != 3 {
		return "badcase"
	}
	a, err := presharedkey.NewPresharedKeyAuthenticator(parseKeys(f[1]))
	if err != nil {
		return "ctor-error"
	}
	claims, err := a.Authenticate(hdrCtx(f[2]))
	switch {
	case err == nil && claims != nil:
		return "accept"
	case errors.Is(err, authn.ErrMissingBearerToken):
		return "missing"
	case errors.Is(err, authn.ErrUnauthenticated):
		return "unauth"
	}
	return "other"
}

func mwCase(f []string) string {
	if len(f) != 3 {
		return "badcase"
	}
	a, err := presharedkey.NewPresharedKeyAuthenticator(parseKeys(f[1]))
	if err != nil {
		return "ctor-error"
	}
	ctx, err := authnmw.AuthFunc(a)(hdrCtx(f[2]))
	switch {
	case err == nil:
		if _, ok := authclaims.AuthClaimsFromContext(ctx); ok {
			return "ctx-claims"
		}
		return "ctx-without-claims"
	case errors.Is(err, authn.ErrMissingBearerToken):
		if ctx != nil {
			return "err-missing-with-ctx"
		}
		return "err-missing"
	case errors.Is(err, authn.ErrUnauthenticated):
		if ctx != nil {
			return "err-unauth-with-ctx"
		}
		return "err-unauth"
	}
	return "other"
}

func exec(line string, st *hx.Stats) string {
	f := strings.Fields(line)
	if len(f) == 0 {
		return "badcase"
	}
	switch f[0] {
	case "oidc":
		return oidcCase(f)
	case "psk":
		return pskCase(f)
	case "mw":
		return mwCase(f)
	}
	return "badcase"
}

// ---- generator ---------------------------------------------------------------------------------

func strClaim(c *hx.Rand, vals []string) string {
	switch c.Intn(6) {
	case 0, 1, 2:
		return "absent"
	case 3:
		return "bad"
	}
	return "s:" + hx.HS(hx.Pick(c, vals))
}

var keyPool = []string{"secret", "secret2", "Secret", "secret ", "", "s", "a b", "sécret", "secretsecretsecretsecretsecretsecretsecret", "\x00", "bearer"}

func genKeys(c *hx.Rand) ([]string, string) {
	n := 1 + c.Intn(3)
	if c.Chance(1, 30) {
		return nil, "nokeys"
	}
	var ks, hs []string
	for i := 0; i < n; i++ {
		k := hx.Pick(c, keyPool)
		ks = append(ks, k)
		hs = append(hs, hx.HS(k))
	}
	return ks, strings.Join(hs, ",")
}

func genHdrs(c *hx.Rand, keys []string) string {
	if c.Chance(1, 10) {
		return "none"
	}
	one := func() string {
		tok := hx.Pick(c, keyPool)
		if len(keys) > 0 && c.Chance(1, 2) {
			tok = hx.Pick(c, keys)
		}
		switch c.Intn(8) {
		case 0: // mutate the token slightly
			switch c.Intn(4) {
			case 0:
				tok += " "
			case 1:
				tok = " " + tok
			case 2:
				if len(tok) > 0 {
					tok = tok[:len(tok)-1]
				}
			case 3:
				tok = strings.ToUpper(tok)
			}
		}
		scheme := hx.Pick(c, []string{"Bearer", "Bearer", "Bearer", "Bearer", "bearer", "BEARER", "bEaReR", "Basic", "Bearer:", "", "Bearerr", "Beare", "Kearer"})
		switch c.Intn(12) {
		case 0:
			return hx.HS(scheme + tok) // no space
		case 1:
			return hx.HS(scheme + "  " + tok) // two spaces: the token starts with a space
		case 2:
			return hx.HS(scheme)
		case 3:
			return hx.HS(scheme + "\t" + tok)
		}
		return hx.HS(scheme + " " + tok)
	}
	n := 1
	if c.Chance(1, 6) {
		n = 2
	}
	var hs []string
	for i := 0; i < n; i++ {
		hs = append(hs, one())
	}
	return strings.Join(hs, ",")
}

func gen(r *hx.Rand, n int, tier string, emit func(string), st *hx.Stats) {
	// hx.NewRand(seed) and hx.NewRand(seed+1) are the same stream shifted by one draw: re-seed from a mixed output
	r = hx.NewRand(r.U64())
	i := 0
	// 1. the full 2^7 table (valid / invalid per dimension) for three configurations
	dims := [7][2]string{
		{"good", "otherkey"},   // signature
		{"good", "rs384"},      // algorithm (overrides sig when invalid)
		{"future", "past"},     // expiry
		{"past", "future"},     // issued-at
		{"cfg", "other"},       // audience
		{"main", "other"},      // issuer
		{"alice", "other"},     // subject
	}
	for _, cfg := range []int{0, 1, 4} {
		if i >= n {
			break
		}
		for m := 0; m < 128 && i < n; m++ {
			bit := func(d int) string { return dims[d][(m>>d)&1] }
			sig := bit(0)
			if (m>>1)&1 == 1 {
				sig = "rs384"
				if (m & 1) == 1 {
					sig = "hs256pub" // wrong algorithm and no valid signature
				}
			}
			st.Inc("oidc-table")
			emit(fmt.Sprintf("oidc %d std %s %s %s absent %s %s %s absent s:%s absent absent", cfg, sig, bit(2), bit(3), bit(4), bit(5), bit(6), hx.HS("client-a")))
			i++
		}
	}
	for ; i < n; i++ {
		c := r.Fork()
		switch k := c.Intn(10); {
		case k < 6:
			pickW := func(good string, goodWeight int, others []string) string {
				if c.Intn(goodWeight+1) > 0 {
					return good
				}
				return hx.Pick(c, others)
			}
			cfg := c.Intn(5)
			hf := pickW("std", 8, []string{"lower", "upper", "none", "basic", "nospace", "twosp"})
			sig := pickW("good", 3, []string{"otherkey", "unknownkid", "nokid", "garbage", "hs256pub", "none", "rs384", "ps256", "rs512", "malformed", "kid2", "kid2"})
			exp := pickW("future", 4, []string{"absent", "past", "bad"})
			iat := hx.Pick(c, []string{"absent", "past", "past", "past", "future", "bad"})
			nbf := hx.Pick(c, []string{"absent", "absent", "absent", "past", "future", "bad"})
			aud := pickW("cfg", 3, []string{"absent", "other", "listcfg", "listcfg", "listother", "empty", "emptylist", "bad"})
			iss := pickW("main", 2, []string{"absent", "alias", "alias", "other", "other", "empty", "bad"})
			sub := hx.Pick(c, []string{"absent", "alice", "alice", "bob", "other", "other", "empty", "bad"})
			ids := []string{"client-a", "client-b", ""}
			st.Inc("oidc-random")
			emit(fmt.Sprintf("oidc %d %s %s %s %s %s %s %s %s %s %s %s %s", cfg, hf, sig, exp, iat, nbf, aud, iss, sub,
				strClaim(c, ids), strClaim(c, ids), strClaim(c, ids), strClaim(c, []string{"read write", "read", "", " a  b "})))
		case k < 9:
			keys, ks := genKeys(c)
			st.Inc("psk")
			emit(fmt.Sprintf("psk %s %s", ks, genHdrs(c, keys)))
		default:
			keys, ks := genKeys(c)
			st.Inc("mw")
			emit(fmt.Sprintf("mw %s %s", ks, genHdrs(c, keys)))
		}
	}
}

func main() { hx.Main(hx.Harness{Gen: gen, Exec: exec}) }
