// Harness for C28 (continuation tokens): runs the real pkg/encoder and
// pkg/encrypter code on generated positions, byte strings and mutated tokens.
package main

import (
	"bytes"
	"context"
	"encoding/base64"
	"fmt"
	"strconv"
	"strings"
	"sync"

	openfgav1 "github.com/openfga/api/proto/openfga/v1"
	"google.golang.org/protobuf/types/known/wrapperspb"

	"github.com/openfga/openfga/pkg/server"
	"github.com/openfga/openfga/pkg/storage/memory"
	"github.com/openfga/openfga/pkg/storage/sqlcommon"
	"github.com/openfga/openfga/pkg/typesystem"

	"github.com/openfga/openfga/pkg/encoder"
	"github.com/openfga/openfga/pkg/encrypter"
	"github.com/openfga/openfga/verifharness/hx"
)

var alphabet = []byte("|ab01ZAz-_=\n\r+/ \x00\xff\xc3\xa9")

func randBytes(r *hx.Rand, max int) []byte {
	n := r.Intn(max + 1)
	b := make([]byte, n)
	for i := range b {
		switch r.Intn(4) {
		case 0:
			b[i] = byte(r.Intn(256))
		default:
			b[i] = alphabet[r.Intn(len(alphabet))]
		}
	}
	return b
}

func randB64ish(r *hx.Rand, max int) []byte {
	const al = "ABCDEFGHIJKLMNOPQRSTUVWXYZabcdefghijklmnopqrstuvwxyz0123456789-_"
	n := r.Intn(max + 1)
	b := make([]byte, 0, n+4)
	for i := 0; i < n; i++ {
		switch r.Intn(24) {
		case 0:
			b = append(b, '=')
		case 1:
			b = append(b, '\n')
		case 2:
			b = append(b, '\r')
		case 3:
			b = append(b, byte(r.Intn(256)))
		case 4:
			b = append(b, '+')
		default:
			b = append(b, al[r.Intn(64)])
		}
	}
	if r.Chance(1, 2) {
		for len(b)%4 != 0 {
			b = append(b, '=')
		}
	}
	return b
}

func gen(r *hx.Rand, n int, tier string, emit func(string), st *hx.Stats) {
	// server-level: every paginated endpoint must issue and accept only tokens under the configured key
	for _, ep := range []string{"stores", "read", "changes", "models"} {
		emit(fmt.Sprintf("api %s %s", ep, hx.H(randBytes(r.Fork(), 10))))
		st.Inc("api")
	}
	// ReadChanges: a token is bound to the type filter it was issued for (gate before the backend call)
	nrc := 24
	if tier == "thorough" {
		nrc = 400
	}
	rcTypes := []string{"-", "doc", "folder", "user", "do", "doc|x"}
	for i := 0; i < nrc; i++ {
		c := r.Fork()
		pat := make([]byte, 4+c.Intn(4))
		for j := range pat {
			pat[j] = "df"[c.Intn(2)]
		}
		issue := rcTypes[c.Intn(3)]
		present := rcTypes[c.Intn(len(rcTypes))]
		if c.Chance(1, 2) {
			present = issue
		}
		emit(fmt.Sprintf("rcgate %s %s %d %s %d", pat, hx.HS(strings.ReplaceAll(issue, "-", "")), 1+c.Intn(2), hx.HS(strings.ReplaceAll(present, "-", "")), c.Intn(6)))
		st.Inc("rcgate")
	}
	// the SQL datastores' own position serializer: every valid-UTF-8 position / type filter must round-trip
	nsql := 150
	if tier == "thorough" {
		nsql = 5000
	}
	pool := []rune{'a', 'Z', '0', '|', '"', '\\', '/', ' ', 0x7, 0x1b, 0x7f, 0xe9, 0x2028, 0xfffd, 0x1fae8, 0xe0001, 0xf0000, 0x10ffff, '<', '&', '%'}
	for i := 0; i < nsql; i++ {
		c := r.Fork()
		mk := func(max int) string {
			n := c.Intn(max + 1)
			rs := make([]rune, n)
			for j := range rs {
				rs[j] = pool[c.Intn(len(pool))]
			}
			return string(rs)
		}
		emit(fmt.Sprintf("sqlser %s %s", hx.HS(mk(6)), hx.HS(mk(8))))
		st.Inc("sqlser")
	}
	// concurrent issuing through one shared encoder
	emit(fmt.Sprintf("conc %s 16 400", hx.H(randBytes(r.Fork(), 10))))
	st.Inc("conc")
	for i := 0; i < n; i++ {
		c := r.Fork()
		switch k := c.Intn(10); k {
		case 0, 1:
			st.Inc("ser")
			emit(fmt.Sprintf("ser %s %s", hx.H(randBytes(c, 12)), hx.H(randBytes(c, 8))))
		case 2:
			st.Inc("deser")
			emit("deser " + hx.H(randBytes(c, 16)))
		case 3:
			st.Inc("b64")
			emit("b64 " + hx.H(randBytes(c, 40)))
		case 4, 5:
			st.Inc("b64dec")
			emit("b64dec " + hx.H(randB64ish(c, 24)))
		case 6:
			st.Inc("tok")
			emit(fmt.Sprintf("tok %s %s", hx.H(randBytes(c, 6)), hx.H(randBytes(c, 30))))
		case 7, 8:
			st.Inc("tamper")
			emit(fmt.Sprintf("tamper %s %s %d %d %d", hx.H(randBytes(c, 6)), hx.H(append([]byte{'x'}, randBytes(c, 30)...)), c.Intn(3), c.Intn(90), 1+c.Intn(255)))
		case 9:
			if c.Chance(1, 2) {
				// a token issued under ANOTHER key must be rejected; keys that share a long prefix / suffix
				st.Inc("xkey")
				base := append([]byte("a-rather-long-shared-secret-prefix-0123456789/"), randBytes(c, 4)...)
				k1 := append(append([]byte{}, base...), randBytes(c, 6)...)
				k2 := append(append([]byte{}, base...), randBytes(c, 6)...)
				switch c.Intn(4) {
				case 0:
					k1, k2 = randBytes(c, 8), randBytes(c, 8)
				case 1:
					k2 = append(append([]byte{}, k1...), 'x')
				}
				emit(fmt.Sprintf("xkey %s %s %s", hx.H(k1), hx.H(k2), hx.H(append([]byte{'p'}, randBytes(c, 20)...))))
				continue
			}
			st.Inc("full")
			emit(fmt.Sprintf("full %s %s %s", hx.H(randBytes(c, 6)), hx.H(randBytes(c, 12)), hx.H(randBytes(c, 8))))
		}
	}
}

func exec(line string, st *hx.Stats) string {
	f := strings.Fields(line)
	ser := encoder.NewStringContinuationTokenSerializer()
	b64 := encoder.NewBase64Encoder()
	switch f[0] {
	case "ser":
		u, t := hx.MustUnH(f[1]), hx.MustUnH(f[2])
		tok, err := ser.Serialize(string(u), string(t))
		if err != nil {
			return "S=ERR"
		}
		u2, t2, err := ser.Deserialize(string(tok))
		if err != nil {
			return "S=" + hx.H(tok) + " D=ERR"
		}
		return "S=" + hx.H(tok) + " D=" + hx.HS(u2) + "," + hx.HS(t2)
	case "deser":
		u, t, err := ser.Deserialize(string(hx.MustUnH(f[1])))
		if err != nil {
			return "err"
		}
		return "ok " + hx.HS(u) + " " + hx.HS(t)
	case "b64":
		d := hx.MustUnH(f[1])
		e, err := b64.Encode(d)
		if err != nil {
			return "E=ERR"
		}
		d2, err := b64.Decode(e)
		if err != nil {
			return "E=" + hx.HS(e) + " D=ERR"
		}
		return "E=" + hx.HS(e) + " D=" + hx.H(d2)
	case "b64dec":
		d, err := b64.Decode(string(hx.MustUnH(f[1])))
		if err != nil {
			return "err"
		}
		return "ok " + hx.H(d)
	case "tok":
		enc, err := encrypter.NewGCMEncrypter(string(hx.MustUnH(f[1])))
		if err != nil {
			return "keyerr"
		}
		te := encoder.NewTokenEncoder(enc, b64)
		d := hx.MustUnH(f[2])
		s, err := te.Encode(d)
		if err != nil {
			return "encerr"
		}
		d2, err := te.Decode(s)
		if err != nil {
			return "decerr"
		}
		return "ok " + hx.H(d2)
	case "tamper":
		enc, err := encrypter.NewGCMEncrypter(string(hx.MustUnH(f[1])))
		if err != nil {
			return "keyerr"
		}
		te := encoder.NewTokenEncoder(enc, b64)
		d := hx.MustUnH(f[2])
		mode, _ := strconv.Atoi(f[3])
		pos, _ := strconv.Atoi(f[4])
		val, _ := strconv.Atoi(f[5])
		s, err := te.Encode(d)
		if err != nil {
			return "encerr"
		}
		raw, _ := b64.Decode(s)
		mut := []byte(s)
		var mraw []byte
		switch mode {
		case 0: // flip a character of the token string
			mut[pos%len(mut)] ^= byte(val)
		case 1: // truncate
			mut = mut[:pos%len(mut)]
		case 2: // flip a byte of the ciphertext, re-encode
			r2 := append([]byte{}, raw...)
			r2[pos%len(r2)] ^= byte(val)
			e2, _ := b64.Encode(r2)
			mut = []byte(e2)
		}
		mraw, _ = b64.Decode(string(mut))
		same := "changed"
		if bytes.Equal(mraw, raw) {
			same = "sameraw"
		}
		d2, err := te.Decode(string(mut))
		if err != nil {
			return same + " rej"
		}
		return same + " acc " + hx.H(d2)
	case "sqlser":
		sser := sqlcommon.NewSQLContinuationTokenSerializer()
		tok, err := sser.Serialize(string(hx.MustUnH(f[1])), string(hx.MustUnH(f[2])))
		if err != nil {
			return "sererr"
		}
		u2, t2, err := sser.Deserialize(string(tok))
		if err != nil {
			return "deserr"
		}
		return "ok " + hx.HS(u2) + " " + hx.HS(t2)
	case "rcgate":
		pages, _ := strconv.Atoi(f[3])
		mut, _ := strconv.Atoi(f[5])
		return rcGateCase(f[1], string(hx.MustUnH(f[2])), pages, string(hx.MustUnH(f[4])), mut)
	case "api":
		return apiCase(f[1], string(hx.MustUnH(f[2])))
	case "conc":
		enc, err := encrypter.NewGCMEncrypter(string(hx.MustUnH(f[1])))
		if err != nil {
			return "keyerr"
		}
		te := encoder.NewTokenEncoder(enc, b64)
		g, _ := strconv.Atoi(f[2])
		k, _ := strconv.Atoi(f[3])
		var bad int64
		var mu sync.Mutex
		var wg sync.WaitGroup
		for i := 0; i < g; i++ {
			wg.Add(1)
			go func(i int) {
				defer wg.Done()
				for j := 0; j < k; j++ {
					d := []byte(fmt.Sprintf("%d|%d", i, j))
					tok, err := te.Encode(d)
					if err != nil {
						continue
					}
					d2, err := te.Decode(tok)
					if err != nil || !bytes.Equal(d, d2) {
						mu.Lock()
						bad++
						mu.Unlock()
					}
				}
			}(i)
		}
		wg.Wait()
		return fmt.Sprintf("bad=%d", bad)
	case "xkey":
		k1, k2 := hx.MustUnH(f[1]), hx.MustUnH(f[2])
		e1, err1 := encrypter.NewGCMEncrypter(string(k1))
		e2, err2 := encrypter.NewGCMEncrypter(string(k2))
		if err1 != nil || err2 != nil {
			return "keyerr"
		}
		tok, err := encoder.NewTokenEncoder(e2, b64).Encode(hx.MustUnH(f[3]))
		if err != nil {
			return "encerr"
		}
		d, err := encoder.NewTokenEncoder(e1, b64).Decode(tok)
		if err != nil {
			return "rej"
		}
		return "acc " + hx.H(d)
	case "full":
		enc, err := encrypter.NewGCMEncrypter(string(hx.MustUnH(f[1])))
		if err != nil {
			return "keyerr"
		}
		te := encoder.NewTokenEncoder(enc, b64)
		u, t := hx.MustUnH(f[2]), hx.MustUnH(f[3])
		tok, err := ser.Serialize(string(u), string(t))
		if err != nil {
			return "sererr"
		}
		s, err := te.Encode(tok)
		if err != nil {
			return "encerr"
		}
		d2, err := te.Decode(s)
		if err != nil {
			return "decerr"
		}
		u2, t2, err := ser.Deserialize(string(d2))
		if err != nil {
			return "deserr"
		}
		return "ok " + hx.HS(u2) + " " + hx.HS(t2)
	}
	return "badcase"
}

// apiCase: an in-process server with an AES-GCM token encoder; page 1 of the endpoint with page size 1.
// Output: "issued=<ok|plain|undecodable> next=<ok|err> forged=<rej|acc> foreign=<rej|acc>".
func apiCase(ep, key string) string {
	ctx := context.Background()
	enc, err := encrypter.NewGCMEncrypter(key)
	if err != nil {
		return "keyerr"
	}
	te := encoder.NewTokenEncoder(enc, encoder.NewBase64Encoder())
	other, _ := encrypter.NewGCMEncrypter(key + "-other")
	foreign := encoder.NewTokenEncoder(other, encoder.NewBase64Encoder())
	s, err := server.NewServerWithOpts(server.WithDatastore(memory.New()), server.WithTokenEncoder(te))
	if err != nil {
		return "servererr"
	}
	defer s.Close()
	var storeID string
	for i := 0; i < 4; i++ {
		st, err := s.CreateStore(ctx, &openfgav1.CreateStoreRequest{Name: fmt.Sprintf("store-%d", i)})
		if err != nil {
			return "setuperr"
		}
		storeID = st.GetId()
	}
	model := &openfgav1.WriteAuthorizationModelRequest{StoreId: storeID, SchemaVersion: typesystem.SchemaVersion1_1,
		TypeDefinitions: []*openfgav1.TypeDefinition{{Type: "user"}, {Type: "doc", Relations: map[string]*openfgav1.Userset{"viewer": {Userset: &openfgav1.Userset_This{}}},
			Metadata: &openfgav1.Metadata{Relations: map[string]*openfgav1.RelationMetadata{"viewer": {DirectlyRelatedUserTypes: []*openfgav1.RelationReference{{Type: "user"}}}}}}}}
	var modelID string
	for i := 0; i < 3; i++ {
		r, err := s.WriteAuthorizationModel(ctx, model)
		if err != nil {
			return "setuperr model"
		}
		modelID = r.GetAuthorizationModelId()
	}
	for i := 0; i < 4; i++ {
		if _, err := s.Write(ctx, &openfgav1.WriteRequest{StoreId: storeID, AuthorizationModelId: modelID,
			Writes: &openfgav1.WriteRequestWrites{TupleKeys: []*openfgav1.TupleKey{{Object: fmt.Sprintf("doc:%d", i), Relation: "viewer", User: "user:a"}}}}); err != nil {
			return "setuperr write"
		}
	}
	call := func(tok string) (string, error) {
		switch ep {
		case "stores":
			r, err := s.ListStores(ctx, &openfgav1.ListStoresRequest{PageSize: wrapperspb.Int32(1), ContinuationToken: tok})
			return r.GetContinuationToken(), err
		case "read":
			r, err := s.Read(ctx, &openfgav1.ReadRequest{StoreId: storeID, PageSize: wrapperspb.Int32(1), ContinuationToken: tok})
			return r.GetContinuationToken(), err
		case "changes":
			r, err := s.ReadChanges(ctx, &openfgav1.ReadChangesRequest{StoreId: storeID, PageSize: wrapperspb.Int32(1), ContinuationToken: tok})
			return r.GetContinuationToken(), err
		default:
			r, err := s.ReadAuthorizationModels(ctx, &openfgav1.ReadAuthorizationModelsRequest{StoreId: storeID, PageSize: wrapperspb.Int32(1), ContinuationToken: tok})
			return r.GetContinuationToken(), err
		}
	}
	tok, err := call("")
	if err != nil || tok == "" {
		return "notoken"
	}
	issued := "ok"
	pos, derr := te.Decode(tok)
	if derr != nil {
		issued = "undecodable"
		if _, e2 := base64.URLEncoding.DecodeString(tok); e2 == nil {
			issued = "plain"
		}
	}
	next := "ok"
	if _, err := call(tok); err != nil {
		next = "err"
	}
	// forged: the same position, never encrypted
	forged := "rej"
	plain := base64.URLEncoding.EncodeToString(pos)
	if derr != nil {
		plain = tok
	}
	if _, err := call(plain); err == nil && derr == nil {
		forged = "acc"
	}
	// the same position under another key
	fo := "rej"
	if derr == nil {
		ft, _ := foreign.Encode(pos)
		if _, err := call(ft); err == nil {
			fo = "acc"
		}
	}
	return fmt.Sprintf("issued=%s next=%s forged=%s foreign=%s", issued, next, forged, fo)
}

var (
	rcOnce sync.Once
	rcSrv  *server.Server
)

// rcGateCase: a fresh store whose changelog has the object types spelled by `pat` (d = doc, f = folder); pages
// through ReadChanges(type=issue) `pages` times with page size 1, mutates the decoded token, presents it with
// type=present. Output: "ranks=<ulid of change 0>,<ulid of change 1>,... raw=<presented decoded token>
// class=<start|invalid|mismatch|resume|other:..> next=<rank of the first returned change|none>".
func rcGateCase(pat, issue string, pages int, present string, mut int) string {
	ctx := context.Background()
	rcOnce.Do(func() {
		rcSrv, _ = server.NewServerWithOpts(server.WithDatastore(memory.New()))
	})
	s := rcSrv
	if s == nil {
		return "servererr"
	}
	cs, err := s.CreateStore(ctx, &openfgav1.CreateStoreRequest{Name: "rc-gate-store"})
	if err != nil {
		return "setuperr"
	}
	storeID := cs.GetId()
	rel := func() map[string]*openfgav1.Userset {
		return map[string]*openfgav1.Userset{"viewer": {Userset: &openfgav1.Userset_This{}}}
	}
	md := func() *openfgav1.Metadata {
		return &openfgav1.Metadata{Relations: map[string]*openfgav1.RelationMetadata{"viewer": {DirectlyRelatedUserTypes: []*openfgav1.RelationReference{{Type: "user"}}}}}
	}
	wm, err := s.WriteAuthorizationModel(ctx, &openfgav1.WriteAuthorizationModelRequest{StoreId: storeID, SchemaVersion: typesystem.SchemaVersion1_1,
		TypeDefinitions: []*openfgav1.TypeDefinition{{Type: "user"}, {Type: "doc", Relations: rel(), Metadata: md()}, {Type: "folder", Relations: rel(), Metadata: md()}}})
	if err != nil {
		return "setuperr model"
	}
	for i, ch := range pat {
		ty := "doc"
		if ch == 'f' {
			ty = "folder"
		}
		if _, err := s.Write(ctx, &openfgav1.WriteRequest{StoreId: storeID, AuthorizationModelId: wm.GetAuthorizationModelId(),
			Writes: &openfgav1.WriteRequestWrites{TupleKeys: []*openfgav1.TupleKey{{Object: fmt.Sprintf("%s:%d", ty, i), Relation: "viewer", User: "user:a"}}}}); err != nil {
			return "setuperr write"
		}
	}
	objRank := func(c *openfgav1.TupleChange) string {
		_, id, _ := strings.Cut(c.GetTupleKey().GetObject(), ":")
		return id
	}
	// rank -> ulid: page through the unfiltered changelog with page size 1
	var ranks []string
	tok := ""
	for i := 0; i < len(pat); i++ {
		r, err := s.ReadChanges(ctx, &openfgav1.ReadChangesRequest{StoreId: storeID, PageSize: wrapperspb.Int32(1), ContinuationToken: tok})
		if err != nil || len(r.GetChanges()) != 1 || objRank(r.GetChanges()[0]) != strconv.Itoa(i) {
			return "setuperr paging"
		}
		tok = r.GetContinuationToken()
		raw, err := base64.URLEncoding.DecodeString(tok)
		if err != nil {
			return "setuperr token"
		}
		u, _, _ := strings.Cut(string(raw), "|")
		ranks = append(ranks, hx.HS(u))
	}
	// issue
	tok = ""
	for i := 0; i < pages; i++ {
		r, err := s.ReadChanges(ctx, &openfgav1.ReadChangesRequest{StoreId: storeID, Type: issue, PageSize: wrapperspb.Int32(1), ContinuationToken: tok})
		if err != nil {
			return "issueerr"
		}
		if len(r.GetChanges()) == 0 {
			break
		}
		tok = r.GetContinuationToken()
	}
	raw, err := base64.URLEncoding.DecodeString(tok)
	if err != nil {
		return "setuperr token"
	}
	u, t, _ := strings.Cut(string(raw), "|")
	switch mut {
	case 1: // forged: same position, the presented filter
		raw = []byte(u + "|" + present)
	case 2: // separator removed
		raw = []byte(u + t)
	case 3: // empty position
		raw = []byte("|" + t)
	case 4: // the filter with a suffix
		raw = []byte(u + "|" + t + "|" + present)
	case 5: // another issued position
		if len(ranks) > 0 {
			raw = append(hx.MustUnH(ranks[len(ranks)-1]), []byte("|"+t)...)
		}
	}
	r, err := s.ReadChanges(ctx, &openfgav1.ReadChangesRequest{StoreId: storeID, Type: present, PageSize: wrapperspb.Int32(1), ContinuationToken: base64.URLEncoding.EncodeToString(raw)})
	class, next := "resume", "none"
	switch {
	case err == nil:
		if len(raw) == 0 {
			class = "start"
		}
		if len(r.GetChanges()) > 0 {
			next = objRank(r.GetChanges()[0])
		}
	case strings.Contains(err.Error(), "Invalid continuation token"):
		class = "invalid"
	case strings.Contains(err.Error(), "continuation token don't match"):
		class = "mismatch"
	default:
		class = "other:" + strings.ReplaceAll(err.Error(), " ", "_")
	}
	return fmt.Sprintf("ranks=%s raw=%s class=%s next=%s", strings.Join(ranks, ","), hx.H(raw), class, next)
}

func main() { hx.Main(hx.Harness{Gen: gen, Exec: exec}) }
