// Harness for C30 (Expand mirrors the rewrite and the directly assigned users): random validated
// models, stored tuples (valid ones, leftovers of other models, several users per object#relation),
// contextual tuples (valid, duplicates of stored keys, a share invalid for write) and, per world, the
// real commands.ExpandQuery on EVERY object × relation plus a few malformed targets.  The proto tree is
// rendered without sorting anything: the users of a leaf must arrive sorted, children in rewrite order,
// tuple-to-userset computed usersets in read order.
//
// A share of the worlds (`seq …` lines) goes through the in-process SERVER instead, as a request sequence: Expand
// with contextual tuples, then the same target without them on the same store and on a second store with the same
// model and tuples.  The later answers must be the trees of the stored tuples alone: contextual tuples belong to
// their request (the server builds a fresh ExpandQuery per request; Execute rebinds the query's datastore).
package main

import (
	"context"
	"errors"
	"fmt"
	"sort"
	"strconv"
	"strings"
	"sync"

	openfgav1 "github.com/openfga/api/proto/openfga/v1"
	"google.golang.org/grpc/status"

	"github.com/openfga/openfga/internal/validation"
	"github.com/openfga/openfga/pkg/server"
	"github.com/openfga/openfga/pkg/server/commands"
	"github.com/openfga/openfga/pkg/storage"
	"github.com/openfga/openfga/pkg/storage/memory"
	"github.com/openfga/openfga/pkg/typesystem"
	"github.com/openfga/openfga/verifharness/fga"
	"github.com/openfga/openfga/verifharness/fgarun"
	"github.com/openfga/openfga/verifharness/hx"
)

func dash(s string) string {
	if s == "" {
		return "-"
	}
	return s
}

func undash(s string) string {
	if s == "-" {
		return ""
	}
	return s
}

type target struct{ obj, rel string }

func encodeCase(validated bool, m *fga.Model, tuples, ctxT []fga.Tuple, tg []target) string {
	var sb strings.Builder
	v := 0
	if validated {
		v = 1
	}
	fmt.Fprintf(&sb, "exp %d %s %s %s targets %d", v, m.Encode(), fga.EncodeTuples("tuples", tuples), fga.EncodeTuples("ctx", ctxT), len(tg))
	for _, t := range tg {
		sb.WriteString(" " + dash(t.obj) + " " + dash(t.rel))
	}
	return sb.String()
}

// encodeSeq: a request SEQUENCE against the in-process server (one server for the whole run, two fresh stores with
// the same model and tuples per case); per target: Expand with the contextual tuples on store A, then the same
// target WITHOUT them on store A, then without them on store B.
func encodeSeq(m *fga.Model, tuples, ctxT []fga.Tuple, tg []target) string {
	return "seq" + strings.TrimPrefix(encodeCase(true, m, tuples, ctxT, tg), "exp 1")
}

// allTargets: every object that occurs anywhere (object side, user side, contextual) and one fresh id
// per type, times every relation of its type.
func allTargets(m *fga.Model, tuples, ctxT []fga.Tuple) []target {
	objs := map[string]bool{}
	add := func(o string) {
		if i := strings.IndexByte(o, '#'); i >= 0 {
			o = o[:i]
		}
		if strings.HasSuffix(o, ":*") {
			return
		}
		objs[o] = true
	}
	for _, t := range append(append([]fga.Tuple{}, tuples...), ctxT...) {
		add(t.Obj)
		add(t.User)
	}
	for _, t := range m.Types {
		objs[t.Name+":fresh"] = true
	}
	keys := make([]string, 0, len(objs))
	for o := range objs {
		keys = append(keys, o)
	}
	sort.Strings(keys)
	var out []target
	for _, o := range keys {
		for _, t := range m.Types {
			if t.Name == fga.TypeOf(o) {
				for _, rd := range t.Rels {
					out = append(out, target{o, rd.Name})
				}
			}
		}
	}
	return out
}

func crafted() []string {
	this := func() *fga.Rewrite { return &fga.Rewrite{Kind: "this"} }
	u := fga.Restr{Typ: "user"}
	var out []string
	// every node kind, nested, with duplicates between stored and contextual tuples, a conditioned tuple,
	// an invalid leftover, a wildcard and usersets
	m := &fga.Model{Types: []*fga.TypeDef{{Name: "user"},
		{Name: "group", Rels: []*fga.RelDef{{Name: "member", Rewrite: this(), Restrs: []fga.Restr{u, {Typ: "group", Rel: "member"}}}}},
		{Name: "folder", Rels: []*fga.RelDef{{Name: "viewer", Rewrite: this(), Restrs: []fga.Restr{u}}}},
		{Name: "doc", Rels: []*fga.RelDef{
			{Name: "parent", Rewrite: this(), Restrs: []fga.Restr{{Typ: "folder"}, {Typ: "folder", Cond: "c1"}}},
			{Name: "blocked", Rewrite: this(), Restrs: []fga.Restr{u, {Typ: "user", Wild: true}}},
			{Name: "editor", Rewrite: this(), Restrs: []fga.Restr{u, {Typ: "user", Cond: "c1"}, {Typ: "group", Rel: "member"}}},
			{Name: "viewer", Rewrite: &fga.Rewrite{Kind: "diff", Kids: []*fga.Rewrite{
				{Kind: "union", Kids: []*fga.Rewrite{this(), {Kind: "cu", Rel: "editor"}, {Kind: "ttu", Tupleset: "parent", Computed: "viewer"},
					{Kind: "inter", Kids: []*fga.Rewrite{this(), {Kind: "cu", Rel: "editor"}}}}},
				{Kind: "cu", Rel: "blocked"}}}, Restrs: []fga.Restr{u, {Typ: "group", Rel: "member"}}},
		}}},
		Conds: []*fga.CondDef{{Name: "c1", Param: "x", Op: "lt", Const: 10}}}
	stored := []fga.Tuple{
		{Obj: "doc:1", Rel: "viewer", User: "user:z"}, {Obj: "doc:1", Rel: "viewer", User: "user:b"},
		{Obj: "doc:1", Rel: "viewer", User: "group:g#member"}, {Obj: "doc:1", Rel: "viewer", User: "user:*"}, // wildcard not allowed: leftover
		{Obj: "doc:1", Rel: "editor", User: "user:e", Cond: "c1", Ctx: []fga.KV{{K: "x", V: 50}}}, // condition false: still listed
		{Obj: "doc:1", Rel: "editor", User: "user:a"},
		{Obj: "doc:1", Rel: "parent", User: "folder:p2"}, {Obj: "doc:1", Rel: "parent", User: "folder:p1", Cond: "c1"},
		{Obj: "doc:1", Rel: "blocked", User: "user:*"}, {Obj: "doc:2", Rel: "viewer", User: "user:a"},
	}
	ctxT := []fga.Tuple{
		{Obj: "doc:1", Rel: "viewer", User: "user:z"},                // duplicate of a stored key
		{Obj: "doc:1", Rel: "viewer", User: "user:a"},                // new
		{Obj: "doc:1", Rel: "parent", User: "folder:p2", Cond: "c1"}, // duplicate of a stored key with another condition
		{Obj: "doc:1", Rel: "parent", User: "folder:p0"},
		{Obj: "doc:0", Rel: "viewer", User: "user:q"},
	}
	out = append(out, encodeCase(true, m, stored, ctxT, append(allTargets(m, stored, ctxT),
		target{"", "viewer"}, target{"doc:1", ""}, target{"doc:*", "viewer"}, target{"nosuch:1", "viewer"}, target{"doc:1", "nosuch"})))
	// invalid contextual tuples: the first failure decides the error class
	bad := [][]fga.Tuple{
		{{Obj: "doc:1", Rel: "viewer", User: "folder:x"}},                                            // type restriction
		{{Obj: "doc:1", Rel: "editor", User: "user:a", Cond: "c2"}},                                  // undefined condition
		{{Obj: "doc:1", Rel: "parent", User: "folder:p", Cond: "c1", Ctx: []fga.KV{{K: "y", V: 1}}}}, // foreign parameter
		{{Obj: "doc:1", Rel: "nosuch", User: "user:a"}},
		{{Obj: "doc:1", Rel: "viewer", User: "alien:a"}},
		{{Obj: "doc:1", Rel: "viewer", User: "group:g#nosuch"}},
		{{Obj: "doc:1", Rel: "parent", User: "folder:*"}},
		{{Obj: "doc:1", Rel: "editor", User: "user:ok"}, {Obj: "doc:1", Rel: "editor", User: "user:a", Cond: "c2"}, {Obj: "doc:1", Rel: "viewer", User: "folder:x"}},
	}
	for _, b := range bad {
		out = append(out, encodeCase(true, m, stored, b, []target{{"doc:1", "viewer"}, {"doc:1", "editor"}}))
	}
	// a model that is NOT validated: tuple-to-userset over an undefined tupleset relation
	um := &fga.Model{Types: []*fga.TypeDef{{Name: "user"},
		{Name: "doc", Rels: []*fga.RelDef{
			{Name: "viewer", Rewrite: &fga.Rewrite{Kind: "union", Kids: []*fga.Rewrite{this(), {Kind: "ttu", Tupleset: "nosuch", Computed: "viewer"}}}, Restrs: []fga.Restr{u}},
			{Name: "editor", Rewrite: this(), Restrs: []fga.Restr{u}},
		}}}}
	out = append(out, encodeCase(false, um, []fga.Tuple{{Obj: "doc:1", Rel: "viewer", User: "user:a"}}, nil, []target{{"doc:1", "viewer"}, {"doc:1", "editor"}}))
	// the same world as a request sequence through the server: contextual tuples must not outlive their request
	out = append(out, encodeSeq(m, stored, ctxT, allTargets(m, stored, ctxT)))
	// … and the smallest one: viewer: [user], one stored user, one contextual user
	sm := &fga.Model{Types: []*fga.TypeDef{{Name: "user"}, {Name: "folder", Rels: []*fga.RelDef{{Name: "viewer", Rewrite: this(), Restrs: []fga.Restr{u}}}},
		{Name: "doc", Rels: []*fga.RelDef{{Name: "parent", Rewrite: this(), Restrs: []fga.Restr{{Typ: "folder"}}},
			{Name: "viewer", Rewrite: &fga.Rewrite{Kind: "union", Kids: []*fga.Rewrite{this(), {Kind: "ttu", Tupleset: "parent", Computed: "viewer"}}}, Restrs: []fga.Restr{u}}}}}}
	sst := []fga.Tuple{{Obj: "doc:1", Rel: "viewer", User: "user:alice"}, {Obj: "doc:1", Rel: "parent", User: "folder:a"}}
	sct := []fga.Tuple{{Obj: "doc:1", Rel: "viewer", User: "user:mallory"}, {Obj: "doc:1", Rel: "parent", User: "folder:m"}}
	out = append(out, encodeSeq(sm, sst, sct, allTargets(sm, sst, sct)))
	return out
}

func gen(r *hx.Rand, n int, tier string, emit func(string), st *hx.Stats) {
	for _, c := range crafted() {
		emit(c)
		st.Inc("crafted")
	}
	// interrupted reads: the datastore iterator fails after k tuples (cancellation, deadline, other error); Expand must
	// answer with an error, never with a shorter leaf
	for _, kind := range []string{"canceled", "deadline", "other"} {
		for j := 0; j < 4; j++ {
			c := r.Fork()
			nUsers := 2 + c.Intn(8)
			k := (c.Intn(97) + j) % nUsers // inside the data
			if j == 3 {
				k = nUsers + 1 + c.Intn(2) // beyond the data: the full leaf
			}
			emit(fmt.Sprintf("cut %d %d %s", nUsers, k, kind))
			st.Inc("cut")
		}
	}
	for i := 0; i < n; {
		c := r.Fork()
		m, ts := fga.GenModel(c, fga.DefaultOpts())
		if len(m.Types) < 2 {
			continue
		}
		tuples := fga.GenTuples(c, m, 4+c.Intn(20))
		// crowd one object#relation so that leaves carry several users
		if len(tuples) > 0 {
			base := hx.Pick(c, tuples)
			seen := map[string]bool{}
			for _, t := range tuples {
				seen[t.String()] = true
			}
			for k := 0; k < 8; k++ {
				t, ok := fga.GenTuple(c, m)
				if !ok {
					break
				}
				if t.Rel != base.Rel || fga.TypeOf(t.Obj) != fga.TypeOf(base.Obj) {
					continue
				}
				t.Obj = base.Obj
				if seen[t.String()] {
					continue
				}
				seen[t.String()] = true
				tuples = append(tuples, t)
			}
		}
		hx.Shuffle(c, tuples)
		var ctxT []fga.Tuple
		ctxKind := "none"
		switch k := c.Intn(10); {
		case k < 3:
		case k < 8:
			ctxKind = "valid"
			seen := map[string]bool{}
			want := 1 + c.Intn(6)
			for j := 0; j < 3*want && len(ctxT) < want; j++ {
				var t fga.Tuple
				if len(tuples) > 0 && c.Chance(1, 3) {
					// same key as a stored tuple (Expand does not reject that), sometimes with another condition
					t = hx.Pick(c, tuples)
					if c.Chance(1, 2) && len(m.Conds) > 0 {
						if t.Cond == "" {
							t.Cond = hx.Pick(c, m.Conds).Name
						} else {
							t.Cond = ""
						}
						t.Ctx = nil
					}
					ctxKind = "valid+dup"
				} else {
					var ok bool
					t, ok = fga.GenTuple(c, m)
					if !ok {
						break
					}
				}
				if seen[t.String()] || validation.ValidateTupleForWrite(ts, t.Key()) != nil {
					continue
				}
				seen[t.String()] = true
				ctxT = append(ctxT, t)
			}
		default:
			ctxKind = "maybe-invalid"
			for j := 0; j < 1+c.Intn(4); j++ {
				t, ok := fga.GenTuple(c, m)
				if !ok {
					break
				}
				switch c.Intn(6) {
				case 0:
					t.Rel = "nosuch"
				case 1:
					t.User = "alien:a"
				case 2:
					t.Cond = "cX"
				case 3:
					t.Ctx = append(t.Ctx, fga.KV{K: "zz", V: 1})
				case 4:
					if i := strings.IndexByte(t.User, '#'); i >= 0 {
						t.User = t.User[:i] + "#nosuch"
					}
				}
				ctxT = append(ctxT, t)
			}
		}
		tg := allTargets(m, tuples, ctxT)
		if c.Chance(1, 4) {
			tg = append(tg, target{"nosuch:a", "member"}, target{tg[0].obj, "nosuch"}, target{fga.TypeOf(tg[0].obj) + ":*", tg[0].rel}, target{"", tg[0].rel}, target{tg[0].obj, ""})
		}
		if (ctxKind == "valid" || ctxKind == "valid+dup") && len(ctxT) > 0 && c.Chance(1, 3) {
			// through the server, as a sequence (well-formed targets only: the transport-level validator is not C30's subject)
			emit(encodeSeq(m, tuples, ctxT, allTargets(m, tuples, ctxT)))
			st.Inc("seq")
		} else {
			emit(encodeCase(true, m, tuples, ctxT, tg))
		}
		i++
		st.Inc("cases")
		st.Add("targets", len(tg))
		st.Inc("ctx:" + ctxKind)
		for _, k := range []string{"diff", "inter", "union", "ttu", "cu"} {
			if m.HasKind(k) {
				st.Inc("with-" + k)
			}
		}
		if len(m.Conds) > 0 {
			st.Inc("with-conditions")
		}
	}
}

func renderNode(n *openfgav1.UsersetTree_Node, sb *strings.Builder) {
	if n == nil {
		sb.WriteString("nil")
		return
	}
	name := dash(n.GetName())
	switch v := n.GetValue().(type) {
	case *openfgav1.UsersetTree_Node_Leaf:
		switch l := v.Leaf.GetValue().(type) {
		case *openfgav1.UsersetTree_Leaf_Users:
			us := l.Users.GetUsers()
			fmt.Fprintf(sb, "users %s %d", name, len(us))
			for _, u := range us {
				sb.WriteString(" " + dash(u))
			}
		case *openfgav1.UsersetTree_Leaf_Computed:
			fmt.Fprintf(sb, "computed %s %s", name, dash(l.Computed.GetUserset()))
		case *openfgav1.UsersetTree_Leaf_TupleToUserset:
			cs := l.TupleToUserset.GetComputed()
			fmt.Fprintf(sb, "ttu %s %s %d", name, dash(l.TupleToUserset.GetTupleset()), len(cs))
			for _, c := range cs {
				sb.WriteString(" " + dash(c.GetUserset()))
			}
		default:
			fmt.Fprintf(sb, "leaf? %s", name)
		}
	case *openfgav1.UsersetTree_Node_Union:
		ks := v.Union.GetNodes()
		fmt.Fprintf(sb, "union %s %d", name, len(ks))
		for _, k := range ks {
			sb.WriteString(" ")
			renderNode(k, sb)
		}
	case *openfgav1.UsersetTree_Node_Intersection:
		ks := v.Intersection.GetNodes()
		fmt.Fprintf(sb, "inter %s %d", name, len(ks))
		for _, k := range ks {
			sb.WriteString(" ")
			renderNode(k, sb)
		}
	case *openfgav1.UsersetTree_Node_Difference:
		fmt.Fprintf(sb, "diff %s ", name)
		renderNode(v.Difference.GetBase(), sb)
		sb.WriteString(" ")
		renderNode(v.Difference.GetSubtract(), sb)
	default:
		fmt.Fprintf(sb, "node? %s", name)
	}
}

func errClass(err error) string {
	if s, ok := status.FromError(err); ok {
		c := int32(s.Code())
		if name, ok := openfgav1.ErrorCode_name[c]; ok && c >= 2000 {
			return "E " + name
		}
		if name, ok := openfgav1.NotFoundErrorCode_name[c]; ok && c >= 5000 {
			return "E " + name
		}
		if name, ok := openfgav1.InternalErrorCode_name[c]; ok && c >= 4000 {
			return "E " + name
		}
		return fmt.Sprintf("E code%d", c)
	}
	return "E other " + strings.ReplaceAll(strings.ReplaceAll(err.Error(), "\n", " "), "\t", " ")
}

// ---- request sequences through the in-process server ----

var (
	srvOnce sync.Once
	srv     *server.Server
	srvDS   storage.OpenFGADatastore
)

func theServer() *server.Server {
	srvOnce.Do(func() {
		srvDS = memory.New()
		srv = server.MustNewServerWithOpts(server.WithDatastore(srvDS))
	})
	return srv
}

func newStore(s *server.Server, m *fga.Model, tuples []fga.Tuple) (string, error) {
	ctx := context.Background()
	cs, err := s.CreateStore(ctx, &openfgav1.CreateStoreRequest{Name: "c30-seq"})
	if err != nil {
		return "", err
	}
	am := m.Proto("")
	if _, err := s.WriteAuthorizationModel(ctx, &openfgav1.WriteAuthorizationModelRequest{StoreId: cs.GetId(),
		TypeDefinitions: am.GetTypeDefinitions(), SchemaVersion: am.GetSchemaVersion(), Conditions: am.GetConditions()}); err != nil {
		return "", err
	}
	// straight into the datastore, like fgarun.Store: leftovers of other models are part of the worlds
	for i := 0; i < len(tuples); i += 40 {
		j := min(i+40, len(tuples))
		if err := srvDS.Write(ctx, cs.GetId(), nil, fga.Keys(tuples[i:j])); err != nil {
			return "", err
		}
	}
	return cs.GetId(), nil
}

func execSeq(t *fga.Toks, st *hx.Stats) string {
	m := fga.DecodeModel(t)
	tuples := fga.DecodeTuples(t, "tuples")
	ctxT := fga.DecodeTuples(t, "ctx")
	t.Expect("targets")
	k := t.Int()
	s := theServer()
	a, err := newStore(s, m, tuples)
	if err != nil {
		return "invalid-model"
	}
	b, err := newStore(s, m, tuples)
	if err != nil {
		return "invalid-model"
	}
	defer func() {
		for _, id := range []string{a, b} {
			_, _ = s.DeleteStore(context.Background(), &openfgav1.DeleteStoreRequest{StoreId: id})
		}
	}()
	ct := &openfgav1.ContextualTupleKeys{TupleKeys: fga.Keys(ctxT)}
	one := func(store string, obj, rel string, ct *openfgav1.ContextualTupleKeys) string {
		resp, err := s.Expand(context.Background(), &openfgav1.ExpandRequest{StoreId: store,
			TupleKey: &openfgav1.ExpandRequestTupleKey{Object: obj, Relation: rel}, ContextualTuples: ct})
		if err != nil {
			st.Inc("out:error")
			return errClass(err)
		}
		var sb strings.Builder
		renderNode(resp.GetTree().GetRoot(), &sb)
		st.Inc("out:tree")
		return sb.String()
	}
	var outs []string
	for i := 0; i < k; i++ {
		obj, rel := undash(t.Next()), undash(t.Next())
		outs = append(outs, one(a, obj, rel, ct)+" ~ "+one(a, obj, rel, nil)+" ~ "+one(b, obj, rel, nil))
	}
	return strings.Join(outs, " | ")
}

func exec(line string, st *hx.Stats) string {
	t := fga.NewToks(line)
	if strings.HasPrefix(line, "seq ") {
		t.Expect("seq")
		return execSeq(t, st)
	}
	if strings.HasPrefix(line, "cut ") {
		return execCut(strings.Fields(line))
	}
	t.Expect("exp")
	validated := t.Int() == 1
	m := fga.DecodeModel(t)
	tuples := fga.DecodeTuples(t, "tuples")
	ctxT := fga.DecodeTuples(t, "ctx")
	t.Expect("targets")
	k := t.Int()
	var ts *typesystem.TypeSystem
	var err error
	if validated {
		ts, err = typesystem.NewAndValidate(context.Background(), m.Proto(fgarun.ModelID))
	} else {
		ts, err = typesystem.New(m.Proto(fgarun.ModelID))
	}
	if err != nil {
		return "invalid-model"
	}
	ds := fgarun.Store(tuples)
	defer ds.Close()
	var ct *openfgav1.ContextualTupleKeys
	if len(ctxT) > 0 {
		ct = &openfgav1.ContextualTupleKeys{TupleKeys: fga.Keys(ctxT)}
	}
	var outs []string
	for i := 0; i < k; i++ {
		obj, rel := undash(t.Next()), undash(t.Next())
		// as pkg/server/expand.go builds it: a fresh query per request over the server's datastore
		q := commands.NewExpandQuery(ds)
		resp, err := q.Execute(typesystem.ContextWithTypesystem(context.Background(), ts), &openfgav1.ExpandRequest{
			StoreId:          fgarun.StoreID,
			TupleKey:         &openfgav1.ExpandRequestTupleKey{Object: obj, Relation: rel},
			ContextualTuples: ct,
		})
		if err != nil {
			outs = append(outs, errClass(err))
			st.Inc("out:error")
			continue
		}
		var sb strings.Builder
		renderNode(resp.GetTree().GetRoot(), &sb)
		outs = append(outs, sb.String())
		st.Inc("out:tree")
	}
	return strings.Join(outs, " | ")
}

type cutDS struct {
	storage.OpenFGADatastore
	after int
	err   error
}

func (c *cutDS) Read(ctx context.Context, store string, filter storage.ReadFilter, options storage.ReadOptions) (storage.TupleIterator, error) {
	it, err := c.OpenFGADatastore.Read(ctx, store, filter, options)
	if err != nil {
		return nil, err
	}
	return &cutIter{TupleIterator: it, left: c.after, err: c.err}, nil
}

type cutIter struct {
	storage.TupleIterator
	left int
	err  error
}

func (i *cutIter) Next(ctx context.Context) (*openfgav1.Tuple, error) {
	if i.left <= 0 {
		return nil, i.err
	}
	i.left--
	return i.TupleIterator.Next(ctx)
}

func (i *cutIter) Head(ctx context.Context) (*openfgav1.Tuple, error) {
	if i.left <= 0 {
		return nil, i.err
	}
	return i.TupleIterator.Head(ctx)
}

// execCut: "cut <N> <k> <kind>": doc:1#viewer has N direct users; the read fails after k tuples. Output "err" | "ok <n>".
func execCut(f []string) string {
	nUsers, _ := strconv.Atoi(f[1])
	k, _ := strconv.Atoi(f[2])
	var fault error
	switch f[3] {
	case "canceled":
		fault = context.Canceled
	case "deadline":
		fault = context.DeadlineExceeded
	default:
		fault = errors.New("boom")
	}
	model := &openfgav1.AuthorizationModel{Id: fgarun.ModelID, SchemaVersion: typesystem.SchemaVersion1_1,
		TypeDefinitions: []*openfgav1.TypeDefinition{{Type: "user"}, {Type: "doc", Relations: map[string]*openfgav1.Userset{"viewer": {Userset: &openfgav1.Userset_This{}}},
			Metadata: &openfgav1.Metadata{Relations: map[string]*openfgav1.RelationMetadata{"viewer": {DirectlyRelatedUserTypes: []*openfgav1.RelationReference{{Type: "user"}}}}}}}}
	ts, err := typesystem.NewAndValidate(context.Background(), model)
	if err != nil {
		return "invalid-model"
	}
	mem := memory.New()
	defer mem.Close()
	for i := 0; i < nUsers; i++ {
		if err := mem.Write(context.Background(), fgarun.StoreID, nil, []*openfgav1.TupleKey{{Object: "doc:1", Relation: "viewer", User: fmt.Sprintf("user:%d", i)}}); err != nil {
			return "setuperr"
		}
	}
	q := commands.NewExpandQuery(&cutDS{OpenFGADatastore: mem, after: k, err: fault})
	resp, err := q.Execute(typesystem.ContextWithTypesystem(context.Background(), ts), &openfgav1.ExpandRequest{
		StoreId: fgarun.StoreID, TupleKey: &openfgav1.ExpandRequestTupleKey{Object: "doc:1", Relation: "viewer"}})
	if err != nil {
		return "err"
	}
	return fmt.Sprintf("ok %d", len(resp.GetTree().GetRoot().GetLeaf().GetUsers().GetUsers()))
}

func main() { hx.Main(hx.Harness{Gen: gen, Exec: exec}) }
