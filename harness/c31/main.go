// Harness for C31 (assertions are stored and returned verbatim per store and model): runs interleaved
// WriteAssertions / ReadAssertions / DeleteStore histories against the real memory and sqlite
// datastores, against commands.WriteAssertionsCommand / ReadAssertionsQuery, and checks the id
// validation of the server API.
//
// Case lines:
//
//	hist <mem|sql> <op>,<op>,…        datastore level
//	cmd  <mem|sql> <op>,<op>,…        through the commands (a model exists for every pair except "nomodel" ones)
//	api  <storeIdHex> <modelIdHex>    Server.WriteAssertions / ReadAssertions with these ids (validation only)
//	sf   q…                           overlapping resolutions of (store, model id) — what WriteAssertions / ReadAssertions
//	                                  resolve their model with — over a slow datastore, cold cache (harness/sfres)
//
//	op := w:<storeHex>:<modelHex>:<alist>        WriteAssertions
//	    | r:<storeHex>:<modelHex>                ReadAssertions
//	    | d:<storeHex>                           DeleteStore
//	    | c:<storeHex>:<modelHex>:<flag>:<alist> command write; flag = ok | badrel | badctx | big | nomodel
//	alist := - | <hex of deterministic proto.Marshal(assertion)>(+<hex>)* | BIG<n>
//
// Output: one item per read / command write, in order, joined by ';':
// R=<alist> for reads, W=ok | W=err:<class> for command writes (datastore writes print nothing
// unless they fail: W=err:store).
package main

import (
	"context"
	"database/sql"
	"encoding/hex"
	"fmt"
	"os"
	"path/filepath"
	"strings"
	"sync"

	"github.com/oklog/ulid/v2"
	openfgav1 "github.com/openfga/api/proto/openfga/v1"
	parser "github.com/openfga/language/pkg/go/transformer"
	"github.com/pressly/goose/v3"
	"google.golang.org/grpc/codes"
	"google.golang.org/grpc/status"
	"google.golang.org/protobuf/proto"
	"google.golang.org/protobuf/types/known/structpb"

	"github.com/openfga/openfga/assets"
	"github.com/openfga/openfga/pkg/server"
	"github.com/openfga/openfga/pkg/server/commands"
	"github.com/openfga/openfga/pkg/storage"
	"github.com/openfga/openfga/pkg/storage/memory"
	"github.com/openfga/openfga/pkg/storage/sqlcommon"
	"github.com/openfga/openfga/pkg/storage/sqlite"
	"github.com/openfga/openfga/verifharness/hx"
	"github.com/openfga/openfga/verifharness/sfres"
)

var (
	sqlOnce sync.Once
	sqlDS   storage.OpenFGADatastore
	sqlDir  string
	srvOnce sync.Once
	srv     *server.Server
)

func sqliteDS() storage.OpenFGADatastore {
	sqlOnce.Do(func() {
		goose.SetLogger(goose.NopLogger())
		goose.SetBaseFS(assets.EmbedMigrations)
		dir, err := os.MkdirTemp("", "verif-c31-sqlite-*")
		if err != nil {
			panic(err)
		}
		sqlDir = dir
		uri := fmt.Sprintf("file:%s?_pragma=journal_mode(WAL)&_pragma=busy_timeout(5000)&_pragma=synchronous(OFF)", filepath.Join(dir, "database.db"))
		db, err := goose.OpenDBWithDriver("sqlite", uri)
		if err != nil {
			panic(err)
		}
		if err := goose.Up(db, assets.SqliteMigrationDir); err != nil {
			panic(err)
		}
		_ = db.Close()
		ds, err := sqlite.New(uri, sqlcommon.NewConfig())
		if err != nil {
			panic(err)
		}
		sqlDS = ds
	})
	return sqlDS
}

func cleanup() {
	if srv != nil {
		srv.Close()
	}
	if sqlDS != nil {
		sqlDS.Close()
	}
	if sqlDir != "" {
		_ = os.RemoveAll(sqlDir)
	}
}

const modelDSL = `model
  schema 1.1
type user
type group
  relations
    define member: [user]
type doc
  relations
    define viewer: [user, group#member, user with c1]
    define editor: [user]
condition c1(x: int) {
  x < 10
}`

var det = proto.MarshalOptions{Deterministic: true}

func encAssertions(as []*openfgav1.Assertion) string {
	if len(as) == 0 {
		return "-"
	}
	parts := make([]string, len(as))
	for i, a := range as {
		b, err := det.Marshal(a)
		if err != nil {
			panic(err)
		}
		if len(b) == 0 {
			parts[i] = "e" // an all-default assertion marshals to zero bytes
		} else {
			parts[i] = hex.EncodeToString(b)
		}
	}
	return strings.Join(parts, "+")
}

func decAssertions(s string) []*openfgav1.Assertion {
	if s == "-" {
		return []*openfgav1.Assertion{}
	}
	if strings.HasPrefix(s, "BIG") {
		var n int
		fmt.Sscanf(s[3:], "%d", &n)
		c, _ := structpb.NewStruct(map[string]any{"pad": strings.Repeat("x", n)})
		return []*openfgav1.Assertion{{TupleKey: &openfgav1.AssertionTupleKey{Object: "doc:1", Relation: "viewer", User: "user:anne"}, Expectation: true, Context: c}}
	}
	var out []*openfgav1.Assertion
	for _, h := range strings.Split(s, "+") {
		if h == "e" {
			out = append(out, &openfgav1.Assertion{})
			continue
		}
		b, err := hex.DecodeString(h)
		if err != nil {
			panic(err)
		}
		a := &openfgav1.Assertion{}
		if err := proto.Unmarshal(b, a); err != nil {
			panic(err)
		}
		out = append(out, a)
	}
	return out
}

func errClass(err error) string {
	st, ok := status.FromError(err)
	if !ok {
		return "other"
	}
	switch st.Code() {
	case codes.Code(openfgav1.ErrorCode_authorization_model_not_found):
		return "modelnotfound"
	case codes.Code(openfgav1.ErrorCode_exceeded_entity_limit):
		return "toolarge"
	case codes.Code(openfgav1.ErrorCode_validation_error), codes.Code(openfgav1.ErrorCode_invalid_tuple), codes.Code(openfgav1.ErrorCode_invalid_object_format),
		codes.Code(openfgav1.ErrorCode_relation_not_found), codes.Code(openfgav1.ErrorCode_type_not_found), codes.Code(openfgav1.ErrorCode_invalid_user):
		return "validation"
	case codes.InvalidArgument:
		return "invalidargument"
	}
	return fmt.Sprintf("code%d", st.Code())
}

func exec(line string, st *hx.Stats) string {
	f := strings.Fields(line)
	ctx := context.Background()
	switch f[0] {
	case "locked":
		return lockedCase(f[1])
	case "sf":
		return sfres.Exec(line)
	case "hist", "cmd":
		var ds storage.OpenFGADatastore
		if f[1] == "mem" {
			ds = memory.New()
			defer ds.Close()
		} else {
			ds = sqliteDS()
		}
		ops := strings.Split(f[2], ",")
		if f[0] == "cmd" {
			// a model for every (store, model) pair that is written through the command, except "nomodel"
			m := parser.MustTransformDSLToProto(modelDSL)
			seen := map[string]bool{}
			for _, op := range ops {
				p := strings.Split(op, ":")
				if p[0] != "c" || p[3] == "nomodel" {
					continue
				}
				store, model := string(hx.MustUnH(p[1])), string(hx.MustUnH(p[2]))
				if seen[store+"/"+model] {
					continue
				}
				seen[store+"/"+model] = true
				mm := proto.Clone(m).(*openfgav1.AuthorizationModel)
				mm.Id = model
				if err := ds.WriteAuthorizationModel(ctx, store, mm); err != nil {
					return "SETUP-ERR " + err.Error()
				}
			}
		}
		var out []string
		for _, op := range ops {
			p := strings.Split(op, ":")
			switch p[0] {
			case "w":
				if err := ds.WriteAssertions(ctx, string(hx.MustUnH(p[1])), string(hx.MustUnH(p[2])), decAssertions(p[3])); err != nil {
					out = append(out, "W=err:store")
				}
			case "r":
				var as []*openfgav1.Assertion
				var err error
				if f[0] == "cmd" {
					var resp *openfgav1.ReadAssertionsResponse
					resp, err = commands.NewReadAssertionsQuery(ds).Execute(ctx, string(hx.MustUnH(p[1])), string(hx.MustUnH(p[2])))
					as = resp.GetAssertions()
					if err == nil && resp.GetAuthorizationModelId() != string(hx.MustUnH(p[2])) {
						out = append(out, "R=wrong-model-id")
						continue
					}
				} else {
					as, err = ds.ReadAssertions(ctx, string(hx.MustUnH(p[1])), string(hx.MustUnH(p[2])))
				}
				if err != nil {
					out = append(out, "R=err")
				} else {
					out = append(out, "R="+encAssertions(as))
				}
			case "d":
				if err := ds.DeleteStore(ctx, string(hx.MustUnH(p[1]))); err != nil {
					out = append(out, "D=err")
				}
			case "c":
				_, err := commands.NewWriteAssertionsCommand(ds).Execute(ctx, &openfgav1.WriteAssertionsRequest{
					StoreId: string(hx.MustUnH(p[1])), AuthorizationModelId: string(hx.MustUnH(p[2])), Assertions: decAssertions(p[4])})
				if err != nil {
					out = append(out, "W=err:"+errClass(err))
				} else {
					out = append(out, "W=ok")
				}
			}
		}
		if len(out) == 0 {
			return "-"
		}
		return strings.Join(out, ";")
	case "api":
		srvOnce.Do(func() { srv = server.MustNewServerWithOpts(server.WithDatastore(memory.New())) })
		store, model := string(hx.MustUnH(f[1])), string(hx.MustUnH(f[2]))
		_, werr := srv.WriteAssertions(ctx, &openfgav1.WriteAssertionsRequest{StoreId: store, AuthorizationModelId: model})
		_, rerr := srv.ReadAssertions(ctx, &openfgav1.ReadAssertionsRequest{StoreId: store, AuthorizationModelId: model})
		cls := func(err error) string {
			if err == nil {
				return "ok"
			}
			return errClass(err)
		}
		return "W=" + cls(werr) + " R=" + cls(rerr)
	}
	return "badcase"
}

// ---------------------------------------------------------------- generator

func newULID(r *hx.Rand) string {
	var e [16]byte
	for i := range e {
		e[i] = byte(r.Intn(256))
	}
	var id ulid.ULID
	_ = id.SetTime(uint64(1_700_000_000_000 + r.Intn(1_000_000_000)))
	_ = id.SetEntropy(e[6:])
	return id.String()
}

func genStruct(r *hx.Rand, depth int) *structpb.Struct {
	n := r.Intn(4)
	m := map[string]any{}
	keys := []string{"x", "region", "ip", "a b", "é", ""}
	for i := 0; i < n; i++ {
		k := hx.Pick(r, keys)
		switch r.Intn(7) {
		case 0:
			m[k] = nil
		case 1:
			m[k] = r.Bool()
		case 2:
			m[k] = float64(r.Intn(2000)-1000) / 4
		case 3:
			m[k] = hx.Pick(r, []string{"", "eu", "10.0.0.1", "|", "a|b", "\x00", "ü"})
		case 4:
			m[k] = []any{1.0, "two", nil}
		case 5:
			if depth < 2 {
				m[k] = genStruct(r, depth+1).AsMap()
			} else {
				m[k] = 1.0
			}
		default:
			m[k] = 5.0
		}
	}
	s, err := structpb.NewStruct(m)
	if err != nil {
		panic(err)
	}
	return s
}

// genAssertion: valid = acceptable to WriteAssertionsCommand for modelDSL
func genAssertion(r *hx.Rand, valid bool) *openfgav1.Assertion {
	a := &openfgav1.Assertion{
		TupleKey: &openfgav1.AssertionTupleKey{
			Object:   "doc:" + hx.Pick(r, []string{"1", "2", "roadmap"}),
			Relation: hx.Pick(r, []string{"viewer", "editor"}),
			User:     hx.Pick(r, []string{"user:anne", "user:bob", "user:*"}),
		},
		Expectation: r.Bool(),
	}
	if valid && a.TupleKey.User == "user:*" {
		a.TupleKey.User = "user:carl"
	}
	if a.TupleKey.Relation == "viewer" && r.Chance(1, 4) {
		a.TupleKey.User = "group:eng#member"
	}
	for i, n := 0, hx.Pick(r, []int{0, 0, 1, 2}); i < n; i++ {
		ct := &openfgav1.TupleKey{Object: "doc:" + hx.Pick(r, []string{"1", "2"}), Relation: "viewer", User: hx.Pick(r, []string{"user:bob", "group:eng#member"})}
		if r.Chance(1, 3) {
			ct = &openfgav1.TupleKey{Object: "group:eng", Relation: "member", User: "user:anne"}
		} else if ct.User == "user:bob" && r.Chance(1, 2) {
			c, _ := structpb.NewStruct(map[string]any{"x": float64(r.Intn(20))})
			ct.Condition = &openfgav1.RelationshipCondition{Name: "c1", Context: c}
			if r.Chance(1, 3) {
				ct.Condition.Context = nil
			}
		}
		a.ContextualTuples = append(a.ContextualTuples, ct)
	}
	if r.Chance(1, 2) {
		a.Context = genStruct(r, 0)
	}
	if !valid {
		switch r.Intn(3) {
		case 0:
			a.TupleKey = nil
		case 1:
			a.TupleKey.Object = "nodelimiter"
		case 2:
			a.ContextualTuples = append(a.ContextualTuples, &openfgav1.TupleKey{Object: "x|y:1", Relation: "", User: "||"})
		}
	}
	return a
}

func genList(r *hx.Rand, valid bool) []*openfgav1.Assertion {
	n := hx.Pick(r, []int{0, 1, 1, 2, 3})
	out := make([]*openfgav1.Assertion, n)
	for i := range out {
		out[i] = genAssertion(r, valid)
	}
	if n >= 2 && r.Chance(1, 4) {
		out[1] = proto.Clone(out[0]).(*openfgav1.Assertion) // duplicates are kept verbatim
	}
	return out
}

// lockedCase: own database file with a short busy_timeout; v1 written; a second connection takes the write lock;
// WriteAssertions(v2) is attempted; the lock is released; then ReadAssertions. Output "err" | "ok-visible" | "ok-lost".
func lockedCase(tag string) string {
	ctx := context.Background()
	goose.SetLogger(goose.NopLogger())
	goose.SetBaseFS(assets.EmbedMigrations)
	dir, err := os.MkdirTemp("", "verif-c31-locked-*")
	if err != nil {
		return "setuperr tmp"
	}
	defer os.RemoveAll(dir)
	uri := fmt.Sprintf("file:%s?_pragma=journal_mode(WAL)&_pragma=busy_timeout(20)&_pragma=synchronous(OFF)", filepath.Join(dir, "database.db"))
	db, err := goose.OpenDBWithDriver("sqlite", uri)
	if err != nil {
		return "setuperr open"
	}
	if err := goose.Up(db, assets.SqliteMigrationDir); err != nil {
		return "setuperr migrate"
	}
	_ = db.Close()
	ds, err := sqlite.New(uri, sqlcommon.NewConfig())
	if err != nil {
		return "setuperr ds"
	}
	defer ds.Close()
	store, model := ulid.Make().String(), ulid.Make().String()
	v1 := []*openfgav1.Assertion{{TupleKey: &openfgav1.AssertionTupleKey{Object: "doc:1", Relation: "viewer", User: "user:v1-" + tag}, Expectation: false}}
	v2 := []*openfgav1.Assertion{{TupleKey: &openfgav1.AssertionTupleKey{Object: "doc:1", Relation: "viewer", User: "user:v2-" + tag}, Expectation: true}}
	if err := ds.WriteAssertions(ctx, store, model, v1); err != nil {
		return "setuperr v1"
	}
	dsn, err := sqlite.PrepareDSN(uri)
	if err != nil {
		return "setuperr dsn"
	}
	other, err := sql.Open("sqlite", dsn)
	if err != nil {
		return "setuperr other"
	}
	defer other.Close()
	tx, err := other.BeginTx(ctx, nil)
	if err != nil {
		return "setuperr begin"
	}
	if _, err := tx.ExecContext(ctx, "INSERT INTO assertion (store, authorization_model_id, assertions) VALUES (?, ?, ?)", "other-store", "other-model", []byte{}); err != nil {
		_ = tx.Rollback()
		return "setuperr lock"
	}
	werr := ds.WriteAssertions(ctx, store, model, v2)
	_ = tx.Rollback()
	got, err := ds.ReadAssertions(ctx, store, model)
	if err != nil {
		return "setuperr read"
	}
	if werr != nil {
		return "err"
	}
	if len(got) == 1 && proto.Equal(got[0], v2[0]) {
		return "ok-visible"
	}
	return "ok-lost"
}

func gen(r *hx.Rand, n int, tier string, emit func(string), st *hx.Stats) {
	// a write attempted while another connection holds the sqlite write lock for its whole duration: it must fail,
	// or — if it reports success — be visible (busyRetry: success only if the statement ran)
	emit("locked 1")
	emit("locked 2")
	st.Add("locked", 2)
	for i := 0; i < n; i++ {
		c := r.Fork()
		if c.Chance(1, 14) {
			// the model of a (store, model id) pair is resolved through the typesystem resolver: two models of one store
			// (or one id on two stores) resolved at the same time must each come back as themselves
			st.Inc("resolver-flights")
			emit(sfres.Gen(c, true))
			continue
		}
		k := c.Intn(20)
		switch {
		case k == 0:
			st.Inc("api")
			store, model := newULID(c), newULID(c)
			switch c.Intn(5) {
			case 0:
				store = "a|b"
			case 1:
				store = store[:13] + "|" + store[14:]
			case 2:
				model = "b|c"
			case 3:
				store = strings.ToLower(store)
			}
			emit("api " + hx.HS(store) + " " + hx.HS(model))
		case k < 6:
			// command level
			back := hx.Pick(c, []string{"mem", "sql", "mem"})
			st.Inc("cmd-" + back)
			stores := []string{newULID(c), newULID(c), newULID(c)}
			models := []string{newULID(c), newULID(c), newULID(c)}
			nomodel := newULID(c)
			var ops []string
			for j, m := 0, 4+c.Intn(14); j < m; j++ {
				s := hx.Pick(c, stores)
				switch c.Intn(10) {
				case 0, 1, 2, 3:
					ops = append(ops, "r:"+hx.HS(s)+":"+hx.HS(hx.Pick(c, models)))
				case 4:
					ops = append(ops, "c:"+hx.HS(s)+":"+hx.HS(hx.Pick(c, models))+":badrel:"+encAssertions([]*openfgav1.Assertion{genAssertion(c, true), {TupleKey: &openfgav1.AssertionTupleKey{Object: "doc:1", Relation: "nope", User: "user:anne"}}}))
					st.Inc("cmd-write-invalid")
				case 5:
					switch c.Intn(3) {
					case 0:
						ops = append(ops, "c:"+hx.HS(s)+":"+hx.HS(hx.Pick(c, models))+":big:BIG"+fmt.Sprint(64000+c.Intn(3000)))
						st.Inc("cmd-write-too-large")
					case 1:
						ops = append(ops, "c:"+hx.HS(s)+":"+hx.HS(nomodel)+":nomodel:"+encAssertions(genList(c, true)))
						ops = append(ops, "r:"+hx.HS(s)+":"+hx.HS(nomodel))
						st.Inc("cmd-write-no-model")
					default:
						bad := &openfgav1.Assertion{TupleKey: &openfgav1.AssertionTupleKey{Object: "doc:1", Relation: "viewer", User: "user:anne"},
							ContextualTuples: []*openfgav1.TupleKey{{Object: "doc:1", Relation: "editor", User: "group:eng#member"}}}
						ops = append(ops, "c:"+hx.HS(s)+":"+hx.HS(hx.Pick(c, models))+":badctx:"+encAssertions([]*openfgav1.Assertion{bad}))
						st.Inc("cmd-write-invalid")
					}
				default:
					ops = append(ops, "c:"+hx.HS(s)+":"+hx.HS(hx.Pick(c, models))+":ok:"+encAssertions(genList(c, true)))
					st.Inc("cmd-write-ok")
				}
			}
			ops = append(ops, "r:"+hx.HS(stores[0])+":"+hx.HS(models[0]), "r:"+hx.HS(stores[1])+":"+hx.HS(models[0]))
			emit("cmd " + back + " " + strings.Join(ops, ","))
		default:
			back := hx.Pick(c, []string{"mem", "sql"})
			stores := []string{newULID(c), newULID(c), newULID(c)}
			models := []string{newULID(c), newULID(c), newULID(c)}
			kind := "ulid"
			if c.Chance(1, 8) {
				// ids with the memory key's separator: colliding pairs ("a|b","c") / ("a","b|c")
				u := newULID(c)
				stores = []string{u + "|b", u, u + "|"}
				models = []string{"c", "b|c", "|b|c", ""}
				kind = "bar"
			} else if c.Chance(1, 10) {
				back = "mem" // not unique across cases: only on a fresh datastore
				stores = []string{"", "s", newULID(c)}
				models = []string{"", "m", stores[2]}
				kind = "odd"
			}
			st.Inc("hist-" + back + "-" + kind)
			var ops []string
			for j, m := 0, 5+c.Intn(26); j < m; j++ {
				s, mo := hx.Pick(c, stores), hx.Pick(c, models)
				switch c.Intn(12) {
				case 0, 1, 2, 3, 4:
					ops = append(ops, "r:"+hx.HS(s)+":"+hx.HS(mo))
				case 5:
					ops = append(ops, "d:"+hx.HS(s))
				default:
					ops = append(ops, "w:"+hx.HS(s)+":"+hx.HS(mo)+":"+encAssertions(genList(c, c.Chance(4, 5))))
				}
			}
			// read everything at the end
			for _, s := range stores {
				for _, mo := range models {
					ops = append(ops, "r:"+hx.HS(s)+":"+hx.HS(mo))
				}
			}
			emit("hist " + back + " " + strings.Join(ops, ","))
		}
	}
}

func main() {
	defer cleanup()
	hx.Main(hx.Harness{Gen: gen, Exec: exec})
}
