// Harness for C32 (AuthZEN endpoints agree with the native API).
//
// One in-process server (memory store, experimental "authzen") serves every case.  A case is a model, a
// tuple set and one AuthZEN request derived from the native request space (harness/fga generators):
//
//	az <model> <tuples> eval    S R A C
//	az <model> <tuples> evals   <sem|~> S R A C <n> { S R A C }
//	az <model> <tuples> ssearch <subjType> <props> R A C
//	az <model> <tuples> rsearch S A <resType> <props> C
//	az <model> <tuples> asearch S R C
//
//	S, R := ~ | E <type> <id> <props>      A := ~ | A <name> <props>      C, props := ~ | <n> { <key> <int> }
//
// Strings are percent-escaped tokens (empty string = "%").  The executor sends the AuthZEN request to the
// real server, maps the request with its own copy of the documented mapping, sends the mapped request to
// the native Check / BatchCheck / ListUsers / StreamedListObjects / ListObjects of the same server and prints
// both answers plus the mapped request.  The Lean driver recomputes the mapping and the batch semantics
// with Model.Authzen and decides.
//
// A case whose kind is preceded by the token `pin` runs against a store with TWO authorization models: the
// case's model (written first) and a later model with the same types and relations in which nothing is
// assignable to a `user` (every decision false, every search empty).  The AuthZEN request carries the id of the
// OLDER model in the Openfga-Authorization-Model-Id header (gRPC metadata), the native requests carry it in
// their authorization_model_id field: every endpoint must answer from the pinned model, not from the latest.
//
// Native Check answers can race (known findings F2/F9/F10 of C02): when the AuthZEN side and the native
// side disagree the executor repeats both (up to 6 times) and reports `flaky` if they ever agree.
package main

import (
	"context"
	"fmt"
	"sort"
	"strconv"
	"strings"
	"sync"

	"github.com/grpc-ecosystem/grpc-gateway/v2/runtime"
	authzenv1 "github.com/openfga/api/proto/authzen/v1"
	openfgav1 "github.com/openfga/api/proto/openfga/v1"
	"google.golang.org/grpc"
	"google.golang.org/grpc/metadata"
	"google.golang.org/grpc/status"
	"google.golang.org/protobuf/types/known/structpb"

	"github.com/openfga/openfga/pkg/server"
	servererrors "github.com/openfga/openfga/pkg/server/errors"
	"github.com/openfga/openfga/pkg/storage"
	"github.com/openfga/openfga/pkg/storage/memory"
	"github.com/openfga/openfga/pkg/typesystem"
	"github.com/openfga/openfga/verifharness/fga"
	"github.com/openfga/openfga/verifharness/hx"
)

// ---- token escaping ----

func esc(s string) string {
	if s == "" {
		return "%"
	}
	var sb strings.Builder
	for i := 0; i < len(s); i++ {
		c := s[i]
		if c >= 'a' && c <= 'z' || c >= 'A' && c <= 'Z' || c >= '0' && c <= '9' || strings.IndexByte("_.:#@*-", c) >= 0 {
			sb.WriteByte(c)
		} else {
			fmt.Fprintf(&sb, "%%%02x", c)
		}
	}
	return sb.String()
}

func unesc(t string) string {
	if t == "%" {
		return ""
	}
	var sb strings.Builder
	for i := 0; i < len(t); i++ {
		if t[i] == '%' && i+2 < len(t) {
			v, err := strconv.ParseUint(t[i+1:i+3], 16, 8)
			if err != nil {
				panic("bad escape in " + t)
			}
			sb.WriteByte(byte(v))
			i += 2
		} else {
			sb.WriteByte(t[i])
		}
	}
	return sb.String()
}

// ---- AuthZEN request pieces ----

type props struct {
	present bool
	kv      []fga.KV
}

type entity struct {
	present bool
	typ, id string
	props   props
}

type action struct {
	present bool
	name    string
	props   props
}

type item struct {
	s, r entity
	a    action
	c    props
}

func (p props) enc() string {
	if !p.present {
		return "~"
	}
	var sb strings.Builder
	fmt.Fprintf(&sb, "%d", len(p.kv))
	for _, kv := range p.kv {
		fmt.Fprintf(&sb, " %s %d", esc(kv.K), kv.V)
	}
	return sb.String()
}

func (e entity) enc() string {
	if !e.present {
		return "~"
	}
	return "E " + esc(e.typ) + " " + esc(e.id) + " " + e.props.enc()
}

func (a action) enc() string {
	if !a.present {
		return "~"
	}
	return "A " + esc(a.name) + " " + a.props.enc()
}

func (it item) enc() string {
	return it.s.enc() + " " + it.r.enc() + " " + it.a.enc() + " " + it.c.enc()
}

func decProps(t *fga.Toks) props {
	if t.T[t.I] == "~" {
		t.I++
		return props{}
	}
	n := t.Int()
	p := props{present: true, kv: []fga.KV{}}
	for i := 0; i < n; i++ {
		k := unesc(t.Next())
		p.kv = append(p.kv, fga.KV{K: k, V: t.Int()})
	}
	return p
}

func decEntity(t *fga.Toks) entity {
	if t.T[t.I] == "~" {
		t.I++
		return entity{}
	}
	t.Expect("E")
	e := entity{present: true, typ: unesc(t.Next()), id: unesc(t.Next())}
	e.props = decProps(t)
	return e
}

func decAction(t *fga.Toks) action {
	if t.T[t.I] == "~" {
		t.I++
		return action{}
	}
	t.Expect("A")
	a := action{present: true, name: unesc(t.Next())}
	a.props = decProps(t)
	return a
}

func decItem(t *fga.Toks) item {
	return item{s: decEntity(t), r: decEntity(t), a: decAction(t), c: decProps(t)}
}

func (p props) pb() *structpb.Struct {
	if !p.present {
		return nil
	}
	m := map[string]interface{}{}
	for _, kv := range p.kv {
		m[kv.K] = float64(kv.V)
	}
	s, err := structpb.NewStruct(m)
	if err != nil {
		panic(err)
	}
	return s
}

func (e entity) subject() *authzenv1.Subject {
	if !e.present {
		return nil
	}
	return &authzenv1.Subject{Type: e.typ, Id: e.id, Properties: e.props.pb()}
}

func (e entity) resource() *authzenv1.Resource {
	if !e.present {
		return nil
	}
	return &authzenv1.Resource{Type: e.typ, Id: e.id, Properties: e.props.pb()}
}

func (a action) pb() *authzenv1.Action {
	if !a.present {
		return nil
	}
	return &authzenv1.Action{Name: a.name, Properties: a.props.pb()}
}

// ---- the documented mapping (harness copy; the Lean driver recomputes it with Model.Authzen) ----

type mapped struct {
	ok             bool
	user, rel, obj string
	ctx            map[string]int // nil = nil context
}

func mergeCtx(c, s, r, a props) map[string]int {
	m := map[string]int{}
	put := func(prefix string, p props) {
		if p.present {
			for _, kv := range p.kv {
				m[prefix+kv.K] = kv.V
			}
		}
	}
	put("subject_", s)
	put("resource_", r)
	put("action_", a)
	put("", c)
	if len(m) == 0 {
		return nil
	}
	return m
}

func mapItem(it item) mapped {
	if !it.s.present || !it.r.present || !it.a.present {
		return mapped{}
	}
	return mapped{ok: true, user: it.s.typ + ":" + it.s.id, rel: it.a.name, obj: it.r.typ + ":" + it.r.id,
		ctx: mergeCtx(it.c, it.s.props, it.r.props, it.a.props)}
}

func ctxString(m map[string]int) string {
	if m == nil {
		return "~"
	}
	keys := make([]string, 0, len(m))
	for k := range m {
		keys = append(keys, k)
	}
	sort.Strings(keys)
	parts := make([]string, len(keys))
	for i, k := range keys {
		parts[i] = esc(k) + "=" + strconv.Itoa(m[k])
	}
	return strings.Join(parts, ";")
}

func ctxPB(m map[string]int) *structpb.Struct {
	if m == nil {
		return nil
	}
	mm := map[string]interface{}{}
	for k, v := range m {
		mm[k] = float64(v)
	}
	s, err := structpb.NewStruct(mm)
	if err != nil {
		panic(err)
	}
	return s
}

func (m mapped) String() string {
	if !m.ok {
		return "-"
	}
	return esc(m.user) + "," + esc(m.rel) + "," + esc(m.obj) + "," + ctxString(m.ctx)
}

func resolveItem(top, it item) item {
	out := it
	if !out.s.present {
		out.s = top.s
	}
	if !out.r.present {
		out.r = top.r
	}
	if !out.a.present {
		out.a = top.a
	}
	if !out.c.present {
		out.c = top.c
	}
	return out
}

// ---- server ----

var (
	srvOnce sync.Once
	srv     *server.Server
	ds      storage.OpenFGADatastore
)

func getServer() *server.Server {
	srvOnce.Do(func() {
		ds = memory.New()
		srv = server.MustNewServerWithOpts(server.WithDatastore(ds), server.WithExperimentals("authzen"))
	})
	return srv
}

func errCode(err error) (code int, http int) {
	st, ok := status.FromError(err)
	if !ok {
		return -1, 500
	}
	c := st.Code()
	if c < 17 {
		return int(c), runtime.HTTPStatusFromCode(c)
	}
	return int(c), servererrors.NewEncodedError(int32(c), st.Message()).HTTPStatus()
}

// denyAll: same types and relations as m, but every relation is directly assignable to the type `nobody` only.
func denyAll(m *fga.Model) *fga.Model {
	out := &fga.Model{Types: []*fga.TypeDef{{Name: "user"}, {Name: "nobody"}}}
	for _, t := range m.Types {
		if t.Name == "user" {
			continue
		}
		td := &fga.TypeDef{Name: t.Name}
		for _, rd := range t.Rels {
			td.Rels = append(td.Rels, &fga.RelDef{Name: rd.Name, Rewrite: &fga.Rewrite{Kind: "this"}, Restrs: []fga.Restr{{Typ: "nobody"}}})
		}
		out.Types = append(out.Types, td)
	}
	return out
}

// pinnedModel is the model id every request of the running case names ("" = none: the latest model).
var pinnedModel string

// azCtx is the context of an AuthZEN call: the pinned model id travels in the gRPC metadata, as the HTTP
// gateway delivers the Openfga-Authorization-Model-Id header.
func azCtx() context.Context {
	if pinnedModel == "" {
		return context.Background()
	}
	return metadata.NewIncomingContext(context.Background(), metadata.Pairs("openfga-authorization-model-id", pinnedModel))
}

func setup(m *fga.Model, tuples []fga.Tuple, twoModels bool) (storeID, modelID string, err error) {
	s := getServer()
	ctx := context.Background()
	cs, err := s.CreateStore(ctx, &openfgav1.CreateStoreRequest{Name: "c32-store"})
	if err != nil {
		return "", "", err
	}
	am := m.Proto("")
	wr, err := s.WriteAuthorizationModel(ctx, &openfgav1.WriteAuthorizationModelRequest{
		StoreId: cs.GetId(), TypeDefinitions: am.GetTypeDefinitions(), SchemaVersion: am.GetSchemaVersion(), Conditions: am.GetConditions()})
	if err != nil {
		return "", "", err
	}
	for _, t := range tuples {
		if err := ds.Write(ctx, cs.GetId(), nil, []*openfgav1.TupleKey{t.Key()}); err != nil {
			return "", "", err
		}
	}
	if twoModels {
		am2 := denyAll(m).Proto("")
		if _, err := s.WriteAuthorizationModel(ctx, &openfgav1.WriteAuthorizationModelRequest{
			StoreId: cs.GetId(), TypeDefinitions: am2.GetTypeDefinitions(), SchemaVersion: am2.GetSchemaVersion(), Conditions: am2.GetConditions()}); err != nil {
			return "", "", err
		}
	}
	return cs.GetId(), wr.GetAuthorizationModelId(), nil
}

func nativeCheck(storeID string, m mapped) string {
	resp, err := getServer().Check(context.Background(), &openfgav1.CheckRequest{StoreId: storeID, AuthorizationModelId: pinnedModel,
		TupleKey: &openfgav1.CheckRequestTupleKey{User: m.user, Relation: m.rel, Object: m.obj}, Context: ctxPB(m.ctx)})
	if err != nil {
		c, h := errCode(err)
		return fmt.Sprintf("E%d.%d", c, h)
	}
	if resp.GetAllowed() {
		return "T"
	}
	return "F"
}

func respItem(r *authzenv1.EvaluationResponse) string {
	if r.GetContext() != nil {
		if e, ok := r.GetContext().AsMap()["error"].(map[string]interface{}); ok {
			if st, ok := e["status"].(float64); ok {
				if r.GetDecision() {
					return fmt.Sprintf("T!e%d", int(st)) // an error context with decision=true: never expected
				}
				return fmt.Sprintf("e%d", int(st))
			}
		}
		return "ctx?"
	}
	if r.GetDecision() {
		return "T"
	}
	return "F"
}

func list(xs []string) string {
	if len(xs) == 0 {
		return "[]"
	}
	return strings.Join(xs, ",")
}

type collector struct {
	ctx     context.Context
	objects []string
	grpc.ServerStream
}

func (c *collector) Context() context.Context     { return c.ctx }
func (c *collector) SetHeader(metadata.MD) error  { return nil }
func (c *collector) SendHeader(metadata.MD) error { return nil }
func (c *collector) SetTrailer(metadata.MD)       {}
func (c *collector) SendMsg(any) error            { return nil }
func (c *collector) RecvMsg(any) error            { return nil }
func (c *collector) Send(r *openfgav1.StreamedListObjectsResponse) error {
	c.objects = append(c.objects, r.GetObject())
	return nil
}

// one attempt of a case: the output line and whether the AuthZEN side agrees with the native side
// according to the executor's own quick comparison (only used to decide about a retry).
type attempt struct {
	out    string
	agree  bool
	native string // the native observations of this repetition (ActionSearch only): instability detector
}

func runEval(storeID string, t *fga.Toks) attempt {
	it := decItem(t)
	ctx := azCtx()
	resp, err := getServer().Evaluation(ctx, &authzenv1.EvaluationRequest{StoreId: storeID, Subject: it.s.subject(),
		Resource: it.r.resource(), Action: it.a.pb(), Context: it.c.pb()})
	az := ""
	if err != nil {
		c, _ := errCode(err)
		az = fmt.Sprintf("E%d", c)
	} else if resp.GetDecision() {
		az = "T"
	} else {
		az = "F"
	}
	m := mapItem(it)
	nat := "-"
	if m.ok {
		nat = nativeCheck(storeID, m)
	}
	natShort := nat
	if i := strings.IndexByte(nat, '.'); i >= 0 {
		natShort = nat[:i]
	}
	return attempt{out: fmt.Sprintf("az=%s nat=%s map=%s", az, nat, m.String()), agree: az == natShort || az == "E3"}
}

func runEvals(storeID string, t *fga.Toks) attempt {
	semTok := t.Next()
	top := decItem(t)
	n := t.Int()
	var items []item
	for i := 0; i < n; i++ {
		items = append(items, decItem(t))
	}
	req := &authzenv1.EvaluationsRequest{StoreId: storeID, Subject: top.s.subject(), Resource: top.r.resource(),
		Action: top.a.pb(), Context: top.c.pb()}
	for _, it := range items {
		req.Evaluations = append(req.Evaluations, &authzenv1.EvaluationsItemRequest{Subject: it.s.subject(),
			Resource: it.r.resource(), Action: it.a.pb(), Context: it.c.pb()})
	}
	sem := -1
	if semTok != "~" {
		sem, _ = strconv.Atoi(semTok)
		req.Options = &authzenv1.EvaluationsOptions{EvaluationsSemantic: authzenv1.EvaluationsSemantic(sem)}
	}
	ctx := azCtx()
	resp, err := getServer().Evaluations(ctx, req)
	var azItems []string
	az := ""
	if err != nil {
		c, _ := errCode(err)
		az = fmt.Sprintf("E%d", c)
	} else {
		for _, r := range resp.GetEvaluations() {
			azItems = append(azItems, respItem(r))
		}
		az = list(azItems)
	}
	// native side: every item (or the top-level fields when there are no items)
	eff := items
	if len(items) == 0 {
		eff = []item{{}}
	}
	var maps []mapped
	var chk, mapStr []string
	allBuild := true
	for _, it := range eff {
		m := mapItem(resolveItem(top, it))
		maps = append(maps, m)
		mapStr = append(mapStr, m.String())
		if !m.ok {
			chk = append(chk, "B")
			allBuild = false
		} else {
			chk = append(chk, nativeCheck(storeID, m))
		}
	}
	bat := "-"
	if allBuild && len(items) > 0 && sem <= 0 {
		bat = nativeBatch(storeID, maps)
	}
	agree := true
	for j, a := range azItems {
		if j < len(chk) && (a == "T") != (chk[j] == "T") {
			agree = false
		}
	}
	return attempt{out: fmt.Sprintf("az=%s chk=%s bat=%s map=%s", az, list(chk), bat, strings.Join(mapStr, "/")), agree: agree}
}

func nativeBatch(storeID string, maps []mapped) string {
	breq := &openfgav1.BatchCheckRequest{StoreId: storeID, AuthorizationModelId: pinnedModel}
	for i, m := range maps {
		breq.Checks = append(breq.Checks, &openfgav1.BatchCheckItem{
			TupleKey: &openfgav1.CheckRequestTupleKey{User: m.user, Relation: m.rel, Object: m.obj},
			Context:  ctxPB(m.ctx), CorrelationId: strconv.Itoa(i)})
	}
	bresp, err := getServer().BatchCheck(context.Background(), breq)
	if err != nil {
		c, _ := errCode(err)
		return fmt.Sprintf("E%d", c)
	}
	var bs []string
	for i := range maps {
		bs = append(bs, batchItem(bresp.GetResult()[strconv.Itoa(i)]))
	}
	return list(bs)
}

func batchItem(r *openfgav1.BatchCheckSingleResult) string {
	if r == nil {
		return "-"
	}
	if e, ok := r.GetCheckResult().(*openfgav1.BatchCheckSingleResult_Error); ok {
		if e.Error != nil {
			if code, ok := e.Error.GetCode().(*openfgav1.CheckError_InputError); ok {
				return fmt.Sprintf("e%d", servererrors.NewEncodedError(int32(code.InputError), e.Error.GetMessage()).HTTPStatus())
			}
		}
		return "i"
	}
	if r.GetAllowed() {
		return "T"
	}
	return "F"
}

func runSubjectSearch(storeID string, t *fga.Toks) attempt {
	styp := unesc(t.Next())
	sprops := decProps(t)
	r := decEntity(t)
	a := decAction(t)
	c := decProps(t)
	ctx := azCtx()
	resp, err := getServer().SubjectSearch(ctx, &authzenv1.SubjectSearchRequest{StoreId: storeID,
		Subject: &authzenv1.SubjectFilter{Type: styp, Properties: sprops.pb()}, Resource: r.resource(), Action: a.pb(), Context: c.pb()})
	az := ""
	if err != nil {
		cd, _ := errCode(err)
		az = fmt.Sprintf("E%d", cd)
	} else {
		var xs []string
		for _, s := range resp.GetResults() {
			xs = append(xs, esc(s.GetType()+":"+s.GetId()))
		}
		sort.Strings(xs)
		az = list(xs)
	}
	merged := mergeCtx(c, sprops, r.props, a.props)
	nresp, err := getServer().ListUsers(ctx, &openfgav1.ListUsersRequest{StoreId: storeID, AuthorizationModelId: pinnedModel,
		Object: &openfgav1.Object{Type: r.typ, Id: r.id}, Relation: a.name, Context: ctxPB(merged),
		UserFilters: []*openfgav1.UserTypeFilter{{Type: styp}}})
	nat := ""
	natMapped := ""
	if err != nil {
		cd, _ := errCode(err)
		nat = fmt.Sprintf("E%d", cd)
		natMapped = nat
	} else {
		var xs, ys []string
		for _, u := range nresp.GetUsers() {
			switch {
			case u.GetObject() != nil:
				xs = append(xs, esc(u.GetObject().GetType()+":"+u.GetObject().GetId()))
				ys = append(ys, xs[len(xs)-1])
			case u.GetWildcard() != nil:
				xs = append(xs, esc(u.GetWildcard().GetType()+":*"))
				ys = append(ys, xs[len(xs)-1])
			case u.GetUserset() != nil:
				xs = append(xs, esc(u.GetUserset().GetType()+":"+u.GetUserset().GetId()+"#"+u.GetUserset().GetRelation()))
			}
		}
		sort.Strings(xs)
		sort.Strings(ys)
		nat = list(xs)
		natMapped = list(ys)
	}
	return attempt{out: fmt.Sprintf("az=%s nat=%s map=%s,%s,%s,%s,%s", az, nat, esc(r.typ), esc(r.id), esc(a.name), esc(styp), ctxString(merged)),
		agree: az == natMapped || az == "E3"}
}

func runResourceSearch(storeID string, t *fga.Toks) attempt {
	s := decEntity(t)
	a := decAction(t)
	rtyp := unesc(t.Next())
	rprops := decProps(t)
	c := decProps(t)
	ctx := azCtx()
	resp, err := getServer().ResourceSearch(ctx, &authzenv1.ResourceSearchRequest{StoreId: storeID, Subject: s.subject(), Action: a.pb(),
		Resource: &authzenv1.ResourceFilter{Type: rtyp, Properties: rprops.pb()}, Context: c.pb()})
	az := ""
	if err != nil {
		cd, _ := errCode(err)
		az = fmt.Sprintf("E%d", cd)
	} else {
		var xs []string
		for _, r := range resp.GetResults() {
			xs = append(xs, esc(r.GetType()+":"+r.GetId()))
		}
		sort.Strings(xs)
		az = list(xs)
	}
	merged := mergeCtx(c, s.props, rprops, a.props)
	user := s.typ + ":" + s.id
	col := &collector{ctx: ctx}
	err = getServer().StreamedListObjects(&openfgav1.StreamedListObjectsRequest{StoreId: storeID, AuthorizationModelId: pinnedModel, User: user, Relation: a.name, Type: rtyp,
		Context: ctxPB(merged)}, col)
	nat := ""
	if err != nil {
		cd, _ := errCode(err)
		nat = fmt.Sprintf("E%d", cd)
	} else {
		var xs []string
		for _, o := range col.objects {
			xs = append(xs, esc(o))
		}
		sort.Strings(xs)
		nat = list(xs)
	}
	lresp, err := getServer().ListObjects(ctx, &openfgav1.ListObjectsRequest{StoreId: storeID, AuthorizationModelId: pinnedModel, User: user, Relation: a.name, Type: rtyp,
		Context: ctxPB(merged)})
	lo := ""
	if err != nil {
		cd, _ := errCode(err)
		lo = fmt.Sprintf("E%d", cd)
	} else {
		var xs []string
		for _, o := range lresp.GetObjects() {
			xs = append(xs, esc(o))
		}
		sort.Strings(xs)
		lo = list(xs)
	}
	return attempt{out: fmt.Sprintf("az=%s nat=%s lo=%s map=%s,%s,%s,%s", az, nat, lo, esc(user), esc(a.name), esc(rtyp), ctxString(merged)),
		agree: (az == nat && nat == lo) || az == "E3"}
}

func runActionSearch(storeID string, m *fga.Model, t *fga.Toks) attempt {
	s := decEntity(t)
	r := decEntity(t)
	c := decProps(t)
	ctx := azCtx()
	resp, err := getServer().ActionSearch(ctx, &authzenv1.ActionSearchRequest{StoreId: storeID, Subject: s.subject(), Resource: r.resource(), Context: c.pb()})
	az := ""
	if err != nil {
		cd, _ := errCode(err)
		az = fmt.Sprintf("E%d", cd)
	} else {
		var xs []string
		for _, a := range resp.GetResults() {
			xs = append(xs, esc(a.GetName()))
		}
		az = list(xs) // response order (the code sorts)
	}
	var rels []string
	known := false
	for _, td := range m.Types {
		if td.Name == r.typ {
			known = true
			for _, rd := range td.Rels {
				rels = append(rels, rd.Name)
			}
		}
	}
	sort.Strings(rels)
	merged := mergeCtx(c, s.props, r.props, props{})
	var chk, allowed []string
	var maps []mapped
	for _, rel := range rels {
		mp := mapped{ok: true, user: s.typ + ":" + s.id, rel: rel, obj: r.typ + ":" + r.id, ctx: merged}
		maps = append(maps, mp)
		x := nativeCheck(storeID, mp)
		chk = append(chk, x)
		if x == "T" {
			allowed = append(allowed, esc(rel))
		}
	}
	relsOut := list(rels)
	if !known {
		relsOut = "unknown-type"
	}
	bat := nativeBatch(storeID, maps)
	// the three native observations of one question (ActionSearch's own BatchCheck, this BatchCheck, the single
	// Checks) must tell one story before anything is concluded: a Check whose answer varies from call to call
	// (findings F2 / V2-E) makes them differ without any fault of the AuthZEN mapping — the executor then repeats
	decisive := func(x string) string {
		if x == "T" {
			return "T"
		}
		return "F"
	}
	batAgrees := strings.HasPrefix(bat, "E")
	if !batAgrees {
		var a, b []string
		for _, x := range chk {
			a = append(a, decisive(x))
		}
		for _, x := range splitListTok(bat) {
			b = append(b, decisive(x))
		}
		batAgrees = strings.Join(a, ",") == strings.Join(b, ",")
	}
	return attempt{out: fmt.Sprintf("az=%s rels=%s chk=%s bat=%s map=%s,%s,%s", az, relsOut, list(chk), bat, esc(s.typ+":"+s.id), esc(r.typ+":"+r.id), ctxString(merged)),
		agree: (az == list(allowed) || strings.HasPrefix(az, "E")) && batAgrees, native: list(chk) + "|" + bat}
}

func exec(line string, st *hx.Stats) string {
	t := fga.NewToks(line)
	t.Expect("az")
	m := fga.DecodeModel(t)
	tuples := fga.DecodeTuples(t, "tuples")
	kind := t.Next()
	pin := kind == "pin"
	if pin {
		kind = t.Next()
	}
	storeID, modelID, err := setup(m, tuples, pin)
	if err != nil {
		return "setup-error " + strings.ReplaceAll(err.Error(), "\t", " ")
	}
	pinnedModel = ""
	if pin {
		pinnedModel = modelID
		st.Inc("pinned-to-older-model")
	}
	pos := t.I
	var first attempt
	natives := map[string]bool{}
	for try := 0; try < 6; try++ {
		t.I = pos
		var a attempt
		switch kind {
		case "eval":
			a = runEval(storeID, t)
		case "evals":
			a = runEvals(storeID, t)
		case "ssearch":
			a = runSubjectSearch(storeID, t)
		case "rsearch":
			a = runResourceSearch(storeID, t)
		case "asearch":
			a = runActionSearch(storeID, m, t)
		default:
			return "badcase"
		}
		if try == 0 {
			first = a
		}
		if a.native != "" {
			natives[a.native] = true
		}
		if a.agree {
			if try > 0 {
				st.Inc("flaky-native")
				return a.out + " flaky"
			}
			return a.out
		}
	}
	if len(natives) > 1 {
		// the native answers themselves changed from one repetition to the next: nothing can be concluded
		st.Inc("flaky-native")
		return first.out + " flaky"
	}
	return first.out
}

// ---- generator ----

var paramNames = [][]string{
	{"x", "subject_x", "resource_x", "action_x", "subject_x", "resource_x"},
	{"y", "subject_y", "resource_y", "action_y"},
}

var vals = []int{0, 5, 10, 20}

// splitCtx distributes a native request context over the AuthZEN request: a parameter `subject_k` may travel as
// the subject property `k` (likewise resource / action), or in the request context; clashes are added on purpose.
func splitCtx(r *hx.Rand, kvs []fga.KV, withAction bool) (s, res, a, c props) {
	add := func(p *props, k string, v int) {
		p.present = true
		p.kv = append(p.kv, fga.KV{K: k, V: v})
	}
	for _, kv := range kvs {
		placed := false
		for _, pre := range []struct {
			p   string
			dst *props
		}{{"subject_", &s}, {"resource_", &res}, {"action_", &a}} {
			if strings.HasPrefix(kv.K, pre.p) && (pre.p != "action_" || withAction) {
				switch r.Intn(4) {
				case 0: // only as property
					add(pre.dst, strings.TrimPrefix(kv.K, pre.p), kv.V)
				case 1: // clash: property says something else, the context wins
					add(pre.dst, strings.TrimPrefix(kv.K, pre.p), hx.Pick(r, vals))
					add(&c, kv.K, kv.V)
				case 2: // only in the context
					add(&c, kv.K, kv.V)
				case 3: // same value in both
					add(pre.dst, strings.TrimPrefix(kv.K, pre.p), kv.V)
					add(&c, kv.K, kv.V)
				}
				placed = true
				break
			}
		}
		if !placed {
			add(&c, kv.K, kv.V)
			if r.Chance(1, 3) { // an unprefixed parameter as a property does NOT reach the condition
				add(&s, kv.K, hx.Pick(r, vals))
			}
		}
	}
	// noise
	if r.Chance(1, 4) {
		add(&s, hx.Pick(r, []string{"x", "y", "dept"}), hx.Pick(r, vals))
	}
	if r.Chance(1, 5) {
		add(&res, hx.Pick(r, []string{"x", "y", "owner"}), hx.Pick(r, vals))
	}
	if withAction && r.Chance(1, 6) {
		add(&a, hx.Pick(r, []string{"x", "y"}), hx.Pick(r, vals))
	}
	if r.Chance(1, 10) && !c.present {
		c.present = true // empty, non-nil context
		c.kv = []fga.KV{}
	}
	if r.Chance(1, 12) && !s.present {
		s.present = true
		s.kv = []fga.KV{}
	}
	return
}

func badName(r *hx.Rand, good string, max int) string {
	switch r.Intn(9) {
	case 0:
		return ""
	case 1:
		return good + ":z"
	case 2:
		return good + "#member"
	case 3:
		return good + "@z"
	case 4:
		return good + " z"
	case 5:
		return strings.Repeat("a", max+1)
	case 6:
		return strings.Repeat("a", max) // boundary: still valid
	case 7:
		return strings.Repeat("é", max) // runes, not bytes: still valid
	default:
		return good + "\tz"
	}
}

func fromReq(r *hx.Rand, rq fga.Req, withAction bool) item {
	ut, uid, urel := fga.UserParts(rq.User)
	if urel != "" {
		uid = uid + "#" + urel
	}
	ot, oid, _ := fga.UserParts(rq.Obj)
	s, res, a, c := splitCtx(r, rq.Ctx, withAction)
	it := item{s: entity{present: true, typ: ut, id: uid, props: s}, r: entity{present: true, typ: ot, id: oid, props: res},
		a: action{present: true, name: rq.Rel, props: a}, c: c}
	if r.Chance(1, 14) {
		switch r.Intn(5) {
		case 0:
			it.s.typ = badName(r, it.s.typ, 50)
		case 1:
			it.s.id = badName(r, it.s.id, 500)
		case 2:
			it.r.typ = badName(r, it.r.typ, 50)
		case 3:
			it.r.id = badName(r, it.r.id, 256)
		case 4:
			it.a.name = badName(r, it.a.name, 50)
		}
	}
	return it
}

func renameParams(r *hx.Rand, m *fga.Model) {
	for i, c := range m.Conds {
		if i < len(paramNames) {
			c.Param = hx.Pick(r, paramNames[i])
		}
	}
}

func gen(r *hx.Rand, n int, tier string, emit func(string), st *hx.Stats) {
	for i := 0; i < n; {
		c := r.Fork()
		m, _ := fga.GenModel(c, fga.DefaultOpts())
		if len(m.Types) < 2 {
			continue
		}
		renameParams(c, m)
		if _, err := typesystem.NewAndValidate(context.Background(), m.Proto("01HVMMBCMGZNT3SED4Z17ECXCA")); err != nil {
			continue
		}
		tuples := fga.GenTuples(c, m, 3+c.Intn(14))
		head := "az " + m.Encode() + " " + fga.EncodeTuples("tuples", tuples)
		if c.Chance(1, 3) {
			// two models in the store, every request of this case pinned to the older one
			head += " pin"
			st.Inc("stores-with-two-models")
		}
		genReq := func() fga.Req {
			rq := fga.GenReq(c, m, tuples)
			if len(tuples) > 0 && c.Chance(1, 3) {
				// straight from a stored tuple: the condition of the tuple makes the mapped context matter
				t := hx.Pick(c, tuples)
				if !strings.Contains(t.User, "#") {
					rq.Obj, rq.Rel, rq.User = t.Obj, t.Rel, t.User
				}
			}
			if strings.Contains(rq.User, "#") && c.Chance(3, 4) {
				rq.User = "user:" + hx.Pick(c, []string{"x", "y", "z"}) // usersets cannot be AuthZEN subjects (validation)
			}
			return rq
		}
		for k := 0; k < 5 && i < n; k++ {
			rq := genReq()
			switch kind := c.Intn(10); {
			case kind < 4:
				it := fromReq(c, rq, true)
				if c.Chance(1, 25) {
					switch c.Intn(3) {
					case 0:
						it.s = entity{}
					case 1:
						it.r = entity{}
					case 2:
						it.a = action{}
					}
				}
				emit(head + " eval " + it.enc())
				st.Inc("eval")
			case kind < 7:
				top := fromReq(c, rq, true)
				// top-level defaults: some present, some not
				def := top
				if c.Chance(1, 3) {
					def.s = entity{}
				}
				if c.Chance(1, 3) {
					def.r = entity{}
				}
				if c.Chance(1, 3) {
					def.a = action{}
				}
				if c.Chance(1, 2) {
					def.c = props{}
				}
				ni := c.Intn(7)
				if c.Chance(1, 10) {
					ni = 0
					if c.Chance(3, 4) {
						def = top
					}
				}
				var items []string
				claimed := false
				for j := 0; j < ni; j++ {
					it := fromReq(c, genReq(), true)
					// drop the fields that the defaults can supply (sometimes also those they cannot)
					if c.Chance(1, 2) && (def.s.present || c.Chance(1, 8)) {
						it.s = entity{}
					}
					if c.Chance(1, 2) && (def.r.present || c.Chance(1, 8)) {
						it.r = entity{}
					}
					if c.Chance(1, 2) && (def.a.present || c.Chance(1, 8)) {
						it.a = action{}
					}
					if c.Chance(1, 2) {
						if !claimed && it.c.present && c.Chance(2, 3) {
							def.c = it.c // the item relies on the inherited top-level context
							claimed = true
						}
						it.c = props{}
					}
					items = append(items, it.enc())
				}
				sem := hx.Pick(c, []string{"~", "0", "1", "2", "1", "2"})
				if c.Chance(1, 30) {
					sem = "7"
				}
				emit(fmt.Sprintf("%s evals %s %s %d %s", head, sem, def.enc(), ni, strings.Join(items, " ")))
				st.Inc("evals-sem" + sem)
			case kind < 8:
				it := fromReq(c, rq, true)
				styp := it.s.typ
				if c.Chance(1, 4) {
					styp = hx.Pick(c, []string{"user", "group", "team", "folder", "doc"})
				}
				emit(fmt.Sprintf("%s ssearch %s %s %s %s %s", head, esc(styp), it.s.props.enc(), it.r.enc(), it.a.enc(), it.c.enc()))
				st.Inc("ssearch")
			case kind < 9:
				it := fromReq(c, rq, true)
				emit(fmt.Sprintf("%s rsearch %s %s %s %s %s", head, it.s.enc(), it.a.enc(), esc(it.r.typ), it.r.props.enc(), it.c.enc()))
				st.Inc("rsearch")
			default:
				it := fromReq(c, rq, false)
				if c.Chance(1, 15) {
					it.r.typ = "nosuchtype"
				}
				emit(fmt.Sprintf("%s asearch %s %s %s", head, it.s.enc(), it.r.enc(), it.c.enc()))
				st.Inc("asearch")
			}
			i++
		}
	}
}

func main() { hx.Main(hx.Harness{Gen: gen, Exec: exec}) }

// splitListTok is the inverse of list().
func splitListTok(s string) []string {
	if s == "[]" || s == "" {
		return nil
	}
	return strings.Split(s, ",")
}
