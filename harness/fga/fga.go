// Package fga is shared by the harnesses that need authorization models, tuples and requests:
// plain Go mirrors of the Lean vocabulary (lean/OpenFGAVerif/Spec/Vocab.lean), the case-line encoding
// parsed by lean/OpenFGAVerif/Driver/FgaCodec.lean, conversion to the real protobuf types, and a
// type-directed generator.
package fga

import (
	"fmt"
	"sort"
	"strconv"
	"strings"

	openfgav1 "github.com/openfga/api/proto/openfga/v1"
	"google.golang.org/protobuf/types/known/structpb"
)

type Rewrite struct {
	Kind     string // this | cu | ttu | union | inter | diff
	Rel      string // cu
	Tupleset string // ttu
	Computed string // ttu
	Kids     []*Rewrite
}

type Restr struct {
	Typ  string
	Rel  string
	Wild bool
	Cond string
}

type RelDef struct {
	Name    string
	Rewrite *Rewrite
	Restrs  []Restr
}

type TypeDef struct {
	Name string
	Rels []*RelDef
}

type CondDef struct {
	Name  string
	Param string
	Op    string // lt le eq ne ge gt
	Const int
}

type Model struct {
	Types []*TypeDef
	Conds []*CondDef
}

type KV struct {
	K string
	V int
}

type Tuple struct {
	Obj, Rel, User, Cond string
	Ctx                  []KV
}

type Req struct {
	Obj, Rel, User string
	Ctx            []KV
}

func dash(s string) string {
	if s == "" {
		return "-"
	}
	return s
}

func b2i(b bool) int {
	if b {
		return 1
	}
	return 0
}

// ---- encoding (see FgaCodec.lean) ----

func (r *Rewrite) enc(sb *strings.Builder) {
	switch r.Kind {
	case "this":
		sb.WriteString(" this")
	case "cu":
		sb.WriteString(" cu " + r.Rel)
	case "ttu":
		sb.WriteString(" ttu " + r.Tupleset + " " + r.Computed)
	case "union", "inter":
		fmt.Fprintf(sb, " %s %d", r.Kind, len(r.Kids))
		for _, k := range r.Kids {
			k.enc(sb)
		}
	case "diff":
		sb.WriteString(" diff")
		r.Kids[0].enc(sb)
		r.Kids[1].enc(sb)
	}
}

func (m *Model) Encode() string {
	var sb strings.Builder
	fmt.Fprintf(&sb, "model %d", len(m.Types))
	for _, t := range m.Types {
		fmt.Fprintf(&sb, " type %s %d", t.Name, len(t.Rels))
		for _, r := range t.Rels {
			sb.WriteString(" rel " + r.Name)
			r.Rewrite.enc(&sb)
			fmt.Fprintf(&sb, " %d", len(r.Restrs))
			for _, x := range r.Restrs {
				fmt.Fprintf(&sb, " r %s %s %d %s", x.Typ, dash(x.Rel), b2i(x.Wild), dash(x.Cond))
			}
		}
	}
	fmt.Fprintf(&sb, " %d", len(m.Conds))
	for _, c := range m.Conds {
		fmt.Fprintf(&sb, " cond %s %s %s %d", c.Name, c.Param, c.Op, c.Const)
	}
	return sb.String()
}

func encCtx(sb *strings.Builder, ctx []KV) {
	fmt.Fprintf(sb, " %d", len(ctx))
	for _, kv := range ctx {
		fmt.Fprintf(sb, " %s %d", kv.K, kv.V)
	}
}

func EncodeTuples(kw string, ts []Tuple) string {
	var sb strings.Builder
	fmt.Fprintf(&sb, "%s %d", kw, len(ts))
	for _, t := range ts {
		fmt.Fprintf(&sb, " t %s %s %s %s", t.Obj, t.Rel, t.User, dash(t.Cond))
		encCtx(&sb, t.Ctx)
	}
	return sb.String()
}

func (r Req) Encode() string {
	var sb strings.Builder
	fmt.Fprintf(&sb, "req %s %s %s", r.Obj, r.Rel, r.User)
	encCtx(&sb, r.Ctx)
	return sb.String()
}

func EncodeAux(aux map[string]bool) string {
	keys := make([]string, 0, len(aux))
	for k := range aux {
		keys = append(keys, k)
	}
	sort.Strings(keys)
	var sb strings.Builder
	fmt.Fprintf(&sb, "aux %d", len(keys))
	for _, k := range keys {
		fmt.Fprintf(&sb, " %s %d", k, b2i(aux[k]))
	}
	return sb.String()
}

// ---- decoding (the executor re-reads the case line) ----

type Toks struct {
	T []string
	I int
}

func NewToks(s string) *Toks { return &Toks{T: strings.Fields(s)} }

func (t *Toks) Next() string {
	if t.I >= len(t.T) {
		panic("case line ended early")
	}
	s := t.T[t.I]
	t.I++
	return s
}

func (t *Toks) Int() int {
	n, err := strconv.Atoi(t.Next())
	if err != nil {
		panic("expected integer in case line")
	}
	return n
}

func (t *Toks) Expect(s string) {
	if g := t.Next(); g != s {
		panic("case line: expected " + s + " got " + g)
	}
}

func undash(s string) string {
	if s == "-" {
		return ""
	}
	return s
}

func decRewrite(t *Toks) *Rewrite {
	k := t.Next()
	switch k {
	case "this":
		return &Rewrite{Kind: "this"}
	case "cu":
		return &Rewrite{Kind: "cu", Rel: t.Next()}
	case "ttu":
		a := t.Next()
		b := t.Next()
		return &Rewrite{Kind: "ttu", Tupleset: a, Computed: b}
	case "union", "inter":
		n := t.Int()
		r := &Rewrite{Kind: k}
		for i := 0; i < n; i++ {
			r.Kids = append(r.Kids, decRewrite(t))
		}
		return r
	case "diff":
		b := decRewrite(t)
		s := decRewrite(t)
		return &Rewrite{Kind: "diff", Kids: []*Rewrite{b, s}}
	}
	panic("bad rewrite token " + k)
}

func DecodeModel(t *Toks) *Model {
	t.Expect("model")
	m := &Model{}
	nt := t.Int()
	for i := 0; i < nt; i++ {
		t.Expect("type")
		td := &TypeDef{Name: t.Next()}
		nr := t.Int()
		for j := 0; j < nr; j++ {
			t.Expect("rel")
			rd := &RelDef{Name: t.Next()}
			rd.Rewrite = decRewrite(t)
			nx := t.Int()
			for k := 0; k < nx; k++ {
				t.Expect("r")
				x := Restr{Typ: t.Next()}
				x.Rel = undash(t.Next())
				x.Wild = t.Int() == 1
				x.Cond = undash(t.Next())
				rd.Restrs = append(rd.Restrs, x)
			}
			td.Rels = append(td.Rels, rd)
		}
		m.Types = append(m.Types, td)
	}
	nc := t.Int()
	for i := 0; i < nc; i++ {
		t.Expect("cond")
		c := &CondDef{Name: t.Next(), Param: t.Next(), Op: t.Next()}
		c.Const = t.Int()
		m.Conds = append(m.Conds, c)
	}
	return m
}

func decCtx(t *Toks) []KV {
	n := t.Int()
	var out []KV
	for i := 0; i < n; i++ {
		k := t.Next()
		out = append(out, KV{k, t.Int()})
	}
	return out
}

func DecodeTuples(t *Toks, kw string) []Tuple {
	t.Expect(kw)
	n := t.Int()
	var out []Tuple
	for i := 0; i < n; i++ {
		t.Expect("t")
		x := Tuple{Obj: t.Next(), Rel: t.Next(), User: t.Next()}
		x.Cond = undash(t.Next())
		x.Ctx = decCtx(t)
		out = append(out, x)
	}
	return out
}

func DecodeReq(t *Toks) Req {
	t.Expect("req")
	r := Req{Obj: t.Next(), Rel: t.Next(), User: t.Next()}
	r.Ctx = decCtx(t)
	return r
}

// SkipAux skips an aux section (the executor recomputes nothing from it).
func SkipAux(t *Toks) {
	t.Expect("aux")
	n := t.Int()
	for i := 0; i < n; i++ {
		t.Next()
		t.Next()
	}
}

// ---- conversion to the real protobuf types ----

var opText = map[string]string{"lt": "<", "le": "<=", "eq": "==", "ne": "!=", "ge": ">=", "gt": ">"}

func (r *Rewrite) Proto() *openfgav1.Userset {
	switch r.Kind {
	case "this":
		return &openfgav1.Userset{Userset: &openfgav1.Userset_This{This: &openfgav1.DirectUserset{}}}
	case "cu":
		return &openfgav1.Userset{Userset: &openfgav1.Userset_ComputedUserset{ComputedUserset: &openfgav1.ObjectRelation{Relation: r.Rel}}}
	case "ttu":
		return &openfgav1.Userset{Userset: &openfgav1.Userset_TupleToUserset{TupleToUserset: &openfgav1.TupleToUserset{
			Tupleset:        &openfgav1.ObjectRelation{Relation: r.Tupleset},
			ComputedUserset: &openfgav1.ObjectRelation{Relation: r.Computed},
		}}}
	case "union":
		var kids []*openfgav1.Userset
		for _, k := range r.Kids {
			kids = append(kids, k.Proto())
		}
		return &openfgav1.Userset{Userset: &openfgav1.Userset_Union{Union: &openfgav1.Usersets{Child: kids}}}
	case "inter":
		var kids []*openfgav1.Userset
		for _, k := range r.Kids {
			kids = append(kids, k.Proto())
		}
		return &openfgav1.Userset{Userset: &openfgav1.Userset_Intersection{Intersection: &openfgav1.Usersets{Child: kids}}}
	case "diff":
		return &openfgav1.Userset{Userset: &openfgav1.Userset_Difference{Difference: &openfgav1.Difference{Base: r.Kids[0].Proto(), Subtract: r.Kids[1].Proto()}}}
	}
	panic("bad rewrite kind")
}

func (x Restr) Proto() *openfgav1.RelationReference {
	rr := &openfgav1.RelationReference{Type: x.Typ, Condition: x.Cond}
	if x.Wild {
		rr.RelationOrWildcard = &openfgav1.RelationReference_Wildcard{Wildcard: &openfgav1.Wildcard{}}
	} else if x.Rel != "" {
		rr.RelationOrWildcard = &openfgav1.RelationReference_Relation{Relation: x.Rel}
	}
	return rr
}

// Proto builds the authorization model (schema 1.1) with the given id.
func (m *Model) Proto(id string) *openfgav1.AuthorizationModel {
	am := &openfgav1.AuthorizationModel{Id: id, SchemaVersion: "1.1"}
	for _, t := range m.Types {
		td := &openfgav1.TypeDefinition{Type: t.Name}
		if len(t.Rels) > 0 {
			td.Relations = map[string]*openfgav1.Userset{}
			td.Metadata = &openfgav1.Metadata{Relations: map[string]*openfgav1.RelationMetadata{}}
		}
		for _, r := range t.Rels {
			td.Relations[r.Name] = r.Rewrite.Proto()
			var refs []*openfgav1.RelationReference
			for _, x := range r.Restrs {
				refs = append(refs, x.Proto())
			}
			// A relation without direct assignments may come with an empty metadata entry (what the DSL transformer
			// emits) or with none at all (models written as JSON through the API): both are valid and must behave
			// alike, so both shapes are exercised (chosen by a fixed function of the names, not by the PRNG, so
			// that the case streams keep their draws).
			if len(refs) == 0 && (len(t.Name)+len(r.Name))%2 == 0 {
				continue
			}
			td.Metadata.Relations[r.Name] = &openfgav1.RelationMetadata{DirectlyRelatedUserTypes: refs}
		}
		am.TypeDefinitions = append(am.TypeDefinitions, td)
	}
	if len(m.Conds) > 0 {
		am.Conditions = map[string]*openfgav1.Condition{}
		for _, c := range m.Conds {
			am.Conditions[c.Name] = &openfgav1.Condition{
				Name:       c.Name,
				Expression: fmt.Sprintf("%s %s %d", c.Param, opText[c.Op], c.Const),
				Parameters: map[string]*openfgav1.ConditionParamTypeRef{
					c.Param: {TypeName: openfgav1.ConditionParamTypeRef_TYPE_NAME_INT},
				},
			}
		}
	}
	return am
}

func CtxStruct(ctx []KV) *structpb.Struct {
	if ctx == nil {
		return nil
	}
	m := map[string]interface{}{}
	for _, kv := range ctx {
		m[kv.K] = float64(kv.V)
	}
	s, err := structpb.NewStruct(m)
	if err != nil {
		panic(err)
	}
	return s
}

func (t Tuple) Key() *openfgav1.TupleKey {
	tk := &openfgav1.TupleKey{Object: t.Obj, Relation: t.Rel, User: t.User}
	if t.Cond != "" {
		c := t.Ctx
		if c == nil {
			c = []KV{}
		}
		tk.Condition = &openfgav1.RelationshipCondition{Name: t.Cond, Context: CtxStruct(c)}
	}
	return tk
}

func Keys(ts []Tuple) []*openfgav1.TupleKey {
	out := make([]*openfgav1.TupleKey, 0, len(ts))
	for _, t := range ts {
		out = append(out, t.Key())
	}
	return out
}

func (t Tuple) String() string { return t.Obj + "#" + t.Rel + "@" + t.User }

// FindRel returns the relation definition or nil.
func (m *Model) FindRel(typ, rel string) *RelDef {
	for _, t := range m.Types {
		if t.Name == typ {
			for _, r := range t.Rels {
				if r.Name == rel {
					return r
				}
			}
		}
	}
	return nil
}

func TypeOf(obj string) string {
	if i := strings.IndexByte(obj, ':'); i >= 0 {
		return obj[:i]
	}
	return ""
}

// UserParts splits "type:id#rel" into (type, id, rel).
func UserParts(u string) (string, string, string) {
	rel := ""
	if i := strings.LastIndexByte(u, '#'); i >= 0 {
		rel = u[i+1:]
		u = u[:i]
	}
	typ, id := u, ""
	if i := strings.IndexByte(u, ':'); i >= 0 {
		typ, id = u[:i], u[i+1:]
	}
	return typ, id, rel
}
