package fga

import (
	"context"
	"fmt"
	"hash/fnv"
	"sort"

	"github.com/openfga/openfga/pkg/typesystem"
	"github.com/openfga/openfga/verifharness/hx"
)

// The generator is type-directed: models are assembled from rewrite templates over a small
// vocabulary and then filtered through the real typesystem.NewAndValidate; tuples are drawn from the
// type restrictions (mostly valid, a share deliberately invalid = "left over from another model");
// requests use object, wildcard and userset subjects.

var objTypes = []string{"group", "team", "folder", "doc"}
var relNames = []string{"member", "owner", "editor", "viewer", "blocked", "admin"}
var ids = []string{"a", "b", "c"}
var userIDs = []string{"x", "y", "z"}

// ---- ids on both sides of '#', '*' and ':' ----
//
// A small share (1 in 20) of the entities `type:id` of a case get an id that starts with a character
// sorting before '#' ("!"), between '#' and '*' ("$") or between '*' and ':' ("+"); the plain ids sort
// after all three.  pkg/tuple's validators accept them (IsValidObject / IsValidUserID / IsValidUserset
// reject only '#', ':', ' ' and control characters inside an id), so do the protobuf patterns.  Code
// that relies on where `type:*` (or a '#' / ':' boundary) lands in a sorted list of users or objects
// thus meets both orders.  The choice is a pure function of (model, type, id): it consumes no
// randomness — the streams of all generators are what they were before — and an entity is renamed
// consistently wherever it occurs (tuple object, tuple user, userset object, request).
var oddPrefixes = []string{"!", "$", "+"}

// OddID returns the id under which entity typ:id appears in cases over model m.
func OddID(m *Model, typ, id string) string {
	if id == "" || id == "*" {
		return id
	}
	h := fnv.New64a()
	h.Write([]byte(m.Encode()))
	h.Write([]byte{0})
	h.Write([]byte(typ))
	h.Write([]byte{0})
	h.Write([]byte(id))
	v := h.Sum64() >> 13
	if v%20 != 0 {
		return id
	}
	return oddPrefixes[(v/20)%uint64(len(oddPrefixes))] + id
}

// Ent spells entity typ:id with OddID applied.
func Ent(m *Model, typ, id string) string { return typ + ":" + OddID(m, typ, id) }

type GenOpts struct {
	MaxTypes   int
	Conditions bool
	Exclusion  bool
	Intersect  bool
}

func DefaultOpts() GenOpts { return GenOpts{MaxTypes: 3, Conditions: true, Exclusion: true, Intersect: true} }

// GenModel returns a model that passes NewAndValidate (retries internally) and its typesystem.
func GenModel(r *hx.Rand, o GenOpts) (*Model, *typesystem.TypeSystem) {
	for try := 0; ; try++ {
		m := genModelOnce(r, o)
		ts, err := typesystem.NewAndValidate(context.Background(), m.Proto("01HVMMBCMGZNT3SED4Z17ECXCA"))
		if err == nil {
			return m, ts
		}
		if try > 200 {
			panic("generator cannot produce a valid model: " + err.Error())
		}
	}
}

func genModelOnce(r *hx.Rand, o GenOpts) *Model {
	m := &Model{Types: []*TypeDef{{Name: "user"}}}
	if o.Conditions && r.Chance(3, 5) {
		m.Conds = append(m.Conds, &CondDef{Name: "c1", Param: "x", Op: hx.Pick(r, []string{"lt", "le", "eq", "ge"}), Const: 10})
		if r.Chance(1, 3) {
			m.Conds = append(m.Conds, &CondDef{Name: "c2", Param: "y", Op: hx.Pick(r, []string{"gt", "ne"}), Const: 3})
		}
	}
	nt := 1 + r.Intn(o.MaxTypes)
	perm := append([]string{}, objTypes...)
	hx.Shuffle(r, perm)
	names := perm[:nt]
	sort.Strings(names)
	// first decide relation names per type so that references can point anywhere
	relsOf := map[string][]string{}
	for _, tn := range names {
		nr := 1 + r.Intn(4)
		rp := append([]string{}, relNames...)
		hx.Shuffle(r, rp)
		rs := rp[:nr]
		sort.Strings(rs)
		relsOf[tn] = rs
	}
	// tupleset relations ("parent") are direct-only
	parentOf := map[string][]string{}
	for _, tn := range names {
		if r.Chance(1, 2) {
			var targets []string
			for _, t2 := range names {
				if r.Chance(1, 2) {
					targets = append(targets, t2)
				}
			}
			if len(targets) > 0 {
				parentOf[tn] = targets
			}
		}
	}
	condOf := func() string {
		if len(m.Conds) > 0 && r.Chance(1, 3) {
			return hx.Pick(r, m.Conds).Name
		}
		return ""
	}
	for _, tn := range names {
		td := &TypeDef{Name: tn}
		if targets, ok := parentOf[tn]; ok {
			rd := &RelDef{Name: "parent", Rewrite: &Rewrite{Kind: "this"}}
			for _, t2 := range targets {
				rd.Restrs = append(rd.Restrs, Restr{Typ: t2, Cond: condOf()})
			}
			td.Rels = append(td.Rels, rd)
		}
		for _, rn := range relsOf[tn] {
			rd := &RelDef{Name: rn}
			hasThis := false
			var leaf func(depth int) *Rewrite
			leaf = func(depth int) *Rewrite {
				k := r.Intn(10)
				switch {
				case k < 4:
					hasThis = true
					return &Rewrite{Kind: "this"}
				case k < 7 && len(relsOf[tn]) > 1:
					other := hx.Pick(r, relsOf[tn])
					if other == rn {
						hasThis = true
						return &Rewrite{Kind: "this"}
					}
					return &Rewrite{Kind: "cu", Rel: other}
				case k < 9 && len(parentOf[tn]) > 0:
					t2 := hx.Pick(r, parentOf[tn])
					return &Rewrite{Kind: "ttu", Tupleset: "parent", Computed: hx.Pick(r, relsOf[t2])}
				default:
					hasThis = true
					return &Rewrite{Kind: "this"}
				}
			}
			var tree func(depth int) *Rewrite
			tree = func(depth int) *Rewrite {
				if depth >= 2 || r.Chance(1, 2) {
					return leaf(depth)
				}
				switch k := r.Intn(10); {
				case k < 5:
					n := 2 + r.Intn(2)
					rw := &Rewrite{Kind: "union"}
					for i := 0; i < n; i++ {
						rw.Kids = append(rw.Kids, tree(depth+1))
					}
					return rw
				case k < 7 && o.Intersect:
					return &Rewrite{Kind: "inter", Kids: []*Rewrite{tree(depth + 1), tree(depth + 1)}}
				case k < 10 && o.Exclusion:
					return &Rewrite{Kind: "diff", Kids: []*Rewrite{tree(depth + 1), tree(depth + 1)}}
				default:
					return leaf(depth)
				}
			}
			rd.Rewrite = tree(0)
			if hasThis {
				// type restrictions
				if r.Chance(4, 5) {
					rd.Restrs = append(rd.Restrs, Restr{Typ: "user", Cond: condOf()})
				}
				if r.Chance(1, 4) {
					rd.Restrs = append(rd.Restrs, Restr{Typ: "user", Wild: true, Cond: condOf()})
				}
				nus := r.Intn(3)
				for i := 0; i < nus; i++ {
					t2 := hx.Pick(r, names)
					rd.Restrs = append(rd.Restrs, Restr{Typ: t2, Rel: hx.Pick(r, relsOf[t2]), Cond: condOf()})
					if r.Chance(1, 3) {
						// a sibling restriction on the same type: other relation and/or other condition
						rd.Restrs = append(rd.Restrs, Restr{Typ: t2, Rel: hx.Pick(r, relsOf[t2]), Cond: condOf()})
					}
				}
				if r.Chance(1, 6) {
					rd.Restrs = append(rd.Restrs, Restr{Typ: "user", Cond: condOf()}, Restr{Typ: "user", Wild: true, Cond: condOf()})
				}
				if len(rd.Restrs) == 0 {
					rd.Restrs = append(rd.Restrs, Restr{Typ: "user"})
				}
				rd.Restrs = dedupRestrs(rd.Restrs)
			}
			td.Rels = append(td.Rels, rd)
		}
		m.Types = append(m.Types, td)
	}
	return m
}

func dedupRestrs(rs []Restr) []Restr {
	seen := map[Restr]bool{}
	var out []Restr
	for _, x := range rs {
		if !seen[x] {
			seen[x] = true
			out = append(out, x)
		}
	}
	return out
}

// ---- stratification ("no negation through recursion") ----

type depEdge struct {
	to  string
	neg bool
}

func (m *Model) deps() map[string][]depEdge {
	g := map[string][]depEdge{}
	for _, t := range m.Types {
		for _, rd := range t.Rels {
			from := t.Name + "#" + rd.Name
			var walk func(rw *Rewrite, neg bool)
			walk = func(rw *Rewrite, neg bool) {
				switch rw.Kind {
				case "this":
					for _, x := range rd.Restrs {
						if x.Rel != "" {
							g[from] = append(g[from], depEdge{x.Typ + "#" + x.Rel, neg})
						}
					}
				case "cu":
					g[from] = append(g[from], depEdge{t.Name + "#" + rw.Rel, neg})
				case "ttu":
					if ts := m.FindRel(t.Name, rw.Tupleset); ts != nil {
						for _, x := range ts.Restrs {
							g[from] = append(g[from], depEdge{x.Typ + "#" + rw.Computed, neg})
						}
					}
				case "union", "inter":
					for _, k := range rw.Kids {
						walk(k, neg)
					}
				case "diff":
					walk(rw.Kids[0], neg)
					walk(rw.Kids[1], true)
				}
			}
			walk(rd.Rewrite, false)
		}
	}
	return g
}

// Stratified reports whether no dependency cycle goes through a subtracted operand.
func (m *Model) Stratified() bool {
	g := m.deps()
	reach := func(from, to string) bool {
		seen := map[string]bool{}
		st := []string{from}
		for len(st) > 0 {
			n := st[len(st)-1]
			st = st[:len(st)-1]
			if n == to {
				return true
			}
			if seen[n] {
				continue
			}
			seen[n] = true
			for _, e := range g[n] {
				st = append(st, e.to)
			}
		}
		return false
	}
	for from, es := range g {
		for _, e := range es {
			if e.neg && reach(e.to, from) {
				return false
			}
		}
	}
	return true
}

// HasKind reports whether any rewrite of the model contains the given node kind.
func (m *Model) HasKind(kind string) bool {
	var has func(rw *Rewrite) bool
	has = func(rw *Rewrite) bool {
		if rw.Kind == kind {
			return true
		}
		for _, k := range rw.Kids {
			if has(k) {
				return true
			}
		}
		return false
	}
	for _, t := range m.Types {
		for _, rd := range t.Rels {
			if has(rd.Rewrite) {
				return true
			}
		}
	}
	return false
}

// ---- tuples and requests ----

func (m *Model) objTypeNames() []string {
	var out []string
	for _, t := range m.Types {
		if len(t.Rels) > 0 {
			out = append(out, t.Name)
		}
	}
	return out
}

func genCtx(r *hx.Rand, m *Model, cond string) []KV {
	var out []KV
	for _, c := range m.Conds {
		if c.Name != cond {
			continue
		}
		switch r.Intn(5) {
		case 0, 1: // satisfied / falsified depending on op, fixed by value
			out = append(out, KV{c.Param, hx.Pick(r, []int{0, 5, 10, 20})})
		case 2:
			out = append(out, KV{c.Param, c.Const})
		default: // parameter left to the request context
		}
	}
	return out
}

// GenTuple draws one tuple for a relation that has `this` in its rewrite; valid with high probability.
func GenTuple(r *hx.Rand, m *Model) (Tuple, bool) {
	var cands []struct {
		t  string
		rd *RelDef
	}
	for _, t := range m.Types {
		for _, rd := range t.Rels {
			if len(rd.Restrs) > 0 {
				cands = append(cands, struct {
					t  string
					rd *RelDef
				}{t.Name, rd})
			}
		}
	}
	if len(cands) == 0 {
		return Tuple{}, false
	}
	c := hx.Pick(r, cands)
	tu := Tuple{Obj: Ent(m, c.t, hx.Pick(r, ids)), Rel: c.rd.Name}
	x := hx.Pick(r, c.rd.Restrs)
	if r.Chance(1, 8) {
		// left over from a sibling model: arbitrary restriction shape
		x = Restr{Typ: hx.Pick(r, append([]string{"user"}, m.objTypeNames()...)), Wild: r.Chance(1, 4)}
		if !x.Wild && x.Typ != "user" && r.Chance(1, 2) {
			if rd := m.Types; len(rd) > 0 {
				for _, t := range m.Types {
					if t.Name == x.Typ && len(t.Rels) > 0 {
						x.Rel = hx.Pick(r, t.Rels).Name
					}
				}
			}
		}
		if len(m.Conds) > 0 && r.Chance(1, 3) {
			x.Cond = hx.Pick(r, m.Conds).Name
		}
	}
	switch {
	case x.Wild:
		tu.User = x.Typ + ":*"
	case x.Rel != "":
		tu.User = Ent(m, x.Typ, hx.Pick(r, ids)) + "#" + x.Rel
	case x.Typ == "user":
		tu.User = Ent(m, "user", hx.Pick(r, userIDs))
	default:
		tu.User = Ent(m, x.Typ, hx.Pick(r, ids))
	}
	tu.Cond = x.Cond
	// condition mismatches (a tuple written under a model version whose restriction carried another / no
	// condition): exercises validateCondition on every shape of user
	if len(m.Conds) > 0 && r.Chance(1, 6) {
		if tu.Cond != "" && r.Chance(1, 2) {
			tu.Cond = ""
		} else {
			tu.Cond = hx.Pick(r, m.Conds).Name
		}
	}
	if tu.Cond != "" {
		tu.Ctx = genCtx(r, m, tu.Cond)
	}
	// a leftover of a model version whose condition was retired since: the tuple names a condition the current model
	// does not define (never valid for read: it must be ignored, not evaluated). Chosen by a hash of the tuple, not by
	// the PRNG, so that the case streams keep their draws.
	if tu.Cond != "" {
		h := fnv.New64a()
		h.Write([]byte(m.Encode()))
		h.Write([]byte{0})
		h.Write([]byte(tu.String()))
		if (h.Sum64()>>17)%12 == 0 {
			tu.Cond = "c9"
		}
	}
	return tu, true
}

// GenTuples draws up to n tuples with distinct keys.
func GenTuples(r *hx.Rand, m *Model, n int) []Tuple {
	seen := map[string]bool{}
	var out []Tuple
	for i := 0; i < n*2 && len(out) < n; i++ {
		t, ok := GenTuple(r, m)
		if !ok {
			break
		}
		if seen[t.String()] {
			continue
		}
		seen[t.String()] = true
		out = append(out, t)
	}
	return out
}

func GenReqCtx(r *hx.Rand, m *Model) []KV {
	var out []KV
	for _, c := range m.Conds {
		if r.Chance(3, 5) {
			out = append(out, KV{c.Param, hx.Pick(r, []int{0, 5, 10, 20})})
		}
	}
	return out
}

// GenReq draws a check request: object, wildcard or userset subject.
func GenReq(r *hx.Rand, m *Model, tuples []Tuple) Req {
	ots := m.objTypeNames()
	ot := hx.Pick(r, ots)
	var rq Req
	// probe one stored tuple directly (its own user as subject): makes the validity and the condition of
	// every kind of tuple (object, wildcard, userset user) observable in the answer
	if len(tuples) > 0 && r.Chance(1, 5) {
		t := hx.Pick(r, tuples)
		return Req{Obj: t.Obj, Rel: t.Rel, User: t.User, Ctx: GenReqCtx(r, m)}
	}
	// prefer objects that occur in tuples
	if len(tuples) > 0 && r.Chance(3, 4) {
		t := hx.Pick(r, tuples)
		rq.Obj = t.Obj
		ot = TypeOf(t.Obj)
	} else {
		rq.Obj = Ent(m, ot, hx.Pick(r, ids))
	}
	for _, t := range m.Types {
		if t.Name == ot {
			rq.Rel = hx.Pick(r, t.Rels).Name
		}
	}
	switch k := r.Intn(10); {
	case k < 7:
		rq.User = Ent(m, "user", hx.Pick(r, userIDs))
	case k < 8:
		rq.User = "user:*"
	default:
		t2 := hx.Pick(r, ots)
		for _, t := range m.Types {
			if t.Name == t2 {
				rq.User = Ent(m, t2, hx.Pick(r, ids)) + "#" + hx.Pick(r, t.Rels).Name
			}
		}
	}
	rq.Ctx = GenReqCtx(r, m)
	return rq
}

// Aux dumps what the real typesystem says about pruning and strategy applicability for this request
// subject: path:<type>#<rel>, urec:<type>#<rel>, w2:<type>#<rel>:<utype>#<urel>, tw2/trec:<type>#<rel>:<tupleset>:<computed>.
func Aux(m *Model, ts *typesystem.TypeSystem, user string) map[string]bool {
	aux := map[string]bool{}
	ut, _, _ := UserParts(user)
	for _, t := range m.Types {
		for _, rd := range t.Rels {
			node := t.Name + "#" + rd.Name
			ok, err := ts.PathExists(user, rd.Name, t.Name)
			if err != nil {
				ok = true
				aux["patherr:"+node] = true
			}
			aux["path:"+node] = ok
			aux["urec:"+node] = ts.UsersetUseRecursiveResolver(t.Name, rd.Name, ut)
			for _, x := range rd.Restrs {
				if x.Rel != "" {
					aux[fmt.Sprintf("w2:%s:%s#%s", node, x.Typ, x.Rel)] = ts.UsersetUseWeight2Resolver(t.Name, rd.Name, ut, x.Proto())
				}
			}
			var walk func(rw *Rewrite)
			walk = func(rw *Rewrite) {
				if rw.Kind == "ttu" {
					p := rw.Proto().GetTupleToUserset()
					aux[fmt.Sprintf("tw2:%s:%s:%s", node, rw.Tupleset, rw.Computed)] = ts.TTUUseWeight2Resolver(t.Name, rd.Name, ut, p)
					aux[fmt.Sprintf("trec:%s:%s:%s", node, rw.Tupleset, rw.Computed)] = ts.TTUUseRecursiveResolver(t.Name, rd.Name, ut, p)
				}
				for _, k := range rw.Kids {
					walk(k)
				}
			}
			walk(rd.Rewrite)
		}
	}
	return aux
}

// GenStrategyModel builds models on which the planner has a choice: weight-two eligible usersets and
// tuple-to-usersets (the referenced relation is a set expression over directly assignable relations)
// and recursive relations (self-referencing userset / TTU).
func GenStrategyModel(r *hx.Rand) (*Model, *typesystem.TypeSystem) {
	for try := 0; ; try++ {
		m := &Model{Types: []*TypeDef{{Name: "user"}}}
		if r.Chance(2, 3) {
			m.Conds = append(m.Conds, &CondDef{Name: "c1", Param: "x", Op: hx.Pick(r, []string{"lt", "ge"}), Const: 10})
		}
		cond := func() string {
			if len(m.Conds) > 0 && r.Chance(1, 3) {
				return "c1"
			}
			return ""
		}
		direct := func(name string) *RelDef {
			rd := &RelDef{Name: name, Rewrite: &Rewrite{Kind: "this"}, Restrs: []Restr{{Typ: "user", Cond: cond()}}}
			if r.Chance(1, 3) {
				rd.Restrs = append(rd.Restrs, Restr{Typ: "user", Wild: true, Cond: cond()})
			}
			if r.Chance(1, 5) {
				rd.Restrs = append(rd.Restrs, Restr{Typ: "user", Cond: "c1"})
				if len(m.Conds) == 0 {
					rd.Restrs = rd.Restrs[:len(rd.Restrs)-1]
				}
			}
			rd.Restrs = dedupRestrs(rd.Restrs)
			return rd
		}
		var setTree func(d int, self *bool) *Rewrite
		setTree = func(d int, self *bool) *Rewrite {
			if d >= 2 || r.Chance(2, 5) {
				switch r.Intn(4) {
				case 0:
					*self = true
					return &Rewrite{Kind: "this"}
				default:
					return &Rewrite{Kind: "cu", Rel: hx.Pick(r, []string{"a", "b", "c"})}
				}
			}
			switch r.Intn(3) {
			case 0:
				return &Rewrite{Kind: "union", Kids: []*Rewrite{setTree(d+1, self), setTree(d+1, self)}}
			case 1:
				return &Rewrite{Kind: "inter", Kids: []*Rewrite{setTree(d+1, self), setTree(d+1, self)}}
			default:
				return &Rewrite{Kind: "diff", Kids: []*Rewrite{setTree(d+1, self), setTree(d+1, self)}}
			}
		}
		grp := &TypeDef{Name: "group", Rels: []*RelDef{direct("a"), direct("b"), direct("c")}}
		self := false
		mem := &RelDef{Name: "member", Rewrite: setTree(0, &self)}
		if self {
			mem.Restrs = []Restr{{Typ: "user", Cond: cond()}}
		}
		grp.Rels = append(grp.Rels, mem)
		// recursive userset
		grp.Rels = append(grp.Rels, &RelDef{Name: "rmember", Rewrite: &Rewrite{Kind: "this"},
			Restrs: []Restr{{Typ: "user"}, {Typ: "group", Rel: "rmember", Cond: cond()}}})
		fld := &TypeDef{Name: "folder", Rels: []*RelDef{
			{Name: "parent", Rewrite: &Rewrite{Kind: "this"}, Restrs: []Restr{{Typ: "folder", Cond: cond()}}},
			direct("a"), direct("b"),
			{Name: "viewer", Rewrite: &Rewrite{Kind: hx.Pick(r, []string{"union", "inter", "diff"}), Kids: []*Rewrite{{Kind: "cu", Rel: "a"}, {Kind: "cu", Rel: "b"}}}},
			{Name: "rviewer", Rewrite: &Rewrite{Kind: "union", Kids: []*Rewrite{{Kind: "this"}, {Kind: "ttu", Tupleset: "parent", Computed: "rviewer"}}}, Restrs: []Restr{{Typ: "user", Cond: cond()}}},
		}}
		docRels := []*RelDef{
			{Name: "parent", Rewrite: &Rewrite{Kind: "this"}, Restrs: []Restr{{Typ: "folder", Cond: cond()}}},
		}
		if r.Chance(1, 2) {
			// several parent types: one of them may need deeper resolution than the weight-two fast path offers
			docRels[0].Restrs = append(docRels[0].Restrs, Restr{Typ: "group"})
		}
		v := &RelDef{Name: "viewer", Rewrite: &Rewrite{Kind: "this"}, Restrs: []Restr{{Typ: "group", Rel: "member", Cond: cond()}}}
		if r.Chance(1, 2) {
			v.Restrs = append(v.Restrs, Restr{Typ: "user"})
		}
		if r.Chance(1, 3) {
			v.Restrs = append(v.Restrs, Restr{Typ: "group", Rel: "a"})
		}
		if r.Chance(1, 3) {
			v.Restrs = append(v.Restrs, Restr{Typ: "group", Rel: "rmember"})
		}
		docRels = append(docRels, v)
		docRels = append(docRels, &RelDef{Name: "can", Rewrite: &Rewrite{Kind: "ttu", Tupleset: "parent", Computed: hx.Pick(r, []string{"viewer", "a", "rviewer"})}})
		if r.Chance(1, 2) {
			docRels = append(docRels, &RelDef{Name: "ok", Rewrite: &Rewrite{Kind: hx.Pick(r, []string{"inter", "diff", "union"}), Kids: []*Rewrite{{Kind: "cu", Rel: "viewer"}, {Kind: "cu", Rel: "can"}}}})
		}
		if len(docRels[0].Restrs) > 1 {
			grp.Rels = append(grp.Rels,
				&RelDef{Name: "viewer", Rewrite: &Rewrite{Kind: "this"}, Restrs: []Restr{{Typ: "group", Rel: "member"}}},
				&RelDef{Name: "rviewer", Rewrite: &Rewrite{Kind: "cu", Rel: "rmember"}})
		}
		m.Types = append(m.Types, grp, fld, &TypeDef{Name: "doc", Rels: docRels})
		ts, err := typesystem.NewAndValidate(context.Background(), m.Proto("01HVMMBCMGZNT3SED4Z17ECXCA"))
		if err == nil {
			return m, ts
		}
		if try > 200 {
			panic("strategy generator cannot produce a valid model: " + err.Error())
		}
	}
}
