// Package fgarun runs the real Check engine (internal/graph LocalChecker behind
// pkg/server/commands.CheckQuery) on a decoded case, with the quantified-over
// configuration forced: planner strategy, breadth limit, depth limit.
package fgarun

import (
	"context"
	"errors"
	"fmt"
	"sort"
	"strings"
	"sync"
	"time"

	openfgav1 "github.com/openfga/api/proto/openfga/v1"

	"github.com/openfga/openfga/internal/condition"
	"github.com/openfga/openfga/internal/graph"
	"github.com/openfga/openfga/internal/planner"
	"github.com/openfga/openfga/pkg/server/commands"
	"github.com/openfga/openfga/pkg/storage"
	"github.com/openfga/openfga/pkg/storage/cache/keys"
	"github.com/openfga/openfga/pkg/storage/memory"
	"github.com/openfga/openfga/pkg/typesystem"
	"github.com/openfga/openfga/verifharness/fga"
)

const StoreID = "01HVMMBCMGZNT3SED4Z17ECXCA"
const ModelID = "01HVMMBDNGZNT3SED4Z17ECXCB"

// ForcedPlanner makes every plan selector return the strategy `Want` when it is among the
// possible ones (else "default") and records the strategies that were offered.
type ForcedPlanner struct {
	Want    string
	Offered map[string]bool // strategies the engine offered (shared across planners of one case)
}

var offeredMu sync.Mutex

type forcedSelector struct{ p *ForcedPlanner }

func (p *ForcedPlanner) GetPlanSelector(_ keys.Key) planner.Selector { return forcedSelector{p} }

func (s forcedSelector) Select(plans map[string]*planner.PlanConfig) *planner.PlanConfig {
	if s.p.Offered != nil {
		offeredMu.Lock()
		for k := range plans {
			s.p.Offered[k] = true
		}
		offeredMu.Unlock()
	}
	if pc, ok := plans[s.p.Want]; ok {
		return pc
	}
	return plans["default"]
}

func (p *ForcedPlanner) Stop() {}

// OfferedSnapshot returns the sorted strategy names recorded in m (goroutines of a finished request may
// still be calling the planner, so the map must only be read under the lock).
func OfferedSnapshot(m map[string]bool) []string {
	offeredMu.Lock()
	defer offeredMu.Unlock()
	out := make([]string, 0, len(m))
	for k := range m {
		out = append(out, k)
	}
	sort.Strings(out)
	return out
}

func (s forcedSelector) UpdateStats(_ *planner.PlanConfig, _ time.Duration) {}

// Config is the forced configuration of one run.
type Config struct {
	MaxDepth uint32
	Breadth  uint32
	Strategy string // default | weight2 | recursive
}

// Store builds a memory datastore holding the tuples in the given order (no validation: leftover
// tuples from other models are allowed in the store).
func Store(tuples []fga.Tuple) storage.OpenFGADatastore {
	ds := memory.New()
	for _, t := range tuples {
		if err := ds.Write(context.Background(), StoreID, nil, []*openfgav1.TupleKey{t.Key()}); err != nil {
			panic(fmt.Sprintf("store write %s: %v", t.String(), err))
		}
	}
	return ds
}

// Check runs CheckQuery.Execute and canonicalises the outcome:
// "T c=<0|1>" | "F c=<0|1>" | "E depth" | "E cond" | "E invalid" | "E other <msg>".
func Check(ts *typesystem.TypeSystem, ds storage.OpenFGADatastore, cfg Config, rq fga.Req, ctxTuples []fga.Tuple, pl *ForcedPlanner) string {
	if pl == nil {
		pl = &ForcedPlanner{Want: cfg.Strategy}
	}
	resolver, closer, err := graph.NewOrderedCheckResolvers(
		graph.WithLocalCheckerOpts(
			graph.WithResolveNodeBreadthLimit(cfg.Breadth),
			graph.WithMaxResolutionDepth(cfg.MaxDepth),
			graph.WithPlanner(pl),
			graph.WithOptimizations(true),
		),
	).Build()
	if err != nil {
		return "E other build " + err.Error()
	}
	defer closer()
	cmd := commands.NewCheckCommand(ds, resolver, ts)
	ctx, cancel := context.WithTimeout(context.Background(), 20*time.Second)
	defer cancel()
	var ct *openfgav1.ContextualTupleKeys
	if len(ctxTuples) > 0 {
		ct = &openfgav1.ContextualTupleKeys{TupleKeys: fga.Keys(ctxTuples)}
	}
	res, err := cmd.Execute(ctx, &commands.CheckCommandParams{
		StoreID:          StoreID,
		TupleKey:         &openfgav1.CheckRequestTupleKey{Object: rq.Obj, Relation: rq.Rel, User: rq.User},
		ContextualTuples: ct,
		Context:          fga.CtxStruct(rq.Ctx),
	})
	return Canon(res, err)
}

func Canon(res *commands.CheckResult, err error) string {
	if err != nil {
		var ee *condition.EvaluationError
		var ir *commands.InvalidRelationError
		var it *commands.InvalidTupleError
		var ic *commands.InvalidContextError
		switch {
		case errors.Is(err, graph.ErrResolutionDepthExceeded):
			return "E depth"
		case errors.As(err, &ee):
			return "E cond"
		case errors.As(err, &ir), errors.As(err, &it), errors.As(err, &ic):
			return "E invalid"
		case errors.Is(err, context.DeadlineExceeded):
			return "E deadline"
		}
		return "E other " + strings.ReplaceAll(strings.ReplaceAll(err.Error(), "\n", " "), "\t", " ")
	}
	b := "F"
	if res.Allowed {
		b = "T"
	}
	c := 0
	if res.CycleDetected {
		c = 1
	}
	return fmt.Sprintf("%s c=%d", b, c)
}

// ---- engines that persist across the requests of one case (shared caches) ----

// Engine answers Check requests against one store/model; Close releases its caches.
type Engine interface {
	Check(rq fga.Req, ctxTuples []fga.Tuple) string
	Close()
}

type v1Engine struct {
	ts       *typesystem.TypeSystem
	ds       storage.OpenFGADatastore
	resolver graph.CheckResolver
	closer   func()
}

// NewV1 builds the default engine (LocalChecker, optional CachedCheckResolver in front of it) once, so
// that the Check query cache is shared by all requests sent through the returned engine.
func NewV1(ts *typesystem.TypeSystem, ds storage.OpenFGADatastore, cfg Config, queryCache bool) Engine {
	opts := []graph.CheckResolverOrderedBuilderOpt{
		graph.WithLocalCheckerOpts(
			graph.WithResolveNodeBreadthLimit(cfg.Breadth),
			graph.WithMaxResolutionDepth(cfg.MaxDepth),
			graph.WithPlanner(&ForcedPlanner{Want: cfg.Strategy}),
			graph.WithOptimizations(true),
		),
	}
	if queryCache {
		opts = append(opts, graph.WithCachedCheckResolverOpts(true, graph.WithCacheTTL(time.Hour)))
	}
	resolver, closer, err := graph.NewOrderedCheckResolvers(opts...).Build()
	if err != nil {
		panic(err)
	}
	return &v1Engine{ts: ts, ds: ds, resolver: resolver, closer: closer}
}

func (e *v1Engine) Close() { e.closer() }

func (e *v1Engine) Check(rq fga.Req, ctxTuples []fga.Tuple) string {
	cmd := commands.NewCheckCommand(e.ds, e.resolver, e.ts)
	ctx, cancel := context.WithTimeout(context.Background(), 20*time.Second)
	defer cancel()
	var ct *openfgav1.ContextualTupleKeys
	if len(ctxTuples) > 0 {
		ct = &openfgav1.ContextualTupleKeys{TupleKeys: fga.Keys(ctxTuples)}
	}
	res, err := cmd.Execute(ctx, &commands.CheckCommandParams{
		StoreID:          StoreID,
		TupleKey:         &openfgav1.CheckRequestTupleKey{Object: rq.Obj, Relation: rq.Rel, User: rq.User},
		ContextualTuples: ct,
		Context:          fga.CtxStruct(rq.Ctx),
	})
	return Canon(res, err)
}

// SlowReads delays the FIRST item of the iterators that feed the right-hand side of the fast paths (Read,
// ReadUsersetTuples), so that the producers of the other side run ahead of their consumer: exposes
// buffer-reuse and cancellation mistakes.
type SlowReads struct {
	storage.OpenFGADatastore
	Delay time.Duration
}

type slowIter struct {
	storage.TupleIterator
	once  sync.Once
	delay time.Duration
}

func (s *slowIter) wait() { s.once.Do(func() { time.Sleep(s.delay) }) }

func (s *slowIter) Next(ctx context.Context) (*openfgav1.Tuple, error) {
	s.wait()
	return s.TupleIterator.Next(ctx)
}

func (s *slowIter) Head(ctx context.Context) (*openfgav1.Tuple, error) {
	s.wait()
	return s.TupleIterator.Head(ctx)
}

func (s SlowReads) Read(ctx context.Context, store string, f storage.ReadFilter, o storage.ReadOptions) (storage.TupleIterator, error) {
	it, err := s.OpenFGADatastore.Read(ctx, store, f, o)
	if err != nil {
		return nil, err
	}
	return &slowIter{TupleIterator: it, delay: s.Delay}, nil
}

func (s SlowReads) ReadUsersetTuples(ctx context.Context, store string, f storage.ReadUsersetTuplesFilter, o storage.ReadUsersetTuplesOptions) (storage.TupleIterator, error) {
	it, err := s.OpenFGADatastore.ReadUsersetTuples(ctx, store, f, o)
	if err != nil {
		return nil, err
	}
	return &slowIter{TupleIterator: it, delay: s.Delay}, nil
}
