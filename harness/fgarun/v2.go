package fgarun

import (
	"context"
	"errors"
	"strings"
	"time"

	openfgav1 "github.com/openfga/api/proto/openfga/v1"

	"github.com/openfga/openfga/internal/check"
	"github.com/openfga/openfga/internal/condition"
	"github.com/openfga/openfga/internal/modelgraph"
	"github.com/openfga/openfga/pkg/server/commands"
	"github.com/openfga/openfga/pkg/storage"
	"github.com/openfga/openfga/pkg/typesystem"
	"github.com/openfga/openfga/verifharness/fga"
)

type v2Engine struct {
	ts    *typesystem.TypeSystem
	ds    storage.OpenFGADatastore
	mg    *modelgraph.AuthorizationModelGraph
	cfg   Config
	cache storage.InMemoryCache[any]
}

// NewV2 builds the weighted-graph engine (internal/check behind commands.CheckQueryV2, no fallback);
// with queryCache the edge/sub-problem cache is shared by all requests of the engine.
func NewV2(ts *typesystem.TypeSystem, ds storage.OpenFGADatastore, model *openfgav1.AuthorizationModel, cfg Config, queryCache bool) (Engine, error) {
	mg, err := modelgraph.New(model)
	if err != nil {
		return nil, err
	}
	e := &v2Engine{ts: ts, ds: ds, mg: mg, cfg: cfg}
	if queryCache {
		c, err := storage.NewInMemoryLRUCache[any]()
		if err != nil {
			return nil, err
		}
		e.cache = c
	}
	return e, nil
}

func (e *v2Engine) Close() {
	if e.cache != nil {
		e.cache.Stop()
	}
}

func (e *v2Engine) Check(rq fga.Req, ctxTuples []fga.Tuple) string {
	opts := []commands.CheckQueryV2Option{
		commands.WithCheckQueryV2Datastore(e.ds),
		commands.WithCheckQueryV2Model(e.mg),
		commands.WithCheckQueryV2Planner(&ForcedPlanner{Want: e.cfg.Strategy}),
		commands.WithCheckQueryV2ConcurrencyLimit(int(e.cfg.Breadth)),
		commands.WithCheckQueryV2UpstreamTimeout(20 * time.Second),
	}
	if e.cache != nil {
		opts = append(opts, commands.WithCheckQueryV2Cache(e.cache), commands.WithCheckQueryV2QueryCacheEnabled(true),
			commands.WithCheckQueryV2QueryCacheTTL(time.Hour))
	}
	q := commands.NewCheckQuery(opts...)
	ctx, cancel := context.WithTimeout(context.Background(), 20*time.Second)
	defer cancel()
	var ct *openfgav1.ContextualTupleKeys
	if len(ctxTuples) > 0 {
		ct = &openfgav1.ContextualTupleKeys{TupleKeys: fga.Keys(ctxTuples)}
	}
	res, err := q.Execute(ctx, &commands.CheckCommandParams{
		StoreID:          StoreID,
		TupleKey:         &openfgav1.CheckRequestTupleKey{Object: rq.Obj, Relation: rq.Rel, User: rq.User},
		ContextualTuples: ct,
		Context:          fga.CtxStruct(rq.Ctx),
	})
	return CanonV2(res, err)
}

// CanonV2: "T" | "F" | "E cond" | "E shape <which>" | "E invalid" | "E other <msg>"
func CanonV2(res *commands.CheckResult, err error) string {
	if err != nil {
		var ee *condition.EvaluationError
		switch {
		case errors.As(err, &ee):
			return "E cond"
		case errors.Is(err, check.ErrWildcardInvalidRequest):
			return "E shape wildcard"
		case errors.Is(err, check.ErrUsersetInvalidRequest):
			return "E shape userset"
		case errors.Is(err, check.ErrValidation):
			return "E shape validation"
		case errors.Is(err, check.ErrPanicRequest):
			return "E panic"
		case errors.Is(err, context.DeadlineExceeded):
			return "E deadline"
		}
		msg := strings.ReplaceAll(strings.ReplaceAll(err.Error(), "\n", " "), "\t", " ")
		if commands.IsV2CheckTerminalError(err) {
			return "E terminal " + msg
		}
		return "E other " + msg
	}
	if res.Allowed {
		return "T c=0"
	}
	return "F c=0"
}
