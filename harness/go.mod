module github.com/openfga/openfga/verifharness

go 1.25.7

toolchain go1.26.5

require github.com/openfga/openfga v0.0.0

require (
	github.com/Yiling-J/theine-go v0.6.2 // indirect
	github.com/beorn7/perks v1.0.1 // indirect
	github.com/cespare/xxhash/v2 v2.3.0 // indirect
	github.com/davecgh/go-spew v1.1.2-0.20180830191138-d8f796af33cc // indirect
	github.com/emirpasic/gods v1.18.1 // indirect
	github.com/envoyproxy/protoc-gen-validate v1.3.3 // indirect
	github.com/grpc-ecosystem/grpc-gateway/v2 v2.29.0 // indirect
	github.com/klauspost/cpuid/v2 v2.0.9 // indirect
	github.com/munnerz/goautoneg v0.0.0-20191010083416-a7dc8b61c822 // indirect
	github.com/openfga/api/proto v0.0.0-20260319214821-f153694bfc20 // indirect
	github.com/pmezard/go-difflib v1.0.1-0.20181226105442-5d4384ee4fb2 // indirect
	github.com/prometheus/client_golang v1.24.0 // indirect
	github.com/prometheus/client_model v0.6.2 // indirect
	github.com/prometheus/common v0.70.0 // indirect
	github.com/prometheus/procfs v0.21.1 // indirect
	github.com/stretchr/testify v1.11.1 // indirect
	github.com/zeebo/xxh3 v1.0.2 // indirect
	golang.org/x/net v0.57.0 // indirect
	golang.org/x/sys v0.47.0 // indirect
	golang.org/x/text v0.40.0 // indirect
	google.golang.org/genproto/googleapis/api v0.0.0-20260526163538-3dc84a4a5aaa // indirect
	google.golang.org/genproto/googleapis/rpc v0.0.0-20260720211330-0afa2a65878a // indirect
	google.golang.org/grpc v1.82.1 // indirect
	google.golang.org/protobuf v1.36.11 // indirect
	gopkg.in/yaml.v3 v3.0.1 // indirect
)

replace github.com/openfga/openfga => /repo
