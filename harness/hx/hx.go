// Package hx holds the small shared pieces of every correspondence harness:
// one PRNG state per run (VERIF_SEED), hex framing for the line protocol,
// the gen/exec command-line skeleton and the stats file.
//
// Line protocol (one self-contained case per line):
//
//	gen   -seed S -n N [-tier T]   prints N case lines (no TAB inside a case)
//	exec                           reads case lines on stdin, prints "<case>\t<impl output>"
//
// The Lean driver of the property reads the exec output and prints one verdict
// line per case: "ok <class>", "MODEL-DIFF <detail>", "SPEC-VIOL <detail>" or
// "SKIP <reason>".
package hx

import (
	"bufio"
	"encoding/hex"
	"encoding/json"
	"flag"
	"fmt"
	"os"
	"sort"
	"strings"
)

// Rand is a splitmix64 PRNG; every random choice of a run derives from one state.
type Rand struct{ s uint64 }

// NewRand scrambles the seed through the splitmix64 finaliser so that neighbouring seeds (VERIF_SEED=1,2,3)
// give unrelated streams (a plain multiple of the increment would only shift the stream by one draw).
func NewRand(seed uint64) *Rand {
	z := seed + 0x1234567
	z = (z ^ (z >> 30)) * 0xBF58476D1CE4E5B9
	z = (z ^ (z >> 27)) * 0x94D049BB133111EB
	z = z ^ (z >> 31)
	z = (z ^ (z >> 33)) * 0xFF51AFD7ED558CCD
	return &Rand{s: z ^ (z >> 29)}
}

func (r *Rand) U64() uint64 {
	r.s += 0x9E3779B97F4A7C15
	z := r.s
	z = (z ^ (z >> 30)) * 0xBF58476D1CE4E5B9
	z = (z ^ (z >> 27)) * 0x94D049BB133111EB
	return z ^ (z >> 31)
}

// Intn returns a value in [0,n); n<=0 yields 0.
func (r *Rand) Intn(n int) int {
	if n <= 0 {
		return 0
	}
	return int(r.U64() % uint64(n))
}

func (r *Rand) Bool() bool { return r.U64()&1 == 1 }

// Chance is true with probability num/den.
func (r *Rand) Chance(num, den int) bool { return r.Intn(den) < num }

// Pick returns one element of xs.
func Pick[T any](r *Rand, xs []T) T { return xs[r.Intn(len(xs))] }

// Shuffle permutes xs in place.
func Shuffle[T any](r *Rand, xs []T) {
	for i := len(xs) - 1; i > 0; i-- {
		j := r.Intn(i + 1)
		xs[i], xs[j] = xs[j], xs[i]
	}
}

// Fork derives an independent stream (so that case i does not depend on how
// many draws case i-1 made).
func (r *Rand) Fork() *Rand { return &Rand{s: r.U64()} }

// H hex-encodes a byte string; the empty string is written as "-" so that
// fields never vanish when a line is split on spaces.
func H(b []byte) string {
	if len(b) == 0 {
		return "-"
	}
	return hex.EncodeToString(b)
}

func HS(s string) string { return H([]byte(s)) }

// UnH is the inverse of H.
func UnH(s string) ([]byte, error) {
	if s == "-" {
		return []byte{}, nil
	}
	return hex.DecodeString(s)
}

func MustUnH(s string) []byte {
	b, err := UnH(s)
	if err != nil {
		panic("bad hex field: " + s)
	}
	return b
}

// Stats collects the input-distribution counters that end up in the evidence.
type Stats struct {
	Counters map[string]int `json:"counters"`
}

func NewStats() *Stats { return &Stats{Counters: map[string]int{}} }

func (s *Stats) Inc(k string) { s.Counters[k]++ }

func (s *Stats) Add(k string, n int) { s.Counters[k] += n }

func (s *Stats) Write(path string) {
	if path == "" {
		return
	}
	keys := make([]string, 0, len(s.Counters))
	for k := range s.Counters {
		keys = append(keys, k)
	}
	sort.Strings(keys)
	b, _ := json.MarshalIndent(s, "", " ")
	_ = os.WriteFile(path, b, 0o644)
}

// Harness is what a property harness implements.
type Harness struct {
	// Gen prints n case lines using r; tier is "quick" or "thorough".
	Gen func(r *Rand, n int, tier string, emit func(caseLine string), st *Stats)
	// Exec runs the real code on one case line and returns the canonical output
	// (single line, no TAB). It must not panic: recover and return "PANIC <msg>".
	Exec func(caseLine string, st *Stats) string
}

// Main is the command-line skeleton shared by all harnesses.
func Main(h Harness) {
	if len(os.Args) < 2 {
		fmt.Fprintln(os.Stderr, "usage: gen|exec|run [flags]")
		os.Exit(2)
	}
	cmd := os.Args[1]
	fs := flag.NewFlagSet(cmd, flag.ExitOnError)
	seed := fs.Uint64("seed", 1, "PRNG seed (VERIF_SEED)")
	n := fs.Int("n", 100, "number of cases")
	tier := fs.String("tier", "quick", "quick|thorough")
	statsPath := fs.String("stats", "", "write input-distribution counters to this file")
	_ = fs.Parse(os.Args[2:])
	st := NewStats()
	out := bufio.NewWriterSize(os.Stdout, 1<<20)
	defer out.Flush()
	safeExec := func(c string) (res string) {
		defer func() {
			if p := recover(); p != nil {
				res = "PANIC " + strings.ReplaceAll(strings.ReplaceAll(fmt.Sprint(p), "\n", " "), "\t", " ")
			}
		}()
		return h.Exec(c, st)
	}
	switch cmd {
	case "gen":
		h.Gen(NewRand(*seed), *n, *tier, func(c string) { fmt.Fprintln(out, c) }, st)
	case "exec":
		sc := bufio.NewScanner(os.Stdin)
		sc.Buffer(make([]byte, 1<<20), 1<<28)
		for sc.Scan() {
			line := sc.Text()
			if i := strings.IndexByte(line, '\t'); i >= 0 {
				line = line[:i]
			}
			if strings.TrimSpace(line) == "" {
				continue
			}
			fmt.Fprintf(out, "%s\t%s\n", line, safeExec(line))
		}
	case "run":
		h.Gen(NewRand(*seed), *n, *tier, func(c string) {
			fmt.Fprintf(out, "%s\t%s\n", c, safeExec(c))
		}, st)
	default:
		fmt.Fprintln(os.Stderr, "unknown command", cmd)
		os.Exit(2)
	}
	st.Write(*statsPath)
}
