// Package sfres runs the typesystem resolver (typesystem.MemoizedTypesystemResolverFunc) of /repo with a cold cache on
// overlapping requests over a datastore whose model reads block until released — the scenario in which requests with an
// equal singleflight key share ONE datastore read.  Shared by the harnesses of C16 (cross-store), C31 and C17 (cross-model).
//
// Case:   sf q1 q2 … qk        q = <s>.<o>.<i>  on store s quote the id of model i of store o   (3 stores x 2 models)
//
//	<s>.L          on store s ask for the latest model
//
// Round 1: the queries are launched one after the other, each while all earlier ones are still blocked inside the
// datastore (or waiting for somebody else's flight); then the datastore is released.  Round 2: the same queries again,
// sequentially, on the now warm cache (what was memoised).
// Output: R1 a1 … ak | R2 b1 … bk      a = <o>.<i> (the model that came back, by its id) | nf (model not found) | err:… | hang
package sfres

import (
	"context"
	"errors"
	"fmt"
	"strconv"
	"strings"
	"sync/atomic"
	"time"

	"github.com/oklog/ulid/v2"
	openfgav1 "github.com/openfga/api/proto/openfga/v1"
	parser "github.com/openfga/language/pkg/go/transformer"
	"google.golang.org/protobuf/proto"

	"github.com/openfga/openfga/pkg/storage"
	"github.com/openfga/openfga/pkg/storage/memory"
	"github.com/openfga/openfga/pkg/typesystem"
	"github.com/openfga/openfga/verifharness/hx"
)

const NStores, NModels = 3, 2

// joinWait is how long the launcher waits for a sign of life (entered the datastore / finished) of a request before it
// concludes that the request is waiting for another request's flight.  Only paid when two requests share a key.
const joinWait = 80 * time.Millisecond

var baseModel *openfgav1.AuthorizationModel

func model(id string) *openfgav1.AuthorizationModel {
	if baseModel == nil {
		baseModel = parser.MustTransformDSLToProto("model\n  schema 1.1\ntype user\ntype doc\n  relations\n    define viewer: [user]\n")
	}
	m := proto.Clone(baseModel).(*openfgav1.AuthorizationModel)
	m.Id = id
	return m
}

type slowDS struct {
	storage.OpenFGADatastore
	gated   atomic.Bool
	gate    chan struct{}
	entered chan struct{}
}

func (d *slowDS) wait() {
	if d.gated.Load() {
		d.entered <- struct{}{}
		<-d.gate
	}
}

func (d *slowDS) ReadAuthorizationModel(ctx context.Context, store, id string) (*openfgav1.AuthorizationModel, error) {
	d.wait()
	return d.OpenFGADatastore.ReadAuthorizationModel(ctx, store, id)
}

func (d *slowDS) FindLatestAuthorizationModel(ctx context.Context, store string) (*openfgav1.AuthorizationModel, error) {
	d.wait()
	return d.OpenFGADatastore.FindLatestAuthorizationModel(ctx, store)
}

// Gen emits one scenario.  `crossModel` biases towards two models of ONE store (C31/C17), otherwise towards one model id
// quoted on several stores (C16).
func Gen(c *hx.Rand, crossModel bool) string {
	var qs []string
	seen := map[string]bool{}
	add := func(q string) {
		if seen[q] && !c.Chance(1, 8) { // an exact repeat legitimately joins the open flight (and costs joinWait): rare
			return
		}
		seen[q] = true
		qs = append(qs, q)
	}
	o, i := c.Intn(NStores), c.Intn(NModels)
	if crossModel && c.Chance(2, 3) {
		// both models of store o, overlapping, in either order; then maybe a foreign store quoting them
		first := c.Intn(NModels)
		add(fmt.Sprintf("%d.%d.%d", o, o, first))
		add(fmt.Sprintf("%d.%d.%d", o, o, 1-first))
		if c.Bool() {
			add(fmt.Sprintf("%d.%d.%d", (o+1)%NStores, o, c.Intn(NModels)))
		}
	} else {
		// the id of model (o, i) quoted on the stores in a random order (the owner first, last or in between)
		perm := []int{0, 1, 2}
		hx.Shuffle(c, perm)
		for _, s := range perm[:2+c.Intn(2)] {
			add(fmt.Sprintf("%d.%d.%d", s, o, i))
		}
		if !seen[fmt.Sprintf("%d.%d.%d", o, o, i)] && c.Chance(2, 3) {
			qs = append([]string{fmt.Sprintf("%d.%d.%d", o, o, i)}, qs...) // the owner's own lookup is in flight first
			seen[qs[0]] = true
		}
	}
	for k := c.Intn(3); k > 0; k-- {
		switch c.Intn(3) {
		case 0:
			add(fmt.Sprintf("%d.L", c.Intn(NStores)))
		default:
			add(fmt.Sprintf("%d.%d.%d", c.Intn(NStores), c.Intn(NStores), c.Intn(NModels)))
		}
	}
	return "sf " + strings.Join(qs, " ")
}

// Exec runs one scenario line.
func Exec(line string) string {
	f := strings.Fields(line)
	if len(f) < 2 || f[0] != "sf" {
		return "BADCASE"
	}
	qs := f[1:]
	ctx := context.Background()
	mem := memory.New()
	defer mem.Close()
	var stores [NStores]string
	idOf := map[string]string{} // model id -> "o.i"
	var ids [NStores][NModels]string
	for s := 0; s < NStores; s++ {
		stores[s] = ulid.Make().String()
		for i := 0; i < NModels; i++ {
			id := ulid.Make().String()
			ids[s][i] = id
			idOf[id] = fmt.Sprintf("%d.%d", s, i)
			if err := mem.WriteAuthorizationModel(ctx, stores[s], model(id)); err != nil {
				return "SETUPERR " + err.Error()
			}
		}
	}
	ds := &slowDS{OpenFGADatastore: mem, gate: make(chan struct{}), entered: make(chan struct{}, len(qs)+1)}
	resolve, stop, err := typesystem.MemoizedTypesystemResolverFunc(ds, 1000)
	if err != nil {
		return "SETUPERR " + err.Error()
	}
	defer stop()
	one := func(q string) string {
		p := strings.Split(q, ".")
		s, _ := strconv.Atoi(p[0])
		id := ""
		if p[1] != "L" {
			o, _ := strconv.Atoi(p[1])
			i, _ := strconv.Atoi(p[2])
			id = ids[o][i]
		}
		ts, err := resolve(ctx, stores[s], id)
		switch {
		case errors.Is(err, typesystem.ErrModelNotFound):
			return "nf"
		case err != nil:
			return "err:" + strings.ReplaceAll(err.Error(), " ", "_")
		}
		if who, ok := idOf[ts.GetAuthorizationModelID()]; ok {
			return who
		}
		return "unknown-model"
	}
	// round 1
	ds.gated.Store(true)
	done := make([]chan string, len(qs))
	res1 := make([]string, len(qs))
	for j, q := range qs {
		done[j] = make(chan string, 1)
		go func(j int, q string) { done[j] <- one(q) }(j, q)
		select {
		case <-ds.entered: // leads a flight of its own
		case r := <-done[j]: // answered without the datastore
			res1[j] = r
		case <-time.After(joinWait): // waits for somebody else's flight
		}
	}
	ds.gated.Store(false)
	close(ds.gate)
	for j := range qs {
		if res1[j] != "" {
			continue
		}
		select {
		case r := <-done[j]:
			res1[j] = r
		case <-time.After(10 * time.Second):
			res1[j] = "hang"
		}
	}
	// round 2
	res2 := make([]string, len(qs))
	for j, q := range qs {
		res2[j] = one(q)
	}
	return "R1 " + strings.Join(res1, " ") + " | R2 " + strings.Join(res2, " ")
}
