// Package storew is the shared part of the C12 / C15 harnesses: the tuple universe, the text form of
// write histories, the real datastores (memory, sqlite through a failure-injecting database/sql driver
// wrapper, and commands.WriteCommand on top of either) and the canonical state dump.
package storew

import (
	"context"
	"database/sql"
	"database/sql/driver"
	"errors"
	"fmt"
	"os"
	"path/filepath"
	"sort"
	"strings"
	"sync"
	"time"

	"github.com/oklog/ulid/v2"
	openfgav1 "github.com/openfga/api/proto/openfga/v1"
	parser "github.com/openfga/language/pkg/go/transformer"
	"github.com/pressly/goose/v3"
	"google.golang.org/protobuf/types/known/structpb"
	"google.golang.org/protobuf/types/known/wrapperspb"

	"github.com/openfga/openfga/assets"
	"github.com/openfga/openfga/pkg/server/commands"
	"github.com/openfga/openfga/pkg/storage"
	"github.com/openfga/openfga/pkg/storage/memory"
	"github.com/openfga/openfga/pkg/storage/sqlcommon"
	"github.com/openfga/openfga/pkg/storage/sqlite"
	"github.com/openfga/openfga/verifharness/hx"
)

// ---------------------------------------------------------------------------------------------
// universe and text form

// Keys is the tuple universe (8 keys: several objects, types, relations, a userset and a wildcard user).
var Keys = []string{
	"doc:1#viewer@user:a",
	"doc:1#viewer@user:b",
	"doc:2#viewer@user:a",
	"doc:1#editor@user:a",
	"folder:1#viewer@user:a",
	"doc:1#viewer@group:g#member",
	"doc:2#viewer@user:*",
	"folder:1#viewer@group:g#member",
}

// OddKeys are delete keys that only the datastore API / the delete path of the Write API accept: an empty object id.
var OddKeys = []string{"doc:#viewer@user:a", "folder:#viewer@group:g#member"}

// Conds are the (condition name, context label) variants of a written tuple.
var Conds = [][2]string{{"-", "n"}, {"c1", "n"}, {"c1", "e"}, {"c1", "x1"}, {"c1", "x2"}, {"c2", "x1"}}

const ModelDSL = `model
  schema 1.1
type user
type group
  relations
    define member: [user]
    define admin: [user]
type doc
  relations
    define viewer: [user, user with c1, user with c2, user:*, user:* with c1, user:* with c2, group, group with c1, group with c2, group#member, group#member with c1, group#member with c2, group#admin, group#admin with c1, group#admin with c2]
    define editor: [user, user with c1, user with c2, user:*, user:* with c1, user:* with c2, group#member, group#member with c1, group#member with c2]
type folder
  relations
    define viewer: [user, user with c1, user with c2, user:*, user:* with c1, user:* with c2, group#member, group#member with c1, group#member with c2]
condition c1(x: int) {
  x < 100
}
condition c2(x: int) {
  x > 0
}
`

func ctxOf(label string) *structpb.Struct {
	switch label {
	case "n":
		return nil
	case "e":
		return &structpb.Struct{}
	case "x1":
		return &structpb.Struct{Fields: map[string]*structpb.Value{"x": structpb.NewNumberValue(1)}}
	case "x2":
		return &structpb.Struct{Fields: map[string]*structpb.Value{"x": structpb.NewNumberValue(2)}}
	}
	panic("bad ctx label " + label)
}

func labelOf(s *structpb.Struct) string {
	if s == nil {
		return "n"
	}
	if len(s.GetFields()) == 0 {
		return "e"
	}
	if len(s.GetFields()) == 1 {
		if v, ok := s.GetFields()["x"]; ok {
			if _, isNum := v.GetKind().(*structpb.Value_NumberValue); isNum {
				switch v.GetNumberValue() {
				case 1:
					return "x1"
				case 2:
					return "x2"
				}
			}
		}
	}
	return "unknown"
}

// splitKey parses "obj#rel@user" (first '#', then first '@').
func splitKey(s string) (obj, rel, user string) {
	i := strings.IndexByte(s, '#')
	if i < 0 {
		panic("bad tuple " + s)
	}
	obj = s[:i]
	rest := s[i+1:]
	j := strings.IndexByte(rest, '@')
	if j < 0 {
		panic("bad tuple " + s)
	}
	return obj, rest[:j], rest[j+1:]
}

// ParseWrite parses "obj#rel@user~cond~ctx".
func ParseWrite(tok string) *openfgav1.TupleKey {
	p := strings.Split(tok, "~")
	if len(p) != 3 {
		panic("bad write token " + tok)
	}
	obj, rel, user := splitKey(p[0])
	tk := &openfgav1.TupleKey{Object: obj, Relation: rel, User: user}
	if p[1] != "-" {
		tk.Condition = &openfgav1.RelationshipCondition{Name: p[1], Context: ctxOf(p[2])}
	}
	return tk
}

func ParseDelete(tok string) *openfgav1.TupleKeyWithoutCondition {
	obj, rel, user := splitKey(tok)
	return &openfgav1.TupleKeyWithoutCondition{Object: obj, Relation: rel, User: user}
}

// FmtTuple prints a tuple key as read back from the store in the write-token form.
func FmtTuple(tk *openfgav1.TupleKey) string {
	c, l := "-", "n"
	if tk.GetCondition() != nil {
		c, l = tk.GetCondition().GetName(), labelOf(tk.GetCondition().GetContext())
		if c == "" {
			c = "EMPTYNAME"
		}
	}
	return tk.GetObject() + "#" + tk.GetRelation() + "@" + tk.GetUser() + "~" + c + "~" + l
}

// Op is one Write request of a history.
type Op struct {
	OnMissing, OnDuplicate string // "_" = option not given, "error", "ignore", or (commands only) any other word
	Deletes, Writes        []string
}

func list(s string) []string {
	if s == "_" || s == "" {
		return nil
	}
	return strings.Split(s, ",")
}

func unlist(l []string) string {
	if len(l) == 0 {
		return "_"
	}
	return strings.Join(l, ",")
}

// ParseOp parses "w;<onMissing>;<onDuplicate>;<deletes>;<writes>".
func ParseOp(tok string) Op {
	p := strings.Split(tok, ";")
	if len(p) != 5 || p[0] != "w" {
		panic("bad op " + tok)
	}
	return Op{OnMissing: p[1], OnDuplicate: p[2], Deletes: list(p[3]), Writes: list(p[4])}
}

func (o Op) String() string {
	return "w;" + o.OnMissing + ";" + o.OnDuplicate + ";" + unlist(o.Deletes) + ";" + unlist(o.Writes)
}

// GenState is the generator's rough idea of what is stored (key -> condition variant); it only steers the bias.
type GenState struct{ Stored map[string][2]string }

func NewGenState() *GenState { return &GenState{Stored: map[string][2]string{}} }

func (g *GenState) storedKeys() []string {
	var ks []string
	for _, k := range Keys {
		if _, ok := g.Stored[k]; ok {
			ks = append(ks, k)
		}
	}
	return ks
}

// apply updates the rough state the way a successful write would (nil and empty contexts are not told apart).
func (g *GenState) apply(o Op) {
	ignM, ignD := o.OnMissing == "ignore", o.OnDuplicate == "ignore"
	for _, w := range []string{o.OnMissing, o.OnDuplicate} {
		if w != "_" && w != "error" && w != "ignore" {
			return
		}
	}
	seen := map[string]bool{}
	for _, d := range o.Deletes {
		if seen[d] {
			return
		}
		seen[d] = true
		if _, ok := g.Stored[d]; !ok && !ignM {
			return
		}
	}
	for _, w := range o.Writes {
		p := strings.Split(w, "~")
		if seen[p[0]] {
			return
		}
		seen[p[0]] = true
		if c, ok := g.Stored[p[0]]; ok {
			if !ignD || c[0] != p[1] || (c[1] != p[2] && !(c[1] != "x1" && c[1] != "x2" && p[2] != "x1" && p[2] != "x2")) {
				return
			}
		}
	}
	for _, d := range o.Deletes {
		delete(g.Stored, d)
	}
	for _, w := range o.Writes {
		p := strings.Split(w, "~")
		if _, ok := g.Stored[p[0]]; !ok {
			g.Stored[p[0]] = [2]string{p[1], p[2]}
		}
	}
}

// GenOp draws one write request. The generator follows a rough model of the store so that deletes of stored
// tuples, idempotent re-writes (same condition), re-writes with another condition / context, missing deletes,
// fresh writes and (if `odd`) in-request duplicates and keys with an empty object id all occur often.
func GenOp(r *hx.Rand, cmd bool, odd bool, g *GenState) Op {
	var o Op
	optWords := []string{"_", "error", "ignore", "ignore", "ignore"}
	o.OnMissing = hx.Pick(r, optWords)
	o.OnDuplicate = hx.Pick(r, optWords)
	if cmd && r.Chance(1, 14) {
		o.OnMissing = hx.Pick(r, []string{"bogus", "IGNORE", "Error"})
	}
	if cmd && r.Chance(1, 14) {
		o.OnDuplicate = hx.Pick(r, []string{"bogus", "IGNORE", "skip"})
	}
	nd, nw := 0, 0
	switch r.Intn(6) {
	case 0:
		nd = 1 + r.Intn(2)
	case 1:
		nw = 1 + r.Intn(3)
	case 2, 3:
		nd, nw = 1+r.Intn(2), 1+r.Intn(3)
	case 4:
		nd, nw = r.Intn(4), r.Intn(5)
	case 5:
		nw = 1
	}
	// the universe is small on purpose: a sub-universe of 4 keys most of the time so that keys collide
	uni := Keys
	if r.Chance(2, 3) {
		uni = Keys[:4]
	}
	used := map[string]bool{}
	allowDup := odd && r.Chance(1, 5)
	pick := func(preferStored bool) string {
		for try := 0; try < 8; try++ {
			k := hx.Pick(r, uni)
			if st := g.storedKeys(); preferStored && len(st) > 0 && r.Chance(3, 4) {
				k = hx.Pick(r, st)
			}
			if !used[k] || allowDup {
				used[k] = true
				return k
			}
		}
		return hx.Pick(r, uni)
	}
	for i := 0; i < nd; i++ {
		k := pick(r.Chance(3, 4))
		if odd && r.Chance(1, 10) {
			k = hx.Pick(r, OddKeys)
		}
		o.Deletes = append(o.Deletes, k)
	}
	for i := 0; i < nw; i++ {
		k := pick(r.Chance(2, 5))
		c := Conds[0]
		if r.Chance(3, 5) {
			c = hx.Pick(r, Conds)
		}
		if sc, ok := g.Stored[k]; ok && r.Chance(1, 2) {
			c = sc // idempotent re-write
			if c[0] != "-" && r.Chance(1, 4) {
				c[1] = hx.Pick(r, []string{"n", "e", "x1"}) // same name, maybe another context
			}
		}
		o.Writes = append(o.Writes, k+"~"+c[0]+"~"+c[1])
	}
	g.apply(o)
	return o
}

// Family is a group of request keys that differ in exactly one place and would share one look-up key if a backend
// left a field out of its key or joined the fields without separator: the user relation of a userset, the presence
// of a user relation, and the four boundaries object type|object id, object id|relation, user type|user id,
// user id|user relation.  CmdOK: every member is valid for ModelDSL (usable through commands.WriteCommand).
type Family struct {
	Name  string
	Keys  []string
	CmdOK bool
}

var Families = []Family{
	{"user-relation", []string{"doc:1#viewer@group:g#member", "doc:1#viewer@group:g#admin"}, true},
	{"user-relation-or-none", []string{"doc:1#viewer@group:g", "doc:1#viewer@group:g#member", "doc:1#viewer@group:g#admin"}, true},
	{"objtype|objid", []string{"doc:1x#viewer@user:a", "doc1:x#viewer@user:a"}, false},
	{"objid|relation", []string{"doc:1#viewer@user:a", "doc:1v#iewer@user:a"}, false},
	{"usertype|userid", []string{"doc:1#viewer@user:ab", "doc:1#viewer@usera:b"}, false},
	{"userid|user-relation", []string{"doc:1#viewer@group:g#member", "doc:1#viewer@group:gm#ember"}, false},
	{"relation|usertype", []string{"doc:1#viewer@user:a", "doc:1#view@eruser:a"}, false},
}

// GenCollisionOps draws a history around one family: all members are stored by one request, then requests that name
// several members at once — delete all (every on_missing mode), write all again with the stored conditions (every
// on_duplicate mode), write all again with one condition changed, delete one + re-write another, delete all plus a
// key that is not stored, delete the last member alone and then all — re-storing the family when it was removed.
func GenCollisionOps(r *hx.Rand, cmd bool, st *hx.Stats) []Op {
	var fams []Family
	for _, f := range Families {
		if f.CmdOK || !cmd {
			fams = append(fams, f)
		}
	}
	fam := hx.Pick(r, fams)
	if st != nil {
		st.Inc("family-" + fam.Name)
	}
	keys := append([]string{}, fam.Keys...)
	if r.Chance(1, 3) {
		hx.Shuffle(r, keys)
	}
	conds := make([][2]string, len(keys))
	for i := range keys {
		conds[i] = Conds[0]
		if r.Chance(1, 2) {
			conds[i] = hx.Pick(r, Conds)
		}
	}
	wtoks := func(cs [][2]string) []string {
		var out []string
		for i, k := range keys {
			out = append(out, k+"~"+cs[i][0]+"~"+cs[i][1])
		}
		return out
	}
	modes := []string{"_", "error", "ignore"}
	storeAll := Op{OnMissing: "_", OnDuplicate: hx.Pick(r, modes), Writes: wtoks(conds)}
	ops := []Op{storeAll}
	stored := true
	restore := func() {
		if !stored {
			ops = append(ops, Op{OnMissing: "_", OnDuplicate: "ignore", Writes: wtoks(conds)})
			stored = true
		}
	}
	n := 3 + r.Intn(3)
	for i := 0; i < n; i++ {
		restore()
		switch r.Intn(6) {
		case 0: // delete every member in one request
			ops = append(ops, Op{OnMissing: hx.Pick(r, modes), OnDuplicate: "_", Deletes: append([]string{}, keys...)})
			stored = false
		case 1: // write every member again, unchanged
			ops = append(ops, Op{OnMissing: "_", OnDuplicate: hx.Pick(r, modes), Writes: wtoks(conds)})
		case 2: // write every member again, one condition changed
			cs := append([][2]string{}, conds...)
			j := r.Intn(len(cs))
			for try := 0; try < 6 && cs[j] == conds[j]; try++ {
				cs[j] = hx.Pick(r, Conds)
			}
			ops = append(ops, Op{OnMissing: "_", OnDuplicate: "ignore", Writes: wtoks(cs)})
		case 3: // delete one member, write another (stored) one
			j := r.Intn(len(keys))
			k := (j + 1) % len(keys)
			ops = append(ops, Op{OnMissing: hx.Pick(r, modes), OnDuplicate: hx.Pick(r, modes), Deletes: []string{keys[j]},
				Writes: []string{keys[k] + "~" + conds[k][0] + "~" + conds[k][1]}})
			stored = false // (if the request went through)
		case 4: // delete every member and a key that is not stored
			ops = append(ops, Op{OnMissing: hx.Pick(r, modes), OnDuplicate: "_", Deletes: append(append([]string{}, keys...), "doc:2#viewer@user:b")})
			stored = false
		case 5: // delete the last member alone, then all of them
			ops = append(ops, Op{OnMissing: "_", OnDuplicate: "_", Deletes: []string{keys[len(keys)-1]}})
			ops = append(ops, Op{OnMissing: hx.Pick(r, modes), OnDuplicate: "_", Deletes: append([]string{}, keys...)})
			stored = false
		}
	}
	return ops
}

// ---------------------------------------------------------------------------------------------
// failure-injecting database/sql driver wrapper (no source hooks needed)

// Ctl scripts the wrapped driver. While Active, every driver-level operation of the connection is numbered
// (0 = BEGIN, then each statement, COMMIT last; ROLLBACK is recorded but not numbered) and operation FailAt fails.
type Ctl struct {
	mu     sync.Mutex
	Active bool
	FailAt int    // -1 = never
	Mode   string // "b" fail before executing, "a" execute then fail, "c" connection dies before the operation, "x" os.Exit before the operation
	n      int
	Trace  []string
	Fired  bool
}

var errInjected = errors.New("verif: injected failure")

func (c *Ctl) Arm(failAt int, mode string) {
	c.mu.Lock()
	defer c.mu.Unlock()
	c.Active, c.FailAt, c.Mode, c.n, c.Trace, c.Fired = true, failAt, mode, 0, nil, false
}

func (c *Ctl) Disarm() (trace []string, fired bool) {
	c.mu.Lock()
	defer c.mu.Unlock()
	c.Active = false
	return c.Trace, c.Fired
}

// step records an operation; it returns the injection to perform ("" = none).
func (c *Ctl) step(kind string) string {
	c.mu.Lock()
	defer c.mu.Unlock()
	if !c.Active {
		return ""
	}
	c.Trace = append(c.Trace, kind)
	if kind == "rollback" {
		return ""
	}
	i := c.n
	c.n++
	if i == c.FailAt {
		c.Fired = true
		return c.Mode
	}
	return ""
}

func kindOf(query string) string {
	q := strings.ToUpper(strings.TrimSpace(query))
	switch {
	case strings.HasPrefix(q, "SELECT"):
		return "select"
	case strings.HasPrefix(q, "DELETE FROM TUPLE"):
		return "delete"
	case strings.HasPrefix(q, "INSERT INTO TUPLE"):
		return "insert"
	case strings.HasPrefix(q, "INSERT INTO CHANGELOG"):
		return "changelog"
	}
	f := strings.Fields(q)
	if len(f) > 2 {
		f = f[:3]
	}
	return "other:" + strings.Join(f, "_")
}

type failDriver struct {
	inner driver.Driver
	ctl   *Ctl
	mu    sync.Mutex
	conns []*failConn
}

func (d *failDriver) track(c *failConn) *failConn {
	d.mu.Lock()
	d.conns = append(d.conns, c)
	d.mu.Unlock()
	return c
}

// closeAll force-closes every raw connection ever opened (the engine rolls back what they left open).
func (d *failDriver) closeAll() {
	d.mu.Lock()
	defer d.mu.Unlock()
	for _, c := range d.conns {
		if !c.dead {
			c.dead = true
			_ = c.Conn.Close()
		}
	}
	d.conns = nil
}

type connector struct {
	dsn string
	d   *failDriver
}

func (c connector) Connect(context.Context) (driver.Conn, error) {
	in, err := c.d.inner.Open(c.dsn)
	if err != nil {
		return nil, err
	}
	return c.d.track(&failConn{Conn: in, ctl: c.d.ctl}), nil
}
func (c connector) Driver() driver.Driver { return c.d }

func (d *failDriver) Open(name string) (driver.Conn, error) {
	in, err := d.inner.Open(name)
	if err != nil {
		return nil, err
	}
	return d.track(&failConn{Conn: in, ctl: d.ctl}), nil
}

type failConn struct {
	driver.Conn
	ctl  *Ctl
	dead bool
}

// inject performs the "before" kinds of injection; it returns a non-nil error if the operation must not run.
func (c *failConn) inject(mode string) error {
	switch mode {
	case "b":
		return errInjected
	case "c":
		c.dead = true
		_ = c.Conn.Close() // the engine rolls the open transaction back when the connection goes away
		return driver.ErrBadConn
	case "x":
		os.Exit(3) // simulated process crash at a statement boundary
	}
	return nil
}

func (c *failConn) BeginTx(ctx context.Context, opts driver.TxOptions) (driver.Tx, error) {
	if c.dead {
		return nil, driver.ErrBadConn
	}
	mode := c.ctl.step("begin")
	if mode == "a" {
		mode = "b"
	}
	if err := c.inject(mode); err != nil {
		return nil, err
	}
	tx, err := c.Conn.(driver.ConnBeginTx).BeginTx(ctx, opts)
	if err != nil {
		return nil, err
	}
	return &failTx{Tx: tx, c: c}, nil
}

func (c *failConn) ExecContext(ctx context.Context, query string, args []driver.NamedValue) (driver.Result, error) {
	if c.dead {
		return nil, driver.ErrBadConn
	}
	mode := c.ctl.step(kindOf(query))
	if err := c.inject(mode); err != nil {
		return nil, err
	}
	res, err := c.Conn.(driver.ExecerContext).ExecContext(ctx, query, args)
	if mode == "a" && err == nil {
		return nil, errInjected
	}
	return res, err
}

func (c *failConn) QueryContext(ctx context.Context, query string, args []driver.NamedValue) (driver.Rows, error) {
	if c.dead {
		return nil, driver.ErrBadConn
	}
	mode := c.ctl.step(kindOf(query))
	if err := c.inject(mode); err != nil {
		return nil, err
	}
	rows, err := c.Conn.(driver.QueryerContext).QueryContext(ctx, query, args)
	if mode == "a" && err == nil {
		_ = rows.Close()
		return nil, errInjected
	}
	return rows, err
}

func (c *failConn) PrepareContext(ctx context.Context, query string) (driver.Stmt, error) {
	if c.dead {
		return nil, driver.ErrBadConn
	}
	return c.Conn.(driver.ConnPrepareContext).PrepareContext(ctx, query)
}

func (c *failConn) Ping(ctx context.Context) error {
	if c.dead {
		return driver.ErrBadConn
	}
	if p, ok := c.Conn.(driver.Pinger); ok {
		return p.Ping(ctx)
	}
	return nil
}

func (c *failConn) ResetSession(ctx context.Context) error {
	if c.dead {
		return driver.ErrBadConn
	}
	if p, ok := c.Conn.(driver.SessionResetter); ok {
		return p.ResetSession(ctx)
	}
	return nil
}

func (c *failConn) IsValid() bool {
	if c.dead {
		return false
	}
	if p, ok := c.Conn.(driver.Validator); ok {
		return p.IsValid()
	}
	return true
}

func (c *failConn) Close() error {
	if c.dead {
		return nil
	}
	return c.Conn.Close()
}

type failTx struct {
	driver.Tx
	c *failConn
}

func (t *failTx) Commit() error {
	if t.c.dead {
		return driver.ErrBadConn
	}
	mode := t.c.ctl.step("commit")
	switch mode {
	case "a", "b":
		// a COMMIT that fails publishes nothing (engine atomicity, trusted): roll back, report the failure
		_ = t.Tx.Rollback()
		return errInjected
	case "c":
		return t.c.inject("c")
	case "x":
		os.Exit(3)
	case "x-after":
	}
	err := t.Tx.Commit()
	return err
}

func (t *failTx) Rollback() error {
	if t.c.dead {
		return driver.ErrBadConn
	}
	t.c.ctl.step("rollback")
	return t.Tx.Rollback()
}

// ---------------------------------------------------------------------------------------------
// datastores

type Env struct {
	Mem    storage.OpenFGADatastore
	SQL    storage.OpenFGADatastore
	DB     *sql.DB
	Ctl    *Ctl
	dir    string
	DBPath string
	model  *openfgav1.AuthorizationModel
}

var (
	envOnce sync.Once
	env     *Env
)

func dsn(path string) string {
	return fmt.Sprintf("file:%s?_pragma=journal_mode(WAL)&_pragma=busy_timeout(200)&_pragma=synchronous(NORMAL)", path)
}

// OpenSQLite opens the sqlite datastore on `path` through the wrapping driver.
func OpenSQLite(path string, ctl *Ctl) (storage.OpenFGADatastore, error) {
	ds, _, err := OpenSQLiteDB(path, ctl)
	return ds, err
}

// OpenSQLiteDB is OpenSQLite that also returns the *sql.DB (pool statistics: a transaction left open shows as a
// connection that stays in use).
func OpenSQLiteDB(path string, ctl *Ctl) (storage.OpenFGADatastore, *sql.DB, error) {
	uri, err := sqlite.PrepareDSN(dsn(path))
	if err != nil {
		return nil, nil, err
	}
	plain, err := sql.Open("sqlite", uri)
	if err != nil {
		return nil, nil, err
	}
	inner := plain.Driver()
	_ = plain.Close()
	db := sql.OpenDB(connector{dsn: uri, d: &failDriver{inner: inner, ctl: ctl}})
	ds, err := sqlite.NewWithDB(db, sqlcommon.NewConfig())
	return ds, db, err
}

// LeakedTx reports whether a connection is still checked out of the pool although no call is in flight, i.e. a
// transaction was neither committed nor rolled back. It then reopens the database so that later cases can run.
func (e *Env) LeakedTx() bool {
	if e.DB == nil || e.DB.Stats().InUse == 0 {
		return false
	}
	if fd, ok := e.DB.Driver().(*failDriver); ok {
		fd.closeAll()
	}
	go e.SQL.Close() // sql.DB.Close waits for the leaked transaction's connection to be released: never
	ds, db, err := OpenSQLiteDB(e.DBPath, e.Ctl)
	if err != nil {
		panic(err)
	}
	e.SQL, e.DB = ds, db
	return true
}

// Migrate creates the schema the way the repo's own storage test fixture does (goose + embedded migrations).
func Migrate(path string) error {
	goose.SetLogger(goose.NopLogger())
	goose.SetBaseFS(assets.EmbedMigrations)
	db, err := goose.OpenDBWithDriver("sqlite", dsn(path))
	if err != nil {
		return err
	}
	defer db.Close()
	return goose.Up(db, assets.SqliteMigrationDir)
}

// GetEnv lazily creates the memory datastore and one sqlite database file under the OS temp dir.
func GetEnv() *Env {
	envOnce.Do(func() {
		e := &Env{Mem: memory.New(), Ctl: &Ctl{FailAt: -1}}
		dir, err := os.MkdirTemp("", "verif-storew-*")
		if err != nil {
			panic(err)
		}
		e.dir = dir
		e.DBPath = filepath.Join(dir, "db.sqlite")
		if err := Migrate(e.DBPath); err != nil {
			panic(err)
		}
		ds, db, err := OpenSQLiteDB(e.DBPath, e.Ctl)
		if err != nil {
			panic(err)
		}
		e.SQL, e.DB = ds, db
		m := parser.MustTransformDSLToProto(ModelDSL)
		e.model = m
		env = e
	})
	return env
}

// Cleanup removes the sqlite file. Call it when the harness exits.
func Cleanup() {
	if env != nil {
		if env.SQL != nil {
			env.SQL.Close()
		}
		if env.dir != "" {
			_ = os.RemoveAll(env.dir)
		}
	}
}

// Session is one store of one backend.
type Session struct {
	E       *Env
	Backend string // mem | sql | cmdmem | cmdsql
	DS      storage.OpenFGADatastore
	Store   string
	ModelID string
}

func NewSession(backend string) *Session {
	e := GetEnv()
	s := &Session{E: e, Backend: backend, Store: ulid.Make().String()}
	switch backend {
	case "mem", "cmdmem":
		s.DS = e.Mem
	case "sql", "cmdsql":
		s.DS = e.SQL
	default:
		panic("unknown backend " + backend)
	}
	if strings.HasPrefix(backend, "cmd") {
		m := &openfgav1.AuthorizationModel{Id: ulid.Make().String(), SchemaVersion: e.model.GetSchemaVersion(), TypeDefinitions: e.model.GetTypeDefinitions(), Conditions: e.model.GetConditions()}
		if err := s.DS.WriteAuthorizationModel(context.Background(), s.Store, m); err != nil {
			panic(err)
		}
		s.ModelID = m.GetId()
	}
	return s
}

func optM(w string) (storage.OnMissingDelete, bool) {
	switch w {
	case "error":
		return storage.OnMissingDeleteError, true
	case "ignore":
		return storage.OnMissingDeleteIgnore, true
	}
	return 0, false
}

func optD(w string) (storage.OnDuplicateInsert, bool) {
	switch w {
	case "error":
		return storage.OnDuplicateInsertError, true
	case "ignore":
		return storage.OnDuplicateInsertIgnore, true
	}
	return 0, false
}

// Write runs one write request against the real code and returns the result class.
func (s *Session) Write(o Op) string {
	ctx := context.Background()
	var dels []*openfgav1.TupleKeyWithoutCondition
	var writes []*openfgav1.TupleKey
	for _, d := range o.Deletes {
		dels = append(dels, ParseDelete(d))
	}
	for _, w := range o.Writes {
		writes = append(writes, ParseWrite(w))
	}
	var err error
	if strings.HasPrefix(s.Backend, "cmd") {
		req := &openfgav1.WriteRequest{StoreId: s.Store, AuthorizationModelId: s.ModelID}
		if len(dels) > 0 || o.OnMissing != "_" {
			req.Deletes = &openfgav1.WriteRequestDeletes{TupleKeys: dels}
			if o.OnMissing != "_" {
				req.Deletes.OnMissing = o.OnMissing
			}
		}
		if len(writes) > 0 || o.OnDuplicate != "_" {
			req.Writes = &openfgav1.WriteRequestWrites{TupleKeys: writes}
			if o.OnDuplicate != "_" {
				req.Writes.OnDuplicate = o.OnDuplicate
			}
		}
		_, err = commands.NewWriteCommand(s.DS).Execute(ctx, req)
	} else {
		var opts []storage.TupleWriteOption
		if m, ok := optM(o.OnMissing); ok {
			opts = append(opts, storage.WithOnMissingDelete(m))
		}
		if d, ok := optD(o.OnDuplicate); ok {
			opts = append(opts, storage.WithOnDuplicateInsert(d))
		}
		err = s.DS.Write(ctx, s.Store, dels, writes, opts...)
	}
	if (s.Backend == "sql" || s.Backend == "cmdsql") && s.E != nil && s.E.LeakedTx() {
		s.DS = s.E.SQL
		return "LEAKED-TX:" + ErrClass(err)
	}
	return ErrClass(err)
}

// ErrClass maps an error of the write path to the small enum the model uses.
func ErrClass(err error) string {
	if err == nil {
		return "ok"
	}
	msg := err.Error()
	switch {
	case strings.Contains(msg, "cannot delete a tuple which does not exist"):
		return "invalid-delete"
	case strings.Contains(msg, "cannot write a tuple which already exists"):
		return "invalid-write"
	case strings.Contains(msg, "already exists with a different condition"):
		return "cond-conflict"
	case strings.Contains(msg, "inserted by another transaction"):
		return "conflict-insert"
	case strings.Contains(msg, "deleted by another transaction"):
		return "conflict-delete"
	case strings.Contains(msg, "invalid 'object' field format"), strings.Contains(msg, "the 'relation' field is malformed"), strings.Contains(msg, "the 'user' field is malformed"):
		return "cmd-invalid-key"
	case strings.Contains(msg, "duplicate tuple in write"):
		return "cmd-duplicate"
	case strings.Contains(msg, "invalid on_duplicate option"), strings.Contains(msg, "invalid on_missing option"):
		return "cmd-badoption"
	case strings.Contains(msg, "Make sure you provide at least one write"):
		return "cmd-empty"
	case strings.Contains(msg, "sql error"), errors.Is(err, errInjected), errors.Is(err, driver.ErrBadConn):
		return "sqlerr"
	}
	m := strings.Map(func(r rune) rune {
		if r == ' ' || r == '\t' || r == '\n' || r == ';' || r == ',' {
			return '_'
		}
		return r
	}, msg)
	if len(m) > 80 {
		m = m[:80]
	}
	return "other:" + m
}

// Tuples returns the store's tuples in insertion (ULID) order, as write tokens. It also reads them through the
// unordered `Read` and flags a difference between the two.
func (s *Session) Tuples() string {
	ctx := context.Background()
	page, tok, err := s.DS.ReadPage(ctx, s.Store, storage.ReadFilter{}, storage.ReadPageOptions{Pagination: storage.NewPaginationOptions(1000, "")})
	if err != nil {
		return "READERR:" + ErrClass(err)
	}
	var out []string
	for _, t := range page {
		out = append(out, FmtTuple(t.GetKey()))
	}
	it, err := s.DS.Read(ctx, s.Store, storage.ReadFilter{}, storage.ReadOptions{})
	if err != nil {
		return "READERR:" + ErrClass(err)
	}
	defer it.Stop()
	var set []string
	for {
		t, err := it.Next(ctx)
		if err != nil {
			break
		}
		set = append(set, FmtTuple(t.GetKey()))
	}
	a := append([]string{}, out...)
	sort.Strings(a)
	sort.Strings(set)
	if tok != "" || strings.Join(a, ",") != strings.Join(set, ",") {
		return "READMISMATCH:" + unlist(out) + "/" + unlist(set)
	}
	return unlist(out)
}

func fmtChange(c *openfgav1.TupleChange) string {
	switch c.GetOperation() {
	case openfgav1.TupleOperation_TUPLE_OPERATION_WRITE:
		return "+" + FmtTuple(c.GetTupleKey())
	case openfgav1.TupleOperation_TUPLE_OPERATION_DELETE:
		return "-" + FmtTuple(c.GetTupleKey())
	}
	return "?" + FmtTuple(c.GetTupleKey())
}

// Changes reads the whole changelog (one big page) with the given filter.
func (s *Session) Changes(typ string, horizon time.Duration, desc bool) string {
	ch, _, err := s.DS.ReadChanges(context.Background(), s.Store, storage.ReadChangesFilter{ObjectType: typ, HorizonOffset: horizon},
		storage.ReadChangesOptions{Pagination: storage.NewPaginationOptions(1000, ""), SortDesc: desc})
	if err != nil {
		if errors.Is(err, storage.ErrNotFound) {
			return "_"
		}
		return "CHGERR:" + ErrClass(err)
	}
	var out []string
	for _, c := range ch {
		out = append(out, fmtChange(c))
	}
	return unlist(out)
}

// ChangesPaged walks the changelog with page size `ps` following the continuation tokens until ErrNotFound.
func (s *Session) ChangesPaged(typ string, ps int, desc bool) string {
	var out []string
	tok := ""
	for i := 0; i < 10000; i++ {
		ch, next, err := s.DS.ReadChanges(context.Background(), s.Store, storage.ReadChangesFilter{ObjectType: typ},
			storage.ReadChangesOptions{Pagination: storage.NewPaginationOptions(int32(ps), tok), SortDesc: desc})
		if err != nil {
			if errors.Is(err, storage.ErrNotFound) {
				break
			}
			return "CHGERR:" + ErrClass(err)
		}
		for _, c := range ch {
			out = append(out, fmtChange(c))
		}
		tok = next
	}
	return unlist(out)
}

// State is "tuples;changes(asc)".
func (s *Session) State() string {
	return s.Tuples() + ";" + s.Changes("", 0, false)
}

// ---------------------------------------------------------------------------------------------
// C15: paged reads with a horizon, concurrent writers

// ChangesPagedH walks the datastore's changelog page by page (ascending) with the horizon `hz()` evaluated anew for
// every call, following the continuation tokens until ErrNotFound.
func (s *Session) ChangesPagedH(typ string, ps int, hz func() time.Duration) string {
	var out []string
	tok := ""
	for i := 0; i < 10000; i++ {
		ch, next, err := s.DS.ReadChanges(context.Background(), s.Store, storage.ReadChangesFilter{ObjectType: typ, HorizonOffset: hz()},
			storage.ReadChangesOptions{Pagination: storage.NewPaginationOptions(int32(ps), tok)})
		if err != nil {
			if errors.Is(err, storage.ErrNotFound) {
				break
			}
			return "CHGERR:" + ErrClass(err)
		}
		for _, c := range ch {
			out = append(out, fmtChange(c))
		}
		tok = next
	}
	return unlist(out)
}

// hzBackend sits between commands.ReadChangesQuery and the datastore.  The query is configured with a horizon of
// HzMinutes minutes (the option's unit); whenever the filter it builds carries exactly that offset the datastore is
// called with the *real* offset `real()` (so that the horizon falls into the pause of the history), a zero offset is
// passed on as zero.  Trace records what the query handed over on each call: q = the configured offset, 0 = none.
type hzBackend struct {
	inner storage.OpenFGADatastore
	real  func() time.Duration
	Trace []string
}

const HzMinutes = 7

func (b *hzBackend) ReadChanges(ctx context.Context, store string, filter storage.ReadChangesFilter, options storage.ReadChangesOptions) ([]*openfgav1.TupleChange, string, error) {
	switch filter.HorizonOffset {
	case HzMinutes * time.Minute:
		b.Trace = append(b.Trace, "q")
		filter.HorizonOffset = b.real()
	case 0:
		b.Trace = append(b.Trace, "0")
	default:
		b.Trace = append(b.Trace, "other")
	}
	return b.inner.ReadChanges(ctx, store, filter, options)
}

// QueryPaged reads the changelog the way an API client does: commands.ReadChangesQuery (configured horizon, base64
// tokens) with page size `ps`, following the continuation token until a response carries no changes.
// Returns the concatenated changes and the horizon trace ("q.q.q").
func (s *Session) QueryPaged(typ string, ps int, real func() time.Duration) (string, string) {
	hb := &hzBackend{inner: s.DS, real: real}
	q := commands.NewReadChangesQuery(hb, commands.WithReadChangeQueryHorizonOffset(HzMinutes))
	var out []string
	tok := ""
	for i := 0; i < 10000; i++ {
		resp, err := q.Execute(context.Background(), &openfgav1.ReadChangesRequest{StoreId: s.Store, Type: typ,
			PageSize: wrapperspb.Int32(int32(ps)), ContinuationToken: tok})
		if err != nil {
			return "QERR:" + ErrClass(err), strings.Join(hb.Trace, ".")
		}
		if len(resp.GetChanges()) == 0 {
			break
		}
		for _, c := range resp.GetChanges() {
			out = append(out, fmtChange(c))
		}
		tok = resp.GetContinuationToken()
	}
	return unlist(out), strings.Join(hb.Trace, ".")
}

// ConcurrentWrites: `prefill` tuples are stored first (in requests of 100, so that every later Write has a store to
// scan), then `writers` goroutines start together and each makes `per` Write calls of one fresh tuple
// (doc:w<g>x<j>#viewer@user:a, j ascending).  Afterwards the whole changelog is read in one call and then walked with
// page size `ps` following the tokens.  The result names no ULID, time or interleaving:
//
//	total=<entries in the one-call read> paged=<entries of the walk> missing=<in the one-call read, not in the walk>
//	repeated=<seen twice in the walk> alien=<in the walk, not in the one-call read> order=<ok|BAD: the walk is not a
//	subsequence-equal copy of the one-call read> perwriter=<ok|BAD: some writer's entries not in its own order>
//	tuples=<tuples stored> errors=<failed Write calls>
func (s *Session) ConcurrentWrites(writers, per, prefill, ps int) string {
	ctx := context.Background()
	for start := 0; start < prefill; start += 100 {
		var ws []*openfgav1.TupleKey
		for i := start; i < start+100 && i < prefill; i++ {
			ws = append(ws, &openfgav1.TupleKey{Object: fmt.Sprintf("folder:p%d", i), Relation: "viewer", User: "user:a"})
		}
		if err := s.DS.Write(ctx, s.Store, nil, ws); err != nil {
			return "PREFILL-ERR:" + ErrClass(err)
		}
	}
	var wg sync.WaitGroup
	start := make(chan struct{})
	var mu sync.Mutex
	nerr := 0
	for g := 0; g < writers; g++ {
		wg.Add(1)
		go func(g int) {
			defer wg.Done()
			<-start
			for j := 0; j < per; j++ {
				tk := &openfgav1.TupleKey{Object: fmt.Sprintf("doc:w%dx%d", g, j), Relation: "viewer", User: "user:a"}
				if err := s.DS.Write(ctx, s.Store, nil, []*openfgav1.TupleKey{tk}); err != nil {
					mu.Lock()
					nerr++
					mu.Unlock()
				}
			}
		}(g)
	}
	close(start)
	wg.Wait()
	big := int32(prefill + writers*per + 100)
	full, _, err := s.DS.ReadChanges(ctx, s.Store, storage.ReadChangesFilter{}, storage.ReadChangesOptions{Pagination: storage.NewPaginationOptions(big, "")})
	if err != nil {
		return "CHGERR:" + ErrClass(err)
	}
	var fullS []string
	for _, c := range full {
		fullS = append(fullS, fmtChange(c))
	}
	var walk []string
	tok := ""
	for i := 0; i < 100000; i++ {
		ch, next, err := s.DS.ReadChanges(ctx, s.Store, storage.ReadChangesFilter{}, storage.ReadChangesOptions{Pagination: storage.NewPaginationOptions(int32(ps), tok)})
		if err != nil {
			if errors.Is(err, storage.ErrNotFound) {
				break
			}
			return "CHGERR:" + ErrClass(err)
		}
		for _, c := range ch {
			walk = append(walk, fmtChange(c))
		}
		tok = next
	}
	inFull := map[string]int{}
	for _, x := range fullS {
		inFull[x]++
	}
	seen := map[string]int{}
	repeated, alien := 0, 0
	for _, x := range walk {
		seen[x]++
		if seen[x] == 2 {
			repeated++
		}
		if inFull[x] == 0 {
			alien++
		}
	}
	missing := 0
	for _, x := range fullS {
		if seen[x] == 0 {
			missing++
		}
	}
	order := "ok"
	if strings.Join(walk, ",") != strings.Join(fullS, ",") {
		order = "BAD"
	}
	perw := "ok"
	last := map[string]int{}
	for _, x := range fullS {
		if !strings.HasPrefix(x, "+doc:w") {
			continue
		}
		var g, j int
		if _, err := fmt.Sscanf(x, "+doc:w%dx%d#", &g, &j); err != nil {
			continue
		}
		k := fmt.Sprint(g)
		if l, ok := last[k]; ok && j <= l {
			perw = "BAD"
		}
		last[k] = j
	}
	page, _, err := s.DS.ReadPage(ctx, s.Store, storage.ReadFilter{}, storage.ReadPageOptions{Pagination: storage.NewPaginationOptions(big, "")})
	if err != nil {
		return "READERR:" + ErrClass(err)
	}
	return fmt.Sprintf("total=%d paged=%d missing=%d repeated=%d alien=%d order=%s perwriter=%s tuples=%d errors=%d",
		len(fullS), len(walk), missing, repeated, alien, order, perw, len(page), nerr)
}
