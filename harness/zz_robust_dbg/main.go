package main

import (
	"context"
	"fmt"
	"runtime"
	"strings"
	"time"

	openfgav1 "github.com/openfga/api/proto/openfga/v1"
	"google.golang.org/protobuf/proto"

	"github.com/openfga/openfga/pkg/server"
	"github.com/openfga/openfga/pkg/storage/memory"
)

func this() *openfgav1.Userset {
	return &openfgav1.Userset{Userset: &openfgav1.Userset_This{This: &openfgav1.DirectUserset{}}}
}

func chain(depth int) *openfgav1.Userset {
	u := this()
	for i := 0; i < depth; i++ {
		u = &openfgav1.Userset{Userset: &openfgav1.Userset_Union{Union: &openfgav1.Usersets{Child: []*openfgav1.Userset{this(), u}}}}
	}
	return u
}

func main() {
	s := server.MustNewServerWithOpts(server.WithDatastore(memory.New()))
	ctx := context.Background()
	for _, cfg := range [][2]int{{1000, 0}} {
		n, d := cfg[0], cfg[1]
		rels := map[string]*openfgav1.Userset{}
		meta := map[string]*openfgav1.RelationMetadata{}
		for i := 0; i < n; i++ {
			rels[fmt.Sprintf("q%d", i)] = &openfgav1.Userset{Userset: &openfgav1.Userset_ComputedUserset{ComputedUserset: &openfgav1.ObjectRelation{Relation: fmt.Sprintf("q%d", i+1)}}}
		}
		rels[fmt.Sprintf("q%d", n)] = chain(d)
		meta[fmt.Sprintf("q%d", n)] = &openfgav1.RelationMetadata{DirectlyRelatedUserTypes: []*openfgav1.RelationReference{{Type: "user"}}}
		cs, _ := s.CreateStore(ctx, &openfgav1.CreateStoreRequest{Name: "dbg-store"})
		req := &openfgav1.WriteAuthorizationModelRequest{StoreId: cs.GetId(), SchemaVersion: "1.1", TypeDefinitions: []*openfgav1.TypeDefinition{{Type: "user"}, {Type: "doc",
			Relations: rels, Metadata: &openfgav1.Metadata{Relations: meta}}}}
		b, _ := proto.Marshal(req)
		wire := proto.Unmarshal(b, &openfgav1.WriteAuthorizationModelRequest{})
		start := time.Now()
		done := make(chan error, 1)
		tctx, cancel := context.WithTimeout(ctx, 2*time.Second)
		defer cancel()
		go func() { _, err := s.WriteAuthorizationModel(tctx, req); done <- err }()
		go func() {
			for _, at := range []int{3, 9} {
				time.Sleep(time.Duration(at) * time.Second)
				buf := make([]byte, 1<<20)
				n := runtime.Stack(buf, true)
				for _, g := range strings.Split(string(buf[:n]), "\n\n") {
					if strings.Contains(g, "WriteAuthorizationModel") {
						ls := strings.Split(g, "\n")
						for i, l := range ls {
							if i > 0 && i < 16 && !strings.HasPrefix(l, "\t") {
								fmt.Println("   ", l[:min(len(l), 110)])
							}
						}
						fmt.Println("    ----")
					}
				}
			}
		}()
		select {
		case err := <-done:
			msg := fmt.Sprint(err)
			if len(msg) > 110 {
				msg = msg[:110]
			}
			fmt.Printf("computed chain %d ending in a union nested %d deep (%d bytes, wire decodable: %v): returned after %v: %s\n", n, d, len(b), wire == nil, time.Since(start).Round(time.Millisecond), msg)
		case <-time.After(240 * time.Second):
			fmt.Printf("computed chain %d, depth %d (%d bytes, wire decodable: %v): NOT returned after 240s\n", n, d, len(b), wire == nil)
			return
		}
	}
}
