package main

import (
	"context"
	"fmt"
	"os"
	"runtime"
	"time"

	openfgav1 "github.com/openfga/api/proto/openfga/v1"
	parser "github.com/openfga/language/pkg/go/transformer"

	"github.com/openfga/openfga/pkg/server"
	"github.com/openfga/openfga/pkg/storage/memory"
)

func try(name, dsl string, typ, rel, user string, tuples [][3]string) {
	ds := memory.New()
	s := server.MustNewServerWithOpts(server.WithDatastore(ds), server.WithExperimentals("pipeline_list_objects"), server.WithListObjectsPipelineEnabled(true))
	ctx := context.Background()
	cs, _ := s.CreateStore(ctx, &openfgav1.CreateStoreRequest{Name: "dbg-store"})
	m := parser.MustTransformDSLToProto(dsl)
	_, err := s.WriteAuthorizationModel(ctx, &openfgav1.WriteAuthorizationModelRequest{StoreId: cs.GetId(), TypeDefinitions: m.GetTypeDefinitions(), SchemaVersion: m.GetSchemaVersion(), Conditions: m.GetConditions()})
	if err != nil {
		fmt.Println(name, "model error", err)
		return
	}
	for _, t := range tuples {
		if err := ds.Write(ctx, cs.GetId(), nil, []*openfgav1.TupleKey{{Object: t[0], Relation: t[1], User: t[2]}}); err != nil {
			fmt.Println("write", err)
		}
	}
	done := make(chan string, 1)
	start := time.Now()
	go func() {
		r, err := s.ListObjects(ctx, &openfgav1.ListObjectsRequest{StoreId: cs.GetId(), Type: typ, Relation: rel, User: user})
		if err != nil {
			done <- "err " + err.Error()
			return
		}
		done <- fmt.Sprint("ok ", r.GetObjects())
	}()
	select {
	case r := <-done:
		fmt.Println(name, "=>", r, time.Since(start).Round(time.Millisecond))
	case <-time.After(8 * time.Second):
		fmt.Println(name, "=> HANG (no return 8s after the call; ListObjects deadline is 3s), goroutines:", runtime.NumGoroutine())
		if os.Getenv("STACKS") != "" {
			buf := make([]byte, 1<<20)
			n := runtime.Stack(buf, true)
			os.Stdout.Write(buf[:n])
		}
	}
}

func tryProto(name string, editor *openfgav1.Userset, typ, rel, user string, selfRef bool) {
	ds := memory.New()
	s := server.MustNewServerWithOpts(server.WithDatastore(ds), server.WithExperimentals("pipeline_list_objects"), server.WithListObjectsPipelineEnabled(true))
	ctx := context.Background()
	cs, _ := s.CreateStore(ctx, &openfgav1.CreateStoreRequest{Name: "dbg-store"})
	this := func() *openfgav1.Userset { return &openfgav1.Userset{Userset: &openfgav1.Userset_This{This: &openfgav1.DirectUserset{}}} }
	_ = this
	tds := []*openfgav1.TypeDefinition{{Type: "user"}, {Type: "group",
		Relations: map[string]*openfgav1.Userset{"editor": editor, "viewer": this()},
		Metadata: &openfgav1.Metadata{Relations: map[string]*openfgav1.RelationMetadata{
			"editor": {DirectlyRelatedUserTypes: func() []*openfgav1.RelationReference {
				r := []*openfgav1.RelationReference{{Type: "user"}}
				if selfRef {
					r = append(r, &openfgav1.RelationReference{Type: "group", RelationOrWildcard: &openfgav1.RelationReference_Relation{Relation: "editor"}})
				}
				return r
			}()},
			"viewer": {DirectlyRelatedUserTypes: []*openfgav1.RelationReference{{Type: "group", RelationOrWildcard: &openfgav1.RelationReference_Relation{Relation: "editor"}}}},
		}}}}
	_, err := s.WriteAuthorizationModel(ctx, &openfgav1.WriteAuthorizationModelRequest{StoreId: cs.GetId(), TypeDefinitions: tds, SchemaVersion: "1.1"})
	if err != nil {
		fmt.Println(name, "model error", err)
		return
	}
	done := make(chan string, 1)
	start := time.Now()
	go func() {
		r, err := s.ListObjects(ctx, &openfgav1.ListObjectsRequest{StoreId: cs.GetId(), Type: typ, Relation: rel, User: user})
		if err != nil {
			done <- "err " + err.Error()
			return
		}
		done <- fmt.Sprint("ok ", r.GetObjects())
	}()
	select {
	case r := <-done:
		fmt.Println(name, "=>", r, time.Since(start).Round(time.Millisecond))
	case <-time.After(8 * time.Second):
		fmt.Println(name, "=> HANG (no return 8s after the call; ListObjects deadline is 3s), goroutines:", runtime.NumGoroutine())
		if os.Getenv("STACKS") != "" {
			buf := make([]byte, 1<<20)
			n := runtime.Stack(buf, true)
			os.Stdout.Write(buf[:n])
		}
	}
}

func main() {
	this := func() *openfgav1.Userset { return &openfgav1.Userset{Userset: &openfgav1.Userset_This{This: &openfgav1.DirectUserset{}}} }
	un := func(k ...*openfgav1.Userset) *openfgav1.Userset {
		return &openfgav1.Userset{Userset: &openfgav1.Userset_Union{Union: &openfgav1.Usersets{Child: k}}}
	}
	tryProto("P0 editor=union(this,this) [user] only, list editor", un(this(), this()), "group", "editor", "user:z", false)
	tryProto("P1 editor=this", this(), "group", "viewer", "user:z", true)
	tryProto("P2 editor=union(this,this)", un(this(), this()), "group", "viewer", "user:z", true)
	tryProto("P3 editor=union(union(this,this),this)", un(un(this(), this()), this()), "group", "viewer", "user:z", true)
	tryProto("P4 editor=union(this,this) list editor", un(this(), this()), "group", "editor", "user:z", true)

	try("A orig", `model
  schema 1.1
type user
type group
  relations
    define editor: [user, user:*, group#editor]
    define viewer: [group#editor, group#viewer]`, "group", "viewer", "user:z", nil)
	try("B no-wildcard", `model
  schema 1.1
type user
type group
  relations
    define editor: [user, group#editor]
    define viewer: [group#editor, group#viewer]`, "group", "viewer", "user:z", nil)
	try("C viewer-no-self", `model
  schema 1.1
type user
type group
  relations
    define editor: [user, group#editor]
    define viewer: [group#editor]`, "group", "viewer", "user:z", nil)
	try("D editor-no-self", `model
  schema 1.1
type user
type group
  relations
    define editor: [user]
    define viewer: [group#editor, group#viewer]`, "group", "viewer", "user:z", nil)
	try("E single-self", `model
  schema 1.1
type user
type group
  relations
    define member: [user, group#member]`, "group", "member", "user:z", nil)
	try("B with tuples", `model
  schema 1.1
type user
type group
  relations
    define editor: [user, group#editor]
    define viewer: [group#editor, group#viewer]`, "group", "viewer", "user:z", [][3]string{{"group:a", "editor", "user:z"}, {"group:b", "viewer", "group:a#editor"}})
}
