package main

import (
	"context"
	"fmt"

	openfgav1 "github.com/openfga/api/proto/openfga/v1"

	"github.com/openfga/openfga/pkg/server"
	"github.com/openfga/openfga/pkg/storage/memory"
)

func try(name string, rr *openfgav1.RelationReference) {
	defer func() {
		if p := recover(); p != nil {
			fmt.Println(name, "=> PANIC:", p)
		}
	}()
	s := server.MustNewServerWithOpts(server.WithDatastore(memory.New()))
	ctx := context.Background()
	cs, _ := s.CreateStore(ctx, &openfgav1.CreateStoreRequest{Name: "dbg-store"})
	this := &openfgav1.Userset{Userset: &openfgav1.Userset_This{This: &openfgav1.DirectUserset{}}}
	tds := []*openfgav1.TypeDefinition{{Type: "user"}, {Type: "doc",
		Relations: map[string]*openfgav1.Userset{"viewer": this},
		Metadata:  &openfgav1.Metadata{Relations: map[string]*openfgav1.RelationMetadata{"viewer": {DirectlyRelatedUserTypes: []*openfgav1.RelationReference{rr}}}}}}
	_, err := s.WriteAuthorizationModel(ctx, &openfgav1.WriteAuthorizationModelRequest{StoreId: cs.GetId(), TypeDefinitions: tds, SchemaVersion: "1.1"})
	fmt.Println(name, "=>", err)
}

func main() {
	try("relation oneof set to empty string", &openfgav1.RelationReference{Type: "user", RelationOrWildcard: &openfgav1.RelationReference_Relation{Relation: ""}})
	try("wildcard oneof with nil payload", &openfgav1.RelationReference{Type: "user", RelationOrWildcard: &openfgav1.RelationReference_Wildcard{}})
	try("plain [user]", &openfgav1.RelationReference{Type: "user"})
	try("[user:*]", &openfgav1.RelationReference{Type: "user", RelationOrWildcard: &openfgav1.RelationReference_Wildcard{Wildcard: &openfgav1.Wildcard{}}})
}
