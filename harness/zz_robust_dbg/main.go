package main

import (
	"context"
	"fmt"
	"os"
	"time"

	openfgav1 "github.com/openfga/api/proto/openfga/v1"
	"google.golang.org/protobuf/proto"

	"github.com/openfga/openfga/pkg/server"
	"github.com/openfga/openfga/pkg/storage/memory"
)

func depth(u *openfgav1.Userset) (int, int) {
	d, n := 0, 1
	var stack []*openfgav1.Userset
	type fr struct {
		u *openfgav1.Userset
		d int
	}
	st := []fr{{u, 1}}
	_ = stack
	n = 0
	for len(st) > 0 {
		f := st[len(st)-1]
		st = st[:len(st)-1]
		if f.u == nil {
			continue
		}
		n++
		if f.d > d {
			d = f.d
		}
		switch t := f.u.GetUserset().(type) {
		case *openfgav1.Userset_Union:
			for _, k := range t.Union.GetChild() {
				st = append(st, fr{k, f.d + 1})
			}
		case *openfgav1.Userset_Intersection:
			for _, k := range t.Intersection.GetChild() {
				st = append(st, fr{k, f.d + 1})
			}
		case *openfgav1.Userset_Difference:
			st = append(st, fr{t.Difference.GetBase(), f.d + 1}, fr{t.Difference.GetSubtract(), f.d + 1})
		}
	}
	return d, n
}

func main() {
	b, _ := os.ReadFile(os.Args[1])
	req := &openfgav1.WriteAuthorizationModelRequest{}
	if err := (proto.UnmarshalOptions{RecursionLimit: 10000000}).Unmarshal(b, req); err != nil {
		panic(err)
	}
	fmt.Println("bytes", len(b), "types", len(req.GetTypeDefinitions()), "conds", len(req.GetConditions()), "schema", req.GetSchemaVersion())
	for _, td := range req.GetTypeDefinitions() {
		for rn, rw := range td.GetRelations() {
			if d, n := depth(rw); d > 3 {
				fmt.Printf("  %s#%s rewrite depth %d nodes %d restrictions %v\n", td.GetType(), rn, d, n, td.GetMetadata().GetRelations()[rn].GetDirectlyRelatedUserTypes())
			}
		}
		fmt.Printf("  type %q has %d relations\n", td.GetType(), len(td.GetRelations()))
	}
	for n, c := range req.GetConditions() {
		e := c.GetExpression()
		if len(e) > 60 {
			e = e[:60] + "…"
		}
		fmt.Printf("  cond %s: %q\n", n, e)
	}
	if len(os.Args) > 2 {
		return
	}
	s := server.MustNewServerWithOpts(server.WithDatastore(memory.New()))
	ctx := context.Background()
	cs, _ := s.CreateStore(ctx, &openfgav1.CreateStoreRequest{Name: "dbg-store"})
	req.StoreId = cs.GetId()
	start := time.Now()
	done := make(chan error, 1)
	go func() { _, err := s.WriteAuthorizationModel(ctx, req); done <- err }()
	select {
	case err := <-done:
		msg := fmt.Sprint(err)
		if len(msg) > 200 {
			msg = msg[:200]
		}
		fmt.Println("returned after", time.Since(start).Round(time.Millisecond), msg)
	case <-time.After(200 * time.Second):
		fmt.Println("NOT returned after 200s")
	}
}
