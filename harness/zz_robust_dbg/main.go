package main

import (
	"context"
	"fmt"

	openfgav1 "github.com/openfga/api/proto/openfga/v1"

	"github.com/openfga/openfga/pkg/server"
	"github.com/openfga/openfga/pkg/storage/memory"
)

func main() {
	s := server.MustNewServerWithOpts(server.WithDatastore(memory.New()))
	ctx := context.Background()
	cs, _ := s.CreateStore(ctx, &openfgav1.CreateStoreRequest{Name: "dbg-store"})
	for _, tok := range []string{"", "AAAA", "abc", "MDFIVk1NQkNNR1pOVDNTRUQ0WjE3RUNYQ0E="} {
		_, e1 := s.ListStores(ctx, &openfgav1.ListStoresRequest{ContinuationToken: tok})
		_, e3 := s.ReadAuthorizationModels(ctx, &openfgav1.ReadAuthorizationModelsRequest{StoreId: cs.GetId(), ContinuationToken: tok})
		fmt.Printf("token %.20q: ListStores: %v | ReadAuthorizationModels: %v\n", tok, e1, e3)
	}
}
