package main

import (
	"context"
	"fmt"

	openfgav1 "github.com/openfga/api/proto/openfga/v1"
	parser "github.com/openfga/language/pkg/go/transformer"
	"google.golang.org/protobuf/types/known/structpb"

	"github.com/openfga/openfga/pkg/server"
	"github.com/openfga/openfga/pkg/storage/memory"
)

func main() {
	s := server.MustNewServerWithOpts(server.WithDatastore(memory.New()))
	ctx := context.Background()
	cs, _ := s.CreateStore(ctx, &openfgav1.CreateStoreRequest{Name: "dbg-store"})
	m := parser.MustTransformDSLToProto(`model
  schema 1.1
type user
type group
  relations
    define member: [user, group#member]
type folder
  relations
    define parent: [folder]
    define viewer: [user, group#member, user with c_all] or viewer from parent
type doc
  relations
    define parent: [folder]
    define viewer: [user, group#member, user with c_all]
    define both: viewer and viewer from parent
condition c_all(b: bool) {
  b
}`)
	_, err := s.WriteAuthorizationModel(ctx, &openfgav1.WriteAuthorizationModelRequest{StoreId: cs.GetId(), TypeDefinitions: m.GetTypeDefinitions(), SchemaVersion: "1.1", Conditions: m.GetConditions()})
	if err != nil {
		panic(err)
	}
	_, err = s.Write(ctx, &openfgav1.WriteRequest{StoreId: cs.GetId(), Writes: &openfgav1.WriteRequestWrites{TupleKeys: []*openfgav1.TupleKey{
		{Object: "doc:1", Relation: "viewer", User: "group:g3#member"},
		{Object: "doc:1", Relation: "parent", User: "folder:f1"},
		{Object: "folder:f1", Relation: "viewer", User: "user:m", Condition: &openfgav1.RelationshipCondition{Name: "c_all"}},
		{Object: "folder:f1", Relation: "viewer", User: "group:g3#member"},
	}}})
	fmt.Println("write:", err)
	var tks []*openfgav1.TupleKey
	for i := 0; i < 30; i++ {
		tks = append(tks, &openfgav1.TupleKey{Object: fmt.Sprintf("group:g%d", i), Relation: "member", User: fmt.Sprintf("group:g%d#member", (i+1)%30)})
	}
	tks = append(tks, &openfgav1.TupleKey{Object: "folder:f1", Relation: "parent", User: "folder:f2"}, &openfgav1.TupleKey{Object: "folder:f2", Relation: "parent", User: "folder:f1"})
	_, err = s.Write(ctx, &openfgav1.WriteRequest{StoreId: cs.GetId(), Writes: &openfgav1.WriteRequestWrites{TupleKeys: tks}})
	fmt.Println("write2:", err)
	for _, c := range []map[string]interface{}{nil, {"b": true}, {"b": []interface{}{"x"}}, {"b": "notabool"}} {
		var st *structpb.Struct
		if c != nil {
			st, _ = structpb.NewStruct(c)
		}
		for _, u := range []string{"group:g3#member", "user:m"} {
			_, e1 := s.ListObjects(ctx, &openfgav1.ListObjectsRequest{StoreId: cs.GetId(), Type: "doc", Relation: "both", User: u, Context: st})
			_, e2 := s.Check(ctx, &openfgav1.CheckRequest{StoreId: cs.GetId(), TupleKey: &openfgav1.CheckRequestTupleKey{Object: "doc:1", Relation: "both", User: u}, Context: st})
			fmt.Printf("ctx=%v user=%s\n   ListObjects: %.120v\n   Check:       %.120v\n", c, u, e1, e2)
		}
	}
}
