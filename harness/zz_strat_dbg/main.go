package main

import (
	"context"
	"fmt"

	parser "github.com/openfga/language/pkg/go/transformer"
	"github.com/openfga/openfga/pkg/typesystem"
	"github.com/openfga/openfga/verifharness/fga"
	"github.com/openfga/openfga/verifharness/fgarun"
)

func run(name, dsl string, tuples []fga.Tuple, rq fga.Req) {
	m := parser.MustTransformDSLToProto(dsl)
	m.Id = fgarun.ModelID
	ts, err := typesystem.NewAndValidate(context.Background(), m)
	if err != nil {
		fmt.Println(name, "invalid model:", err)
		return
	}
	ds := fgarun.Store(tuples)
	defer ds.Close()
	for _, s := range []string{"default", "weight2", "recursive"} {
		off := map[string]bool{}
		out := fgarun.Check(ts, ds, fgarun.Config{MaxDepth: 25, Breadth: 1, Strategy: s}, rq, nil, &fgarun.ForcedPlanner{Want: s, Offered: off})
		fmt.Println(name, s, "=>", out, "offered", fgarun.OfferedSnapshot(off))
	}
}

func main() {
	run("R3", `model
  schema 1.1
type user
type group
  relations
    define allowed: [user]
    define member: [user, group#member] and allowed
`, []fga.Tuple{
		{Obj: "group:1", Rel: "member", User: "group:2#member"},
		{Obj: "group:2", Rel: "member", User: "user:x"},
		{Obj: "group:2", Rel: "allowed", User: "user:x"},
	}, fga.Req{Obj: "group:1", Rel: "member", User: "user:x"})
	run("R4", `model
  schema 1.1
type user
type group
  relations
    define banned: [user]
    define member: [user, group#member] but not banned
`, []fga.Tuple{
		{Obj: "group:1", Rel: "member", User: "group:2#member"},
		{Obj: "group:2", Rel: "member", User: "user:x"},
		{Obj: "group:1", Rel: "banned", User: "user:x"},
	}, fga.Req{Obj: "group:1", Rel: "member", User: "user:x"})
	run("R5", `model
  schema 1.1
type user
type group
  relations
    define banned: [user]
    define member: [user, group#member] but not banned
`, []fga.Tuple{
		{Obj: "group:1", Rel: "member", User: "group:2#member"},
		{Obj: "group:2", Rel: "member", User: "group:3#member"},
		{Obj: "group:3", Rel: "member", User: "user:x"},
		{Obj: "group:2", Rel: "banned", User: "user:x"},
	}, fga.Req{Obj: "group:1", Rel: "member", User: "user:x"})
}
