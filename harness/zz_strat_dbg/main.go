package main

import (
	"context"
	"fmt"

	parser "github.com/openfga/language/pkg/go/transformer"
	"github.com/openfga/openfga/pkg/typesystem"
	"github.com/openfga/openfga/verifharness/fga"
	"github.com/openfga/openfga/verifharness/fgarun"
)

func run(name, dsl string, tuples []fga.Tuple, rq fga.Req) {
	m := parser.MustTransformDSLToProto(dsl)
	m.Id = fgarun.ModelID
	ts, err := typesystem.NewAndValidate(context.Background(), m)
	if err != nil {
		fmt.Println(name, "invalid model:", err)
		return
	}
	ds := fgarun.Store(tuples)
	defer ds.Close()
	for _, s := range []string{"default", "weight2", "recursive"} {
		off := map[string]bool{}
		out := fgarun.Check(ts, ds, fgarun.Config{MaxDepth: 25, Breadth: 1, Strategy: s}, rq, nil, &fgarun.ForcedPlanner{Want: s, Offered: off})
		fmt.Println(name, s, "=>", out, "offered", fgarun.OfferedSnapshot(off))
	}
}

func main() {
	run("R1", `model
  schema 1.1
type user
type employee
type group
  relations
    define other: [employee]
    define member: [user, group#member, group#other]
`, []fga.Tuple{
		{Obj: "group:1", Rel: "member", User: "group:2#other"},
		{Obj: "group:2", Rel: "member", User: "user:x"},
	}, fga.Req{Obj: "group:1", Rel: "member", User: "user:x"})

	run("R2", `model
  schema 1.1
type user
type employee
type org
  relations
    define parent: [folder]
    define rviewer: [employee]
type folder
  relations
    define parent: [folder, org]
    define rviewer: [user] or rviewer from parent
`, []fga.Tuple{
		{Obj: "folder:1", Rel: "parent", User: "org:o"},
		{Obj: "org:o", Rel: "parent", User: "folder:2"},
		{Obj: "folder:2", Rel: "rviewer", User: "user:x"},
	}, fga.Req{Obj: "folder:1", Rel: "rviewer", User: "user:x"})
}
