package main

import (
	"context"
	"errors"
	"fmt"
	"sync/atomic"

	"github.com/oklog/ulid/v2"
	openfgav1 "github.com/openfga/api/proto/openfga/v1"

	"github.com/openfga/openfga/pkg/storage"
	"github.com/openfga/openfga/pkg/storage/memory"
)

// one sequential writer on the memory backend + unrelated goroutines calling ulid.Make() (as CreateStore /
// WriteAuthorizationModel do): is the changelog still in ULID order (= is a token walk complete)?
func main() {
	ds := memory.New()
	ctx := context.Background()
	store := ulid.Make().String()
	var stop atomic.Bool
	for g := 0; g < 8; g++ {
		go func() {
			for !stop.Load() {
				_ = ulid.Make()
			}
		}()
	}
	n := 3000
	for i := 0; i < n; i++ {
		tk := &openfgav1.TupleKey{Object: fmt.Sprintf("doc:%d", i), Relation: "viewer", User: "user:a"}
		if err := ds.Write(ctx, store, nil, []*openfgav1.TupleKey{tk}); err != nil {
			panic(err)
		}
	}
	stop.Store(true)
	full, _, _ := ds.ReadChanges(ctx, store, storage.ReadChangesFilter{}, storage.ReadChangesOptions{Pagination: storage.NewPaginationOptions(int32(n+10), "")})
	walk := 0
	tok := ""
	for {
		ch, next, err := ds.ReadChanges(ctx, store, storage.ReadChangesFilter{}, storage.ReadChangesOptions{Pagination: storage.NewPaginationOptions(10, tok)})
		if err != nil {
			if errors.Is(err, storage.ErrNotFound) {
				break
			}
			panic(err)
		}
		walk += len(ch)
		tok = next
	}
	fmt.Printf("one-call read: %d changes, token walk (page 10): %d changes\n", len(full), walk)
}
