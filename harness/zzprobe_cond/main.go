package main

import (
	"context"
	"fmt"
	"time"

	openfgav1 "github.com/openfga/api/proto/openfga/v1"
	parser "github.com/openfga/language/pkg/go/transformer"
	"google.golang.org/protobuf/types/known/structpb"

	"github.com/openfga/openfga/pkg/server"
	"github.com/openfga/openfga/pkg/storage/memory"
)

func main() {
	s := server.MustNewServerWithOpts(server.WithDatastore(memory.New()))
	defer s.Close()
	ctx := context.Background()
	st, err := s.CreateStore(ctx, &openfgav1.CreateStoreRequest{Name: "probe"})
	if err != nil {
		panic(err)
	}
	model := parser.MustTransformDSLToProto(`model
  schema 1.1
type user
type doc
  relations
    define viewer: [user with small]
condition small(x: int) {
  x < 10
}`)
	wm, err := s.WriteAuthorizationModel(ctx, &openfgav1.WriteAuthorizationModelRequest{StoreId: st.GetId(), SchemaVersion: model.GetSchemaVersion(), TypeDefinitions: model.GetTypeDefinitions(), Conditions: model.GetConditions()})
	if err != nil {
		panic(err)
	}
	_, err = s.Write(ctx, &openfgav1.WriteRequest{StoreId: st.GetId(), AuthorizationModelId: wm.GetAuthorizationModelId(), Writes: &openfgav1.WriteRequestWrites{TupleKeys: []*openfgav1.TupleKey{{Object: "doc:1", Relation: "viewer", User: "user:a", Condition: &openfgav1.RelationshipCondition{Name: "small"}}}}})
	if err != nil {
		panic(err)
	}
	for _, v := range []string{"5", "1e-100000", "1e-300000"} {
		c, _ := structpb.NewStruct(map[string]any{"x": v})
		t0 := time.Now()
		resp, err := s.Check(ctx, &openfgav1.CheckRequest{StoreId: st.GetId(), AuthorizationModelId: wm.GetAuthorizationModelId(), TupleKey: &openfgav1.CheckRequestTupleKey{Object: "doc:1", Relation: "viewer", User: "user:a"}, Context: c})
		fmt.Printf("Check x=%q -> allowed=%v err=%v in %v\n", v, resp.GetAllowed(), err != nil, time.Since(t0).Round(time.Millisecond))
	}
	// Write with a stored context
	c, _ := structpb.NewStruct(map[string]any{"x": "1e-300000"})
	t0 := time.Now()
	_, err = s.Write(ctx, &openfgav1.WriteRequest{StoreId: st.GetId(), AuthorizationModelId: wm.GetAuthorizationModelId(), Writes: &openfgav1.WriteRequestWrites{TupleKeys: []*openfgav1.TupleKey{{Object: "doc:2", Relation: "viewer", User: "user:a", Condition: &openfgav1.RelationshipCondition{Name: "small", Context: c}}}}})
	fmt.Printf("Write with stored context x=1e-300000 -> err=%v in %v\n", err != nil, time.Since(t0).Round(time.Millisecond))
}
