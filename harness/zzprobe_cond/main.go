package main

import (
	"context"
	"fmt"

	openfgav1 "github.com/openfga/api/proto/openfga/v1"
	"google.golang.org/protobuf/types/known/structpb"

	"github.com/openfga/openfga/internal/condition"
)

func try(name string, f func()) {
	defer func() {
		if p := recover(); p != nil {
			fmt.Printf("%s: PANIC %v\n", name, p)
		}
	}()
	f()
}

func ev(cond *openfgav1.Condition, ctxs ...map[string]any) {
	ec := condition.NewUncompiled(cond)
	var ms []map[string]*structpb.Value
	for _, c := range ctxs {
		s, err := structpb.NewStruct(c)
		if err != nil {
			panic(err)
		}
		ms = append(ms, s.GetFields())
	}
	try(cond.Expression, func() {
		r, err := ec.Evaluate(context.Background(), ms...)
		fmt.Printf("%-40s %v -> %+v err=%v\n", cond.Expression, ctxs, r, err)
	})
}

func P(n openfgav1.ConditionParamTypeRef_TypeName, g ...*openfgav1.ConditionParamTypeRef) *openfgav1.ConditionParamTypeRef {
	return &openfgav1.ConditionParamTypeRef{TypeName: n, GenericTypes: g}
}

func main() {
	bad := &openfgav1.Condition{Name: "c", Expression: "x +", Parameters: map[string]*openfgav1.ConditionParamTypeRef{"x": P(openfgav1.ConditionParamTypeRef_TYPE_NAME_INT)}}
	ec := condition.NewUncompiled(bad)
	try("first", func() { r, err := ec.Evaluate(context.Background(), map[string]*structpb.Value{}); fmt.Println("first", r, err) })
	try("second", func() { r, err := ec.Evaluate(context.Background(), map[string]*structpb.Value{}); fmt.Println("second", r, err) })

	I := P(openfgav1.ConditionParamTypeRef_TYPE_NAME_INT)
	S := P(openfgav1.ConditionParamTypeRef_TYPE_NAME_STRING)
	A := P(openfgav1.ConditionParamTypeRef_TYPE_NAME_ANY)
	LI := P(openfgav1.ConditionParamTypeRef_TYPE_NAME_LIST, I)
	MI := P(openfgav1.ConditionParamTypeRef_TYPE_NAME_MAP, I)
	ps := map[string]*openfgav1.ConditionParamTypeRef{"x": I, "y": S, "a": A, "l": LI, "m": MI}
	c := func(e string) *openfgav1.Condition { return &openfgav1.Condition{Name: "c", Expression: e, Parameters: ps} }
	full := map[string]any{"x": 1, "y": "s", "a": "s", "l": []any{1, 2}, "m": map[string]any{"k": 1}}
	ev(c("m[\"q\"] == 1"), full)
	ev(c("m[\"q\"] == 1 || x == 1"), full)
	ev(c("m[\"q\"] == 1 || x == 1"), map[string]any{"m": map[string]any{"k": 1}})
	ev(c("x == 1 || m[\"q\"] == 1"), map[string]any{"m": map[string]any{"k": 1}})
	ev(c("m[\"q\"] == 1 && x == 1"), map[string]any{"m": map[string]any{"k": 1}})
	ev(c("l[5] == 1"), full)
	ev(c("x in l"), full)
	ev(c("x in l"), map[string]any{"x": 1})
	ev(c("x in l"), map[string]any{"l": []any{}})
	ev(c("\"k\" in m"), full)
	ev(c("y in m"), full)
	ev(c("a == \"s\""), full)
	ev(c("a == 1"), full)
	ev(c("a == 1.0"), map[string]any{"a": 1})
	ev(c("a == 1"), map[string]any{"a": 1})
	ev(c("a == 1u"), map[string]any{"a": 1})
	ev(c("a == true"), map[string]any{"a": 1})
	ev(c("a == null"), map[string]any{"a": nil})
	ev(c("a == null"), map[string]any{"a": 1})
	ev(c("a < 2"), map[string]any{"a": 1})
	ev(c("a < 2"), map[string]any{"a": "s"})
	ev(c("a < \"t\""), map[string]any{"a": "s"})
	ev(c("a == [1]"), map[string]any{"a": []any{1}})
	ev(c("!(x == 1)"), map[string]any{})
	ev(c("true || x == 1"), map[string]any{})
	ev(c("false && x == 1"), map[string]any{})
	ev(c("x == 1 && y == \"s\""), map[string]any{"x": 2})
	ev(c("x == 1 && y == \"s\""), map[string]any{"x": 1})
	ev(c("x == 1 || y == \"s\""), map[string]any{"x": 1})
	ev(c("x == 1"), map[string]any{"x": 1, "zzz": 5})
	ev(c("x == 1"), map[string]any{"zzz": 5})
	ev(&openfgav1.Condition{Name: "c", Expression: "true"}, map[string]any{"zzz": 5})
	ev(&openfgav1.Condition{Name: "c", Expression: "true"}, map[string]any{})
	ev(&openfgav1.Condition{Name: "c", Expression: "1"}, map[string]any{})
	ev(&openfgav1.Condition{Name: "c", Expression: "a", Parameters: ps}, map[string]any{"a": true})
	ev(&openfgav1.Condition{Name: "c", Expression: "a == 1", Parameters: map[string]*openfgav1.ConditionParamTypeRef{"a": P(openfgav1.ConditionParamTypeRef_TYPE_NAME_UNSPECIFIED)}}, map[string]any{"a": true})
	ev(&openfgav1.Condition{Name: "c", Expression: "a == 1", Parameters: map[string]*openfgav1.ConditionParamTypeRef{"a": P(openfgav1.ConditionParamTypeRef_TYPE_NAME_LIST)}}, map[string]any{"a": true})
	ev(&openfgav1.Condition{Name: "c", Expression: "a == 1", Parameters: map[string]*openfgav1.ConditionParamTypeRef{"a": P(openfgav1.ConditionParamTypeRef_TYPE_NAME_INT, I)}}, map[string]any{"a": true})
	ev(&openfgav1.Condition{Name: "c", Expression: "a == 1", Parameters: map[string]*openfgav1.ConditionParamTypeRef{"a": P(99)}}, map[string]any{"a": true})
}
