package main

import (
	"context"
	"fmt"

	openfgav1 "github.com/openfga/api/proto/openfga/v1"
	parser "github.com/openfga/language/pkg/go/transformer"
	"google.golang.org/protobuf/types/known/structpb"

	"github.com/openfga/openfga/pkg/server"
	"github.com/openfga/openfga/pkg/storage/memory"
)

func main() {
	ctx := context.Background()
	s := server.MustNewServerWithOpts(server.WithDatastore(memory.New()))
	defer s.Close()
	st, err := s.CreateStore(ctx, &openfgav1.CreateStoreRequest{Name: "probe"})
	if err != nil {
		panic(err)
	}
	dsl := `model
  schema 1.1
type user
type group
  relations
    define member: [user]
    define owner: [user]
type doc
  relations
    define viewer: [user with c1, user:*]
    define editor: [group#member with c1, group#owner]
    define reader: [group, group#member with c1]
    define loopy: [user, doc#loopy]
condition c1(x: int) {
  x < 10
}
`
	m := parser.MustTransformDSLToProto(dsl)
	wr, err := s.WriteAuthorizationModel(ctx, &openfgav1.WriteAuthorizationModelRequest{StoreId: st.Id, SchemaVersion: m.SchemaVersion, TypeDefinitions: m.TypeDefinitions, Conditions: m.Conditions})
	if err != nil {
		panic(err)
	}
	_ = wr
	c1 := func() *openfgav1.RelationshipCondition {
		cs, _ := structpb.NewStruct(map[string]any{"x": 5})
		return &openfgav1.RelationshipCondition{Name: "c1", Context: cs}
	}
	try := func(name string, tk *openfgav1.TupleKey) {
		_, err := s.Write(ctx, &openfgav1.WriteRequest{StoreId: st.Id, Writes: &openfgav1.WriteRequestWrites{TupleKeys: []*openfgav1.TupleKey{tk}}})
		fmt.Printf("WRITE %-40s -> %v\n", name, err)
		_, err = s.Check(ctx, &openfgav1.CheckRequest{StoreId: st.Id, TupleKey: &openfgav1.CheckRequestTupleKey{Object: "doc:zz", Relation: "viewer", User: "user:q"},
			ContextualTuples: &openfgav1.ContextualTupleKeys{TupleKeys: []*openfgav1.TupleKey{tk}}})
		fmt.Printf("CTX   %-40s -> %v\n", name, err)
	}
	try("wild with c1", &openfgav1.TupleKey{Object: "doc:1", Relation: "viewer", User: "user:*", Condition: c1()})
	try("owner userset with c1", &openfgav1.TupleKey{Object: "doc:1", Relation: "editor", User: "group:a#owner", Condition: c1()})
	try("member userset uncond via plain group", &openfgav1.TupleKey{Object: "doc:1", Relation: "reader", User: "group:a#member"})
	try("plain group with c1", &openfgav1.TupleKey{Object: "doc:1", Relation: "reader", User: "group:a", Condition: c1()})
	try("self ref", &openfgav1.TupleKey{Object: "doc:1", Relation: "loopy", User: "doc:1#loopy"})
	lo, err := s.ListObjects(ctx, &openfgav1.ListObjectsRequest{StoreId: st.Id, Type: "doc", Relation: "loopy", User: "user:q",
		ContextualTuples: &openfgav1.ContextualTupleKeys{TupleKeys: []*openfgav1.TupleKey{{Object: "doc:1", Relation: "loopy", User: "doc:1#loopy"}, {Object: "doc:1", Relation: "loopy", User: "user:q"}}}})
	fmt.Println("LISTOBJ selfref ctx:", lo.GetObjects(), err)
	rd, _ := s.Read(ctx, &openfgav1.ReadRequest{StoreId: st.Id})
	for _, t := range rd.GetTuples() {
		fmt.Println("  stored:", t.GetKey().GetObject(), t.GetKey().GetRelation(), t.GetKey().GetUser(), t.GetKey().GetCondition().GetName())
	}
	// deletes
	for _, id := range []string{"1", "2", "3"} {
		_, err := s.Write(ctx, &openfgav1.WriteRequest{StoreId: st.Id, Writes: &openfgav1.WriteRequestWrites{TupleKeys: []*openfgav1.TupleKey{{Object: "doc:" + id, Relation: "loopy", User: "user:a"}, {Object: "group:" + id, Relation: "member", User: "user:a"}}}})
		if err != nil {
			fmt.Println("seed", err)
		}
	}
	cnt := func() int {
		rd, _ := s.Read(ctx, &openfgav1.ReadRequest{StoreId: st.Id})
		return len(rd.GetTuples())
	}
	fmt.Println("count before", cnt())
	_, err = s.Write(ctx, &openfgav1.WriteRequest{StoreId: st.Id, Deletes: &openfgav1.WriteRequestDeletes{TupleKeys: []*openfgav1.TupleKeyWithoutCondition{{Object: "doc:", Relation: "loopy", User: "user:a"}}}})
	fmt.Println("delete doc:#loopy@user:a ->", err, "count", cnt())
	_, err = s.Write(ctx, &openfgav1.WriteRequest{StoreId: st.Id, Deletes: &openfgav1.WriteRequestDeletes{TupleKeys: []*openfgav1.TupleKeyWithoutCondition{{User: "user:a"}}}})
	fmt.Println("delete (only user:a) ->", err, "count", cnt())
}
