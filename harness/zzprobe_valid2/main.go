package main

import (
	"context"
	"fmt"
	"sync/atomic"
	"time"

	openfgav1 "github.com/openfga/api/proto/openfga/v1"
	parser "github.com/openfga/language/pkg/go/transformer"

	"github.com/openfga/openfga/pkg/server"
	"github.com/openfga/openfga/pkg/storage"
	"github.com/openfga/openfga/pkg/storage/memory"
)

type slowDS struct {
	storage.OpenFGADatastore
	block   atomic.Bool
	entered chan struct{}
	release chan struct{}
}

func (s *slowDS) FindLatestAuthorizationModel(ctx context.Context, store string) (*openfgav1.AuthorizationModel, error) {
	m, err := s.OpenFGADatastore.FindLatestAuthorizationModel(ctx, store)
	if s.block.CompareAndSwap(true, false) {
		s.entered <- struct{}{}
		<-s.release
	}
	return m, err
}

func model(rel string) *openfgav1.WriteAuthorizationModelRequest {
	m := parser.MustTransformDSLToProto("model\n  schema 1.1\ntype user\ntype doc\n  relations\n    define " + rel + ": [user]\n")
	return &openfgav1.WriteAuthorizationModelRequest{SchemaVersion: m.SchemaVersion, TypeDefinitions: m.TypeDefinitions}
}

func main() {
	ctx := context.Background()
	ds := &slowDS{OpenFGADatastore: memory.New(), entered: make(chan struct{}, 1), release: make(chan struct{})}
	s := server.MustNewServerWithOpts(server.WithDatastore(ds))
	defer s.Close()
	st, _ := s.CreateStore(ctx, &openfgav1.CreateStoreRequest{Name: "probe"})
	r0 := model("m0")
	r0.StoreId = st.Id
	w0, err := s.WriteAuthorizationModel(ctx, r0)
	fmt.Println("model0", w0.GetAuthorizationModelId(), err)
	check := func(rel string) error {
		_, err := s.Check(ctx, &openfgav1.CheckRequest{StoreId: st.Id, TupleKey: &openfgav1.CheckRequestTupleKey{Object: "doc:x", Relation: rel, User: "user:a"}})
		return err
	}
	ds.block.Store(true)
	aDone := make(chan error, 1)
	go func() { aDone <- check("m0") }()
	<-ds.entered // request A's FindLatest has read "latest = model0" and is now slow
	r1 := model("m1")
	r1.StoreId = st.Id
	w1, err := s.WriteAuthorizationModel(ctx, r1)
	fmt.Println("model1 written and acknowledged:", w1.GetAuthorizationModelId(), err)
	bDone := make(chan error, 1)
	go func() { bDone <- check("m1") }() // request B starts strictly AFTER the write was acknowledged
	time.Sleep(200 * time.Millisecond)
	close(ds.release)
	fmt.Println("A (m0, started before the write):", <-aDone)
	fmt.Println("B (m1, started after the write was acknowledged):", <-bDone)
	fmt.Println("C (m1, sequential afterwards):", check("m1"))
}
