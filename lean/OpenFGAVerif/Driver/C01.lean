/-
Driver for C01: the model of the default Check engine (`Model.CheckV1`, breadth limit 1 = program
arrival order, both arrival orders of `exclusion`) against the real engine, and the reference oracle
(`idealSys`, sound by `Proofs.DfsSound.eval_sound`) against the real answer.
-/
import OpenFGAVerif.Driver.Proto
import OpenFGAVerif.Driver.FgaCodec
import OpenFGAVerif.Model.CheckV1
import OpenFGAVerif.Driver.FgaCase

open OpenFGAVerif OpenFGAVerif.Proto OpenFGAVerif.Vocab OpenFGAVerif.CheckV1 OpenFGAVerif.Dfs

namespace OpenFGAVerif.DriverC01
open OpenFGAVerif.FgaCase

def step (c impl : String) : String :=
  match parseCase c with
  | none => "SKIP unparsable-case"
  | some cs =>
    let w := { cs.world with ctxTuples := sortByObj cs.world.ctxTuples }
    if impl = "invalid-model" then "SKIP invalid-model"
    else if impl = "E invalid" then ok "request-rejected" false
    else
      let ms := checkSet w cs.maxDepth
      let exact := ms.any (fun m => render m = impl)
      let nt := !isTrivial w
      -- property
      let specVerdict : Option String :=
        if !cs.stratified then none
        else
          let o := oracle w
          let tainted := ms.any (fun m => match m with | .ok _ _ t => t && render m = impl | _ => false)
          let diag :=
            if !tainted then "unexplained (the model of the engine is untainted)"
            else match oracleCodeExcl w with
              | .ok _ _ true => "F1 exclusion denies on the cycle flag of its subtracted operand"
              | _ => "F12 a condition evaluation error was swallowed by the tuple iterator"
          match o, cls impl with
          | .ok true _ false, "F" => some s!"allowed=false but the relation holds: {diag}"
          | .ok false _ false, "T" => some s!"allowed=true but the relation does not hold: {diag}"
          | .err .cond, "T" => some s!"allowed=true although an unevaluable condition leaves the answer open: {diag}"
          | .err .cond, "F" => some s!"allowed=false although an unevaluable condition leaves the answer open: {diag}"
          | _, _ => none
      match specVerdict with
      | some why => specViol why
      | none =>
        if !exact then modelDiff ("|".intercalate (ms.map render))
        else
          let k := if !cs.stratified then "nonstratified-" else ""
          ok (k ++ (impl.replace " " "_")) nt

end OpenFGAVerif.DriverC01

def main : IO Unit := OpenFGAVerif.Proto.run OpenFGAVerif.DriverC01.step
