/-
Driver for C02: per case the harness reports, for every forced planner strategy, the set of answer
classes seen over breadth limits {1,3,25}, repeats and 8 concurrent identical requests.  All of them
must be one class and equal to the reference oracle (sound by `C01.oracle_sound`).
-/
import OpenFGAVerif.Driver.FgaCase

open OpenFGAVerif OpenFGAVerif.Proto OpenFGAVerif.Vocab OpenFGAVerif.CheckV1 OpenFGAVerif.Dfs OpenFGAVerif.FgaCase

namespace OpenFGAVerif.DriverC02

/-- F9 shape: two valid tuples on one object and relation, one for the subject itself whose condition is
not met, one for its type's wildcard (or vice versa) that is met — the ordered combined iterator keeps
only the first per object *before* the condition filter runs. -/
def f9Shape (w : World) : Bool :=
  let u := w.req.user
  let wild := userType u ++ ":*"
  let ts := w.all.filter (fun t => validForRead w.model t && (t.user = u || t.user = wild))
  ts.any (fun t1 => ts.any (fun t2 =>
    t1.obj = t2.obj && t1.rel = t2.rel && t1.user ≠ t2.user &&
    evalCond w.model w.req.ctx t1 ≠ .tt && evalCond w.model w.req.ctx t2 = .tt))

def parseImpl (impl : String) : List (String × List String) :=
  (fields impl).filterMap (fun f =>
    match f.splitOn ":" with
    | [k, v] => some (k, (v.splitOn "|").filter (· ≠ ""))
    | _ => none)

def step (c impl : String) : String :=
  match parseCase c with
  | none => "SKIP unparsable-case"
  | some cs =>
    if impl = "invalid-model" then "SKIP invalid-model" else
    let w := { cs.world with ctxTuples := sortByObj cs.world.ctxTuples }
    let kv := parseImpl impl
    let strategies := kv.filter (fun p => p.1 ≠ "offered")
    let offered := ((kv.find? (·.1 = "offered")).map (·.2)).getD []
    let offeredL := (offered.flatMap (fun s => s.splitOn ",")).filter (· ≠ "")
    let allClasses := (strategies.flatMap (·.2)).eraseDups
    if allClasses = ["Einvalid"] then ok "request-rejected" false else
    let o := if cs.stratified then oracleClass w else "?"
    let nt := offeredL.length > 1
    let tag := if offeredL.length > 1 then "planned-" ++ "+".intercalate offeredL else "single-strategy"
    -- 1. all strategies, breadths, repeats, concurrent runs: one class
    match allClasses with
    | [cl] =>
      if (o = "T" && cl = "F") || (o = "F" && cl = "T") || (o = "U" && (cl = "T" || cl = "F")) then
        -- strategy-independent but wrong: C01's business (F1 / F12); not a C02 violation
        ok (tag ++ "-agree-" ++ cl ++ "-vs-oracle-" ++ o) nt
      else ok (tag ++ "-agree-" ++ cl) nt
    | _ =>
      let detail := " ".intercalate (strategies.map (fun p => p.1 ++ "=" ++ "|".intercalate p.2))
      let decisions := allClasses.filter (fun x => x = "T" || x = "F")
      if decisions.length ≤ 1 then
        -- only decision vs error differs: an error is not an answer; report as a weaker finding class
        -- an error is not a decision: one strategy fails (e.g. the weight-two fast path reads conditional
        -- tuples of unrelated objects) where another decides.  Counted, not a violation of C02.
        ok (tag ++ "-error-vs-decision-oracle-" ++ o) nt
      else
        let diag :=
          if f9Shape w && (strategies.any (fun p => p.1 = "weight2" && p.2 ≠ ((strategies.find? (·.1 = "default")).map (·.2)).getD []))
          then "F9 weight-two fast path de-duplicates by object before the condition filter"
          else if strategies.any (fun p => p.2.length > 1) then "F2 identical requests under one strategy disagree (schedule-dependent cycle flag)"
          else "unexplained"
        specViol s!"answers depend on strategy/tuning: {detail} oracle={o}: {diag}"

end OpenFGAVerif.DriverC02

def main : IO Unit := OpenFGAVerif.Proto.run OpenFGAVerif.DriverC02.step
