/-
Driver for C02.

(1) Agreement (the property): per case the harness reports, for every forced planner strategy, the set of
answer classes seen over breadth limits {1,3,25}, repeats and 8 concurrent identical requests.  All of
them must be one class (and are compared with the reference oracle, sound by `C01.oracle_sound`).  A
disagreement is diagnosed with the models: F9 (weight-two de-duplicates before the condition filter), S1 /
S2 (the recursive strategy follows userset tuples of other relations / parents of other types), F2
(schedule-dependent cycle flag).

(2) Exact correspondence of the strategy models: at breadth limit 1 with the strategy forced
(`b1weight2:` / `b1recursive:` fields, full outcome incl. the error kind) the real engine must produce an
outcome of `CheckPlan.checkP` — the default engine's expression with every planned handler evaluated by
`Model/Weight2.lean` (stream level: the batches really go through `fastPathUnion/Intersection/Difference`)
or `Model/RecursiveV1.lean`.

(3) Applicability: whenever the real typesystem offers the weight-two strategy (`w2:` / `tw2:` keys dumped
from `UsersetUseWeight2Resolver` / `TTUUseWeight2Resolver`) every relation the fast path would walk must be
weight one for the subject's type (`Weight2.w1Rel`, the hypothesis of `weight2_sem`).
-/
import OpenFGAVerif.Driver.FgaCase
import OpenFGAVerif.Model.CheckPlan
import OpenFGAVerif.Gen.Strategies

open OpenFGAVerif OpenFGAVerif.Proto OpenFGAVerif.Vocab OpenFGAVerif.CheckV1 OpenFGAVerif.Dfs OpenFGAVerif.FgaCase

namespace OpenFGAVerif.DriverC02

/-- F9 shape: two valid tuples on one object and relation, one for the subject itself whose condition is
not met, one for its type's wildcard (or vice versa) that is met — the ordered combined iterator keeps
only the first per object *before* the condition filter runs. -/
def f9Shape (w : World) : Bool :=
  let u := w.req.user
  let wild := userType u ++ ":*"
  let ts := w.all.filter (fun t => validForRead w.model t && (t.user = u || t.user = wild))
  ts.any (fun t1 => ts.any (fun t2 =>
    t1.obj = t2.obj && t1.rel = t2.rel && t1.user ≠ t2.user &&
    evalCond w.model w.req.ctx t1 ≠ .tt && evalCond w.model w.req.ctx t2 = .tt))

def parseImpl (impl : String) : List (String × List String) :=
  (fields impl).filterMap (fun f =>
    match f.splitOn ":" with
    | [k, v] => some (k, (v.splitOn "|").filter (· ≠ ""))
    | _ => none)

/-- outcome token as the harness prints it: T | F | Edepth | Econd | E… -/
def tok : Out → String
  | .ok true _ _ => "T"
  | .ok false _ _ => "F"
  | .err .depth => "Edepth"
  | .err .cond => "Econd"
  | .err .shape => "Eother"
  | .err .abort => "Eabort"

def modelToks (w : World) (pc : CheckPlan.Cfg) : List String :=
  ((CheckPlan.checkP w pc ++ CheckPlan.checkP w { pc with pessimistic := true }).map tok).eraseDups

/-- the decisions (T/F) among tokens -/
def decisions (l : List String) : List String := l.filter (fun x => x = "T" || x = "F")

/-- relations the weight-two fast path would walk for a key the typesystem declared applicable, that are
not weight one -/
def badApplicability (w : World) : List String :=
  w.aux.filterMap (fun kv =>
    if !kv.2 then none else
    match kv.1.splitOn ":" with
    | ["w2", _, ur] =>
      (match ur.splitOn "#" with
       | [ut, urel] => if Weight2.w1Rel w ut urel then none else some kv.1
       | _ => none)
    | ["tw2", node, ts, cr] =>
      (match node.splitOn "#" with
       | [typ, _] =>
         (match w.model.findRel typ ts with
          | none => none
          | some rd =>
            if rd.restrs.all (fun p => (w.model.findRel p.typ cr).isNone || Weight2.w1Rel w p.typ cr) then none
            else some kv.1)
       | _ => none)
    | _ => none)

/-- the hypotheses of `C02.strategy_agree`, evaluated: concrete subject, no unevaluable condition among valid
tuples, at most one tuple per key -/
def hypsOk (w : World) : Bool :=
  !isUserset w.req.user && !isTypedWildcard w.req.user &&
  w.all.all (fun t => !validForRead w.model t || evalCond w.model w.req.ctx t != .err) &&
  w.all.all (fun t => (w.all.filter (fun t' => t'.obj = t.obj && t'.rel = t.rel && t'.user = t.user)).length ≤ 1)

/-- the default strategy's own defect (C01: F1 / F12) seen as a disagreement with a fast path: the default
engine model has a tainted outcome with the default's decision, and the oracle sides with the fast path -/
def defaultTainted (w : World) (maxDepth : Nat) (o : String) (defaultDec : List String) : Option String :=
  let ms := checkSet w maxDepth
  let tainted := ms.any (fun m => match m with | .ok a _ t => t && defaultDec.contains (if a then "T" else "F") | _ => false)
  if !tainted || (o ≠ "T" && o ≠ "F") || defaultDec.contains o then none
  else match oracleCodeExcl w with
    | .ok _ _ true => some "F1 exclusion denies on the cycle flag of its subtracted operand (the default strategy is wrong here, C01; the fast path does not go through the flagged evaluation)"
    | _ => some "F12 a condition evaluation error was swallowed by the tuple iterator (the default strategy is wrong here, C01)"

def step (c impl : String) : String :=
  match parseCase c with
  | none => "SKIP unparsable-case"
  | some cs =>
    if impl = "invalid-model" then "SKIP invalid-model" else
    let w := { cs.world with ctxTuples := sortByObj cs.world.ctxTuples }
    let kv := parseImpl impl
    let strategies := kv.filter (fun p => p.1 = "default" || p.1 = "weight2" || p.1 = "recursive")
    let offered := ((kv.find? (·.1 = "offered")).map (·.2)).getD []
    let offeredL := (offered.flatMap (fun s => s.splitOn ",")).filter (· ≠ "")
    let allClasses := (strategies.flatMap (·.2)).eraseDups
    if allClasses = ["Einvalid"] then ok "request-rejected" false else
    let o := if cs.stratified then oracleClass w else "?"
    let nt := offeredL.length > 1
    let tag0 := if offeredL.length > 1 then "planned-" ++ "+".intercalate offeredL else "single-strategy"
    -- cases that satisfy the hypotheses of `strategy_agree` (evidence that they are not vacuous)
    let tag := if offeredL.length > 1 && hypsOk w then tag0 ++ "-thm" else tag0
    -- (3) applicability
    match badApplicability w with
    | k :: _ =>
      specViol s!"the typesystem offers the weight-two strategy where a walked relation is not weight one for the subject's type: {k}"
    | [] =>
    -- (2) exact correspondence of the strategy models at breadth limit 1
    -- the edge set of the recursive strategy follows the source (findings S1 / S2; switches of `Gen.Strategies`)
    let sU : RecursiveV1.Strict := if Gen.Strategies.recursiveFollowsOnlySelfUserset then .repaired else .code
    let sT : RecursiveV1.Strict := if Gen.Strategies.recursiveFollowsOnlySameTypeParents then .repaired else .code
    let pcOf := fun (s : String) => ({ want := s, maxDepth := cs.maxDepth, strictU := sU, strictT := sT } : CheckPlan.Cfg)
    let b1 := fun (s : String) => ((kv.find? (·.1 = "b1" ++ s)).map (·.2)).getD []
    let mW := modelToks w (pcOf "weight2")
    let mR := modelToks w (pcOf "recursive")
    let mWrep := fun (_ : Unit) => modelToks w { pcOf "weight2" with w2 := { order := .repaired } }
    let mRrepU := fun (_ : Unit) => modelToks w { pcOf "recursive" with strictU := .repaired }
    let mRrepT := fun (_ : Unit) => modelToks w { pcOf "recursive" with strictT := .repaired }
    let mRrepO := fun (_ : Unit) => modelToks w { pcOf "recursive" with w2 := { order := .repaired } }
    let diffW := (b1 "weight2").filter (fun x => !mW.contains x)
    let diffR := (b1 "recursive").filter (fun x => !mR.contains x)
    let f9 := f9Shape w
    -- the unstable sort of the datastore may order the two tuples of an F9 object either way
    let diffW' := if f9 && !diffW.isEmpty then diffW.filter (fun x => !(mWrep ()).contains x) else diffW
    if !diffW'.isEmpty then
      modelDiff s!"weight2@breadth1 model={"|".intercalate mW} impl={"|".intercalate (b1 "weight2")}"
    else if !diffR.isEmpty then
      modelDiff s!"recursive@breadth1 model={"|".intercalate mR} impl={"|".intercalate (b1 "recursive")}"
    else
    -- (1) all strategies, breadths, repeats, concurrent runs: one class
    match allClasses with
    | [cl] =>
      if (o = "T" && cl = "F") || (o = "F" && cl = "T") || (o = "U" && (cl = "T" || cl = "F")) then
        -- strategy-independent but wrong: C01's business (F1 / F12); not a C02 violation
        ok (tag ++ "-agree-" ++ cl ++ "-vs-oracle-" ++ o) nt
      else ok (tag ++ "-agree-" ++ cl) nt
    | _ =>
      let detail := " ".intercalate (strategies.map (fun p => p.1 ++ "=" ++ "|".intercalate p.2))
      let decs := allClasses.filter (fun x => x = "T" || x = "F")
      if decs.length ≤ 1 then
        -- only decision vs error differs: an error is not an answer (e.g. the weight-two fast path reads
        -- conditional tuples of unrelated objects and fails where another strategy decides).  Counted.
        ok (tag ++ "-error-vs-decision-oracle-" ++ o) nt
      else
        let get := fun (s : String) => ((strategies.find? (·.1 = s)).map (·.2)).getD []
        let diag :=
          if (defaultTainted w cs.maxDepth o (decisions (get "default"))).isSome then
            (defaultTainted w cs.maxDepth o (decisions (get "default"))).getD ""
          else if decisions (get "recursive") ≠ decisions (get "default") && decisions mR ≠ decisions (mRrepU ()) then
            "S1 recursive userset strategy ignores the relation of userset tuples"
          else if decisions (get "recursive") ≠ decisions (get "default") && decisions mR ≠ decisions (mRrepT ()) then
            "S2 recursive TTU strategy follows parents of another type"
          else if decisions (get "recursive") ≠ decisions (get "default") && decisions mR ≠ decisions (mRrepO ()) then
            "F9 weight-two fast path de-duplicates by object before the condition filter (here through the left-hand side of the recursive strategy, which is the same fastPathDirect iterator)"
          else if f9 && get "weight2" ≠ get "default" then
            "F9 weight-two fast path de-duplicates by object before the condition filter"
          else if decisions (get "weight2") ≠ decisions (get "default") && decisions mW ≠ decisions (mWrep ()) then
            "F9 weight-two fast path de-duplicates by object before the condition filter"
          else if strategies.any (fun p => p.2.length > 1) then
            "F2 identical requests under one strategy disagree (schedule-dependent cycle flag)"
          else "unexplained"
        specViol s!"answers depend on strategy/tuning: {detail} oracle={o}: {diag}"

end OpenFGAVerif.DriverC02

def main : IO Unit := OpenFGAVerif.Proto.run OpenFGAVerif.DriverC02.step
