/-
Driver for C03: the weighted-graph Check engine against (1) its Lean model (`Model.CheckV2` over
`Model.DfsG`, exact comparison for the default strategy with concurrency limit 1), (2) the reference
oracle for object subjects, (3) the default engine plus the breaking-change detector for userset and
wildcard subjects, (4) the server path with fallback.
-/
import OpenFGAVerif.Driver.FgaCase
import OpenFGAVerif.Model.CheckV2
import OpenFGAVerif.Model.V2Breaking

open OpenFGAVerif OpenFGAVerif.Proto OpenFGAVerif.Vocab OpenFGAVerif.FgaCase OpenFGAVerif.DfsG

namespace OpenFGAVerif.DriverC03
open OpenFGAVerif.CheckV2

/-! ### parsing the graph dump -/

def optNat (s : String) : Option Nat := if s = "-" then none else s.toNat?

def gnode : FgaCodec.P GNode := fun ts => do
  let (_, ts) ← FgaCodec.expect "n" ts
  let (name, ts) ← FgaCodec.tok ts
  let (nt, ts) ← FgaCodec.nat ts
  let (label, ts) ← FgaCodec.tok ts
  let (rr, ts) ← FgaCodec.tok ts
  let (tc, ts) ← FgaCodec.nat ts
  let (wt, ts) ← FgaCodec.tok ts
  let (wild, ts) ← FgaCodec.counted FgaCodec.tok ts
  pure ({ name := name, ntype := nt, label := FgaCodec.dash label, recRel := FgaCodec.dash rr, tc := tc = 1,
          weight := optNat wt, wildcards := wild }, ts)

def gedge : FgaCodec.P GEdge := fun ts => do
  let (_, ts) ← FgaCodec.expect "e" ts
  let (src, ts) ← FgaCodec.tok ts
  let (dst, ts) ← FgaCodec.tok ts
  let (et, ts) ← FgaCodec.nat ts
  let (tsr, ts) ← FgaCodec.tok ts
  let (rd, ts) ← FgaCodec.tok ts
  let (rr, ts) ← FgaCodec.tok ts
  let (tc, ts) ← FgaCodec.nat ts
  let (wt, ts) ← FgaCodec.tok ts
  let (conds, ts) ← FgaCodec.counted FgaCodec.tok ts
  let (wild, ts) ← FgaCodec.counted FgaCodec.tok ts
  pure ({ src := src, dst := dst, etype := et, tupleset := FgaCodec.dash tsr, reldef := FgaCodec.dash rd,
          recRel := FgaCodec.dash rr, tc := tc = 1, weight := optNat wt, conds := conds.map FgaCodec.dash,
          wildcards := wild }, ts)

def graph : FgaCodec.P Graph := fun ts => do
  let (_, ts) ← FgaCodec.expect "graph" ts
  let (ns, ts) ← FgaCodec.counted gnode ts
  let (es, ts) ← FgaCodec.counted gedge ts
  pure ({ nodes := ns, edges := es }, ts)

structure Impl where
  kv : List (String × String)
  graph : Option Graph

def pairs : List String → List (String × String)
  | k :: v :: rest => (k, v) :: pairs rest
  | _ => []

def parseImpl (s : String) : Impl :=
  let ts := fields s
  let head := ts.takeWhile (· ≠ "graph")
  let rest := ts.dropWhile (· ≠ "graph")
  { kv := pairs head, graph := (graph rest).map (·.1) }

def Impl.get (i : Impl) (k : String) : String :=
  match i.kv.find? (·.1 = k) with
  | some p => p.2
  | none => "?"

/-! ### rendering -/

def renderV : VOut → String
  | .ok true _ => "T"
  | .ok false _ => "F"
  | .err .cond => "Econd"
  | .err .shapeWildcard => "Eshape:wildcard"
  | .err .shapeUserset => "Eshape:userset"
  | .err .panic => "Epanic"
  | .err .other => "Eother"
  | .err .invalid => "Einvalid"
  | .err .abort => "Eabort"

def isDec (s : String) : Bool := s = "T" || s = "F"

/-- request-validation failures are one class -/
def norm (c : String) : String :=
  if c = "Einvalidtuple" || c = "Evalidation" || c = "Einvaliduser" then "Einvalid" else c

def classes (s : String) : List String := (s.splitOn "|").map norm

/-- the runs of the weighted-graph engine reported by the harness: (name, classes seen) -/
def v2runs (i : Impl) : List (String × List String) :=
  ["d1", "d25", "w1", "w25", "r1", "r25"].map (fun k => (k, classes (i.get k)))

/-! ### diagnosis by counterfactual model runs -/

/-- the model's answer classes under the engine's configuration -/
def modelClasses (w : CheckV2.World) (look : Nat) : List String := (checkSet w look).map renderV

/-- a conditioned tuple is allowed only by a type restriction of its own shape (`user with c` does not
follow from `user:* with c`); the default engine's `validateCondition` compares type and condition only -/
def strictCond (m : Model) (t : Tuple) : Bool :=
  match m.findRel (typeOf t.obj) t.rel with
  | none => false
  | some rd => rd.restrs.any (fun r => CheckV1.restrMatchesUser r t.user && r.cond = t.cond)

def strictWorld (v1w : CheckV1.World) : CheckV1.World :=
  let st := v1w.stored.filter (strictCond v1w.model)
  let ct := v1w.ctxTuples.filter (strictCond v1w.model)
  { v1w with stored := st, ctxTuples := ct }

/-- why the answer `obs` of run `run` differs from the expected `want`: a known finding only when its precondition
is present *and* the model reproduces the behaviour; anything else is "unexplained" (a regression) -/
def diagnose (w : CheckV2.World) (v1w : CheckV1.World) (want obs : String) (_run : String := "d1") : String :=
  if !(modelClasses w 2).contains obs then
    -- the weight2 / recursive strategies read through the same filtered iterator (bottomUp.buildIterator): an
    -- evaluation error is swallowed as soon as another tuple of the same read passed.  Dropping every tuple whose
    -- condition cannot be evaluated simulates exactly that.
    let noErr : CheckV2.World := { w with
      stored := w.stored.filter (fun t => evalCond w.model w.req.ctx t ≠ .err),
      ctxTuples := w.ctxTuples.filter (fun t => evalCond w.model w.req.ctx t ≠ .err) }
    if want = "Econd" && (modelClasses noErr 2).all (· = obs) then
      "V2-E a condition evaluation error was swallowed by the filtered iterator (here: the bottom-up read of the weight2 / recursive strategy)"
    else "unexplained (the model of the engine does not reproduce this answer)"
  else
  let tainted := (checkSet w 2).any (fun o => match o with | .ok _ t => t | _ => false)
  let agrees (w' : CheckV2.World) : Bool := (modelClasses w' 2).all (fun c => c = want || !isDec c) && (modelClasses w' 2).any (· = want)
  if agrees w then
    "unexplained (the model of the default strategy at concurrency 1 gives the expected answer: the deviation is specific to this strategy / schedule)"
  else if agrees { w with stored := w.stored.filter (CheckV1.validForRead v1w.model) } then
    "V2-D a stored tuple that is not valid for the model (left over from another model) is honoured: internal/check does not validate tuples on read"
  else if oracleClass (strictWorld v1w) ≠ oracleClass v1w then
    "V1-G the default engine (and the reference validity predicate that mirrors it) accepts a conditioned tuple whose condition is declared only for another shape of the same type (user vs user:*): validateCondition compares type and condition name only"
  else if tainted then
    "V2-E a condition evaluation error was swallowed by the filtered iterator (internal/iterator/filter.go reports it only if no tuple passed)"
  else "unexplained (the model of the engine is untainted)"

/-! ### the step -/

def subjKind (u : String) : String :=
  if isUserset u then "userset" else if isTypedWildcard u then "wildcard" else "object"

def reasonOfShape (c : String) : String :=
  if c = "Eshape:wildcard" then "wildcard_with_exclusion" else if c = "Eshape:userset" then "userset_with_exclusion" else "-"

def step (c impl : String) : String :=
  match parseCase c with
  | none => "SKIP unparsable-case"
  | some cs =>
    if impl = "invalid-model" then "SKIP invalid-model" else
    let i := parseImpl impl
    let v1 := norm (i.get "v1")
    let srv := norm (i.get "srv")
    let fb := i.get "fb" = "1"
    let logs := (i.get "log").splitOn ","
    let kind := subjKind cs.world.req.user
    -- the detector predicates, model against implementation
    let dash := fun (x : String) => if x = "" then "-" else x
    let crM := dash (V2Breaking.checkReason cs.world.model cs.world.req)
    let cxM := dash (V2Breaking.checkExclusionReason cs.world.model cs.world.req)
    if kind = "userset" && crM ≠ i.get "cr" then modelDiff s!"CheckReason={crM}" else
    if cxM ≠ i.get "cx" then modelDiff s!"CheckExclusionReason={cxM}" else
    let v1w : CheckV1.World := { cs.world with ctxTuples := sortByObj cs.world.ctxTuples }
    -- the answers the default engine can give at breadth 1 (the two `exclusion` goroutines race)
    let v1alts := (CheckV1.checkSet v1w cs.maxDepth).map (fun o => match o with
      | .ok true _ _ => "T" | .ok false _ _ => "F" | .err .depth => "Edepth" | .err .cond => "Econd" | _ => "Eother")
    if i.get "mg" ≠ "ok" then
      -- the weighted graph cannot be built: the server must serve the request from the default engine
      if !fb then specViol s!"the weighted graph could not be built ({i.get "mg"}) but the server did not fall back to the default engine"
      else if srv ≠ v1 && !v1alts.contains srv then specViol s!"fallback after a failed graph build ({i.get "mg"}) answered {srv}, the default engine answers {v1}"
      else ok s!"fallback-{i.get "mg"}" false
    else
    match i.graph with
    | none => "SKIP unparsable-graph"
    | some g =>
      let w : CheckV2.World := { model := cs.world.model, graph := g, stored := cs.world.stored,
                                 ctxTuples := cs.world.ctxTuples, req := cs.world.req }
      -- the pruning steps rely on the local consistency of the dumped graph (trusted data, checked here)
      if !isUserset w.req.user && !wfWeights g w.ut then modelDiff "graph-not-wellformed:weights" else
      if !wfWildcards g then modelDiff "graph-not-wellformed:wildcards" else
      -- the clean hypotheses of `shared_visited_union_sound`, per case: without an unevaluable condition the model must
      -- not rely on any unjustified step (a taint would mean two sub-problems behind one visited key)
      let condErr := (w.ctxTuples ++ w.stored).any (fun t => evalCond w.model w.req.ctx t = .err)
      if !condErr && (checkSet w 2).any (fun o => match o with | .ok _ t => t | _ => false) then
        modelDiff "unexpected-taint: a visited key is shared by two sub-problems" else
      let d1 := norm (i.get "d1")
      let looks := [2, 1, 3, 0, 64]
      let exact := looks.any (fun l => (modelClasses w l).contains d1)
      -- without fallback the server's answer is one more run of the weighted-graph engine (own planner, breadth 1)
      let runs := v2runs i ++ (if fb then [] else [("srv", [srv])])
      let allV2 := (v2runs i).flatMap (·.2)
      let o := if cs.stratified then oracleClass v1w else "?"
      -- (1) object subjects: every decision equals the reference semantics
      let objViol : Option String :=
        if kind ≠ "object" then none else
        (runs.findSome? (fun (name, cls) =>
          cls.findSome? (fun x =>
            if !isDec x then none
            else if (o = "T" || o = "F") && x ≠ o then
              some s!"object subject: weighted-graph engine ({name}) answered {x} but the reference semantics is {o}: {diagnose w v1w o x name}"
            else if o = "U" then
              some s!"object subject: weighted-graph engine ({name}) answered {x} although an unevaluable condition leaves the answer open: {diagnose w v1w "Econd" x name}"
            else none)))
      -- (2) userset / wildcard subjects: a difference from the default engine needs a reported reason
      let cr := i.get "cr"
      let usViol : Option String :=
        if kind = "object" || !isDec v1 then none else
        (runs.findSome? (fun (name, cls) =>
          cls.findSome? (fun x =>
            if isDec x && x ≠ v1 then
              let reported := x = "F" && kind = "userset" && cr ≠ "-"
              if reported then none
              else
                let v1side := (o = "T" || o = "F") && o ≠ v1 && o = x
                let why :=
                  if v1side then "the default engine is wrong here (C01 findings F1/F12), the weighted-graph engine agrees with the reference semantics"
                  else
                    let d := diagnose w v1w v1 x name
                    -- V2-C only when the engine behaves exactly as modelled (untainted): a genuine difference of the two
                    -- engines' semantics for this subject that the detector's catalogue does not cover
                    let asModelled := (checkSet w 2).any (fun o => renderV o = x && (match o with | .ok _ t => !t | _ => false))
                    if d.startsWith "unexplained (the model of the engine is untainted)" && asModelled then
                      "V2-C the detector reports no reason (the shape is not in its catalogue)"
                    else d
                some s!"{kind} subject: default engine {v1}, weighted-graph engine ({name}) {x}, no breaking-change reason reported: {why}"
            else none)))
      -- (3) request-shape errors go with the documented reason and the fallback
      let shapeViol : Option String :=
        allV2.findSome? (fun x =>
          if x.startsWith "Eshape" then
            if kind = "object" then some s!"request-shape error {x} for an object subject"
            else if x = "Eshape:wildcard" && kind ≠ "wildcard" then some s!"{x} for a {kind} subject"
            else if x = "Eshape:userset" && kind ≠ "userset" then some s!"{x} for a {kind} subject"
            else none
          else none)
      -- (3b) a request-validation failure is terminal (no fallback): the default engine must reject the request as well
      let valViol : Option String :=
        if allV2.contains "Einvalid" && v1 ≠ "Einvalid" then
          some s!"V2-F the weighted-graph engine rejects the request as invalid (terminal, no fallback: IsV2CheckTerminalError says the default engine rejects it identically) but the default engine answers {v1}"
        else none
      -- (4) server path: the weighted-graph answer, or the default engine's answer after a fallback
      let srvViol : Option String :=
        if fb then
          if !(allV2.any (fun x => !isDec x)) then some s!"server fell back although no weighted-graph run failed ({allV2})"
          else if srv ≠ v1 && !v1alts.contains srv then some s!"server fallback answered {srv}, the default engine {v1}"
          else
            let need := allV2.filterMap (fun x => if x.startsWith "Eshape" then some (reasonOfShape x) else none)
            -- the reason is logged after the default engine produced an answer (not when it failed as well)
            if need.any (fun r => !logs.contains r) && d1.startsWith "Eshape" && isDec srv then some s!"fallback after {d1} without the breaking-change reason in the log ({logs})"
            else none
        else
          -- an error may mask or be masked by a decision (races between goroutines); two different decisions may not coexist
          if isDec srv && allV2.all isDec && !(allV2.contains srv) then some s!"server answered {srv} without fallback, the weighted-graph runs answered {allV2}"
          else if !isDec srv && allV2.all isDec then some s!"server failed with {srv} without fallback although every weighted-graph run decided ({allV2})"
          else if srv = "F" && kind = "userset" && cr ≠ "-" && !logs.contains cr then some s!"server did not log the breaking-change reason {cr}"
          else none
      -- (5) command-level fallback (CheckQueryV2.Execute with a fallback Checker, as BatchCheck wires it) and the
      -- terminal-error classification
      let cfb := norm (i.get "cfb")
      let cfbn := i.get "cfbn"
      let term := i.get "term"
      let mcls := looks.flatMap (fun l => modelClasses w l)
      let cmdViol : Option String :=
        if cfb = "?" then none
        else if cfbn = "0" && !mcls.contains cfb then
          some s!"command-level run without fallback answered {cfb}, the weighted-graph engine can answer {mcls}"
        else if cfbn ≠ "0" && cfb ≠ v1 && !v1alts.contains cfb then
          some s!"command-level fallback answered {cfb}, the default engine answers {v1}"
        else if cfbn ≠ "0" && isDec d1 && mcls.all isDec then
          some s!"command-level run fell back although the weighted-graph engine decided ({d1})"
        else if term ≠ "-" && term ≠ "?" then
          -- after the server's error mapping: condition and request-validation errors are terminal, the request-shape
          -- errors, graph errors and panics are not
          let wantTerminal := d1 = "Econd" || d1 = "Einvalid" || d1 = "Edeadline"
          let isTerm : Bool := term.endsWith "1"
          if isTerm != wantTerminal then
            some s!"IsV2CheckTerminalError classifies the mapped error {d1} as terminal={isTerm}"
          else none
        else none
      -- every run failed with a non-terminal error: the server has to fall back
      let fbViol : Option String :=
        if !fb && !allV2.isEmpty && allV2.all (fun x => x.startsWith "Eshape" || x = "Epanic" || x = "Eother") then
          some s!"every weighted-graph run failed with a non-terminal error ({allV2}) but the server did not fall back"
        else none
      match objViol.orElse (fun _ => cmdViol) |>.orElse (fun _ => fbViol) |>.orElse (fun _ => usViol) |>.orElse (fun _ => shapeViol) |>.orElse (fun _ => valViol) |>.orElse (fun _ => srvViol) with
      | some why => specViol why
      | none =>
        if !exact then modelDiff ("|".intercalate (modelClasses w 2))
        else
          let pruned := match rootExpr w with | .sub _ _ => false | _ => true
          let diverge := isDec v1 && isDec d1 && v1 ≠ d1
          let k := if fb then "shape-fallback" else if diverge then "reported-divergence" else "agree"
          ok s!"{kind}-{k}-{d1.replace ":" "_"}" (!pruned)

end OpenFGAVerif.DriverC03

def main : IO Unit := OpenFGAVerif.Proto.run OpenFGAVerif.DriverC03.step
