/-
Driver for C04: every step of a history is answered twice by the real server — with its contextual
tuples over the base store (all caches on) and without contextual tuples over the store that also holds
those tuples (no caches).  The property is checked directly on the two real answers; Expand answers are
also compared with the model (`Model.Expand.execute` on the merged world), and for Check steps on
stratified models the reference oracle says which side is wrong.
-/
import OpenFGAVerif.Driver.FgaCase
import OpenFGAVerif.Model.Expand

open OpenFGAVerif OpenFGAVerif.Proto OpenFGAVerif.Vocab OpenFGAVerif.CheckV1 OpenFGAVerif.FgaCase
open OpenFGAVerif.Model

namespace OpenFGAVerif.DriverC04

structure Step where
  kind : String
  sel : String
  reqs : List (Aux × Req)
  /-- `batm`: the contextual set of each item -/
  sels : List String := []
  typ : String := ""
  frel : String := ""

def parseReqs : Nat → List String → Option (List (Aux × Req) × List String)
  | 0, ts => some ([], ts)
  | k + 1, ts => do
    let (aux, ts) ← FgaCodec.aux ts
    let (rq, ts) ← FgaCodec.req ts
    let (rest, ts) ← parseReqs k ts
    pure ((aux, rq) :: rest, ts)

def parseSelReqs : Nat → List String → Option (List String × List (Aux × Req) × List String)
  | 0, ts => some ([], [], ts)
  | k + 1, ts => do
    let (sel, ts) ← FgaCodec.tok ts
    let (aux, ts) ← FgaCodec.aux ts
    let (rq, ts) ← FgaCodec.req ts
    let (sels, rest, ts) ← parseSelReqs k ts
    pure (sel :: sels, (aux, rq) :: rest, ts)

def parseSteps : Nat → List String → Option (List Step)
  | 0, _ => some []
  | k + 1, ts => do
    let (kind, ts) ← FgaCodec.tok ts
    let (sel, ts) ← FgaCodec.tok ts
    let (st, ts) ← (match kind with
      | "chk" => do
        let (rs, ts) ← parseReqs 1 ts
        pure ({ kind := kind, sel := sel, reqs := rs : Step }, ts)
      | "bat" => do
        let (n, ts) ← FgaCodec.nat ts
        let (rs, ts) ← parseReqs n ts
        pure ({ kind := kind, sel := sel, reqs := rs : Step }, ts)
      | "batm" => do
        let (n, ts) ← FgaCodec.nat ts
        let (sels, rs, ts) ← parseSelReqs n ts
        pure ({ kind := kind, sel := sel, reqs := rs, sels := sels : Step }, ts)
      | "lo" => do
        let (typ, ts) ← FgaCodec.tok ts
        let (rq, ts) ← FgaCodec.req ts
        pure ({ kind := kind, sel := sel, reqs := [([], rq)], typ := typ : Step }, ts)
      | "lu" => do
        let (typ, ts) ← FgaCodec.tok ts
        let (frel, ts) ← FgaCodec.tok ts
        let (rq, ts) ← FgaCodec.req ts
        pure ({ kind := kind, sel := sel, reqs := [([], rq)], typ := typ, frel := FgaCodec.dash frel : Step }, ts)
      | "exp" => do
        let (rq, ts) ← FgaCodec.req ts
        pure ({ kind := kind, sel := sel, reqs := [([], rq)] : Step }, ts)
      | _ => none : Option (Step × List String))
    let rest ← parseSteps k ts
    pure (st :: rest)

structure C04Case where
  stratified : Bool
  model : Vocab.Model
  base : List Tuple
  cA : List Tuple
  cB : List Tuple
  steps : List Step

def parseC04 (line : String) : Option C04Case := do
  let ts := fields line
  let (_, ts) ← FgaCodec.expect "c04" ts
  let (strat, ts) ← FgaCodec.nat ts
  let (m, ts) ← FgaCodec.model ts
  let (base, ts) ← FgaCodec.tuples "tuples" ts
  let (cA, ts) ← FgaCodec.tuples "ctx" ts
  let (cB, ts) ← FgaCodec.tuples "ctx" ts
  let (_, ts) ← FgaCodec.expect "steps" ts
  let (k, ts) ← FgaCodec.nat ts
  let steps ← parseSteps k ts
  pure { stratified := strat = 1, model := m, base := base, cA := cA, cB := cB, steps := steps }

def ctxOf (c : C04Case) (sel : String) : List Tuple :=
  if sel = "a" then c.cA else if sel = "b" then c.cB else if sel = "m" then c.cA ++ c.cB else []

/-- the harness' rendering of Expand answers: `;` separated, computed usersets of a tuple-to-userset leaf sorted -/
def joinS (l : List String) : String := String.join (l.map (";" ++ ·))

mutual
def renderX : Expand.Tree → String
  | .users n us => s!"users;{n};{us.length}" ++ joinS us
  | .computed n u => s!"computed;{n};{u}"
  | .ttu n ts cs => s!"ttu;{n};{ts};{cs.length}" ++ joinS (Expand.sortedSet cs)
  | .union n ks => s!"union;{n};{ks.length}" ++ renderXL ks
  | .inter n ks => s!"inter;{n};{ks.length}" ++ renderXL ks
  | .diff n b s => s!"diff;{n};" ++ renderX b ++ ";" ++ renderX s
def renderXL : List Expand.Tree → String
  | [] => ""
  | t :: ts => ";" ++ renderX t ++ renderXL ts
end

def renderRes : Expand.Res → String
  | .ok t => renderX t
  | .err .invalidInput => "E:invalid_expand_input"
  | .err .invalidTuple => "E:invalid_tuple"
  | .err .validation => "E:validation_error"
  | .err .typeNotFound => "E:type_not_found"
  | .err .relationNotFound => "E:relation_not_found"

structure Tally where
  viols : List String := []
  diffs : List String := []
  unstable : Nat := 0
  undefinedSem : Nat := 0
  content : Nat := 0
  compared : Nat := 0

/-- a contextual tuple whose condition is declared only on a restriction of ANOTHER shape of its user type
(`user:y with c1` where the relation allows `user` and `user:* with c1`): `validateCondition` accepts it,
the weighted-graph engine's `validateCtxTupleInModel` does not -/
def looseCondition (m : Vocab.Model) (t : Tuple) : Bool :=
  t.cond ≠ "" &&
  match m.findRel (typeOf t.obj) t.rel with
  | none => false
  | some rd => !rd.restrs.any (fun r => restrMatchesUser r t.user && r.cond = t.cond)

def judge (c : C04Case) (eng : String) (idx : Nat) (st : Step) (pair : String) (acc : Tally) : Tally :=
  let unstable := pair.endsWith "~"
  let p := if unstable then (pair.dropEnd 1).toString else pair
  match p.splitOn "/" with
  | [a, pl, b] =>
    let acc := { acc with compared := acc.compared + 1 }
    if a = "DL" then acc else
    let acc :=
      -- Expand: the reference answer against the model on the merged world, the split answer against the
      -- model on the split world
      if st.kind = "exp" then
        match st.reqs with
        | (_, rq) :: _ =>
          let mref := renderRes (Expand.execute c.model (c.base ++ ctxOf c st.sel) [] rq.obj rq.rel)
          let msplit := renderRes (Expand.execute c.model c.base (ctxOf c st.sel) rq.obj rq.rel)
          if b ≠ mref then { acc with diffs := s!"{eng} step {idx} expand {rq.obj}#{rq.rel} ref: got [{b}] want [{mref}]" :: acc.diffs }
          else if pl ≠ msplit then { acc with diffs := s!"{eng} step {idx} expand {rq.obj}#{rq.rel} split: got [{pl}] want [{msplit}]" :: acc.diffs }
          else acc
        | [] => acc
      else acc
    if a = b && pl = b then
      let hasContent := st.sel ≠ "n" && !(ctxOf c st.sel).isEmpty &&
        (a = "T" || (a.startsWith "[" && a ≠ "[]") || (a.splitOn ",").contains "T" || (st.kind = "exp" && !a.startsWith "E:"))
      { acc with content := acc.content + (if hasContent then 1 else 0) }
    else if unstable then { acc with unstable := acc.unstable + 1 }
    else if !c.stratified && pl ≠ b && st.kind ≠ "exp" then
      -- negation through recursion: the answer is not defined by the model (it depends on the evaluation order,
      -- and contextual tuples are read first); only cache-induced deviations and Expand are judged
      { acc with undefinedSem := acc.undefinedSem + 1 }
    else
      let diag :=
        if st.kind = "chk" && c.stratified then
          match st.reqs with
          | (aux, rq) :: _ =>
            let w : World := { model := c.model, aux := aux, stored := c.base ++ ctxOf c st.sel, ctxTuples := [], req := rq }
            s!" (reference oracle: {oracleClass w})"
          | [] => ""
        else ""
      let what := match st.reqs with | (_, rq) :: _ => s!"{rq.obj}#{rq.rel}@{rq.user}" | [] => ""
      -- F9 signature: on one object#relation a contextual tuple and another tuple, one for the subject and one
      -- for the subject's typed wildcard, at least one of them conditioned (the sorted ReadStartingWithUser keeps
      -- ONE tuple per object and filters conditions afterwards; contextual tuples come first)
      let users := st.reqs.map (fun p => p.2.user)
      let forSubject := fun (t : Tuple) => users.any (fun u => t.user = u || (isTypedWildcard t.user && userType t.user = userType u))
      let ctxS := ctxOf c st.sel
      let f9 := ctxS.any (fun t1 => forSubject t1 &&
        (ctxS ++ c.base).any (fun t2 => t2.obj = t1.obj && t2.rel = t1.rel && t2.user ≠ t1.user && forSubject t2 &&
          (t1.cond ≠ "" || t2.cond ≠ "")))
      -- ListUsers: which side disagrees with Check's reference semantics on the merged world? When the answer WITH
      -- contextual tuples is the right one and the answer over the all-stored world is wrong, the defect is
      -- ListUsers' own (C06 findings LU-B…LU-J: status maps whose survivor depends on read order; contextual tuples
      -- are read first), not the handling of contextual tuples.
      let luOwn : Bool :=
        if st.kind = "lu" && c.stratified && a.startsWith "[" && b.startsWith "[" && pl = a then
          match st.reqs with
          | (aux, rq) :: _ =>
            let parse := fun (s : String) => ((s.drop 1).toString.dropEnd 1).toString.splitOn "," |>.filter (· ≠ "")
            let la := parse a
            let lb := parse b
            let us := (la ++ lb).eraseDups
            if us.all (fun u => userType u = userType rq.user && !isTypedWildcard u && !(u.contains '#')) then
              let cls := fun (u : String) =>
                oracleClass { model := c.model, aux := aux, stored := c.base ++ ctxOf c st.sel, ctxTuples := [], req := { rq with user := u } }
              let okSide := fun (l : List String) => us.all (fun u => let o := cls u; (o = "T" && l.contains u) || (o = "F" && !l.contains u))
              okSide la && !okSide lb
            else false
          | [] => false
        else false
      let tag :=
        if luOwn then
          "[C04-LU-OWN] ListUsers over the all-stored world disagrees with Check while the answer with contextual tuples agrees with it: ListUsers' own status-map defects (C06 findings LU-B..LU-J), whose outcome depends on read order (contextual tuples are read first)"
        else if pl = b then
          s!"[C04-CACHE engine={eng}] the answer with contextual tuples is right without caches and differs with caches on"
        else if eng = "v2" && ctxS.any (looseCondition c.model) then
          "[C04-V2-CTXVALID] the weighted-graph engine treats a contextual tuple that only the lax validateCondition accepts (condition declared on a restriction of another shape of the same user type) differently from the same tuple stored"
        else if f9 && st.kind ≠ "lu" && st.kind ≠ "exp" then
          "[C04-F9] a contextual tuple and the tuple of the subject's wildcard (or vice versa) sit on the same object#relation and one is conditioned: the sorted ReadStartingWithUser keeps one tuple per object before the condition filter, contextual tuples first (finding F9)"
        else if st.kind = "batm" then
          s!"[C04-CROSS-ITEM] a BatchCheck whose items carry different contextual tuples (per item: {st.sels}) answers an item differently from the same item over the store holding ITS tuples: contextual tuples of one item must not reach (or be withheld from) another"
        else "[C04-SEMANTIC] contextual tuples are not treated like stored tuples"
      { acc with viols := s!"{tag}: engine={eng} step {idx} {st.kind} {what} contextual-set={st.sel}: with contextual tuples {a} (caches on) / {pl} (no caches), with the same tuples stored {b}{diag}" :: acc.viols }
  | _ => { acc with diffs := s!"unparsable answer {pair}" :: acc.diffs }

def step (c impl : String) : String :=
  match parseC04 c with
  | none => "SKIP unparsable-case"
  | some cs =>
    if impl = "invalid-model" then "SKIP invalid-model" else
    let k := cs.steps.length
    let t := (impl.splitOn " | ").foldl (fun acc sec =>
      match fields sec with
      | eng :: pairs =>
        if pairs.length ≠ 2 * k then { acc with diffs := s!"{eng}: {pairs.length} answers for {2 * k} requests" :: acc.diffs }
        else
          ((List.range (2 * k)).zip pairs).foldl (fun acc ip =>
            match cs.steps[ip.1 % k]? with
            | some st => judge cs eng ip.1 st ip.2 acc
            | none => acc) acc
      | [] => acc) ({} : Tally)
    match t.viols.reverse, t.diffs.reverse with
    | v :: _, _ => specViol v
    | [], d :: _ => modelDiff d
    | [], [] =>
      if t.unstable > 0 then "SKIP engine-nondeterministic (C02)"
      else if t.undefinedSem > 0 then ok "nonstratified-order-dependent" false
      else ok (if cs.cA.isEmpty && cs.cB.isEmpty then "no-contextual" else "histories") (t.content > 0)

end OpenFGAVerif.DriverC04

def main : IO Unit := Proto.run OpenFGAVerif.DriverC04.step
