/-
Driver for C05.  Per case (`lo <mode> <breadth> cfg …`, see harness/c05) the harness reports, from the real
code: the pruned relationship edges for every source reference (`ed=`), the classic reverse expansion with
result statuses (`re=`), and the sorted response of the three ListObjects engines under limits 1,2,3,1000
(`c1..ci`, `w1..wi`, `p1..pi`), the classic engine with maxResults = 0 (`c0`), the streamed variants
(`sc`, `sp`) and — mode `dl` — runs cut by a short deadline (`cd*`, `wd*`, `pd*`).

Property (decided with the reference oracle of C01 per object, `FgaCase.oracleClass`):
  * every returned object is permitted (oracle "T"); "F" or "U" is a violation unless the C01 engine model of
    the confirming Check is tainted on that object (inherited findings F1 / F12, reported under their ids);
  * no object twice;  never more than `limit` objects;
  * no error and not cut ⇒ every "T" object is returned; more permitted than the limit ⇒ exactly `limit`.
Model: `edges` must equal the real edge lists; the reachable targets / possible statuses of the model's
expansion graph must agree with `re=`; where the outcome is schedule independent the classic response
must equal the model's.
-/
import OpenFGAVerif.Driver.FgaCase
import OpenFGAVerif.Model.RevExpand

open OpenFGAVerif OpenFGAVerif.Proto OpenFGAVerif.Vocab OpenFGAVerif.CheckV1 OpenFGAVerif.Dfs OpenFGAVerif.FgaCase
open OpenFGAVerif.RevExpand

namespace OpenFGAVerif.DriverC05

def efuel : Nat := 300

def kindStr : EdgeKind → String
  | .direct => "d" | .computed => "c" | .ttu => "t"

def renderEdges (es : Option (List Edge)) : String :=
  match es with
  | none => "ERR"
  | some [] => "-"
  | some l => "+".intercalate (l.map (fun e =>
      s!"{kindStr e.kind}/{e.typ}/{e.rel}/{if e.tupleset = "" then "-" else e.tupleset}/{if e.flag then 1 else 0}"))

/-- compare the `ed=` groups with the model; returns the first difference -/
def checkEdges (m : Model) (tT tR : String) (ed : String) : Option String :=
  (ed.splitOn ";").findSome? (fun g =>
    match g.splitOn ":" with
    | [hd, body] =>
      match hd.splitOn "," with
      | [t, r, wl] =>
        let src : SrcRef := { typ := t, rel := if r = "-" then "" else r, wild := wl = "1" }
        let exp := renderEdges (edges m tT tR src efuel)
        if exp = body then none else some s!"edges({hd}) expected={exp} impl={body}"
      | _ => some s!"unparsable edge group {g}"
    | _ => some s!"unparsable edge group {g}")

/-- all (node, accumulated flag) states of the expansion graph -/
def explore (G : Graph FNode) : Nat → List (FNode × Bool) → List (FNode × Bool) → List (FNode × Bool)
  | 0, _, seen => seen
  | _ + 1, [], seen => seen
  | f + 1, (n, fl) :: rest, seen =>
    if seen.contains (n, fl) then explore G f rest seen
    else explore G f (rest ++ (G.succ n).map (fun p => (p.1, fl || p.2))) ((n, fl) :: seen)

structure ReModel where
  err : Bool
  /-- target objects with the statuses some schedule can give them: (object, can be N, can be R) -/
  objs : List (String × Bool × Bool)

def reModel (w : World) (tT tR : String) : ReModel :=
  let G := fgaGraph w tT tR efuel
  let states := explore G 20000 [(rootNode w, false)] []
  let err := states.any (fun s => G.fails s.1)
  let tg := states.filterMap (fun s => (G.target s.1).map (fun o => (o, s.2)))
  let os := (tg.map (·.1)).eraseDups
  { err := err, objs := os.map (fun o => (o, tg.contains (o, false), tg.contains (o, true))) }

def parseKV (impl : String) : List (String × String) :=
  (fields impl).filterMap (fun f =>
    match f.splitOn "=" with
    | k :: v :: rest => some (k, "=".intercalate (v :: rest))
    | _ => none)

def parseList (v : String) : Option (List String) :=
  if v.startsWith "E:" then none else if v = "-" then some [] else some (v.splitOn ",")

def hasDup : List String → Bool
  | [] => false
  | x :: xs => xs.contains x || hasDup xs

/-- result limit of a run key (`none` = no limit) and whether it may have been cut by a deadline -/
def limitOf (k : String) : Option Nat × Bool :=
  let tl := (k.drop 1).toString
  if tl.startsWith "d" then (none, true)
  else match tl with
    | "1" => (some 1, false) | "2" => (some 2, false) | "3" => (some 3, false)
    | _ => (none, false)

def classOfOuts (os : List Out) : List String :=
  (os.map (fun o => match o with | .ok true _ _ => "T" | .ok false _ _ => "F" | .err .depth => "Ed" | .err _ => "E")).eraseDups

def objWorld (w : World) (o : String) : World := { w with req := { w.req with obj := o } }

/-- diagnosis of a deviation on object `o` through the confirming Check: the C01 engine model is tainted -/
def taintDiag (w : World) (depth : Nat) (o : String) (wantAllowed : Bool) : Option String :=
  let wo := objWorld w o
  let ms := checkSet wo depth
  let tainted := ms.any (fun m => match m with | .ok a _ t => t && a == wantAllowed | _ => false)
  if !tainted then none
  else match oracleCodeExcl wo with
    | .ok _ _ true => some "F1"
    | _ => some "F12"

mutual
/-- subtracted operands of every exclusion in a rewrite -/
def diffSubs : Rewrite → List Rewrite
  | .diff b s => s :: (diffSubs b ++ diffSubs s)
  | .union cs => diffSubsL cs
  | .inter cs => diffSubsL cs
  | _ => []
def diffSubsL : List Rewrite → List Rewrite
  | [] => []
  | c :: cs => diffSubs c ++ diffSubsL cs
end

mutual
def countThis : Rewrite → Nat
  | .this => 1
  | .union cs => countThisL cs
  | .inter cs => countThisL cs
  | .diff b s => countThis b + countThis s
  | _ => 0
def countThisL : List Rewrite → Nat
  | [] => 0
  | c :: cs => countThis c + countThisL cs
end

/-- shape of known finding L1: some exclusion whose subtracted operand has no edge towards the subject type -/
def l1Shape (w : World) : Bool :=
  let src := srcRefOf w (rootNode w)
  w.model.types.any (fun td => td.rels.any (fun rd =>
    (diffSubs rd.rewrite).any (fun s =>
      match edgesGo w.model src efuel efuel [] (.rw td.name rd.name s) with
      | some ([], _) => true
      | _ => false)))

/-- shape of known finding L4: a rewrite that names `this` more than once -/
def l4Shape (w : World) : Bool :=
  w.model.types.any (fun td => td.rels.any (fun rd => countThis rd.rewrite > 1))

/-- shape of candidate finding L5: a valid tuple whose condition is not the condition of the type restriction
that matches the form of its user (it is the condition of a sibling restriction of the same user type) -/
def l5Shape (w : World) : Bool :=
  w.all.any (fun t => t.cond ≠ "" && validForRead w.model t &&
    !((restrsOf w.model (typeOf t.obj) t.rel).any (fun x => restrMatchesUser x t.user && x.cond = t.cond)))

def step (c impl : String) : String :=
  match fields c with
  | "lo" :: mode :: _breadth :: rest0 =>
    -- mode hc: the store before the write precedes the case proper (whose `tuples` are the store after the
    -- write: the HIGHER_CONSISTENCY answers reported under ci wi pi sc sw sp must be answers for that store)
    let rest := if mode = "hc" then (match FgaCodec.tuples "pre" rest0 with | some (_, r) => r | none => rest0) else rest0
    match parseCase (" ".intercalate rest) with
    | none => "SKIP unparsable-case"
    | some cs =>
      if impl = "invalid-model" then "SKIP invalid-model" else
      let w := { cs.world with ctxTuples := sortByObj cs.world.ctxTuples }
      let tT := typeOf w.req.obj
      let tR := w.req.rel
      let kv := parseKV impl
      let get := fun k => (kv.find? (·.1 = k)).map (·.2)
      if kv.all (fun p => p.2 = "E:invalid") then ok "request-rejected" false else
      -- reference oracle per object of the universe
      let univ := (((rootNode w).o :: w.all.map (·.obj)).filter (fun o => typeOf o = tT)).eraseDups
      let cls := univ.map (fun o => (o, if cs.stratified then oracleClass (objWorld w o) else "?"))
      let clsOf := fun o => ((cls.find? (·.1 = o)).map (·.2)).getD "X"
      let permitted := (cls.filter (·.2 = "T")).map (·.1)
      let unevaluable := (cls.filter (·.2 = "U")).map (·.1)
      let rm := reModel w tT tR
      let runs := kv.filter (fun p => p.1 ≠ "ed" && p.1 ≠ "re")
      -- ---- the property ----
      let viol : List (String × Bool) := runs.flatMap (fun (k, v) =>
        let eng := (k.take 1).toString
        let (lim, cut) := limitOf k
        -- the streaming pipeline (no confirming Check) only runs for plain object subjects
        let usesCheck := !(eng = "p" && !isUserset w.req.user && !isTypedWildcard w.req.user)
        let weighted := eng = "w" || k = "sw"
        if v = "HANG" then
          if eng = "p" && l4Shape w then
            [(s!"engine did not return: engine={k} (streaming pipeline: Pipeline.Close blocks after the deadline; teardown never reaches quiescence)", false)]
          else [(s!"engine did not return (no rewrite with several direct assignments in the model): engine={k}", false)]
        else if v.startsWith "PANIC" then [(s!"engine panicked: engine={k} {v}", false)]
        else
        match parseList v with
        | none => []
        | some out =>
          let dup := if hasDup out then
              (if eng = "w" && l1Shape w then
                [(s!"duplicate object in the response: engine={k} out={v}: weighted reverse expansion sends through a fresh candidate map", false)]
               else [(s!"duplicate object in the response (not the shape of L1): engine={k} out={v}", false)]) else []
          let bad := out.eraseDups.filterMap (fun o =>
            let cl := clsOf o
            if cl = "T" || cl = "?" then none
            else if cl = "X" then some (s!"returned object outside the universe: engine={k} object={o}", false)
            else match (if !usesCheck then none else taintDiag w cs.maxDepth o true) with
              | some f => some (s!"inherited {f}: engine={k} returned {o} (oracle={cl}) through a tainted confirming Check", true)
              | none =>
                if eng = "w" && isTypedWildcard w.req.user && !w.ctxTuples.isEmpty then
                  some (s!"weighted engine answers a wildcard subject from a contextual tuple of another user (empty user filter): engine={k} object={o} oracle={cl}", false)
                else some (s!"returned object is not permitted: engine={k} object={o} oracle={cl}", false))
          let over := match lim with
            | some l => if out.eraseDups.length > l then [(s!"more than limit objects: engine={k} limit={l} out={v}", false)] else []
            | none => []
          let missing := permitted.filter (fun o => !out.contains o)
          let explain := fun (o : String) => if !usesCheck then none else taintDiag w cs.maxDepth o false
          let compl :=
            if cut || !cs.stratified then []
            else match lim with
              | none =>
                missing.map (fun o => match explain o with
                  | some f => (s!"inherited {f}: engine={k} misses {o} (oracle=T): the confirming Check denies on a tainted decision", true)
                  | none =>
                    if k = "c0" && rm.err then (s!"truncated response without error: engine=c0 (maxResults=0) misses {o} (oracle=T): a condition evaluation error is dropped because len(objects) < int(maxResults) never holds for 0", false)
                    else if !usesCheck && l5Shape w then (s!"pipeline misses a permitted object in a store with a tuple that carries the condition of a sibling type restriction (storage filter Conditions = edge conditions): engine={k} object={o} out={v}", false)
                    else if weighted && !unevaluable.isEmpty then (s!"weighted engine returns a short list without error although a candidate cannot be evaluated (oracle=U on {",".intercalate unevaluable}): engine={k} misses {o} (oracle=T) out={v}: an error of the residual-check pool was elided (loopOverEdges may elide cancellation / deadline only)", false)
                    else (s!"permitted object missing: engine={k} object={o} out={v}", false))
              | some l =>
                if out.eraseDups.length < l && !missing.isEmpty then
                  let unexplained := missing.filter (fun o => (explain o).isNone)
                  if unexplained.isEmpty then
                    [(s!"inherited F1/F12: engine={k} returns fewer than limit because confirming Checks deny on tainted decisions", true)]
                  else if !usesCheck && l5Shape w then
                    [(s!"pipeline misses a permitted object in a store with a tuple that carries the condition of a sibling type restriction (storage filter Conditions = edge conditions): engine={k} got={out.eraseDups.length} limit={l} missing={",".intercalate unexplained}", false)]
                  else if weighted && !unevaluable.isEmpty then
                    [(s!"weighted engine returns a short list without error although a candidate cannot be evaluated (oracle=U on {",".intercalate unevaluable}): engine={k} got={out.eraseDups.length} limit={l} permitted={permitted.length}: an error of the residual-check pool was elided (loopOverEdges may elide cancellation / deadline only)", false)]
                  else
                    [(s!"fewer than limit objects: engine={k} got={out.eraseDups.length} limit={l} permitted={permitted.length} missing={",".intercalate unexplained} (no error, no deadline): trySendObject counts before it sends and the send races cancel()", false)]
                else []
          dup ++ bad ++ over ++ compl)
      -- a lost send (L3) is a rare race: it hits one run of a case; a short answer in several limited runs of
      -- the same engine is systematic and reported as such
      let shortRuns := fun (eng : String) =>
        (viol.filter (fun p => !p.2 && p.1.startsWith s!"fewer than limit objects: engine={eng}")).length
      let systematic := ["c", "w", "p"].findSome? (fun eng =>
        if shortRuns eng ≥ 2 then
          (viol.find? (fun p => !p.2 && p.1.startsWith s!"fewer than limit objects: engine={eng}")).map (fun p =>
            s!"limit not reached in {shortRuns eng} of 3 limited runs: " ++ p.1)
        else none)
      let tagv := fun (why : String) =>
        if mode = "hc" then "HIGHER_CONSISTENCY ListObjects after a write (ListObjects iterator cache enabled and warm) does not answer for the store after the write: " ++ why
        else why
      match systematic with
      | some why => specViol (tagv why)
      | none =>
      match viol.find? (fun p => !p.2) with
      | some (why, _) => specViol (tagv why)
      | none =>
        let inherited := (viol.filter (·.2)).map (·.1)
        let inhTag := if inherited.any (fun s => s.startsWith "inherited F12") then "-inherited-F12"
          else if inherited.isEmpty then "" else "-inherited-F1"
        if mode = "dl" then ok ("deadline-cut" ++ inhTag) (!permitted.isEmpty) else
        -- ---- the model ----
        let edDiff := match get "ed" with
          | some ed => checkEdges w.model tT tR ed
          | none => some "no ed= field"
        match edDiff with
        | some d => modelDiff d
        | none =>
          let reV := (get "re").getD "?"
          let reDiff : Option String :=
            if reV = "E:depth" then none
            else if rm.err then (if reV = "E:cond" then none else some s!"reverse expansion: expected=E:cond impl={reV}")
            else match parseList reV with
              | none => some s!"reverse expansion: expected objects {",".intercalate (rm.objs.map (·.1))} impl={reV}"
              | some items =>
                let got := items.map (fun it => match it.splitOn "/" with
                  | [o, s] => (o, s) | _ => (it, "?"))
                let objsOK := got.length = rm.objs.length && rm.objs.all (fun p => got.any (·.1 = p.1))
                let statOK := got.all (fun (o, s) => match rm.objs.find? (·.1 = o) with
                  | some (_, n, r) => (s = "N" && n) || (s = "R" && r)
                  | none => false)
                if objsOK && statOK then none
                else some s!"reverse expansion: expected={",".intercalate (rm.objs.map (fun (o, n, r) => o ++ "/" ++ (if n then "N" else "") ++ (if r then "R" else "")))} impl={reV}"
          match reDiff with
          | some d => modelDiff d
          | none =>
            -- the classic response where it does not depend on the schedule
            let decided : Option (List String) :=
              if rm.err then none
              else rm.objs.foldl (fun acc (o, n, r) =>
                match acc with
                | none => none
                | some l =>
                  if n && !r then some (o :: l)
                  else match classOfOuts (checkSet (objWorld w o) cs.maxDepth) with
                    | ["T"] => some (o :: l)
                    | ["F"] => if n then none else some l
                    | _ => none) (some [])
            let exactDiff : Option String :=
              match decided, get "ci" with
              | some exp, some v =>
                (match parseList v with
                 | some out =>
                   let e := exp.eraseDups
                   if out.length = e.length && e.all out.contains then none
                   else some s!"classic response: expected={",".intercalate e} impl ci={v}"
                 | none => if v = "E:depth" then none else some s!"classic response: expected={",".intercalate exp} impl ci={v}")
              | _, _ => none
            match exactDiff with
            | some d => modelDiff d
            | none =>
              let nt := !rm.objs.isEmpty || !permitted.isEmpty
              let k := if !cs.stratified then "nonstratified" else if rm.err then "expansion-error"
                else if decided.isNone then "schedule-dependent" else s!"exact-{min permitted.length 4}"
              ok (k ++ inhTag) nt
  | _ => "SKIP unparsable-case"

end OpenFGAVerif.DriverC05

def main : IO Unit := OpenFGAVerif.Proto.run OpenFGAVerif.DriverC05.step
