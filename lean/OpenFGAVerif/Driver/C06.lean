/-
Driver for C06.  Case line = the shared FGA layout (`cfg <depth> <stratified> <model> aux tuples ctx req`),
`req.user` holds the user filter (`user`, `group`, `group#member`), aux key `edges` the outcome of the
pruning test.  Implementation output = the distinct sorted result lists of several runs, ` | `-separated:
`R -` | `R u1,u2,…` | `E depth` | `E cond` | `E invalid`.

1. correspondence: every observed output must be an output of the model (`Model.ListUsers`, first-wins and
   last-wins schedule of the assignment maps; a response marked `status-clash` has more outcomes than those
   two, for it only membership bounds are checked);
2. the property itself, on the implementation's output and independently of the model: no duplicates,
   every entry matches the filter, every entry passes the reference oracle (`FgaCase.oracleClass`, request
   subject := the entry), every concrete user / userset of the filter type occurring in the data that
   passes the oracle is returned or covered by a returned wildcard.  The model's ghost notes name the
   mechanism of a violation.
-/
import OpenFGAVerif.Driver.Proto
import OpenFGAVerif.Driver.FgaCodec
import OpenFGAVerif.Driver.FgaCase
import OpenFGAVerif.Model.CheckV1
import OpenFGAVerif.Model.ListUsers

open OpenFGAVerif OpenFGAVerif.Proto OpenFGAVerif.Vocab OpenFGAVerif.CheckV1

namespace OpenFGAVerif.DriverC06
open OpenFGAVerif.FgaCase OpenFGAVerif.ListUsers

def insertStr (s : String) : List String → List String
  | [] => [s]
  | x :: xs => if s < x then s :: x :: xs else if s = x then x :: xs else x :: insertStr s xs

def sortStrs (l : List String) : List String := l.foldl (fun acc s => insertStr s acc) []

def renderErr : ErrKind → String
  | .depth => "E depth"
  | .cond => "E cond"
  | .abort => "E abort"

def renderUsers (us : List String) : String :=
  if us.isEmpty then "R -" else "R " ++ ",".intercalate (sortStrs us)

/-- outputs the model allows for one schedule: the result, or any of the errors -/
def renderAnswer (a : Answer String) : List String :=
  if a.errs.isEmpty then [renderUsers a.users] else a.errs.eraseDups.map renderErr

def parseFilter (s : String) : Filter :=
  match s.splitOn "#" with
  | [t, r] => { typ := t, rel := r }
  | _ => { typ := s, rel := "" }

def parseOut (s : String) : Option (List String) :=
  if s = "R -" then some []
  else if s.startsWith "R " then some ((s.drop 2).toString.splitOn ",")
  else none

/-- the Check-side reading of the ListUsers rules for subject `u` (same definition as `proj` / `specSys` of
`Proofs/ListUsersSem.lean`, repeated here because drivers do not import proof modules): the specification
the theorems of C06 are stated against.  The driver evaluates it with the proven-sound evaluator of
`Model/Dfs.lean` and compares it, subject by subject, with the reference oracle of C01 (`idealSys`) — the
executable form of the bridge between the two specifications. -/
def projD (wk : String) (u : String) (cw : Bool) : LExpr ListUsers.Node String → BoolSys.Expr ListUsers.Node
  | .send ks => .lit (if ks.contains u || (cw && ks.contains wk) then .tt else .ff)
  | .fail => .lit .err
  | .note _ => .lit .ff
  | .node n => .node true n
  | .bag _ es => .or (es.map (projD wk u cw))
  | .union es => .or (es.map (projD wk u cw))
  | .inter es => .and (es.map (projD wk u cw))
  | .diff b s => .diff (projD wk u cw b) (projD wk u cw s)

def specClass (w : World) (f : Filter) (u : String) : String :=
  let sys := luSys w f
  let cw := !isUserset u && !isTypedWildcard u
  let sp : BoolSys.Sys ListUsers.Node := { rule := fun n => projD sys.wk u cw (sys.rule n) }
  match Dfs.evalF sp bigDepth { ideal := true } Dfs.noCache 6000 0 [] (.node false (w.req.obj, w.req.rel)) with
  | .ok true _ false => "T"
  | .ok false _ false => "F"
  | .err .cond => "U"
  | _ => "?"

/-- the reference answer for one subject -/
def refClass (w : World) (u : String) : String :=
  oracleClass { w with aux := [], req := { w.req with user := u } }

/-- does an entry match the filter: objects and wildcards for a type filter, usersets for `type#relation` -/
def matchesFilter (f : Filter) (u : String) : Bool :=
  userType u = f.typ && userRel u = f.rel

/-- concrete subjects of the filter type occurring in the data (tuple users, tuple objects, the request
object): objects for a type filter, `object#rel` for a userset filter -/
def subjects (w : World) (f : Filter) : List String :=
  let objs := (w.all.flatMap (fun t => [t.obj, (splitUserset t.user).1]) ++ [w.req.obj]).filter
    (fun o => typeOf o = f.typ && !isTypedWildcard o)
  let us := if f.rel = "" then objs else objs.map (fun o => o ++ "#" ++ f.rel)
  us.eraseDups

def dup (l : List String) : Bool := l.eraseDups.length ≠ l.length

def mechanism (notes : List String) : String :=
  let ns := notes.eraseDups
  if ns.isEmpty then "unexplained (the model took no unjustified step)"
  else "; ".intercalate (ns.map (fun n =>
    match n with
    | "status-clash" => "LU-C a last-write-wins map received one user with both relationship statuses"
    | "excl-wild-has" => "LU-B exclusion with a wildcard in the base re-issues a base entry without relationship with the zero status HasRelationship"
    | "excl-wild-flip" => "LU-B exclusion with a wildcard in the base re-issues a subtracted NoRelationship entry as HasRelationship although the base lists that user as NoRelationship"
    | "excl-sub-cut" => "the subtracted operand was cut by the cycle guard below a rewrite that forgets hasCycle"
    | "excl-cycle" => "LU-F1 exclusion returns nothing because its subtracted operand reported a cycle"
    | "union-excl-lost" => "LU-E union forgets that an operand excepted a user from its wildcard (excludedUsers kept only when counted once per operand)"
    | "union-excl-overcount" => "LU-E union excepts a user from the wildcard although an operand covers it (excludedUsers counted per entry)"
    | "excl-excluded-unread" => "LU-H exclusion never reads the excludedUsers of its operands"
    | "inter-no-ignored" => "LU-I intersection ignores a NoRelationship entry next to a wildcard"
    | "inter-excluded-has" => "LU-I intersection drops a user listed in some excludedUsers although every operand found it"
    | "bag-no-vs-wildcard" => "LU-J a NoRelationship entry of one dispatch hides a user that another dispatch covers by its wildcard"
    | "DEVIATES" => "the implementation's answer is not an answer of the model (not one of the known mechanisms)"
    | other => other))

/-- the property on one observed result list; `none` = holds -/
def propertyViolation (w : World) (f : Filter) (us : List String) (notes : List String) : Option String :=
  if dup us then some "an entry is returned twice"
  else match us.find? (fun u => !matchesFilter f u) with
  | some u => some s!"entry {u} does not match the user filter: {mechanism ["DEVIATES"]}"
  | none =>
    match us.find? (fun u => refClass w u = "F") with
    | some u => some s!"returned {u} does not hold the relation: {mechanism notes}"
    | none =>
      let wild := us.contains (f.typ ++ ":*") && f.rel = ""
      match (subjects w f).find? (fun u => !us.contains u && !wild && refClass w u = "T") with
      | some u => some s!"permitted {u} is not returned: {mechanism notes}"
      | none => none

def step (c impl : String) : String :=
  match parseCase c with
  | none => "SKIP unparsable-case"
  | some cs =>
    if impl = "invalid-model" then "SKIP invalid-model"
    else
    let w := { cs.world with ctxTuples := sortByObj cs.world.ctxTuples }
    let f := parseFilter w.req.user
    let outs := impl.splitOn " | "
    if outs.all (· = "E invalid") then ok "request-rejected" false
    else if w.aux.get "lug" false then
      -- the LU-G case: breadth limit 1, short deadline
      let a := listUsers w f cs.maxDepth {}
      let want := renderUsers a.users
      if impl = want then ok "lug-complete" true
      else if impl.startsWith "DEADLINE " then
        specViol s!"LU-G ListUsers blocks until its deadline when the breadth limit is below the number of operands of a union/intersection and then returns a partial result without error: returned {(impl.drop 9).toString} instead of {(want.drop 2).toString}"
      else modelDiff want
    else
    let a1 := listUsers w f cs.maxDepth { lastWins := true }
    let a2 := listUsers w f cs.maxDepth { lastWins := false }
    let notes := (a1.notes ++ a2.notes).eraseDups
    -- errors dropped by an exclusion that returned on `subtractHasCycle` may surface (pool cancellation)
    let allowed := (renderAnswer a1 ++ renderAnswer a2 ++ (a1.swallowed ++ a2.swallowed).map renderErr).eraseDups
    let clashy := notes.contains "status-clash"
    let modelErr := !(a1.errs ++ a2.errs ++ a1.swallowed ++ a2.swallowed).isEmpty
    -- 0. the two specifications agree on every subject in sight (matching the filter: the property is
    -- about those; anything else is judged by the filter test)
    let subjects := ((subjects w f) ++ (outs.flatMap (fun o => (parseOut o).getD [])).filter (matchesFilter f)).eraseDups
    let bridge := if !cs.stratified then none else
      subjects.findSome? (fun u =>
        let a := specClass w f u
        let b := refClass w u
        if (a = "T" || a = "F") && (b = "T" || b = "F") && a ≠ b then some s!"spec-bridge {u}: ListUsers-side spec={a} Check-side reference={b}" else none)
    match bridge with
    | some why => modelDiff why
    | none =>
    let exact := outs.all (fun o => allowed.contains o)
    let conforms := exact || clashy
    -- 2. the property
    let viol : Option String :=
      if !cs.stratified then none
      else outs.findSome? (fun o => match parseOut o with
        | none => none
        | some us => propertyViolation w f us (if conforms then notes else ["DEVIATES"]))
    match viol with
    | some why => specViol (if outs.length > 1 then why ++ " [answers differ between runs: " ++ impl ++ "]" else why)
    | none =>
      -- 1. correspondence
      if !conforms then modelDiff (" | ".intercalate allowed ++ " notes=" ++ ",".intercalate notes)
      else if outs.length > 1 && !clashy && !modelErr then
        modelDiff ("deterministic " ++ " | ".intercalate allowed)
      else
        let k := if !cs.stratified then "nonstratified-" else ""
        let cls := if !exact then "clash-unmodelled-order"
          else match parseOut (outs.headD "") with
            | some [] => "empty"
            | some us => if us.any isTypedWildcard then "wildcard" else if f.rel ≠ "" then "usersets" else "users"
            | none => (outs.headD "").replace " " "_"
        ok (k ++ cls ++ (if notes.isEmpty then "" else "-noted")) (!(parseOut (outs.headD "") == some []))

end OpenFGAVerif.DriverC06

def main : IO Unit := OpenFGAVerif.Proto.run OpenFGAVerif.DriverC06.step
