/-
Driver for C07: the real `BatchCheckQuery.Execute` against (a) the standalone Check of every item through
a real checker of its own (the batch shares one checker among its items) — the property itself — (b) the model `Model.Batch.execute` run with the
normalised inputs as key (validation outcome, number of de-duplicated checks) and (c) the reference
oracle of C01 (diagnosis only: a batch answer that agrees with the standalone answer but not with the
oracle is a finding of C01, not of C07).
-/
import OpenFGAVerif.Driver.FgaCase
import OpenFGAVerif.Model.Batch

open OpenFGAVerif OpenFGAVerif.Proto OpenFGAVerif.Vocab OpenFGAVerif.CheckV1 OpenFGAVerif.FgaCase
open OpenFGAVerif.Model.Batch

namespace OpenFGAVerif.DriverC07

structure BItem where
  cid : String
  aux : Aux
  ctxT : List Tuple
  req : Req

def parseItems : Nat → List String → Option (List BItem)
  | 0, _ => some []
  | k + 1, ts => do
    let (cid, ts) ← FgaCodec.tok ts
    let (aux, ts) ← FgaCodec.aux ts
    let (ctxT, ts) ← FgaCodec.tuples "ctx" ts
    let (rq, ts) ← FgaCodec.req ts
    let rest ← parseItems k ts
    pure ({ cid := FgaCodec.dash cid, aux := aux, ctxT := ctxT, req := rq } :: rest)

structure BCase where
  engine : String
  /-- the object whose datastore reads time out (engine token `v1!<object>`), "" = none -/
  fault : String := ""
  maxChecks : Nat
  stratified : Bool
  model : Vocab.Model
  stored : List Tuple
  items : List BItem

def parseBatch (line : String) : Option BCase := do
  let ts := fields line
  let (_, ts) ← FgaCodec.expect "bat" ts
  let (engine, ts) ← FgaCodec.tok ts
  let (_, ts) ← FgaCodec.nat ts
  let (mx, ts) ← FgaCodec.nat ts
  let (strat, ts) ← FgaCodec.nat ts
  let (m, ts) ← FgaCodec.model ts
  let (stored, ts) ← FgaCodec.tuples "tuples" ts
  let (_, ts) ← FgaCodec.expect "items" ts
  let (k, ts) ← FgaCodec.nat ts
  let items ← parseItems k ts
  let (engine, fault) := match engine.splitOn "!" with
    | e :: rest@(_ :: _) => (e, "!".intercalate rest)
    | _ => (engine, "")
  pure { engine := engine, fault := fault, maxChecks := mx, stratified := strat = 1, model := m, stored := stored, items := items }

/-! normalised inputs: what the de-duplication key may not distinguish (C24: order of context fields,
order of contextual tuples) -/

def insSorted (s : String) : List String → List String
  | [] => [s]
  | x :: xs => if s < x then s :: x :: xs else x :: insSorted s xs

def sortStrs (l : List String) : List String := l.foldr insSorted []

def normCtx (c : Ctx) : String := ",".intercalate (sortStrs (c.map (fun kv => s!"{kv.1}={kv.2}")))

def normTuple (t : Tuple) : String := s!"{t.obj}#{t.rel}@{t.user}[{t.cond}:{normCtx t.ctx}]"

def normInput (it : BItem) : String :=
  s!"{it.req.obj}#{it.req.rel}@{it.req.user}({normCtx it.req.ctx})" ++ ";".intercalate (sortStrs (it.ctxT.map normTuple))

def errRender : Err → String
  | .tooMany => "ERR too-many"
  | .noChecks => "ERR no-checks"
  | .emptyId _ => "ERR empty-id"
  | .dupId id => "ERR dup-id " ++ (if id = "" then "-" else id)

def lookupS (l : List (String × String)) (k : String) : Option String := (l.find? (·.1 = k)).map (·.2)

def step (c impl : String) : String :=
  match parseBatch c with
  | none => "SKIP unparsable-case"
  | some bc =>
    if impl = "invalid-model" || impl = "no-modelgraph" then "SKIP " ++ impl else
    let mitems : List (Item String) := bc.items.map (fun it => { cid := it.cid, inp := normInput it })
    let f := fields impl
    -- the standalone outcomes reported by the harness, as a function of the normalised input
    let pairs : List (String × String × String) := (f.drop 3).filterMap (fun p =>
      match p.splitOn "=" with
      | [cid, v] => (match v.splitOn "/" with
          | [b, s] => some (cid, b, if s.endsWith "~" then "~" else s)   -- "~": Check itself answered this input differently when re-asked
          | _ => none)
      | _ => none)
    let standaloneByKey : List (String × String) :=
      (bc.items.zip pairs).map (fun (it, p) => (normInput it, p.2.2))
    let check : String → String := fun k => (lookupS standaloneByKey k).getD "?"
    match execute bc.maxChecks (fun s => s) check (fun _ => false) id id mitems with
    | .error e =>
      if impl = errRender e then ok ("rejected-" ++ ((fields (errRender e)).getD 1 "")) (bc.items.length > 1)
      else if f.headD "" = "OK" then
        specViol s!"the batch was answered although validation must reject it ({errRender e})"
      else modelDiff (errRender e)
    | .ok res =>
      if f.headD "" ≠ "OK" then modelDiff "OK …" else
      if pairs.length ≠ bc.items.length then modelDiff s!"{bc.items.length} outcomes" else
      -- standalone Check deterministic per input? (otherwise nothing can be concluded: C02's business)
      let nondet := (bc.items.zip pairs).any (fun (it, p) => p.2.2 = "~" || check (normInput it) ≠ p.2.2)
      if nondet then "SKIP standalone-check-nondeterministic" else
      -- (a) the property
      let bad := (bc.items.zip pairs).filter (fun (it, p) => p.1 ≠ it.cid || p.2.1 ≠ p.2.2)
      let extra := f.getD 2 ""
      let dupImpl := ((f.getD 1 "").drop 4).toString.toNat?.getD 0
      if extra ≠ "extra=0" then specViol s!"outcomes for correlation ids that are not in the request: {extra}" else
      match bad with
      | (it, p) :: _ =>
        if p.2.1 = "Ecancel-live" then
          specViol s!"correlation id {it.cid}: reported `context canceled` although the request context was alive — the failure of another item cancelled it (item_error_isolated); standalone Check of the same input: {p.2.2} (input {normInput it}{if bc.fault = "" then "" else ", reads on " ++ bc.fault ++ " time out"})"
        else
        specViol s!"correlation id {it.cid}: batch outcome {p.2.1}, standalone Check of the same tuple / contextual tuples / context {p.2.2} (input {normInput it})"
      | [] =>
        -- (b) the model: per id and the de-duplication count
        let modelBad := bc.items.filter (fun it =>
          mapGet res.results it.cid ≠ some (some (.done (check (normInput it)))))
        if !modelBad.isEmpty then modelDiff "model fan-out differs" else
        if dupImpl > res.duplicateCheckCount then
          specViol s!"{dupImpl} checks were de-duplicated but only {res.duplicateCheckCount} items repeat the inputs of an earlier item: items with different inputs share a key"
        else if dupImpl < res.duplicateCheckCount then
          modelDiff s!"dup={res.duplicateCheckCount}"
        else
          -- (c) diagnosis against the reference oracle (default engine, stratified models)
          let tainted :=
            if bc.stratified && bc.engine = "v1" && bc.fault = "" then
              (bc.items.zip pairs).any (fun (it, p) =>
                let w : World := { model := bc.model, aux := it.aux, stored := bc.stored, ctxTuples := sortByObj it.ctxT, req := it.req }
                match oracleClass w, p.2.1 with
                | "T", "F" => true
                | "F", "T" => true
                | "U", "T" => true
                | "U", "F" => true
                | _, _ => false)
            else false
          let anyT := pairs.any (fun p => p.2.1 = "T")
          let failed := pairs.any (fun p => p.2.1 = "Ectx")
          let cls := (if res.duplicateCheckCount > 0 then "dedup" else "nodedup") ++ (if tainted then "-c01-known-taint" else "") ++
            (if bc.fault = "" then "" else if failed then "-one-item-timed-out" else "-fault-not-reached")
          ok cls (bc.items.length > 1 && anyT)

end OpenFGAVerif.DriverC07

def main : IO Unit := Proto.run OpenFGAVerif.DriverC07.step
