/-
Driver for C08: request sequences through an engine with a shared Check query cache versus a
cache-less engine (both real), for the default engine and the weighted-graph engine.  The property is
checked directly (cached answer = uncached answer); the reference oracle says which side is wrong.
-/
import OpenFGAVerif.Driver.FgaCase

open OpenFGAVerif OpenFGAVerif.Proto OpenFGAVerif.Vocab OpenFGAVerif.CheckV1 OpenFGAVerif.Dfs OpenFGAVerif.FgaCase

namespace OpenFGAVerif.DriverC08

structure Step where
  aux : Aux
  ctxT : List Tuple
  req : Req

def parseSteps : Nat → List String → Option (List Step)
  | 0, _ => some []
  | k + 1, ts => do
    let (aux, ts) ← FgaCodec.aux ts
    let (ctxT, ts) ← FgaCodec.tuples "ctx" ts
    let (rq, ts) ← FgaCodec.req ts
    let rest ← parseSteps k ts
    pure ({ aux := aux, ctxT := ctxT, req := rq } :: rest)

structure SeqCase where
  stratified : Bool
  model : Model
  stored : List Tuple
  steps : List Step

def parseSeq (line : String) : Option SeqCase := do
  let ts := fields line
  let (_, ts) ← FgaCodec.expect "cfg" ts
  let (_, ts) ← FgaCodec.nat ts
  let (strat, ts) ← FgaCodec.nat ts
  let (m, ts) ← FgaCodec.model ts
  let (stored, ts) ← FgaCodec.tuples "tuples" ts
  let (_, ts) ← FgaCodec.expect "seq" ts
  let (k, ts) ← FgaCodec.nat ts
  let steps ← parseSteps k ts
  pure { stratified := strat = 1, model := m, stored := stored, steps := steps }

def isDecision (s : String) : Bool := s = "T" || s = "F"

def step (c impl : String) : String :=
  match parseSeq c with
  | none => "SKIP unparsable-case"
  | some sc =>
    if impl = "invalid-model" then "SKIP invalid-model" else
    let k := sc.steps.length
    let oracles := sc.steps.map (fun s =>
      if sc.stratified then
        oracleClass { model := sc.model, aux := s.aux, stored := sc.stored, ctxTuples := sortByObj s.ctxT, req := s.req }
      else "?")
    let engines := (fields impl).filterMap (fun f =>
      match f.splitOn "=" with
      | [name, body] => some (name, (body.splitOn ",").map (fun p =>
          match p.splitOn "/" with
          | [a, b] => (a, b)
          | _ => ("?", "?")))
      | _ => none)
    -- first disagreement between the cached and the uncached engine
    let bad := engines.filterMap (fun (name, pairs) =>
      let idx := (List.range pairs.length).find? (fun i =>
        let p := pairs.getD i ("?", "?")
        isDecision p.1 && isDecision p.2 && p.1 ≠ p.2)
      idx.map (fun i =>
        let p := pairs.getD i ("?", "?")
        let o := oracles.getD (i % k) "?"
        (name, i, p.1, p.2, o)))
    match bad with
    | (name, i, cc, uc, o) :: _ =>
      let diag :=
        if name.startsWith "v2" && cc = "F" && uc = "T" && (o = "T" || o = "?") then
          "F11 weighted-graph edge cache stores a false computed under the shared visited filter"
        else if name.startsWith "v2" && o = "U" then
          -- the reference answer is "cannot be decided: a condition is unevaluable" (the default engine reports the
          -- condition error); the weighted-graph engine swallows that error (finding V2-E) and decides, and which way
          -- depends on which edge results the cache already holds
          "V2-E weighted-graph engine decides a request that hinges on an unevaluable condition (swallowed condition error) and the decision changes with the contents of the edge cache"
        else "unexplained"
      specViol s!"the query cache changed an answer: engine={name} request#{i % k} pass={i / k} cached={cc} uncached={uc} oracle={o}: {diag}"
    | [] =>
      let anyTrue := engines.any (fun (_, pairs) => pairs.any (fun p => p.1 = "T"))
      let v2 := engines.any (fun (name, pairs) => name.startsWith "v2" && pairs.any (fun p => isDecision p.1))
      ok ("seq-agree" ++ (if v2 then "-v1v2" else "-v1only")) (anyTrue && k ≥ 2)

end OpenFGAVerif.DriverC08

def main : IO Unit := OpenFGAVerif.Proto.run OpenFGAVerif.DriverC08.step
