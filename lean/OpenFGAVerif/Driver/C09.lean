/-
Driver for C09: runs `Model.IterCache` on the harness' histories (real CachedDatastore over a scripted datastore) and
compares read by read; checks the property itself on every case kind: after the history, every filter's read returns
the complete uncached sequence (an error is acceptable, a short sequence ending in `Done` is not).
-/
import OpenFGAVerif.Driver.Proto
import OpenFGAVerif.Model.IterCache
import OpenFGAVerif.Gen.Iter

open OpenFGAVerif OpenFGAVerif.Proto OpenFGAVerif.Model.Iter OpenFGAVerif.Model.IterCache

inductive HEv where
  | read (f : Nat) (ops : List Op) (fail : Option Nat) (hc : Nat) (cancelAfter : Option Nat)   -- hc 1: a failing Head
      -- consumes the failing element; 2: and the failing element is a row that cannot be decoded (it replaces item `fail`)
  | evict (f : Nat)
  | storeMarker (future : Bool)
  | entityMarker (future : Bool) (f : Nat)
  | dropMarkers
  deriving Repr

def parseOps (s : String) : Option (List Op) :=
  if s == "-" then some [] else
  s.toList.mapM fun c =>
    match c with
    | 'n' => some (Op.next false)
    | 'N' => some (Op.next true)
    | 'h' => some (Op.head false)
    | 'H' => some (Op.head true)
    | _ => none

def optNat (s : String) : Option (Option Nat) :=
  if s == "-" then some none else s.toNat?.map some

def parseEv (s : String) : Option HEv :=
  match s.toList with
  | 'R' :: r =>
    match (String.ofList r).splitOn ":" with
    | [f, ops, fail, hc, ca] => do
      let f ← f.toNat?
      let ops ← parseOps ops
      let fail ← optNat fail
      let ca ← optNat ca
      pure (.read f ops fail (hc.toNat?.getD 0) ca)
    | _ => none
  | 'E' :: r => (String.ofList r).toNat?.map HEv.evict
  | ['I', 'p'] => some (.storeMarker false)
  | ['I', 'f'] => some (.storeMarker true)
  | 'J' :: 'p' :: r => (String.ofList r).toNat?.map (HEv.entityMarker false)
  | 'J' :: 'f' :: r => (String.ofList r).toNat?.map (HEv.entityMarker true)
  | ['D'] => some .dropMarkers
  | _ => none

def parseEvents (s : String) : Option (List HEv) :=
  if s == "-" then some [] else ((s.splitOn ";").filter (· ≠ "")).mapM parseEv

def errTok : Err → String
  | .done => "D"
  | .cancelled => "C"
  | .fail n => s!"E{n}"
  | _ => "?"

def resTok : Res Nat → String
  | .ok a => toString a
  | .err e _ => errTok e

/-- the entity-level invalidation keys of each filter (see the harness): 0 = OR doc:1 viewer, 1 = UOT user:a doc,
2 = UOT user:* doc, 3 = OR group:g1 member, 4 = OR doc:3 viewer.  A marker is one cache entry per key: setting it
again overwrites the previous time stamp. -/
def entityKeysOf : Nat → List Nat
  | 0 => [0]
  | 1 => [0]
  | 2 => [1]
  | 3 => [3]
  | 4 => [4]
  | _ => [1, 2]

structure World where
  lens : List Nat
  entries : List (Option (List Nat × Nat))    -- per filter
  storeMarker : Option Nat := none
  entityMarkers : List (Nat × Nat) := []       -- (key id, time), at most one per key
  serverCancelled : Bool := false
  clock : Nat := 100

def past : Nat := 1
def future : Nat := 1000000000

def World.markersFor (w : World) (f : Nat) : List Nat :=
  w.storeMarker.toList ++ (w.entityMarkers.filter fun (k, _) => (entityKeysOf f).contains k).map (·.2)

def scriptOf (n : Nat) (fail : Option Nat) (lossy : Bool) : List (El Nat) :=
  let base := (List.range n).map El.item
  match fail with
  | none => base
  | some p => if p ≤ n then base.take p ++ [El.fail 7] ++ base.drop (if lossy then p + 1 else p) else base

/-- one event; returns the expected output group -/
def World.step (maxSize : Nat) (w : World) : HEv → String × World
  | .evict f => ("-", { w with entries := w.entries.set f none })
  | .storeMarker fu => ("-", { w with storeMarker := some (if fu then future else past) })
  | .entityMarker fu f =>
    let ks := entityKeysOf f
    ("-", { w with entityMarkers := (w.entityMarkers.filter fun (k, _) => !ks.contains k) ++
                                      ks.map fun k => (k, if fu then future else past) })
  | .dropMarkers => ("-", { w with storeMarker := none, entityMarkers := [] })
  | .read f ops fail hc ca =>
    let now := w.clock
    let w := { w with clock := w.clock + 10 }
    let cache : Cache Nat := { entry := (w.entries.getD f none), markers := w.markersFor f }
    match cache.find with
    | (some recs, _) =>
      -- served from the cache: a static iterator over the rebuilt tuples
      let (rs, _) := (Static.machine (α := Nat)).run ops ⟨recs⟩
      ("c" ++ (if rs.isEmpty then "" else ":" ++ ".".intercalate (rs.map resTok)), w)
    | (none, c') =>
      let n := w.lens.getD f 0
      let cancelAt : Option Nat :=
        if w.serverCancelled then some 0 else
        match ca with
        | none => none
        | some 0 => some 0
        | some k => some (k + 1)
      let env : Env := { cancelAt := cancelAt, hit := false, invalidated := c'.invalidAt now, sfShared := false }
      let s0 := CIter.start (scriptOf n fail (hc == 2)) (decide (hc ≥ 1)) maxSize
      let (rs, s1) := s0.runOps ops
      let (written, s2) := s1.stop (fun (x : Nat) => x) env
      -- did the scripted cancellation fire? calls made by Stop's goroutine: Head (if reached) + drain reads
      let headCalled := s1.tuples.isSome && !(env.cancelled 0) && !env.hit && !env.invalidated
      let calls := (if headCalled then 1 else 0) + (s2.under.reads - s1.under.reads)
      let fired := match ca with
        | none => false
        | some 0 => true
        | some k => decide (calls ≥ k)
      let entries := match written with
        | some recs => w.entries.set f (some (recs, now))
        | none => w.entries.set f c'.entry
      let out := "d" ++ (if rs.isEmpty then "" else ":" ++ ".".intercalate (rs.map resTok)) ++
        s!":r{s2.under.reads}:s{s2.under.stops}"
      (out, { w with entries := entries, serverCancelled := w.serverCancelled || fired })

def World.run (maxSize : Nat) : List HEv → World → List String × World
  | [], w => ([], w)
  | e :: es, w =>
    let (o, w') := w.step maxSize e
    let (os, w'') := World.run maxSize es w'
    (o :: os, w'')

/-- the property on a final verdict: "ok", or a correct prefix that ends with an error (never with `Done`) -/
def verdictViolation (n : Nat) (v : String) : Option String :=
  if v == "ok" then none else
  let toks := v.splitOn "."
  let items := toks.takeWhile fun t => t.toNat?.isSome
  let rest := toks.drop items.length
  let inOrder := items == (List.range items.length).map toString
  let nums := items.filterMap String.toNat?
  let rec increasing : List Nat → Bool
    | a :: b :: r => a < b && increasing (b :: r)
    | _ => true
  if !inOrder && increasing nums && rest == ["D"] then
    some s!"partial result served as complete: a read returned {v} — tuples of the uncached result are missing and the sequence ends with Done"
  else if !inOrder then some s!"a read returned {v}: not the uncached sequence (a tuple rebuilt wrongly, duplicated or out of order)"
  else match rest with
    | ["D"] => if items.length == n then none else
        some s!"partial result served as complete: a read returned {items.length} of {n} tuples and then Done"
    | [t] => if t.startsWith "E" || t == "C" then none else some s!"a read ended with {t}"
    | _ => some s!"a read returned {v}"

def parseImpl (impl : String) : Option (List Nat × List String × List String) :=
  match fields impl with
  | [ns, groups, fs] =>
    match ns.toList, fs.toList with
    | 'n' :: '=' :: r, 'F' :: '=' :: v =>
      match ((String.ofList r).splitOn ",").mapM String.toNat? with
      | some lens => some (lens, (if groups == "-" then [] else groups.splitOn ";"), (String.ofList v).splitOn ",")
      | none => none
    | _, _ => none
  | _ => none

def checkFinal (lens : List Nat) (verdicts : List String) : Option String :=
  ((List.range verdicts.length).zip verdicts).findSome? fun (i, v) =>
    (verdictViolation (lens.getD i 0) v).map fun why => s!"filter {i}: {why}"

def stepHist (maxSizeS evS impl : String) (compare : Bool) : String :=
  match maxSizeS.toNat?, parseEvents evS, parseImpl impl with
  | some maxSize, some evs, some (lens, groups, verdicts) =>
    match checkFinal lens verdicts with
    | some why => specViol why
    | none =>
      -- a cached read must itself be the uncached sequence (checked on the implementation's output)
      let badCached := (evs.zip groups).findSome? fun (e, g) =>
        match e with
        | .read f ops _ _ _ =>
          if g.startsWith "c" then
            let (rs, _) := (Static.machine (α := Nat)).run ops ⟨List.range (lens.getD f 0)⟩
            let want := "c" ++ (if rs.isEmpty then "" else ":" ++ ".".intercalate (rs.map resTok))
            if g != want then some s!"a read of filter {f} served from the cache returned {g}, the uncached sequence gives {want}" else none
          else none
        | _ => none
      match badCached with
      | some why => specViol why
      | none =>
        if !compare then ok "history-property-only" (evs.length ≥ 2 && groups.any (·.startsWith "c")) else
        let w0 : World := { lens := lens, entries := List.replicate lens.length none }
        let (outs, _) := World.run maxSize evs w0
        let expected := if outs.isEmpty then "-" else ";".intercalate outs
        let got := if groups.isEmpty then "-" else ";".intercalate groups
        if got != expected then modelDiff expected
        else ok "history" (evs.length ≥ 2 && groups.any (·.startsWith "c"))
  | _, _, _ => "SKIP unparsable"

def stepAssume (fS opsS impl : String) : String :=
  match fS.toNat?, parseOps opsS, fields impl with
  | some f, some ops, [ns, res] =>
    match ns.toList with
    | 'n' :: '=' :: r =>
      match ((String.ofList r).splitOn ",").mapM String.toNat? with
      | some lens =>
        let n := lens.getD f 0
        let u : UIter Nat := { rem := (List.range n).map El.item }
        let rec go : List Op → UIter Nat → List String
          | [], _ => []
          | .next c :: ops, u => let (r, u') := u.next c; resTok r :: go ops u'
          | .head c :: ops, u => let (r, u') := u.head c; resTok r :: go ops u'
          | .stop :: ops, u => go ops u
        let expected := ".".intercalate (go ops u)
        if res != expected then
          specViol s!"the datastore iterator does not behave like a script under cancellation (a cancelled call must change nothing, Done only at the end): expected {expected}"
        else ok "assumption-memory-iterator" (ops.length ≥ 3)
      | none => "SKIP unparsable"
    | _ => "SKIP unparsable"
  | _, _, _ => "SKIP unparsable"

/-- "P<k>,<end>" → (k, end) -/
def parsePrefixTok (s : String) : Option (Nat × String) :=
  match s.splitOn "," with
  | [p, e] =>
    match p.toList with
    | 'P' :: r => (String.ofList r).toNat?.map fun k => (k, e)
    | _ => none
  | _ => none

def dropPrefix? (pre s : String) : Option String :=
  if s.startsWith pre then some (String.ofList (s.toList.drop pre.length)) else none

/-- `hc n pauseAt order`: requests A and B share one query over `n` tuples; A is cancelled while the batch fetch it
triggered is inside the datastore iterator's `pauseAt`-th `Next`.  Property (checked on the implementation's output
alone): B, whose context is live, is served all `n` tuples in order and then `Done`.  Model (`fetchMore` reads
`bufferSize` items with a background context): A has been served the full batches before the one that was interrupted
and its interrupted call answers `cancelled`. -/
def stepCancelShare (nS pS impl : String) : String :=
  match nS.toNat?, pS.toNat?, fields impl with
  | some n, some p, [nf, af, bf, mf] =>
    match dropPrefix? "n=" nf, dropPrefix? "A=" af, dropPrefix? "B=" bf, dropPrefix? "made=" mf with
    | some nr, some a, some b, some made =>
      match parsePrefixTok b with
      | none => specViol s!"request B (live context) shares an iterator with a cancelled request and was served {b}: not the uncached sequence"
      | some (kb, eb) =>
        if kb != n || eb != "D" then
          specViol s!"a cancelled sharer truncated/poisoned another sharer's sequence: got {kb} of {n} tuples and then {eb} — request B (live context) shares the iterator of request A, which was cancelled during the batch fetch it had triggered (datastore Next call {p})"
        else if nr != toString n then modelDiff s!"n={n}"
        else
          let B := OpenFGAVerif.Gen.Iter.sharedBufferSize
          let ka := if B == 0 then 0 else ((p - 1) / B) * B
          let expectedA := s!"P{ka},C"
          match parsePrefixTok a with
          | none => specViol s!"request A was served {a}: not a prefix of the uncached sequence"
          | some (ka', _) =>
            if ka' > n then specViol s!"request A was served {ka'} tuples of {n}"
            else if made != "1" then ok "cancel-share-not-shared" false
            else if a != expectedA then modelDiff s!"n={n} A={expectedA} B=P{n},D made=1"
            else ok "cancel-share" true
    | _, _, _, _ => "SKIP unparsable"
  | some _, some _, _ => modelDiff "n=<n> A=P<k>,C B=P<n>,D made=1"
  | _, _, _ => "SKIP unparsable"

def step (c impl : String) : String :=
  match fields c with
  | ["hc", n, p, _] => stepCancelShare n p impl
  | ["h", m, evs] => stepHist m evs impl true
  | ["hr", m, evs] => stepHist m evs impl false
  | ["hv", m, evs] => stepHist m evs impl false     -- V2 cache: property only (every final read is the uncached sequence)
  | ["hvr", m, evs] => stepHist m evs impl false
  | ["hs", evs] => stepHist "100" evs impl false
  | ["as", f, ops] => stepAssume f ops impl
  | ["as", f] => stepAssume f "-" impl
  | _ => "SKIP unknown-case"

def main : IO Unit := Proto.run step
