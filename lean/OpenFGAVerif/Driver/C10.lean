/-
Driver for C10: a case is a whole history (initial store, then writes / deletes interleaved with cached and
HIGHER_CONSISTENCY Check, BatchCheck, ListObjects and ListUsers requests) that the harness ran through the
real server under several cache-flag sets (`m<mask>=…`) and through a cache-less server on an identical
store (`ref=…`).  The driver replays the writes, so it knows the *current* store at every request.

Property check (independent of the engine model): the answer of every HIGHER request equals the answer of
the cache-less instance on the current store — a stable difference is a SPEC-VIOL naming the flag set and
the request.  The reference oracle (`FgaCase.oracleClass`, sound by C01) is evaluated on the current store
for Check / BatchCheck / ListObjects: where it is decisive and the HIGHER answer differs from it *together
with* the cache-less instance, the deviation is semantic (the C01 family's findings), not staleness, and is
only counted (`semdev`).  Answers of cached requests may be stale; how often is part of the class.
-/
import OpenFGAVerif.Driver.FgaCase

open OpenFGAVerif OpenFGAVerif.Proto OpenFGAVerif.Vocab OpenFGAVerif.CheckV1 OpenFGAVerif.Dfs OpenFGAVerif.FgaCase

namespace OpenFGAVerif.DriverC10

inductive Op where
  | write (del add : List Tuple)
  | chk (higher : Bool) (aux : Aux) (ctxT : List Tuple) (rq : Req)
  | bat (higher : Bool) (items : List (Aux × Req))
  /-- `kind`: lo = unary, slo = streamed, warm = unary repeated until the iterator cache answers -/
  | lo (kind : String) (higher : Bool) (aux : Aux) (rq : Req)
  | lu (higher : Bool) (aux : Aux) (rq : Req)

def parseItems : Nat → List String → Option (List (Aux × Req) × List String)
  | 0, ts => some ([], ts)
  | k + 1, ts => do
    let (aux, ts) ← FgaCodec.aux ts
    let (rq, ts) ← FgaCodec.req ts
    let (rest, ts) ← parseItems k ts
    pure ((aux, rq) :: rest, ts)

def parseOps : Nat → List String → Option (List Op)
  | 0, _ => some []
  | k + 1, ts => do
    let (kind, ts) ← FgaCodec.tok ts
    match kind with
    | "w" => do
      let (del, ts) ← FgaCodec.tuples "del" ts
      let (add, ts) ← FgaCodec.tuples "add" ts
      let rest ← parseOps k ts
      pure (.write del add :: rest)
    | "chk" => do
      let (h, ts) ← FgaCodec.nat ts
      let (aux, ts) ← FgaCodec.aux ts
      let (ctxT, ts) ← FgaCodec.tuples "ctx" ts
      let (rq, ts) ← FgaCodec.req ts
      let rest ← parseOps k ts
      pure (.chk (h = 1) aux ctxT rq :: rest)
    | "bat" => do
      let (h, ts) ← FgaCodec.nat ts
      let (n, ts) ← FgaCodec.nat ts
      let (items, ts) ← parseItems n ts
      let rest ← parseOps k ts
      pure (.bat (h = 1) items :: rest)
    | "lo" | "slo" | "warm" => do
      let (h, ts) ← FgaCodec.nat ts
      let (aux, ts) ← FgaCodec.aux ts
      let (rq, ts) ← FgaCodec.req ts
      let rest ← parseOps k ts
      pure (.lo kind (h = 1) aux rq :: rest)
    | "lu" => do
      let (h, ts) ← FgaCodec.nat ts
      let (aux, ts) ← FgaCodec.aux ts
      let (rq, ts) ← FgaCodec.req ts
      let rest ← parseOps k ts
      pure (.lu (h = 1) aux rq :: rest)
    | _ => none

structure HCase where
  stratified : Bool
  masks : List Nat
  model : Model
  stored : List Tuple
  ops : List Op

def parseCase (line : String) : Option HCase := do
  let ts := fields line
  let (_, ts) ← FgaCodec.expect "cfg" ts
  let (_, ts) ← FgaCodec.nat ts
  let (strat, ts) ← FgaCodec.nat ts
  let (_, ts) ← FgaCodec.expect "flags" ts
  let (masks, ts) ← FgaCodec.counted FgaCodec.nat ts
  let (m, ts) ← FgaCodec.model ts
  let (stored, ts) ← FgaCodec.tuples "tuples" ts
  let (_, ts) ← FgaCodec.expect "ops" ts
  let (k, ts) ← FgaCodec.nat ts
  let ops ← parseOps k ts
  pure { stratified := strat = 1, masks := masks, model := m, stored := stored, ops := ops }

def sameKey (a b : Tuple) : Bool := a.obj = b.obj && a.rel = b.rel && a.user = b.user

/-- `memory.Write`: deletes first, then appends -/
def applyWrite (stored del add : List Tuple) : List Tuple :=
  stored.filter (fun t => !del.any (sameKey t)) ++ add

def dedupStr (l : List String) : List String :=
  l.foldl (fun acc s => if acc.contains s then acc else acc ++ [s]) []

/-- expected answer of a read on the current store according to the reference oracle; "" = the oracle
says nothing for this kind of request (ListUsers) or is not decisive -/
def oracleAnswer (c : HCase) (stored : List Tuple) : Op → String
  | .write _ _ => "w"
  | .chk _ aux ctxT rq =>
      oracleClass { model := c.model, aux := aux, stored := stored, ctxTuples := sortByObj ctxT, req := rq }
  | .bat _ items =>
      ";".intercalate (items.map (fun (aux, rq) =>
        oracleClass { model := c.model, aux := aux, stored := stored, ctxTuples := [], req := rq }))
  | .lo _ _ aux rq =>
      let typ := typeOf rq.obj
      let cands := dedupStr ((stored.filter (fun t => typeOf t.obj = typ)).map (·.obj))
      let cls := cands.map (fun o =>
        (o, oracleClass { model := c.model, aux := aux, stored := stored, ctxTuples := [], req := { rq with obj := o } }))
      if cls.any (fun p => p.2 ≠ "T" && p.2 ≠ "F") then "" else
      let yes := (cls.filter (·.2 = "T")).map (·.1)
      if yes.isEmpty then "-" else "+".intercalate (yes.toArray.qsort (· < ·)).toList
  | .lu _ _ _ => ""

def isHigher : Op → Bool
  | .chk h _ _ _ => h | .bat h _ => h | .lo _ h _ _ => h | .lu h _ _ => h | .write _ _ => false

def isRead : Op → Bool
  | .write _ _ => false
  | _ => true

def opName : Op → String
  | .write _ _ => "write" | .chk _ _ _ rq => s!"Check({rq.obj}#{rq.rel}@{rq.user})" | .bat _ _ => "BatchCheck"
  | .lo kind _ _ rq => s!"{if kind = "slo" then "StreamedListObjects" else "ListObjects"}({typeOf rq.obj},{rq.rel},{rq.user})" | .lu _ _ rq => s!"ListUsers({rq.obj}#{rq.rel},{typeOf rq.user})"

def flagNames (mask : Nat) : String :=
  let names := [(1, "query-cache"), (2, "check-iterator-cache"), (4, "listobjects-iterator-cache"), (8, "shared-iterators"),
                (16, "cache-controller"), (32, "weighted-graph-check"), (64, "listobjects-pipeline"),
                (128, "listobjects-optimizations")]
  "+".intercalate ((names.filter (fun p => (mask / p.1) % 2 = 1)).map (·.2))

/-- oracle classes are comparable with impl classes only when decisive -/
def decisive (s : String) : Bool :=
  s ≠ "" && !(s.splitOn ";").any (fun x => x = "U" || x = "?")

structure Tally where
  viol : Option String := none
  stale : Nat := 0
  fresh : Nat := 0
  higher : Nat := 0
  semdev : Nat := 0
  nondet : Nat := 0
  refChanges : Bool := false

def allEq (l : List String) : Bool :=
  match l with
  | [] => true
  | x :: xs => xs.all (· = x)

def step (c impl : String) : String :=
  match parseCase c with
  | none => "SKIP unparsable-case"
  | some hc =>
    if impl = "invalid-model" || impl.startsWith "setup-failed" then "SKIP " ++ impl else
    -- an engine that never returned (known: the streaming pipeline, finding L4 of C05 / C21) says nothing about caches
    if (impl.splitOn "Ehang").length > 1 then "SKIP engine-did-not-return" else
    let groups := (fields impl).filterMap (fun f =>
      match f.splitOn "=" with
      | [name, body] => some (name, body.splitOn ",")
      | _ => none)
    let refOf (mask : Nat) : List String :=
      match groups.find? (·.1 = s!"ref{(mask / 32) % 8 * 32}") with
      | some (_, r) => r
      | none => []
    let baseRefs := (groups.filter (fun g => g.1.startsWith "ref")).map (·.2)
    if baseRefs.isEmpty then "SKIP no-reference-output" else
    if baseRefs.any (fun r => r.length ≠ hc.ops.length) then "SKIP reference-length-mismatch" else
      -- replay: the store before each op
      let stores := (hc.ops.foldl (fun (acc : List (List Tuple) × List Tuple) o =>
        match o with
        | .write del add => (acc.1 ++ [acc.2], applyWrite acc.2 del add)
        | _ => (acc.1 ++ [acc.2], acc.2)) ([], hc.stored)).1
      let oracles := (hc.ops.zip stores).map (fun (o, st) =>
        if hc.stratified && isHigher o then oracleAnswer hc st o else "")
      let t0 : Tally := {}
      let refs0 := baseRefs.headD []
      -- does the reference answer of some read change along the history (the writes mattered)?
      let t0 := { t0 with refChanges := (refs0.filter (fun r => r ≠ "w")).eraseDups.length > 1 }
      -- semantic deviations of the cache-less instances from the oracle (not staleness)
      let t0 := baseRefs.foldl (fun (t : Tally) refs =>
        (List.range hc.ops.length).foldl (fun (t : Tally) i =>
          let o := oracles.getD i ""
          let r := refs.getD i ""
          if decisive o && o ≠ r then { t with semdev := t.semdev + 1 } else t) t) t0
      let tally := groups.foldl (fun (t : Tally) (name, answers) =>
        if name.startsWith "ref" || t.viol.isSome then t else
        if answers.length ≠ hc.ops.length then { t with viol := some s!"output of {name} has {answers.length} answers for {hc.ops.length} ops" } else
        let mask := (name.drop 1).toString.toNat?.getD 0
        let refs := refOf mask
        (List.range hc.ops.length).foldl (fun (t : Tally) i =>
          if t.viol.isSome then t else
          match hc.ops[i]? with
          | none => t
          | some o =>
            if !isRead o then t else
            let a := answers.getD i ""
            let r := refs.getD i ""
            if isHigher o then
              let t := { t with higher := t.higher + 1 }
              if a = r then t
              else
                match a.splitOn "!" with
                | [mine, theirs] =>
                  let ms := mine.splitOn "~"
                  let rs := theirs.splitOn "~"
                  -- `rs`: what the cache-less engines answer on the current store (the reference instance, its
                  -- repetitions, and every planner choice for Check items)
                  -- an answer that IS the reference semantics' answer on the current store cannot be a stale one
                  -- (the cache-less weighted-graph engine may answer the same request with a condition error or a
                  -- decision from call to call — finding V2-E; that is C03's business, not staleness)
                  if allEq ms && !rs.contains (ms.headD "?") && ms.headD "?" ≠ oracles.getD i "" then
                    { t with viol := some s!"HIGHER_CONSISTENCY {opName o} (request #{i}) with {flagNames mask} answered {ms.headD "?"}, the cache-less server on the same store answers {rs.headD "?"} (oracle on the current store: {oracles.getD i ""}): a cache served this request" }
                  else { t with nondet := t.nondet + 1 }   -- an answer the cache-less engine also gives: not staleness
                | _ => { t with viol := some s!"HIGHER_CONSISTENCY {opName o} (request #{i}) with {flagNames mask} answered {a}, reference {r}" }
            else if a = r then { t with fresh := t.fresh + 1 } else { t with stale := t.stale + 1 }) t) t0
      match tally.viol with
      | some v => specViol v
      | none =>
        let cls := "higher-fresh" ++ (if tally.stale > 0 then "-cachedstale" else "") ++
          (if tally.semdev > 0 then "-semdev" else "") ++ (if tally.nondet > 0 then "-nondet" else "")
        ok cls (tally.stale > 0 || tally.refChanges)

end OpenFGAVerif.DriverC10

def main : IO Unit := OpenFGAVerif.Proto.run OpenFGAVerif.DriverC10.step
