/-
Driver for C11: a case is a timeline (harness/c11) run against the real cache controller, the real
iterator caches and the real query cache.  The driver

  1. replays the timeline through the timeline model (`Model/CacheTimeline.lean`) — every primitive event
     gets its own instant (one tick = 1 000 000 units, one unit per primitive), lifetimes of stored
     entries are taken from what the code passed to `cache.Set` (so TTL jitter is an input of the model) —
     and compares, operation by operation: served from cache / recomputed, invalid entry deleted, result
     content, stored or not (flush guards), and for every invalidation run its kind (none / partial / full),
     the set of markers written and whether the changelog entry was set.  A difference is a MODEL-DIFF.
  2. checks the property itself, independently of the model: once an invalidation run that *started* after
     the latest write affecting a read key (a question) has completed, a complete read (a request) returns
     what the current store contains.  A stale answer is a SPEC-VIOL whose text names the hypothesis of the
     Lean theorems that the timeline violates (findings F6, F6b, F6c, F6d) or says "unexplained".
-/
import OpenFGAVerif.Driver.Proto
import OpenFGAVerif.Model.CacheTimeline

open OpenFGAVerif OpenFGAVerif.Proto OpenFGAVerif.CacheTimeline

namespace OpenFGAVerif.DriverC11

abbrev P (α : Type) := List String → Option (α × List String)

def tok : P String
  | [] => none
  | t :: ts => some (t, ts)

def nat : P Nat := fun ts => match ts with
  | t :: rest => t.toNat?.map (·, rest)
  | [] => none

def expect (s : String) : P Unit
  | t :: ts => if t = s then some ((), ts) else none
  | [] => none

def rep {α : Type} (p : P α) : Nat → P (List α)
  | 0 => fun ts => some ([], ts)
  | n + 1 => fun ts => do
    let (a, ts) ← p ts
    let (as, ts) ← rep p n ts
    pure (a :: as, ts)

def counted {α : Type} (p : P α) : P (List α) := fun ts => do
  let (n, ts) ← nat ts
  rep p n ts

inductive Op where
  | adv (d : Nat)
  | wr (i : Nat) (add : Bool)
  | burst (n : Nat)
  | rd (r : Nat) (lo : Bool) (partial_ : Bool)
  | rdw (r : Nat) (lo : Bool) (i : Nat) (add : Bool)
  | rdwr (r : Nat) (lo : Bool) (i : Nat) (add : Bool)
  | rdo (r : Nat) (lo : Bool) (i : Nat) (add : Bool)
  | qc (i : Nat)
  | qcw (i : Nat) (add : Bool)
  | run | runb | rune

def op : P Op := fun ts => do
  let (k, ts) ← tok ts
  match k with
  | "adv" => do let (d, ts) ← nat ts; pure (.adv d, ts)
  | "wr" => do let (i, ts) ← nat ts; let (a, ts) ← tok ts; pure (.wr i (a = "a"), ts)
  | "burst" => do let (n, ts) ← nat ts; pure (.burst n, ts)
  | "rd" => do
    let (r, ts) ← nat ts; let (s, ts) ← tok ts; let (f, ts) ← tok ts
    pure (.rd r (s = "l") (f = "p"), ts)
  | "rdw" => do
    let (r, ts) ← nat ts; let (s, ts) ← tok ts; let (i, ts) ← nat ts; let (a, ts) ← tok ts
    pure (.rdw r (s = "l") i (a = "a"), ts)
  | "rdwr" => do
    let (r, ts) ← nat ts; let (s, ts) ← tok ts; let (i, ts) ← nat ts; let (a, ts) ← tok ts
    pure (.rdwr r (s = "l") i (a = "a"), ts)
  | "rdo" => do
    let (r, ts) ← nat ts; let (s, ts) ← tok ts; let (i, ts) ← nat ts; let (a, ts) ← tok ts
    pure (.rdo r (s = "l") i (a = "a"), ts)
  | "qc" => do let (i, ts) ← nat ts; pure (.qc i, ts)
  | "qcw" => do let (i, ts) ← nat ts; let (a, ts) ← tok ts; pure (.qcw i (a = "a"), ts)
  | "run" => pure (.run, ts)
  | "runb" => pure (.runb, ts)
  | "rune" => pure (.rune, ts)
  | _ => none

structure Case where
  real : Bool
  v2 : Bool
  iterTTL : Nat
  loTTL : Nat
  queryTTL : Nat
  ctrlTTL : Nat
  jitter : Nat
  pageSize : Nat
  nMarkers : Nat
  tupleKeys : List (List Nat)          -- marker keys of each universe tuple
  readDeps : List (List Nat)           -- marker keys each read key depends on
  readMatch : List (List Nat)          -- universe tuples each read key can return
  fillKeys : List Nat
  init : List Nat
  ops : List Op

def pair : P (List Nat) := fun ts => do
  let (a, ts) ← nat ts
  let (b, ts) ← nat ts
  pure ([a, b], ts)

def readRow : P (List Nat × List Nat) := fun ts => do
  let (d, ts) ← counted nat ts
  let (m, ts) ← counted nat ts
  pure ((d, m), ts)

def parseCase (line : String) : Option Case := do
  let ts := fields line
  let (_, ts) ← expect "ctl" ts
  let (mode, ts) ← tok ts
  let (reader, ts) ← tok ts
  let (_, ts) ← expect "iter" ts; let (iterTTL, ts) ← nat ts
  let (_, ts) ← expect "lo" ts; let (loTTL, ts) ← nat ts
  let (_, ts) ← expect "q" ts; let (queryTTL, ts) ← nat ts
  let (_, ts) ← expect "ctrl" ts; let (ctrlTTL, ts) ← nat ts
  let (_, ts) ← expect "jit" ts; let (jitter, ts) ← nat ts
  let (_, ts) ← expect "page" ts; let (pageSize, ts) ← nat ts
  let (_, ts) ← expect "u" ts
  let (nMarkers, ts) ← nat ts
  let (tupleKeys, ts) ← counted pair ts
  let (rows, ts) ← counted readRow ts
  let (_, ts) ← expect "fill" ts
  let (fillKeys, ts) ← pair ts
  let (_, ts) ← expect "init" ts
  let (init, ts) ← counted nat ts
  let (_, ts) ← expect "ops" ts
  let (ops, _) ← counted op ts
  pure { real := mode = "real", v2 := reader = "v2", iterTTL, loTTL, queryTTL, ctrlTTL, jitter, pageSize, nMarkers,
         tupleKeys, readDeps := rows.map (·.1), readMatch := rows.map (·.2), fillKeys, init, ops }

def tickUnits : Nat := 1000000

def Case.params (c : Case) : Params :=
  { iterTTL := c.iterTTL * tickUnits, queryTTL := c.queryTTL * tickUnits, pageSize := c.pageSize,
    storeTTL := 365 * 24 * 60 * tickUnits }

def Case.depsOf (c : Case) (key : Nat) : List Nat := c.readDeps.getD key []

def sortNat (l : List Nat) : List Nat := (l.toArray.qsort (· < ·)).toList

def setStr (l : List Nat) : String :=
  if l.isEmpty then "-" else ".".intercalate ((sortNat l.eraseDups).map toString)

/-- driver state -/
structure D where
  s : St Nat
  store : List Nat                       -- universe tuples currently stored
  payload : List (Nat × List Nat)        -- iterator entry content per read key (set when stored)
  payloadSrc : List (Nat × String)       -- who populated it: c | l | o (stamped after a write and a run inside the datastore call)
  qpayload : List (Nat × Bool × Bool)    -- query entry content per question, populated by a qcw?
  seq : Nat := 0                         -- operation counter (1-based)
  lastWrite : List (Nat × Nat)           -- universe tuple → seq of its last write
  runStart : Nat := 0                    -- seq at which the latest *completed* run started
  pendingStart : Nat := 0                -- seq at which the run in flight started
  held : Bool := false                   -- a run is being held (from the operations, not from the model)
  sawInvalidation : Bool := false
  checkedAfterRun : Nat := 0

def lookupA {β : Type} (l : List (Nat × β)) (k : Nat) : Option β := (l.find? (·.1 = k)).map (·.2)
def insertA {β : Type} (l : List (Nat × β)) (k : Nat) (v : β) : List (Nat × β) := (k, v) :: l.filter (·.1 ≠ k)

def D.step (c : Case) (d : D) (ev : Ev Nat) : D := { d with s := CacheTimeline.step c.params c.depsOf d.s ev }

/-- one unit of time passes before every primitive -/
def D.prim (c : Case) (d : D) (ev : Ev Nat) : D := (d.step c (.tick 1)).step c ev

def expected (c : Case) (store : List Nat) (r : Nat) : List Nat :=
  (c.readMatch.getD r []).filter (fun t => store.contains t)

/-- what a run changed: kind, markers, changelog entry -/
def runSummary (c : Case) (before after : St Nat) : String :=
  let full := after.storeMarker ≠ before.storeMarker
  let marks := (List.range c.nMarkers).filter (fun k => after.markers k ≠ before.markers k)
  let cl := after.cl ≠ before.cl
  let kind := if full then "F" else if marks.isEmpty then "N" else "P"
  s!"R{kind}:{setStr marks}:{if cl then "C1" else "C0"}"

def applyWr (store : List Nat) (i : Nat) (add : Bool) : List Nat :=
  if add then (if store.contains i then store else store ++ [i]) else store.filter (· ≠ i)

/-- the latest write (seq) among the universe tuples a set of tuples -/
def lastWriteOf (d : D) (ts : List Nat) : Nat := ts.foldl (fun acc t => max acc ((lookupA d.lastWrite t).getD 0)) 0

structure Res where
  d : D
  diff : Option String := none
  viol : Option String := none

def lifeOf (tok : String) : Option Nat :=
  if tok.startsWith "s" then (tok.drop 1).toString.toNat? else none

/-- `DetermineInvalidationTime`: is a run triggered? -/
def triggers (c : Case) (s : St Nat) : Bool :=
  match s.cl with
  | some e => if s.now < e.exp then decide (s.now - e.checked > c.ctrlTTL * tickUnits) else true
  | none => true

def doRun (c : Case) (d : D) : D × String :=
  if d.held then (d, "R-") else
  let start := 2 * d.seq + 1
  let d := d.prim c .runRead
  let before := d.s
  let d := d.prim c (.runEnd 0 0 0)
  let sum := runSummary c before d.s
  ({ d with runStart := max d.runStart start, sawInvalidation := d.sawInvalidation || !sum.startsWith "RN" }, sum)

/-- the property for one complete read, from the implementation's output and the replayed store only -/
def readViolation (c : Case) (d : D) (r : Nat) (impl : String) : Option String :=
  let parts := impl.splitOn ":"
  let iHit := parts.getD 0 "?"
  let iRes := parts.getD 1 "?"
  let lw := lastWriteOf d (c.readMatch.getD r [])
  let cur := expected c d.store r
  if d.runStart > lw && iRes ≠ setStr cur then
    let src := (lookupA d.payloadSrc r).getD "c"
    let why :=
      if c.jitter > 0 then "F6 TTL jitter: the iterator entry outlives the controller's window (now - iteratorCacheTTL), the change was skipped"
      else if src = "l" && c.loTTL > c.iterTTL then "F6b the entry lives listObjectsIteratorCache.ttl but the controller skips changes older than checkIteratorCache.ttl"
      else if src = "o" then "F6e the iterator is stamped (initializedAt / createdAt) after the datastore call returned; a write and a run inside that call are older than the stamp"
      else "unexplained"
    some s!"read key {r} {if iHit.startsWith "h" then "served" else "returned"} {iRes} {if iHit.startsWith "h" then "from the iterator cache" else "after a miss"}, the store holds {setStr cur}, although an invalidation run that started after the last write to it (op {lw / 2}) has completed (run started at op {d.runStart / 2}): {why}"
  else none

/-- the iterator read of one operation -/
def doRead (c : Case) (d : D) (r : Nat) (lo partial_ : Bool) (mid : Option (Nat × Bool)) (withRun atOpen : Bool) (impl : String) : Res :=
  let parts := impl.splitOn ":"
  let iSto := parts.getD 2 "?"
  let viol := if partial_ || mid.isSome then none else readViolation c d r impl
  let d := { d with checkedAfterRun := d.checkedAfterRun + (if d.runStart > 0 && !partial_ then 1 else 0) }
  let d := d.step c (.tick 1)
  let hit := iterHit c.depsOf d.s r
  -- an entry that is present, alive and invalid is deleted by findInCache
  let deleted := match d.s.iters r with
    | some e => decide (d.s.now < e.exp) && invalidAt d.s e.lm (c.depsOf r)
    | none => false
  let mHit := if hit.isSome then "h" else if deleted then "md" else "m"
  let d := d.step c (.lookupIter r)
  if hit.isSome then
    let content := (lookupA d.payload r).getD []
    let mRes := if partial_ then "p" else setStr content
    -- served from the cache: a write (and run) scheduled "during the read" happens right after it
    let d := match mid with
      | some (i, add) =>
        let d := d.prim c (.write 1 (c.tupleKeys.getD i []))
        { d with store := applyWr d.store i add, lastWrite := insertA d.lastWrite i (2 * d.seq) }
      | none => d
    let (d, sum) := if withRun then (let (d, sm) := doRun c d; (d, ":" ++ sm)) else (d, "")
    let out := s!"{mHit}:{mRes}:n{sum}"
    let diff := if impl = out then none else some out
    { d, diff, viol }
  else
    -- miss: the datastore is read now (snapshot), an optional write lands, then the flush
    let initNow := d.s.now
    let snapshot := expected c d.store r
    let d := match mid with
      | some (i, add) =>
        let d := d.prim c (.write 1 (c.tupleKeys.getD i []))
        { d with store := applyWr d.store i add, lastWrite := insertA d.lastWrite i (2 * d.seq) }
      | none => d
    let (d, sum) := if withRun then (let (d, sm) := doRun c d; (d, ":" ++ sm)) else (d, "")
    -- `initializedAt` / `createdAt` is taken when the datastore call has returned
    let initNow := if atOpen then (d.step c (.tick 1)).s.now else initNow
    let d := d.step c (.tick 1)
    let d := d.step c (.tick 1)
    let age := d.s.now - initNow
    let decides := if c.v2 then popStoresV2 d.s r && !snapshot.isEmpty else popStoresV1 c.depsOf d.s r age
    let life := lifeOf iSto
    let mSto := if decides then (match life with | some l => s!"s{l}" | none => "s?") else "n"
    let mRes := if partial_ then "p" else setStr snapshot
    let out := s!"{mHit}:{mRes}:{mSto}{sum}"
    let diff := if impl = out then none else some out
    let d := match life with
      | some l => { (d.step c (.popIter r age l true)) with
                      payload := insertA d.payload r snapshot, payloadSrc := insertA d.payloadSrc r (if atOpen then "o" else if lo then "l" else "c") }
      | none => d
    { d, diff, viol }

def queryViolation (c : Case) (d : D) (i : Nat) (impl : String) : Option String :=
  let parts := impl.splitOn ":"
  let iHit := parts.getD 0 "?"
  let iAns := parts.getD 1 "?"
  let lw := lastWriteOf d [i]
  let cur := d.store.contains i
  if d.runStart > lw && iAns ≠ (if cur then "T" else "F") then
    let byQcw := ((lookupA d.qpayload i).getD (false, false)).2
    let why :=
      if byQcw then "F6c the entry is stamped time.Now() when the evaluation ends; the write committed while it was in flight is older than the stamp"
      else if c.jitter > 0 then "F6d TTL jitter: the query entry outlives the changelog entry, DetermineInvalidationTime returns the zero time"
      else "unexplained"
    some s!"question {i} answered {iAns} {if iHit = "h" then "from the query cache" else "after a miss"}, the store says {if cur then "T" else "F"}, although an invalidation run that started after the last write to it (op {lw / 2}) has completed (run started at op {d.runStart / 2}): {why}"
  else none

def doQuery (c : Case) (d : D) (i : Nat) (mid : Option Bool) (impl : String) : Res :=
  let parts := impl.splitOn ":"
  let iSto := parts.getD 2 "?"
  let viol := queryViolation c d i impl
  let d := { d with checkedAfterRun := d.checkedAfterRun + (if d.runStart > 0 then 1 else 0) }
  let d := d.step c (.tick 1)
  let trig := triggers c d.s && !d.held
  let hit := queryHit d.s i
  let (d, out) :=
    match hit with
    | some _ =>
      let ans := ((lookupA d.qpayload i).getD (false, false)).1
      let d := match mid with
        | some add =>
          let d := d.prim c (.write 1 (c.tupleKeys.getD i []))
          { d with store := applyWr d.store i add, lastWrite := insertA d.lastWrite i (2 * d.seq) }
        | none => d
      (d, s!"h:{if ans then "T" else "F"}:n")
    | none =>
      let start := d.s.now
      let ans := d.store.contains i
      let d := match mid with
        | some add =>
          let d := d.prim c (.write 1 (c.tupleKeys.getD i []))
          { d with store := applyWr d.store i add, lastWrite := insertA d.lastWrite i (2 * d.seq) }
        | none => d
      let d := d.step c (.tick 1)
      let life := (lifeOf iSto).getD 0
      let d := { (d.step c (.popQuery i (d.s.now - start) life)) with qpayload := insertA d.qpayload i (ans, mid.isSome) }
      (d, s!"m:{if ans then "T" else "F"}:{iSto}")
  let (d, out) :=
    if trig then
      let (d, sum) := doRun c d
      (d, out ++ ":" ++ sum)
    else (d, out)
  { d, diff := if impl = out then none else some out, viol }

def stepOp (c : Case) (d : D) (o : Op) (impl : String) : Res :=
  let d := { d with seq := d.seq + 1 }
  match o with
  | .adv n => { d := d.step c (.tick (n * tickUnits)), diff := if impl = "a" then none else some "a" }
  | .wr i add =>
    let d := d.prim c (.write 1 (c.tupleKeys.getD i []))
    { d := { d with store := applyWr d.store i add, lastWrite := insertA d.lastWrite i (2 * d.seq) }, diff := if impl = "w" then none else some "w" }
  | .burst n =>
    let d := (List.range n).foldl (fun d _ => d.prim c (.write 1 c.fillKeys)) d
    { d, diff := if impl = "w" then none else some "w" }
  | .rd r lo p => doRead c d r lo p none false false impl
  | .rdw r lo i add => doRead c d r lo false (some (i, add)) false false impl
  | .rdwr r lo i add => doRead c d r lo false (some (i, add)) true false impl
  | .rdo r lo i add => doRead c d r lo false (some (i, add)) true true impl
  | .qc i => doQuery c d i none impl
  | .qcw i add => doQuery c d i (some add) impl
  | .run =>
    let (d, sum) := doRun c d
    { d, diff := if impl = sum then none else some sum }
  | .runb =>
    if d.held then { d, diff := if impl = "b!" then none else some "b!" } else
    let d := { (d.prim c .runRead) with pendingStart := 2 * d.seq + 1, held := true }
    { d, diff := if impl = "b" then none else some "b" }
  | .rune =>
    if !d.held then { d, diff := if impl = "R!" then none else some "R!" } else
    let d := { d with held := false }
    let before := (d.step c (.tick 1)).s
    let d := d.prim c (.runEnd 0 0 0)
    let sum := runSummary c before d.s
    { d := { d with runStart := max d.runStart d.pendingStart, sawInvalidation := d.sawInvalidation || !sum.startsWith "RN" },
      diff := if impl = sum then none else some sum }

def initState (c : Case) : D :=
  -- the initial tuples are written long before the timeline starts (aged clock) / just before (real clock)
  let s0 : St Nat := St.init
  let s := c.init.foldl (fun s i => CacheTimeline.step c.params c.depsOf s (.write 1 (c.tupleKeys.getD i []))) s0
  let s := if c.real then s else CacheTimeline.step c.params c.depsOf s (.tick (1000 * tickUnits))
  { s, store := c.init, payload := [], payloadSrc := [], qpayload := [], lastWrite := [] }

def step (cs impl : String) : String :=
  match parseCase cs with
  | none => "SKIP unparsable-case"
  | some c =>
    let outs := fields impl
    if outs.length ≠ c.ops.length then s!"SKIP output has {outs.length} entries for {c.ops.length} operations" else
    let rec go (d : D) (ops : List Op) (outs : List String) (k : Nat) (viol diff : Option String) : String :=
      match ops, outs with
      | o :: ops', out :: outs' =>
        let r := stepOp c d o out
        -- after a difference the model state is no longer meaningful, but the property check only needs the
        -- replayed store, the write positions and the run positions: keep going
        let diff' := diff.orElse fun _ => r.diff.map (fun e => s!"op#{k + 1}={e} (implementation: {out})")
        go r.d ops' outs' (k + 1) (viol.orElse fun _ => r.viol) diff'
      | _, _ =>
        match viol, diff with
        | some v, none => specViol v
        | some v, some df => specViol (v ++ " [the timeline model also disagrees: expected " ++ df ++ "]")
        | none, some df => modelDiff df
        | none, none =>
          let cls := (if c.real then "real-clock" else "aged-clock") ++ (if c.v2 then "-v2" else "-v1") ++
            (if d.sawInvalidation then "-invalidated" else "-noinvalidation")
          ok cls (d.sawInvalidation && d.checkedAfterRun > 0)
    go (initState c) c.ops outs 0 none none

end OpenFGAVerif.DriverC11

def main : IO Unit := OpenFGAVerif.Proto.run OpenFGAVerif.DriverC11.step
