/-
Driver for C12: runs `Model.StoreWrite` (memWrite / sqlWrite — through `StoreKeys.sqlWriteK` with the lock keys the source
computes, `Gen.StoreKeys` — with the facts of `Gen.StoreWrite` / cmdFront) on the
harness' write histories, compares with the real datastores' outputs, and checks the property itself
(all-or-nothing, options table, one change per effective item) on the implementation's own outputs.
-/
import OpenFGAVerif.Driver.StoreW

open OpenFGAVerif OpenFGAVerif.Proto OpenFGAVerif.Model.StoreTypes OpenFGAVerif.Model.StoreWrite OpenFGAVerif.Driver.StoreW

/-- number the requests of a history from 1 (the model's clock) -/
def parseReqs (toks : List String) : Option (List Req) := allSome (toks.map parseReq)

/-- expected k-results of an injection case: operation k fails, for k = k0 … (number of operations − 1) -/
def expectedKs (db : Db) (r : Req) (now : Nat) (k0 : Nat) (after : Bool) (withClass : Bool) : List String :=
  let o := dsOpts r
  let nOps := ((sqlTraceSrc db r.dels r.writes o).filter (· != "rollback")).length
  (List.range nOps).filterMap (fun k =>
    if k < k0 then none else
    let (db', e) := sqlWriteSrc db r.dels r.writes o now (some ⟨k, after⟩)
    let same := if db'.committed == db.committed then "same" else "CHANGED"
    some (if withClass then (match e with | none => "ok" | some e => e.name) ++ ":" ++ same else same))

structure HAcc where
  m : MState
  prev : Obs := { res := "ok", tuples := [], changes := [] }
  now : Nat := 1
  diff : Option String := none      -- first model difference
  viol : Option String := none      -- first violation of the property
  classes : List String := []

def histStep (backend : String) (kind : String) (mode : String) (acc : HAcc) (r : Req) (g : String) : HAcc :=
  if acc.diff.isSome || acc.viol.isSome then acc else
  let parts := g.splitOn ";"
  -- split the group into (prefix fields, res, tuples, changes)
  let (pre, rest) := match kind with
    | "F" => (parts.take 2, parts.drop 2)
    | "X" => (parts.take 1, parts.drop 1)
    | _ => ([], parts)
  match rest with
  | [res, ts, cs] =>
    match parseObs res ts cs with
    | none => { acc with diff := some "unparsable implementation output" }
    | some cur =>
      let db := match acc.m with | .sql db => db | .mem _ => default
      let (m', mres) := stepModel backend acc.m r acc.now
      -- expected prefix fields
      let expPre : List String := match kind with
        | "F" =>
          let k0 := if mode == "c" then 1 else 0
          [".".intercalate (sqlTraceSrc db r.dels r.writes (dsOpts r)), fmtList (expectedKs db r acc.now k0 (mode == "a") true)]
        | "X" => [fmtList (expectedKs db r acc.now 1 false false)]
        | _ => []
      let expected := ";".intercalate (expPre ++ [mres, m'.dump])
      -- the property, on the implementation's outputs alone
      let opts := intendedOpts backend r
      let injViol : Option String :=
        if pre.any (fun p => (p.splitOn "CHANGED").length > 1) then
          some (if kind == "X" then "a process crash before COMMIT left part of the write in the database file"
                else s!"a write that failed at an injected statement/connection failure (mode {mode}) changed the store")
        else none
      let injViol := if (g.splitOn "LEAKED-TX").length > 1 then
          some "a failed write left its transaction open (neither COMMIT nor ROLLBACK reached the connection)" else injViol
      let viol := match injViol with | some v => some v | none => specCheck backend acc.prev cur r opts
      { acc with m := m', prev := cur, now := acc.now + 1,
                 diff := if g != expected then some expected else none,
                 viol := viol,
                 classes := if acc.classes.contains res then acc.classes else res :: acc.classes }
  | _ => { acc with diff := some "malformed implementation output" }

def runHist (backend kind mode : String) (reqToks : List String) (impl : String) : String :=
  match parseReqs reqToks with
  | none => "SKIP unparsable-case"
  | some reqs =>
    let groups := fields impl
    if groups.length != reqs.length then
      modelDiff s!"{reqs.length} result groups"
    else
      let acc := (reqs.zip groups).foldl (fun a (r, g) => histStep backend kind mode a r g) { m := MState.init backend }
      match acc.viol, acc.diff with
      | some v, _ => specViol (v ++ s!" at request {acc.now - 1}")
      | none, some d => modelDiff (s!"request {acc.now - 1}: " ++ d)
      | none, none =>
        let cls := if kind == "H" then "hist-" ++ backend else if kind == "F" then "inject-" ++ mode else "crash"
        ok cls (acc.classes.length ≥ 2 || kind != "H")

def step (c impl : String) : String :=
  match fields c with
  | "H" :: backend :: toks => runHist backend "H" "" toks impl
  | "F" :: mode :: toks => runHist "sql" "F" mode toks impl
  | "X" :: toks => runHist "sql" "X" "" toks impl
  | _ => "SKIP unknown-case"

def main : IO Unit := Proto.run step
