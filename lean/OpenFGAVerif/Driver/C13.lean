/-
Driver for C13: replays the harness' write history on the model store, evaluates the documented filter
(`specX`), the memory model and the sqlite model (both with the switches the extractor found in today's
source) on every read call of the case, and compares with what the two real backends returned.

Verdicts
  ok …                 both backends returned exactly the documented result (as multisets; ReadStartingWithUser
                       also sorted by object id) and the models agree
  SPEC-VIOL [tag]… …   a backend's result differs from the documented filter.  If the result is what the model of
                       today's source predicts, the tags name the known defect(s) active on this input
                       (F4a … F4g); otherwise the tag is UNCLASSIFIED (nothing known explains it).
  MODEL-DIFF …         both backends are on the documented result but a model is not (stale model / switch)
-/
import OpenFGAVerif.Driver.Proto
import OpenFGAVerif.Model.StoreRead
import OpenFGAVerif.Gen.StoreRead

open OpenFGAVerif OpenFGAVerif.Proto OpenFGAVerif.Model.StoreTypes OpenFGAVerif.Model.StoreRead

namespace C13Driver

def curMem : MemShape :=
  { readShortcutSkipsConds := Gen.StoreRead.memReadShortcutSkipsConds
    rutCondFirst := Gen.StoreRead.rutCondFirst
    rutBreakOnMatch := Gen.StoreRead.rutBreakOnMatch
    rutPlainMatchesWildcard := Gen.StoreRead.rutPlainMatchesWildcard
    rswuBreakOnMatch := Gen.StoreRead.rswuBreakOnMatch
    rswuEmptyIdsMeansAll := Gen.StoreRead.rswuEmptyIdsMeansAll }

def curSql : SqlShape :=
  { userNoRelPinsEmpty := Gen.StoreRead.sqlReadUserNoRelPinsEmpty
    rswuUserNoRelPinsEmpty := Gen.StoreRead.sqlRswuUserNoRelPinsEmpty
    rswuEmptyIdsMeansAll := Gen.StoreRead.sqlRswuEmptyIdsMeansAll }

def une (s : String) : String := if s == "-" then "" else s

def parseConds (s : String) : List String :=
  if s == "nil" then [] else (s.splitOn ",").map (fun x => if x == "~" then "" else x)

structure Key where
  ot : String
  oid : String
  rel : String
  user : String

inductive Query where
  | read (f : ReadFilter)
  | userTuple (f : ReadFilter)
  | userset (f : UsersetFilter)
  | rswu (f : RswuFilter)

structure Case where
  uni : List Key := []
  state : List TupleRec := []
  queries : List (String × Query) := []   -- (text, query)
  bad : Option String := none

def parseRestr (s : String) : Restriction :=
  match s.splitOn "/" with
  | [t, "r", r] => ⟨t, .relation r⟩
  | [t, "w"] => ⟨t, .wildcard⟩
  | [t, _] => ⟨t, .plain⟩
  | _ => ⟨s, .plain⟩

def parseObjRel (s : String) : ObjRel :=
  match s.splitOn "/" with
  | [o, r] => ⟨o, r⟩
  | _ => ⟨s, ""⟩

def applyOp (uni : List Key) (st : List TupleRec) (op : String) : Option (List TupleRec) :=
  match op.splitOn "," with
  | [k, idx, cn, cid, chex] =>
    match idx.toNat?, uni[idx.toNat?.getD 0]? with
    | some _, some key =>
      if k == "d" then
        some (st.filter (fun t => !(t.objType == key.ot && t.objId == key.oid && t.relation == key.rel && t.user == key.user)))
      else
        let ctx : Option (List UInt8) := if cid == "0" then none else unhex chex
        some (st ++ [⟨key.ot, key.oid, key.rel, key.user, une cn, ctx⟩])
    | _, _ => none
  | _ => none

partial def parse (toks : List String) (c : Case) : Case :=
  match toks with
  | [] => c
  | "T" :: n :: rest =>
    let n := n.toNat?.getD 0
    let keys := (rest.take n).map (fun s => match s.splitOn "," with
      | [a, b, r, u] => (⟨a, b, r, u⟩ : Key)
      | _ => ⟨"?", "?", "?", "?"⟩)
    parse (rest.drop n) { c with uni := keys }
  | "B" :: n :: rest =>
    let n := n.toNat?.getD 0
    let ops := rest.take n
    -- deletes are applied before writes (storage.Write contract); the harness lists them first
    let st := ops.foldl (fun (acc : Option (List TupleRec)) op => acc.bind (fun s => applyOp c.uni s op)) (some c.state)
    match st with
    | some s => parse (rest.drop n) { c with state := s }
    | none => { c with bad := some "bad-batch" }
  | "R" :: o :: r :: u :: cs :: rest =>
    parse rest { c with queries := c.queries ++ [(s!"R {o} {r} {u} {cs}", .read ⟨une o, une r, une u, parseConds cs⟩)] }
  | "P" :: o :: r :: u :: cs :: rest =>
    parse rest { c with queries := c.queries ++ [(s!"P {o} {r} {u} {cs}", .userTuple ⟨une o, une r, une u, parseConds cs⟩)] }
  | "U" :: o :: r :: rs :: cs :: rest =>
    let restrs := if rs == "-" then [] else (rs.splitOn ",").map parseRestr
    parse rest { c with queries := c.queries ++ [(s!"U {o} {r} {rs} {cs}", .userset ⟨une o, une r, restrs, parseConds cs⟩)] }
  | "S" :: ot :: r :: us :: ids :: cs :: rest =>
    let users := if us == "-" then [] else (us.splitOn ",").map parseObjRel
    let idl : Option (List String) := if ids == "nil" then none else if ids == "-" then some [] else some (ids.splitOn ",")
    parse rest { c with queries := c.queries ++ [(s!"S {ot} {r} {us} {ids} {cs}", .rswu ⟨ot, r, users, idl, parseConds cs⟩)] }
  | t :: _ => { c with bad := some ("bad-token " ++ t) }

/-- canonical item, as printed by the harness -/
def item (readBack : Option (List UInt8) → Option (List UInt8)) (t : TupleRec) : String :=
  let cond := asCondition t.condName (readBack t.condCtx)
  let (cn, cx) := match cond with
    | none => ("-", "-")
    | some (n, b) => (n, hex b)
  s!"{t.objType}:{t.objId}#{t.relation}@{t.user},{cn},{cx}"

def sortStrs (l : List String) : List String := l.mergeSort (fun a b => decide (a ≤ b))

def canonMem (l : List TupleRec) : List String := sortStrs (l.map (item id))
def canonSql (l : List TupleRec) : List String := sortStrs (l.map (item sqlStoreCtx))

def parseList (s : String) : List String := if s == "[]" then [] else s.splitOn ";"

def show' (l : List String) : String := if l.isEmpty then "[]" else ";".intercalate l

/-- object id of a printed item: between the first ':' and the first '#' -/
def itemObjId (s : String) : String :=
  let afterColon := (s.splitOn ":").drop 1
  let rest := ":".intercalate afterColon
  (rest.splitOn "#").headD ""

def sortedByObjId : List String → Bool
  | a :: b :: rest => decide (itemObjId a ≤ itemObjId b) && sortedByObjId (b :: rest)
  | _ => true

/-- facts about the stored user strings that the SQL theorems assume (`ColsOK`); re-checked on every case -/
def colsOk (s : List TupleRec) : Bool :=
  s.all (fun t =>
    fromUserParts (toUserParts t.user) == t.user
    && (toUserParts t.user).typ == getType t.user
    && (!isUsersetUser t.user || (((toUserParts t.user).id == "*") == (userRel t.user == ""))))

structure QResult where
  tags : List String := []
  modelDiff : Option String := none
  detail : String := ""
  nonEmpty : Bool := false

def memOnly (f : MemShape → MemShape) : MemShape := f MemShape.fixed

/-- evaluate one query against one pair of impl outputs -/
def evalQuery (st : List TupleRec) (text : String) (q : Query) (implM implS : String) : QResult :=
  -- a defect entry: (tag, result with ONLY this defect switched on, result of today's shape with this defect switched OFF)
  let mk (spec modelM modelS : List String) (memTags sqlTags : List (String × List String × List String)) (ordered : Bool) : QResult :=
    let iM := sortStrs (parseList implM)
    let iS := sortStrs (parseList implS)
    let tagsFor (impl model : List String) (defects : List (String × List String × List String)) (who : String) : List String :=
      if impl == spec then []
      else if impl == model then
        -- necessary contributors: repairing this defect alone changes the predicted result;
        -- if none is necessary on its own (two defects, each sufficient), the sufficient ones
        let necessary := (defects.filter (fun d => d.2.2 != model)).map (·.1)
        let sufficient := (defects.filter (fun d => d.2.1 != spec)).map (·.1)
        let active := if necessary.isEmpty then sufficient else necessary
        if active.isEmpty then [s!"UNCLASSIFIED {who} differs from the documented filter"] else active
      else [s!"UNCLASSIFIED {who} differs from the documented filter and from the model of today's source"]
    let tM := tagsFor iM modelM memTags "memory"
    let tS := tagsFor iS modelS sqlTags "sqlite"
    let tO := (if ordered && !sortedByObjId (parseList implM) then ["UNCLASSIFIED memory result not sorted by object id"] else [])
           ++ (if ordered && !sortedByObjId (parseList implS) then ["UNCLASSIFIED sqlite result not sorted by object id"] else [])
    let tags := tM ++ tS ++ tO
    let md := if tags.isEmpty && (iM != modelM || iS != modelS) then
        some s!"{text}: memModel={show' modelM} sqlModel={show' modelS}" else none
    { tags := tags, modelDiff := md, nonEmpty := !spec.isEmpty,
      detail := s!"{text}: memory={show' iM} sqlite={show' iS} documented={show' spec}" }
  match q with
  | .read f =>
    let spec := canonMem (specRead st f)
    mk spec (canonMem (memRead curMem st f)) (canonSql (sqlRead curSql st f))
      [("F4f memory Read with an empty key ignores Conditions",
          canonMem (memRead (memOnly ({ · with readShortcutSkipsConds := true })) st f),
          canonMem (memRead { curMem with readShortcutSkipsConds := false } st f))]
      [("F4e sqlite user filter without relation also selects usersets of that object",
          canonSql (sqlRead { SqlShape.fixed with userNoRelPinsEmpty := false } st f),
          canonSql (sqlRead { curSql with userNoRelPinsEmpty := true } st f))]
      false
  | .userTuple f =>
    let one (o : Option TupleRec) (rb : Option (List UInt8) → Option (List UInt8)) : List String := match o with
      | none => ["NF"]
      | some t => [item rb t]
    mk (one (specReadUserTuple st f) id) (one (memReadUserTuple st f) id) (one (sqlReadUserTuple st f) sqlStoreCtx) [] [] false
  | .userset f =>
    let spec := canonMem (specReadUsersetTuples st f)
    mk spec (canonMem (memReadUsersetTuples curMem st f)) (canonSql (sqlReadUsersetTuples st f))
      [("F4a conditions ignored",
          canonMem (memReadUsersetTuples (memOnly ({ · with rutCondFirst := false })) st f),
          canonMem (memReadUsersetTuples { curMem with rutCondFirst := true } st f)),
       ("F4b duplicate restriction duplicates tuple",
          canonMem (memReadUsersetTuples (memOnly ({ · with rutBreakOnMatch := false })) st f),
          canonMem (memReadUsersetTuples { curMem with rutBreakOnMatch := true } st f)),
       ("F4g memory restriction without relation or wildcard selects the typed wildcard",
          canonMem (memReadUsersetTuples (memOnly ({ · with rutPlainMatchesWildcard := true })) st f),
          canonMem (memReadUsersetTuples { curMem with rutPlainMatchesWildcard := false } st f))]
      [] false
  | .rswu f =>
    let spec := canonMem (specReadStartingWithUser st f)
    mk spec (canonMem (memReadStartingWithUser curMem st f)) (canonSql (sqlReadStartingWithUser curSql st f))
      [("F4d memory duplicate user filter duplicates tuple",
          canonMem (memReadStartingWithUser (memOnly ({ · with rswuBreakOnMatch := false })) st f),
          canonMem (memReadStartingWithUser { curMem with rswuBreakOnMatch := true } st f)),
       ("F4c empty object-id set",
          canonMem (memReadStartingWithUser (memOnly ({ · with rswuEmptyIdsMeansAll := true })) st f),
          canonMem (memReadStartingWithUser { curMem with rswuEmptyIdsMeansAll := false } st f))]
      [("F4c empty object-id set",
          canonSql (sqlReadStartingWithUser { SqlShape.fixed with rswuEmptyIdsMeansAll := true } st f),
          canonSql (sqlReadStartingWithUser { curSql with rswuEmptyIdsMeansAll := false } st f)),
       ("F4e sqlite user filter without relation also selects usersets of that object",
          canonSql (sqlReadStartingWithUser { SqlShape.fixed with rswuUserNoRelPinsEmpty := false } st f),
          canonSql (sqlReadStartingWithUser { curSql with rswuUserNoRelPinsEmpty := true } st f))]
      true

def dedup (l : List String) : List String := l.foldl (fun acc x => if acc.contains x then acc else acc ++ [x]) []

def step (c impl : String) : String :=
  let cs := parse (fields c) {}
  match cs.bad with
  | some b => "SKIP " ++ b
  | none =>
    if impl.startsWith "WERR" || impl.startsWith "PANIC" || impl.startsWith "BADCASE" then
      modelDiff ("the valid history was not accepted: " ++ impl)
    else
    if !colsOk cs.state then "SKIP cols-hypothesis-violated" else
    let outs := fields impl
    if outs.length != 2 * cs.queries.length then modelDiff s!"{2 * cs.queries.length} result fields" else
    let rec go (qs : List (String × Query)) (os : List String) (acc : List QResult) : List QResult :=
      match qs, os with
      | (t, q) :: qs, m :: s :: os => go qs os (acc ++ [evalQuery cs.state t q ((m.drop 2).toString) ((s.drop 2).toString)])
      | _, _ => acc
    let rs := go cs.queries outs []
    let tags := dedup (sortStrs (rs.flatMap (·.tags)))
    if !tags.isEmpty then
      let first := (rs.find? (fun r => !r.tags.isEmpty)).map (·.detail) |>.getD ""
      specViol ("".intercalate (tags.map (fun t => "[" ++ t ++ "]")) ++ " " ++ first)
    else match rs.findSome? (·.modelDiff) with
      | some d => modelDiff d
      | none => ok "reads-agree" (rs.any (·.nonEmpty))

end C13Driver

def main : IO Unit := Proto.run C13Driver.step
