/-
Driver for C14: recomputes, from the case line alone, the ordered list of items each paged API must deliver
(commit order for Read / ReadChanges, id order for ListStores, newest first for ReadAuthorizationModels), checks
that the pages the real code returned — for every page size — concatenate to exactly that list (the property,
independent of the model), and compares the page boundaries with the pager of `Model.Paging` that corresponds to
the backend (offset / clamped offset / key with look-ahead / strictly-after-last).  Token abuse cases are checked
against `memReadPage` / `memClampPage` and the type-bound rule.  ListStores with an id list: the expectation does not
depend on the order of the list (modes ids / idp / idv).  `conc` cases: the changelog written by concurrent writers must
be in ULID order and page like any other log.
-/
import OpenFGAVerif.Driver.Proto
import OpenFGAVerif.Model.Paging

open OpenFGAVerif OpenFGAVerif.Proto OpenFGAVerif.Model.Paging

namespace C14Driver

def parseInts (s : String) : List Nat :=
  if s == "-" || s == "" then [] else (s.splitOn ",").filterMap (·.toNat?)

/-- the harness' rank-list printer: ascending runs "a-b", descending runs "a~b", "e" for the empty page -/
partial def fmtRuns : List Nat → List String
  | [] => []
  | a :: rest =>
    let rec asc (last : Nat) (l : List Nat) : Nat × List Nat :=
      match l with
      | b :: t => if b == last + 1 then asc b t else (last, l)
      | [] => (last, [])
    let rec desc (last : Nat) (l : List Nat) : Nat × List Nat :=
      match l with
      | b :: t => if b + 1 == last then desc b t else (last, l)
      | [] => (last, [])
    let (e1, r1) := asc a rest
    if e1 != a then s!"{a}-{e1}" :: fmtRuns r1
    else
      let (e2, r2) := desc a rest
      if e2 != a then s!"{a}~{e2}" :: fmtRuns r2
      else toString a :: fmtRuns rest

def fmtPage (l : List Nat) : String := if l.isEmpty then "e" else ",".intercalate (fmtRuns l)

def parseRun (s : String) : Option (List Nat) :=
  match s.splitOn "-" with
  | [a, b] => do
    let a ← a.toNat?; let b ← b.toNat?
    if a ≤ b then some ((List.range (b - a + 1)).map (· + a)) else none
  | _ =>
    match s.splitOn "~" with
    | [a, b] => do
      let a ← a.toNat?; let b ← b.toNat?
      if b ≤ a then some ((List.range (a - b + 1)).map (a - ·)) else none
    | _ => s.toNat?.map ([·])

def parsePage (s : String) : Option (List Nat) :=
  if s == "e" then some [] else
  (s.splitOn ",").foldl (fun acc r => do let a ← acc; let b ← parseRun r; pure (a ++ b)) (some [])

def classIsDoc (c : Char) : Bool := c.toNat - 'a'.toNat < 4
def classUser (c : Char) : Nat := (c.toNat - 'a'.toNat) % 4

def ltAsc (a b : Nat) : Bool := decide (a < b)
def ltDesc (a b : Nat) : Bool := decide (b < a)

inductive Pager where
  | memRead | memClamp | sqlAsc | sqlDesc | changes

def modelPages (p : Pager) (items : List Nat) (ps : Nat) : Option (List (List Nat)) :=
  let fuel := items.length + 2
  match p with
  | .memRead => followMemRead items ps fuel 0
  | .memClamp => followMemClamp items ps fuel 0
  | .sqlAsc => followSql id ltAsc items ps fuel none
  | .sqlDesc => followSql id ltDesc items ps fuel none
  | .changes => (followChanges id ltAsc items ps fuel none).map (· ++ [[]])

/-- check all page sizes of one `page` case -/
def checkSizes (what : String) (p : Pager) (expected : List Nat) (isChanges : Bool) (outs : List String) : String :=
  let rec go (outs : List String) (nontrivial : Bool) : String :=
    match outs with
    | [] => ok ("paging-" ++ what) nontrivial
    | o :: rest =>
      match o.splitOn "=" with
      | [pss, pagesS] =>
        match pss.toNat? with
        | none => modelDiff "page size"
        | some ps =>
          let pageStrs := pagesS.splitOn "/"
          match pageStrs.foldr (fun s acc => do let a ← acc; let b ← parsePage s; pure (b :: a)) (some []) with
          | none => specViol s!"{what} ps={ps}: the paged API failed or looped: {pagesS}"
          | some pages =>
            let flat := pages.flatten
            -- the property, independently of the model
            if flat != expected then
              specViol s!"{what} ps={ps}: pages concatenate to {fmtPage flat}, expected every item once in order: {fmtPage expected}"
            else if pages.any (fun pg => pg.length > ps) then
              specViol s!"{what} ps={ps}: a page is longer than the page size: {pagesS}"
            else if (pages.dropLast.any (·.isEmpty)) then
              specViol s!"{what} ps={ps}: an empty page before the end: {pagesS}"
            else if isChanges && pages.getLast? != some [] then
              specViol s!"{what} ps={ps}: ReadChanges did not end with an empty page: {pagesS}"
            else
              match modelPages p expected ps with
              | none => modelDiff s!"{what} ps={ps}: model pager ran out of fuel"
              | some mp =>
                let ms := "/".intercalate (mp.map fmtPage)
                if ms != pagesS then modelDiff s!"{what} ps={ps}: {ms}"
                else go rest (nontrivial || pages.length > 2)
      | _ => modelDiff "ps=pages"
  go outs false

def isWindow (page expected : List Nat) : Bool :=
  page.isEmpty || (List.range (expected.length + 1)).any (fun k => (expected.drop k).take page.length == page)

/-- the item list of the fixed data set used by `tok` cases -/
def tokExpected (api : String) (n : Nat) : List Nat :=
  if api == "models" then (List.range n).reverse else List.range n

def step (c impl : String) : String :=
  if impl.startsWith "SETUPERR" || impl.startsWith "BADCASE" then "SKIP " ++ impl else
  match fields c with
  | ["page", "read", b, _, classes, del, filter] =>
    let cl := if classes == "-" then [] else classes.toList
    let dels := parseInts del
    let idx := List.range cl.length
    let keep (i : Nat) : Bool :=
      let ch := cl.getD i 'a'
      !dels.contains i &&
      (if filter == "all" then true
       else if filter.startsWith "t" then
         let fl := filter.toList
         (classIsDoc ch == (fl.getD 1 'd' == 'd')) && classUser ch == ((fl.getD 3 '0').toNat - '0'.toNat)
       else (filter.drop 1).toString.toNat? == some i)
    let expected := idx.filter keep
    checkSizes s!"Read/{b}" (if b == "m" then .memRead else .sqlAsc) expected false (fields impl)
  | ["page", "changes", b, _, classes, del, typ] =>
    let cl := if classes == "-" then [] else classes.toList
    let dels := parseInts del
    let n := cl.length
    let typeOk (i : Nat) : Bool :=
      typ == "-" || (classIsDoc (cl.getD i 'a') == (typ == "doc"))
    let writes := (List.range n).filter typeOk
    let deletes := ((List.range dels.length).filter (fun k => typeOk (dels.getD k 0))).map (· + n)
    checkSizes s!"ReadChanges/{b}" .changes (writes ++ deletes) true (fields impl)
  | ["page", "stores", b, _, n, _, del, decoy, mode] =>
    let n := n.toNat?.getD 0
    let dels := parseInts del
    let decoys := parseInts decoy
    -- id-list modes `ids:` (ascending) / `idp:` (shuffled, fixed) / `idv:` (another permutation on every page request),
    -- with a trailing `n` the name filter as well: the SAME expectation — the order of the id list is irrelevant
    -- (`C14.liststores_sorted_after_filter`, `C14.liststores_paging`)
    let (kind, ids) := match mode.splitOn ":" with
      | [k, l] => (k, parseInts l)
      | _ => (mode, [])
    let keep (r : Nat) : Bool :=
      !dels.contains r &&
      (if kind == "name" then !decoys.contains r else if kind == "all" then true
       else ids.contains r && (!kind.endsWith "n" || !decoys.contains r))
    checkSizes s!"ListStores/{b}" (if b == "m" then .memClamp else .sqlAsc) ((List.range n).filter keep) false (fields impl)
  | ["page", "models", b, _, n, _] =>
    let n := n.toNat?.getD 0
    checkSizes s!"ReadAuthorizationModels/{b}" (if b == "m" then .memClamp else .sqlDesc) (List.range n).reverse false (fields impl)
  | ["conc", "changes", _, _, w, p, pre] =>
    let total := w.toNat?.getD 0 * p.toNat?.getD 0 + pre.toNat?.getD 0
    let get (k : String) : String :=
      ((fields impl).filterMap (fun f => if f.startsWith (k ++ "=") then some (f.drop (k.length + 1)).toString else none)).headD "?"
    -- the property: the changelog is in ULID order (hypothesis `StrictSorted` of `paging_changes`; for the memory backend
    -- `C14.tie_memWrite_stamps_under_lock` + `C15.changelog_in_ulid_order_mem`), one page shows every write once, and
    -- the small pages concatenate to it (model: `paging_changes` on a sorted log)
    let sorted := get "sorted"
    let single := get "single"
    let paged := get "paged"
    let cnt := get "n"
    if sorted != "true" then
      specViol s!"[changelog not in ULID order] ReadChanges/m after {w} concurrent writers: a later entry of the log has a smaller ULID (sorted={sorted}), paging: {paged} — `key > token` skips such entries (C14.paging_changes_needs_sorted_log)"
    else if single != "ok" || cnt != toString total then
      specViol s!"ReadChanges/m after {w} concurrent writers: one page of size n+5 shows {cnt} of {total} entries ({single})"
    else if paged != "ok" then
      specViol s!"ReadChanges/m after {w} concurrent writers: pages do not concatenate to the full log though it is in ULID order: {paged}"
    else ok "paging-ReadChanges/m-concurrent-writers" (decide (w.toNat?.getD 0 ≥ 2))
  | "tok" :: kind :: api :: b :: n :: ps :: rest =>
    let n := n.toNat?.getD 0
    let ps := ps.toNat?.getD 1
    let expected := tokExpected api n
    let isErr := impl.startsWith "err:"
    let pageOf : Option (List Nat) :=
      match impl.splitOn ":" with
      | ["page", p, _] => parsePage p
      | _ => none
    if impl.startsWith "first:" then ok "tok-no-token-issued" false else
    match kind with
    | "garbage" =>
      if impl == "err:invalid_token" then ok "tok-garbage-rejected"
      else specViol s!"an undecodable continuation token was not rejected as invalid: {api}/{b} answered {impl}"
    | "negoffset" =>
      let off : Int := match rest with
        | [o] => if o.startsWith "-" then - (Int.ofNat ((o.drop 1).toString.toNat?.getD 0)) else Int.ofNat (o.toNat?.getD 0)
        | _ => 0
      if api == "read" then
        -- the property, independently of the model: a negative offset must be rejected
        if impl.startsWith "PANIC" then specViol s!"[F22a negative offset token panics] Read/m offset {off}: {impl}"
        else if !isErr then specViol s!"[F22a negative offset token accepted] Read/m offset {off}: {impl}"
        else match memReadPage expected ps off with
          | .invalidToken => if impl == "err:invalid_token" then ok "tok-negative-offset-rejected" else modelDiff "err:invalid_token"
          | .panic => modelDiff "PANIC"
          | .page xs _ => modelDiff ("page:" ++ fmtPage xs)
      else
        let (xs, _) := memClampPage expected ps off
        if isErr then ok "tok-negative-offset-rejected"
        else if pageOf == some xs then ok "tok-negative-offset-clamped-to-first-page"
        else if impl.startsWith "PANIC" then specViol s!"{api}/m panics on offset token {off}: {impl}"
        else modelDiff ("page:" ++ fmtPage xs)
    | "bigoffset" =>
      let off : Int := match rest with
        | [o] => Int.ofNat (o.toNat?.getD 0)
        | _ => 0
      if api == "read" then
        -- the property, independently of the model: rejected, or the (empty) window at that offset
        if impl.startsWith "PANIC" then specViol s!"Read/m panics on offset token {off}: {impl}"
        else if !isErr && pageOf != some [] then
          specViol s!"[F22b offset token beyond the end restarts at the first item] Read/m offset {off} of {n} items: {impl}"
        else match memReadPage expected ps off with
          | .invalidToken => if impl == "err:invalid_token" then ok "tok-offset-beyond-end-rejected" else modelDiff "err:invalid_token"
          | .panic => modelDiff "PANIC"
          | .page xs _ => if pageOf == some xs then ok "tok-offset-beyond-end-empty" else modelDiff ("page:" ++ fmtPage xs)
      else
        let (xs, _) := memClampPage expected ps off
        if isErr then ok "tok-offset-beyond-end-rejected"
        else if pageOf == some xs then ok "tok-offset-beyond-end-empty"
        else if impl.startsWith "PANIC" then specViol s!"{api}/m panics on offset token {off}: {impl}"
        else modelDiff ("page:" ++ fmtPage xs)
    | "typebound" =>
      match rest with
      | [ts] =>
        match ts.splitOn "," with
        | [t1, t2] =>
          if t1 == t2 then
            -- same filter: the token continues where the first page ended
            let typeOk (i : Nat) : Bool := t1 == "-" || ((i % 2 == 0) == (t1 == "doc"))
            let items := (List.range n).filter typeOk
            let second := (items.drop ps).take ps
            if pageOf == some second then ok "tok-typebound-same-type-continues"
            else if isErr then specViol s!"a ReadChanges token was rejected with the type filter it was issued for ({t1}): {impl}"
            else specViol s!"a ReadChanges token with its own type filter ({t1}) continued at the wrong place: {impl}, expected {fmtPage second}"
          else if impl == "err:mismatch_type" then ok "tok-typebound-other-type-rejected"
          else specViol s!"a ReadChanges token issued for type filter '{t1}' was accepted with '{t2}' ({b}): {impl}"
        | _ => "SKIP bad-typebound"
      | _ => "SKIP bad-typebound"
    | "reuse" =>
      if impl.startsWith "differs" then specViol s!"the same token gave two different pages: {impl}"
      else
        let second := (expected.drop ps).take ps
        if pageOf == some second then ok "tok-reuse-same-page"
        else if impl.startsWith "PANIC" then specViol s!"{api}/{b} panics on its own token: {impl}"
        else specViol s!"{api}/{b}: the first token does not lead to the second page: {impl}, expected {fmtPage second}"
    | _ => -- b64junk, foreign: rejected, or read as some position (a contiguous window of the list); never a panic
      if isErr then ok ("tok-" ++ kind ++ "-rejected")
      else if impl.startsWith "PANIC" then specViol s!"{api}/{b} panics on a {kind} token: {impl}"
      else match pageOf with
        | some pg => if isWindow pg expected then ok ("tok-" ++ kind ++ "-read-as-a-position") false
                     else specViol s!"{api}/{b}: a {kind} token produced a page that is no window of the list: {impl}"
        | none => modelDiff "err|page"
  | _ => "SKIP unknown-case"

end C14Driver

def main : IO Unit := Proto.run C14Driver.step
