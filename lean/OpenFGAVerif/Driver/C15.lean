/-
Driver for C15: runs `Model.StoreWrite` (write models + `memReadChanges` / `sqlReadChanges`) on the harness' histories and
checks the property on the implementation's own outputs: replay of the changelog = tuples, one change per effective
write/delete, descending = reverse ascending, type filter = plain filter, horizon withholds exactly the newer changes.
-/
import OpenFGAVerif.Driver.StoreW
import OpenFGAVerif.Model.StoreChanges
import OpenFGAVerif.Gen.StoreChanges

open OpenFGAVerif OpenFGAVerif.Proto OpenFGAVerif.Model.StoreTypes OpenFGAVerif.Model.StoreWrite OpenFGAVerif.Driver.StoreW
open OpenFGAVerif.Model.StoreChanges

/-- model-independent checks on two consecutive dumps of the store -/
def changelogCheck (backend : String) (prev cur : Obs) (distinctKeys : Bool) : Option String :=
  let pc := prev.changes.map obsChangeStr
  let cc := cur.changes.map obsChangeStr
  let pt := prev.tuples.map fmtTuple
  let ct := cur.tuples.map fmtTuple
  if cur.res != "ok" && (pt != ct || pc != cc) then
    some s!"a failed write ({cur.res}) changed the tuples or the changelog [{backend}]"
  else if !isPrefix pc cc then some s!"the changelog is not append-only [{backend}]"
  else if sortStrings ((replayObs cur.changes).map fmtTuple) != sortStrings ct then
    some s!"replaying the changelog oldest-first onto an empty store does not reproduce the current tuples [{backend}]"
  else
    -- exactly one change per effective item: the new entries are the tuples that went (as deletes, condition
    -- redacted) and the tuples that came (as writes)
    let gone := prev.tuples.filter (fun t => !ct.contains (fmtTuple t))
    let came := cur.tuples.filter (fun t => !pt.contains (fmtTuple t))
    let want := gone.map (fun t => "-" ++ fmtTuple t.redact) ++ came.map (fun t => "+" ++ fmtTuple t)
    -- (a key that is deleted and written again in one request — possible only below the command layer: the same key in
    --  deletes and writes, or a delete key with an empty object id that the memory backend reads as a wildcard — shows
    --  as a pair of entries without a change of the tuple set: such requests are left to the replay check)
    if distinctKeys && sortStrings (cc.drop pc.length) != sortStrings want then
      some s!"the changelog did not get exactly one entry per effective write/delete [{backend}]"
    else none

def fmtRead : Option (List Change) → String
  | none => "_"
  | some l => fmtList (l.map fmtChange)

def typeOfChangeStr (s : String) : String :=
  match parseChange s with
  | some (_, t) => t.objType
  | none => "?"

structure CAcc where
  m : MState
  prev : Obs := { res := "ok", tuples := [], changes := [] }
  now : Nat := 1
  cutNow : Option Nat := none       -- model time of the last write before the cut
  cutLen : Option Nat := none       -- length of the implementation's changelog at the cut
  diff : Option String := none
  viol : Option String := none
  oks : Nat := 0

def cStep (backend : String) (acc : CAcc) (tok : String) (g : String) : CAcc :=
  if acc.diff.isSome || acc.viol.isSome then acc else
  match parseReq tok, g.splitOn ";" with
  | some r, [res, ts, cs] =>
    match parseObs res ts cs with
    | none => { acc with diff := some "unparsable implementation output" }
    | some cur =>
      let (m', mres) := stepModel backend acc.m r acc.now
      let expected := ";".intercalate [mres, m'.dump]
      { acc with m := m', prev := cur, now := acc.now + 1,
                 diff := if g != expected then some (s!"request {acc.now}: " ++ expected) else none,
                 viol := (changelogCheck backend acc.prev cur (reqWellFormed r)).map (· ++ s!" at request {acc.now}"),
                 oks := acc.oks + (if res == "ok" then 1 else 0) }
  | _, _ => { acc with diff := some "malformed case or output" }

def bigNow : Nat := 1000000

def modelRead (acc : CAcc) (typ : String) (horizon : Nat) (desc : Bool) : String :=
  match acc.m with
  | .mem s => fmtRead (memReadChanges s typ bigNow horizon desc)
  | .sql db => fmtRead (sqlReadChanges db.committed typ bigNow horizon desc)

/-- the model's page function of the session's backend -/
def modelPage (acc : CAcc) (typ : String) (ps : Nat) : Nat → Option Nat → List Change × Option Nat :=
  match acc.m with
  | .mem s => memChangesPage s.changes typ bigNow ps
  | .sql db => sqlChangesPage db.committed.changes typ bigNow ps

/-- a walk page by page: the changes received and the horizon trace ("q" = the configured horizon was handed to the
    datastore, "0" = none), as the model predicts them for a query that sets the horizon on every page (`everyPage`) or
    only on the first -/
def modelWalk (acc : CAcc) (typ : String) (ps : Nat) (everyPage : Bool) (q : Nat) : String × String :=
  match followQuery (modelPage acc typ ps) everyPage q (acc.m.changes.length + 2) none with
  | none => ("?", "?")
  | some pages =>
    let calls := pages.length + 1
    let trace := (List.range calls).map (fun i => if i == 0 || everyPage then "q" else "0")
    (fmtList (pages.flatten.map fmtChange), ".".intercalate trace)

def finalCheck (backend : String) (acc : CAcc) (g : String) : String :=
  match g.splitOn ";" with
  | ["R", asc, desc, docAsc, folderAsc, doAsc, docDesc, hz1h, hzCut, hzCutDocDesc, pg2, pg3, pg1doc, pgH, qp, qtrace, qpdoc, qdoctrace] =>
    let ascL := parseList asc
    let lastL := acc.prev.changes.map obsChangeStr
    let typed (t : String) := ascL.filter (fun s => typeOfChangeStr s == t)
    let cutAsc := match acc.cutLen with | some n => ascL.take n | none => []
    -- what a client reading through the query with the horizon may receive
    let visible := if acc.cutLen.isSome then cutAsc else ascL
    let visibleDoc := visible.filter (fun s => typeOfChangeStr s == "doc")
    let newer (got : List String) := got.any (fun s => !visible.contains s)
    let viol : Option String :=
      if ascL != lastL then some "ReadChanges (ascending, no filter) differs from the changelog read after the last write"
      else if parseList desc != ascL.reverse then some "descending order is not the exact reverse of ascending order"
      else if parseList docAsc != typed "doc" || parseList folderAsc != typed "folder" then some "the object-type filter is not a plain filter of the log"
      else if parseList doAsc != [] then some "the object-type filter matched a type it was not given (prefix)"
      else if parseList docDesc != (typed "doc").reverse then some "descending + type filter is not the reverse of ascending + type filter"
      else if parseList hz1h != [] then some "changes newer than the horizon were returned (horizon 1h)"
      else if acc.cutLen.isSome && parseList hzCut != cutAsc then
        some s!"the horizon filter did not withhold exactly the changes made after the cut (expected the first {cutAsc.length})"
      else if acc.cutLen.isSome && parseList hzCutDocDesc != (cutAsc.filter (fun s => typeOfChangeStr s == "doc")).reverse then
        some "horizon + type filter + descending differs from filtering the ascending log"
      else if parseList pg2 != ascL || parseList pg3 != ascL.reverse || parseList pg1doc != typed "doc" then
        some "walking the changelog page by page does not give the same changes as reading it at once"
      else if acc.cutLen.isSome && parseList pgH != cutAsc then
        some s!"walking the datastore's changelog page by page with a horizon does not give exactly the changes older than the horizon (expected the first {cutAsc.length})"
      else if newer (parseList qp) || newer (parseList qpdoc) then
        some s!"ReadChangesQuery with a horizon: a continuation page handed out changes newer than the horizon (only the first {visible.length} changes are older)"
      else if parseList qp != visible || parseList qpdoc != visibleDoc then
        some s!"ReadChangesQuery with a horizon, followed page by page, does not return exactly the changes older than the horizon (expected the first {visible.length})"
      else if (qtrace.splitOn ".").any (· != "q") || (qdoctrace.splitOn ".").any (· != "q") then
        some "ReadChangesQuery did not hand its configured horizon offset to the datastore on every call of a paged read"
      else none
    let hz := match acc.cutNow with | some c => bigNow - c | none => 0
    let every := Gen.StoreChanges.rcHorizonEveryPage
    let w1 := modelWalk acc "" 1 every hz
    let w2 := modelWalk acc "doc" 2 every hz
    let expected := ";".intercalate ["R", modelRead acc "" 0 false, modelRead acc "" 0 true, modelRead acc "doc" 0 false,
      modelRead acc "folder" 0 false, modelRead acc "do" 0 false, modelRead acc "doc" 0 true, modelRead acc "" (bigNow + 1) false,
      (if acc.cutNow.isSome then modelRead acc "" hz false else "-"),
      (if acc.cutNow.isSome then modelRead acc "doc" hz true else "-"),
      modelRead acc "" 0 false, modelRead acc "" 0 true, modelRead acc "doc" 0 false,
      (if acc.cutNow.isSome then (modelWalk acc "" 2 true hz).1 else "-"),
      w1.1, w1.2, w2.1, w2.2]
    match viol with
    | some v => specViol (v ++ s!" [{backend}]")
    | none =>
      if g != expected then modelDiff ("reads: " ++ expected)
      else ok ("changelog-" ++ backend ++ (if acc.cutNow.isSome then "-horizon" else "")) (acc.oks ≥ 2 && ascL.length ≥ 3)
  | _ => modelDiff "17 read fields"

/-- concurrent writers (storew.ConcurrentWrites): every Write applied, the changelog walk by ULID token complete -/
def concurrentCheck (backend : String) (writers per prefill : Nat) (impl : String) : String :=
  let n := prefill + writers * per
  let expected := s!"total={n};paged={n};missing=0;repeated=0;alien=0;order=ok;perwriter=ok;tuples={n};errors=0"
  let kv := (impl.splitOn ";").filterMap (fun f => match f.splitOn "=" with | [k, v] => some (k, v) | _ => none)
  let get (k : String) := ((kv.find? (fun p => p.1 == k)).map (·.2)).getD "?"
  if kv.length != 9 then modelDiff expected
  else if get "errors" != "0" || get "total" != toString n || get "tuples" != toString n then
    specViol s!"concurrent Write calls of distinct fresh tuples failed or were lost (errors={get "errors"}, changelog {get "total"} / tuples {get "tuples"} of {n}) [{backend}]"
  else if get "perwriter" != "ok" then
    specViol s!"the changelog lists a writer's changes in another order than its (sequential) Write calls [{backend}]"
  else if get "missing" != "0" || get "repeated" != "0" || get "alien" != "0" || get "order" != "ok" || get "paged" != toString n then
    specViol s!"after concurrent writes the changelog is not in ULID order: walking it page by page by continuation token lost {get "missing"} and repeated {get "repeated"} of {n} changes [{backend}]"
  else if impl != expected then modelDiff expected
  else ok ("concurrent-" ++ backend) true

def runCase (backend : String) (toks : List String) (impl : String) : String :=
  let groups := fields impl
  let nOps := (toks.filter (· != "cut")).length
  if groups.length != nOps + 1 then modelDiff s!"{nOps + 1} groups" else
  let rec go (acc : CAcc) (toks : List String) (groups : List String) : CAcc × List String :=
    match toks, groups with
    | [], gs => (acc, gs)
    | "cut" :: ts, gs => go { acc with cutNow := some (acc.now - 1), cutLen := some acc.prev.changes.length } ts gs
    | t :: ts, g :: gs => go (cStep backend acc t g) ts gs
    | _ :: _, [] => ({ acc with diff := some "missing group" }, [])
  let (acc, rest) := go { m := MState.init backend } toks groups
  match acc.viol, acc.diff, rest with
  | some v, _, _ => specViol v
  | none, some d, _ => modelDiff d
  | none, none, [g] => finalCheck backend acc g
  | none, none, _ => modelDiff "one read group"

def step (c impl : String) : String :=
  match fields c with
  | "C" :: backend :: toks => runCase backend toks impl
  | ["W", backend, w, p, pre, _] =>
    match w.toNat?, p.toNat?, pre.toNat? with
    | some w, some p, some pre => concurrentCheck backend w p pre impl
    | _, _, _ => "SKIP unparsable-case"
  | _ => "SKIP unknown-case"

def main : IO Unit := Proto.run step
