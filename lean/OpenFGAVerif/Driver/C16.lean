/-
Driver for C16.
  iso <engine> <nops> op…      impl:  I <s>:<answer> … | A0 <answers of store 0 alone> | A1 … | A2 …

1. the property itself, model-free: the answers store `s` got in the interleaved run = the answers of the same
   operations run alone on a fresh server;
2. deleted stores: after an acknowledged DeleteStore, GetStore fails and ListStores does not list the store;
3. the storage-level answers of the interleaved run (full Read, ReadChanges, model listing, GetStore/ListStores) against
   `Model.MultiStore.shared` — the shared-state model whose locality is proved in Props/C16.
-/
import OpenFGAVerif.Driver.Proto
import OpenFGAVerif.Model.MultiStore

open OpenFGAVerif OpenFGAVerif.Proto OpenFGAVerif.Model.MultiStore

namespace C16

structure HOp where
  kind : String
  s : Nat
  args : List String

def arity (k : String) : Nat :=
  match k with
  | "wt" => 4 | "dt" => 3 | "ck" => 4 | "lo" => 3 | "lu" => 2 | "rd" => 3 | "rc" => 0 | "wm" => 1 | "rm" => 0
  | "wa" => 4 | "ra" => 0 | "gs" => 0 | "ls" => 0 | "ds" => 0 | "ex" => 2 | _ => 0

def parseOps : Nat → List String → Option (List HOp)
  | 0, _ => some []
  | n + 1, k :: s :: rest => do
    let s ← s.toNat?
    let a := arity k
    if rest.length < a then none
    let ops ← parseOps n (rest.drop a)
    pure ({ kind := k, s := s, args := rest.take a } :: ops)
  | _, _ => none

def joinS (l : List String) : String := "[" ++ ",".intercalate l ++ "]"

/-- insertion sort on strings (the harness sorts Read results) -/
def insertS (x : String) : List String → List String
  | [] => [x]
  | y :: ys => if x < y then x :: y :: ys else y :: insertS x ys
def sortS (l : List String) : List String := l.foldr insertS []

abbrev G := Shared String Unit Unit

def tupStr (o : HOp) : String :=
  match o.args with
  | [ob, r, u, c] => ob ++ "#" ++ r ++ "@" ++ u ++ (if c == "-" then "" else "/" ++ c)
  | [ob, r, u] => ob ++ "#" ++ r ++ "@" ++ u
  | _ => ""

def keyOf (t : String) : String := (t.splitOn "/").headD t

/-- the storage-level expectation of one op of the interleaved run, driven by the implementation's own accept/reject
answers for writes (validation is C18's business); `none` = not predicted -/
def expectOp (g : G) (o : HOp) (ans : String) : G × Option String :=
  let ev : List String → Option Nat → Unit → Unit := fun _ _ _ => ()
  match o.kind with
  | "wt" =>
    if ans == "ok" then
      -- the stored tuple is identified by its key; a second write of the same key is a conflict
      if (sel g.tuples o.s).any (fun t => keyOf t == keyOf (tupStr o)) then (g, some "E:conflict")
      else ((sharedStep ev g o.s (.write (tupStr o))).1, some "ok")
    else (g, none)
  | "dt" =>
    match (sel g.tuples o.s).find? (fun t => keyOf t == tupStr o) with
    | some t =>
      if ans == "ok" then
        let g1 := (sharedStep ev g o.s (.delete t)).1
        -- the delete change is recorded without the condition
        ({ g1 with changes := g.changes ++ [(o.s, (false, tupStr o))] }, some "ok")
      else (g, none)
    | none => (g, if ans == "ok" then some "E:conflict" else none)
  | "rd" =>
    if o.args == ["-", "-", "-"] then (g, some (joinS (sortS (sel g.tuples o.s)))) else (g, none)
  | "rc" => (g, some (joinS ((sel g.changes o.s).map (fun c => (if c.1 then "W" else "D") ++ c.2))))
  | "wm" =>
    if ans.startsWith "ok:" then
      ((sharedStep ev g o.s (.writeModel 0)).1, some s!"ok:{(sel g.models o.s).length}")
    else (g, none)
  | "rm" => (g, some (joinS ((List.range (sel g.models o.s).length).reverse.map toString)))
  | "gs" => (g, some (if (sel g.registry o.s).isEmpty then "E:notfound" else s!"name=c16-{o.s}"))
  | "ls" => (g, some (if (sel g.registry o.s).isEmpty then "listed=false" else "listed=true"))
  | "ds" => ((sharedStep ev g o.s .deleteStore).1, some "ok")
  | _ => (g, none)

def g0 : G :=
  { tuples := [], changes := [], models := [], asserts := [], cache := [], registry := [(0, ()), (1, ()), (2, ())] }

def splitBar (impl : String) : List (List String) :=
  (impl.splitOn " | ").map (fun p => (p.splitOn " ").filter (· ≠ ""))

def step (line impl : String) : String :=
  match fields line with
  | "iso" :: _ :: n :: rest =>
    match parseOps (n.toNat?.getD 0) rest with
    | none => "SKIP unparsable-history"
    | some ops =>
      match splitBar impl with
      | [("I" :: inter), ("A0" :: a0), ("A1" :: a1), ("A2" :: a2)] =>
        if inter.length != ops.length then modelDiff "one answer per op"
        else
          -- 1. the property: per store, interleaved answers = solo answers
          let tagged := (ops.zip inter).map (fun p => (p.1, p.1.s, (p.2.splitOn ":").drop 1 |> ":".intercalate))
          let solo := [a0, a1, a2]
          let diff := (List.range 3).filterMap (fun s =>
            let mine := tagged.filter (fun t => t.2.1 == s)
            let alone := solo.getD s []
            if mine.length != alone.length then some s!"store {s}: {mine.length} answers interleaved, {alone.length} alone"
            else
              match (mine.zip alone).find? (fun p => p.1.2.2 != p.2) with
              | some (t, a) => some s!"store {s} answered {t.2.2} to `{t.1.kind} {" ".intercalate t.1.args}` while other stores were active, but {a} when run alone"
              | none => none)
          match diff with
          | why :: _ => specViol ("stores are not isolated: " ++ why)
          | [] =>
            -- 2. deleted stores
            let rec afterDelete (l : List (HOp × Nat × String)) (dead : List Nat) : Option String :=
              match l with
              | [] => none
              | (o, s, a) :: rest =>
                if o.kind == "ds" && a == "ok" then afterDelete rest (s :: dead)
                else if dead.contains s && o.kind == "gs" && a != "E:notfound" then some s!"GetStore returned the deleted store {s}"
                else if dead.contains s && o.kind == "ls" && a != "listed=false" then some s!"ListStores lists the deleted store {s}"
                else afterDelete rest dead
            match afterDelete tagged [] with
            | some why => specViol why
            | none =>
              -- 3. the shared-state model
              let (_, bad) := tagged.foldl (fun (acc : G × Option String) t =>
                match acc.2 with
                | some b => (acc.1, some b)
                | none =>
                  let (g', e) := expectOp acc.1 t.1 t.2.2
                  match e with
                  | some x => if x == t.2.2 then (g', none) else (g', some s!"{t.1.kind} on store {t.2.1}: expected {x} got {t.2.2}")
                  | none => (g', none)) (g0, none)
              match bad with
              | some b => modelDiff b
              | none =>
                let nt := tagged.any (fun t => t.2.2 == "T" || (t.1.kind == "lo" && t.2.2 != "[]"))
                ok (if ops.any (·.kind == "ds") then "isolated-with-delete" else "isolated") nt
      | _ => "SKIP unparsable-output"
  | _ => "SKIP unknown-kind"

end C16

def main : IO Unit := Proto.run C16.step
