/-
Driver for C16.
  iso|isq <engine> <nops> op…  impl:  I <s>:<answer> … | A0 <answers of store 0 alone> | A1 … | A2 …       (memory | sqlite)
  st <m|s> <names> <nops> op…  impl:  the same + | L <op index>=[stores listed] …                          (storage level)
  sf q…                        overlapping typesystem resolutions (Driver/SfCase.lean)

storage level (`st`): 1. isolation as below; 2. after an acknowledged DeleteStore (until the case store is created again)
GetStore fails and NO ListStores — unfiltered, by name, by ids, by name and ids — lists the store; 3. a model id of
another store is "not found"; 4. GetStore / every listing against `Model.StoreRegistry` (sqlite: soft delete + the WHERE
list, memory: map + filters + sort).

1. the property itself, model-free: the answers store `s` got in the interleaved run = the answers of the same
   operations run alone on a fresh server;
2. deleted stores: after an acknowledged DeleteStore, GetStore fails and ListStores does not list the store;
3. the storage-level answers of the interleaved run (full Read, ReadChanges, model listing, GetStore/ListStores) against
   `Model.MultiStore.shared` — the shared-state model whose locality is proved in Props/C16.
-/
import OpenFGAVerif.Driver.Proto
import OpenFGAVerif.Driver.SfCase
import OpenFGAVerif.Model.MultiStore
import OpenFGAVerif.Model.StoreRegistry

open OpenFGAVerif OpenFGAVerif.Proto OpenFGAVerif.Model.MultiStore

namespace C16

structure HOp where
  kind : String
  s : Nat
  args : List String

def arity (k : String) : Nat :=
  match k with
  | "wt" => 4 | "dt" => 3 | "ck" => 4 | "lo" => 3 | "lu" => 2 | "rd" => 3 | "rc" => 0 | "wm" => 1 | "rm" => 0
  | "wa" => 4 | "ra" => 0 | "gs" => 0 | "ls" => 0 | "ln" => 0 | "ds" => 0 | "ex" => 2 | _ => 0

/-- storage-level ops (harness/c16/store.go) -/
def stArity (k : String) : Nat :=
  match k with
  | "cs" => 0 | "ds" => 0 | "gs" => 0 | "ls" => 1 | "wt" => 4 | "dt" => 3 | "rd" => 4 | "rp" => 5 | "ru" => 4 | "rs" => 4
  | "rw" => 5 | "rc" => 1 | "wm" => 0 | "fl" => 0 | "rm" => 0 | "gm" => 2 | "wa" => 3 | "ra" => 2 | _ => 0

def parseOpsWith (ar : String → Nat) : Nat → List String → Option (List HOp)
  | 0, _ => some []
  | n + 1, k :: s :: rest => do
    let s ← s.toNat?
    let a := ar k
    if rest.length < a then none
    let ops ← parseOpsWith ar n (rest.drop a)
    pure ({ kind := k, s := s, args := rest.take a } :: ops)
  | _, _ => none

def parseOps : Nat → List String → Option (List HOp) := parseOpsWith arity

def joinS (l : List String) : String := "[" ++ ",".intercalate l ++ "]"

/-- insertion sort on strings (the harness sorts Read results) -/
def insertS (x : String) : List String → List String
  | [] => [x]
  | y :: ys => if x < y then x :: y :: ys else y :: insertS x ys
def sortS (l : List String) : List String := l.foldr insertS []

abbrev G := Shared String Unit Unit

def tupStr (o : HOp) : String :=
  match o.args with
  | [ob, r, u, c] => ob ++ "#" ++ r ++ "@" ++ u ++ (if c == "-" then "" else "/" ++ c)
  | [ob, r, u] => ob ++ "#" ++ r ++ "@" ++ u
  | _ => ""

def keyOf (t : String) : String := (t.splitOn "/").headD t

/-- the storage-level expectation of one op of the interleaved run, driven by the implementation's own accept/reject
answers for writes (validation is C18's business); `none` = not predicted -/
def expectOp (g : G) (o : HOp) (ans : String) : G × Option String :=
  let ev : List String → Option Nat → Unit → Unit := fun _ _ _ => ()
  match o.kind with
  | "wt" =>
    if ans == "ok" then
      -- the stored tuple is identified by its key; a second write of the same key is a conflict
      if (sel g.tuples o.s).any (fun t => keyOf t == keyOf (tupStr o)) then (g, some "E:conflict")
      else ((sharedStep ev g o.s (.write (tupStr o))).1, some "ok")
    else (g, none)
  | "dt" =>
    match (sel g.tuples o.s).find? (fun t => keyOf t == tupStr o) with
    | some t =>
      if ans == "ok" then
        let g1 := (sharedStep ev g o.s (.delete t)).1
        -- the delete change is recorded without the condition
        ({ g1 with changes := g.changes ++ [(o.s, (false, tupStr o))] }, some "ok")
      else (g, none)
    | none => (g, if ans == "ok" then some "E:conflict" else none)
  | "rd" =>
    if o.args == ["-", "-", "-"] then (g, some (joinS (sortS (sel g.tuples o.s)))) else (g, none)
  | "rc" => (g, some (joinS ((sel g.changes o.s).map (fun c => (if c.1 then "W" else "D") ++ c.2))))
  | "wm" =>
    if ans.startsWith "ok:" then
      ((sharedStep ev g o.s (.writeModel 0)).1, some s!"ok:{(sel g.models o.s).length}")
    else (g, none)
  | "rm" => (g, some (joinS ((List.range (sel g.models o.s).length).reverse.map toString)))
  | "gs" => (g, some (if (sel g.registry o.s).isEmpty then "E:notfound" else s!"name=c16-{o.s}"))
  | "ls" => (g, some (if (sel g.registry o.s).isEmpty then "listed=false" else "listed=true"))
  | "ln" => (g, some (if (sel g.registry o.s).isEmpty then "listed=false" else "listed=true"))
  | "ds" => ((sharedStep ev g o.s .deleteStore).1, some "ok")
  | _ => (g, none)

def g0 : G :=
  { tuples := [], changes := [], models := [], asserts := [], cache := [], registry := [(0, ()), (1, ()), (2, ())] }

def splitBar (impl : String) : List (List String) :=
  (impl.splitOn " | ").map (fun p => (p.splitOn " ").filter (· ≠ ""))

/-- (op, store, answer) of the interleaved run -/
abbrev Tagged := HOp × Nat × String

def tagOps (ops : List HOp) (inter : List String) : List Tagged :=
  (ops.zip inter).map (fun p => (p.1, p.1.s, (p.2.splitOn ":").drop 1 |> ":".intercalate))

/-- 1. the property: per store, interleaved answers = solo answers -/
def isolationDiff (tagged : List Tagged) (solo : List (List String)) : Option String :=
  ((List.range 3).filterMap (fun s =>
    let mine := tagged.filter (fun t => t.2.1 == s)
    let alone := solo.getD s []
    if mine.length != alone.length then some s!"store {s}: {mine.length} answers interleaved, {alone.length} alone"
    else
      match (mine.zip alone).find? (fun p => p.1.2.2 != p.2) with
      | some (t, a) => some s!"store {s} answered {t.2.2} to `{t.1.kind} {" ".intercalate t.1.args}` while other stores were active, but {a} when run alone"
      | none => none)).head?

/-- 2. deleted stores (until created again): GetStore fails and no listing, whatever its filter, lists the store -/
def afterDelete (notFound : String) : List Tagged → List Nat → Option String
  | [], _ => none
  | (o, s, a) :: rest, dead =>
    if o.kind == "ds" && a == "ok" then afterDelete notFound rest (s :: dead)
    else if o.kind == "cs" && a == "ok" then afterDelete notFound rest (dead.filter (· != s))
    else if dead.contains s && o.kind == "gs" && a != notFound then some s!"GetStore returned the deleted store {s}"
    else if dead.contains s && (o.kind == "ls" || o.kind == "ln") && a != "listed=false" then
      some s!"ListStores ({if o.kind == "ln" then "by name" else " ".intercalate ("filter" :: o.args)}) lists the deleted store {s}"
    else afterDelete notFound rest dead

/-! ### storage level: the registry model -/

open OpenFGAVerif.Model.StoreRegistry in
structure Reg where
  rows : List Row := []
  cur : List (Nat × Nat) := []     -- case store ↦ id rank of its current incarnation
  next : Nat := 0

open OpenFGAVerif.Model.StoreRegistry in
/-- expected answer of cs / ds / gs / ls on backend `b` ("m" | "s"); for ls also the listing (case stores in id order) -/
def regOp (b : String) (names : List Nat) (r : Reg) (o : HOp) : Reg × Option String × Option String :=
  let stepR := if b == "m" then memStep else sqlStep
  let curOf (i : Nat) : Option Nat := (r.cur.find? (·.1 == i)).map (·.2)
  match o.kind with
  | "cs" =>
    ({ rows := stepR r.rows (.create r.next (names.getD o.s 0)), cur := (o.s, r.next) :: r.cur.filter (·.1 != o.s), next := r.next + 1 }, some "ok", none)
  | "ds" =>
    match curOf o.s with
    | some k => ({ r with rows := stepR r.rows (.delete k) }, some "ok", none)
    | none => (r, some "ok", none)
  | "gs" =>
    let got := match curOf o.s with
      | some k => if b == "m" then memGetStore r.rows k else sqlGetStore r.rows k
      | none => none
    (r, some (match got with | some row => s!"name=c16-name-{row.name}" | none => "nf"), none)
  | "ls" =>
    let mode := o.args.headD "all"
    let ids := if mode == "ids" || mode == "nameids" then [2, 1, 0].map (fun i => (curOf i).getD (1000 + i)) else []
    let name := if mode == "name" || mode == "nameids" then some (names.getD o.s 0) else none
    let opts : Opts := { ids := ids, name := name, from_ := none }
    let l := if b == "m" then memListStores r.rows opts else sqlListStores r.rows opts
    let idx := l.filterMap (fun row => (r.cur.find? (·.2 == row.id)).map (·.1))
    (r, some (if idx.contains o.s then "listed=true" else "listed=false"), some ("[" ++ ",".intercalate (idx.map toString) ++ "]"))
  | _ => (r, none, none)

def stStep (b : String) (namesS : String) (n : String) (rest : List String) (impl : String) : String :=
  let names := (namesS.splitOn ",").filterMap (·.toNat?)
  match parseOpsWith stArity (n.toNat?.getD 0) rest with
  | none => "SKIP unparsable-history"
  | some ops =>
    match splitBar impl with
    | [("I" :: inter), ("A0" :: a0), ("A1" :: a1), ("A2" :: a2), ("L" :: listings)] =>
      if inter.length != ops.length then modelDiff "one answer per op"
      else
        let tagged := tagOps ops inter
        match isolationDiff tagged [a0, a1, a2] with
        | some why => specViol ("stores are not isolated (storage level, " ++ (if b == "m" then "memory" else "sqlite") ++ "): " ++ why)
        | none =>
          match afterDelete "nf" tagged [] with
          | some why => specViol (why ++ (if b == "m" then " (memory)" else " (sqlite)"))
          | none =>
            -- 3. a model id of another store does not exist here
            match tagged.find? (fun t => t.1.kind == "gm" && t.1.args.head? != some (toString t.2.1) && t.2.2 != "nf") with
            | some t => specViol s!"ReadAuthorizationModel on store {t.2.1} with a model id of store {t.1.args.headD "?"} returned {t.2.2}"
            | none =>
              -- 4. the registry model
              let lst : List (Nat × String) := listings.filterMap (fun e =>
                match e.splitOn "=" with
                | [i, l] => i.toNat?.map (fun i => (i, l))
                | _ => none)
              let (_, _, bad) := tagged.foldl (fun (acc : Reg × Nat × Option String) t =>
                let (r, idx, bad) := acc
                match bad with
                | some x => (r, idx + 1, some x)
                | none =>
                  let (r', e, l) := regOp b names r t.1
                  let bad1 := match e with
                    | some x => if x == t.2.2 then none else some s!"{t.1.kind} {" ".intercalate t.1.args} on store {t.2.1}: expected {x} got {t.2.2}"
                    | none => none
                  let bad2 := match bad1, l with
                    | none, some x =>
                      match lst.find? (·.1 == idx) with
                      | some (_, got) => if got == x then none else some s!"ls {" ".intercalate t.1.args} on store {t.2.1}: expected the listing {x} got {got}"
                      | none => some s!"ls {" ".intercalate t.1.args} on store {t.2.1}: no listing reported"
                    | b1, _ => b1
                  (r', idx + 1, bad2)) (({} : Reg), 0, none)
              match bad with
              | some x => modelDiff x
              | none =>
                let nt := tagged.any (fun t => (t.1.kind.startsWith "r" && t.2.2.startsWith "[" && t.2.2 != "[]"))
                ok ((if ops.any (·.kind == "ds") then "storage-isolated-with-delete-" else "storage-isolated-") ++ b) nt
    | _ => "SKIP unparsable-output"

def isoStep (n : String) (rest : List String) (impl : String) (cls : String) : String :=
    match parseOps (n.toNat?.getD 0) rest with
    | none => "SKIP unparsable-history"
    | some ops =>
      match splitBar impl with
      | [("I" :: inter), ("A0" :: a0), ("A1" :: a1), ("A2" :: a2)] =>
        if inter.length != ops.length then modelDiff "one answer per op"
        else
          let tagged := tagOps ops inter
          match isolationDiff tagged [a0, a1, a2] with
          | some why => specViol ("stores are not isolated: " ++ why)
          | none =>
            match afterDelete "E:notfound" tagged [] with
            | some why => specViol why
            | none =>
              -- 3. the shared-state model
              let (_, bad) := tagged.foldl (fun (acc : G × Option String) t =>
                match acc.2 with
                | some b => (acc.1, some b)
                | none =>
                  let (g', e) := expectOp acc.1 t.1 t.2.2
                  match e with
                  | some x => if x == t.2.2 then (g', none) else (g', some s!"{t.1.kind} on store {t.2.1}: expected {x} got {t.2.2}")
                  | none => (g', none)) (g0, none)
              match bad with
              | some b => modelDiff b
              | none =>
                let nt := tagged.any (fun t => t.2.2 == "T" || (t.1.kind == "lo" && t.2.2 != "[]"))
                ok ((if ops.any (·.kind == "ds") then "isolated-with-delete" else "isolated") ++ cls) nt
      | _ => "SKIP unparsable-output"

def step (line impl : String) : String :=
  match fields line with
  | "iso" :: _ :: n :: rest => isoStep n rest impl ""
  | "isq" :: _ :: n :: rest => isoStep n rest impl "-sqlite"
  | "st" :: b :: names :: n :: rest => stStep b names n rest impl
  | "sf" :: _ => SfCase.step line impl
  | _ => "SKIP unknown-kind"

end C16

def main : IO Unit := Proto.run C16.step
