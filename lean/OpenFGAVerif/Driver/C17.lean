/-
Driver for C17.
  v <model>                      impl: ok | <error class>          expected: `ModelValidate.validate`
  h <nstores> <nops> op…         impl: one token per op           expected: `ModelStore` run on the same history
-/
import OpenFGAVerif.Driver.Proto
import OpenFGAVerif.Driver.FgaCodec
import OpenFGAVerif.Model.ModelValidate
import OpenFGAVerif.Model.ModelStore
import OpenFGAVerif.Model.CheckV1

open OpenFGAVerif OpenFGAVerif.Proto OpenFGAVerif.FgaCodec OpenFGAVerif.Vocab
open OpenFGAVerif.Model.ModelValidate OpenFGAVerif.Model.ModelStore

namespace C17

def renderV : V → String
  | .ok _ => "ok"
  | .error e => e.render

abbrev St := State Model Model

def isValid (m : Model) : Bool := match validate m with | .ok _ => true | .error _ => false

/-- marker relations `doc#m<j>`, j < n, that model `m` declares -/
def hits (m : Model) (n : Nat) : List Nat :=
  (List.range n).filter (fun j => (m.findRel "doc" s!"m{j}").isSome)

def joinNat (l : List Nat) : String := ",".intercalate (l.map toString)

/-- number of accepted models of store `s` = the rank the next accepted model gets -/
def accepted (st : St) (s : Nat) : Nat := (rows st s).length

def idOfRank (st : St) (s rank : Nat) : Option Nat := ((rows st s)[rank]?).map (·.1)
def rankOfId (st : St) (s id : Nat) : Option Nat := (rows st s).findIdx? (·.1 = id)

inductive HOp where
  | wm (s : Nat) (m : Model)
  | rm (s rank : Nat)
  | rx (s : Nat)
  | pr (s : Nat)
  | wt (s rank : Nat)
  | lm (s : Nat)
  | pi (s rank : Nat)

def hop : P HOp := fun ts => do
  let (k, ts) ← tok ts
  let (s, ts) ← nat ts
  match k with
  | "wm" => do let (m, ts) ← FgaCodec.model ts; pure (.wm s m, ts)
  | "rm" => do let (r, ts) ← nat ts; pure (.rm s r, ts)
  | "rx" => pure (.rx s, ts)
  | "pr" => pure (.pr s, ts)
  | "wt" => do let (r, ts) ← nat ts; pure (.wt s r, ts)
  | "lm" => pure (.lm s, ts)
  | "pi" => do let (r, ts) ← nat ts; pure (.pi s r, ts)
  | _ => none

/-- is the unconditioned tuple `doc:w#m<rank>@user:a` writable under model `m`? (shared core: `CheckV1.validForRead`) -/
def markerWritable (m : Model) (rank : Nat) : Bool :=
  (m.types.any (·.name = "user")) &&
  CheckV1.validForRead m { obj := "doc:w", rel := s!"m{rank}", user := "user:a", cond := "", ctx := [] }

/-- one op on the model: new state and the expected output token -/
def expectOp (st : St) : HOp → St × String
  | .wm s m =>
    match writeModel isValid nextId st s m with
    | (st', some _) => (st', s!"ok:{accepted st s}")
    | (st', none) => (st', "rej")
  | .rm s rank =>
    match idOfRank st s rank with
    | none => (st, "norank")
    | some id =>
      match readModel st s id with
      | (st', some _) => (st', "same")
      | (st', none) => (st', "notfound")
  | .rx _ => (st, "notfound")
  | .pr s =>
    match resolve id st s none with
    | (st', none) => (st', "nomodel")
    | (st', some (_, ts)) =>
      let h := hits ts (accepted st s)
      (st', match h with
        | [j] => s!"latest={j}"
        | [] => "none"
        | _ => s!"several={joinNat h}")
  | .wt s rank =>
    match resolve id st s none with
    | (st', none) => (st', "rej")
    | (st', some (_, ts)) => (st', if markerWritable ts rank then "ok" else "rej")
  | .lm s => (st, s!"[{joinNat ((List.range (accepted st s)).reverse)}]")
  | .pi s rank =>
    match idOfRank st s rank with
    | none => (st, "norank")
    | some i =>
      match resolve id st s (some i) with
      | (st', none) => (st', "uses=")
      | (st', some (_, ts)) => (st', s!"uses={joinNat (hits ts (accepted st s))}")

def storeOf : HOp → Nat
  | .wm s _ | .rm s _ | .rx s | .pr s | .wt s _ | .lm s | .pi s _ => s

/-- the property, read off the implementation's own answers: a model-less probe must see the marker of the most
recently ACCEPTED write of its store (when that model still declares its marker) -/
def staleCheck (ops : List HOp) (outs : List String) : Option String :=
  let rec go (ops : List HOp) (outs : List String) (last : List (Nat × Nat × Model)) : Option String :=
    match ops, outs with
    | op :: ops', o :: outs' =>
      match op with
      | .wm s m =>
        if o.startsWith "ok:" then
          let r := ((o.drop 3).toString.toNat?).getD 0
          go ops' outs' ((s, r, m) :: last.filter (·.1 ≠ s))
        else go ops' outs' last
      | .pr s =>
        match last.find? (·.1 = s) with
        | some (_, r, m) =>
          if (m.findRel "doc" s!"m{r}").isSome && o.startsWith "latest=" && o != s!"latest={r}" then
            some s!"a request without model id was evaluated against model {(o.drop 7).toString} although model {r} had been written and acknowledged before it"
          else go ops' outs' last
        | none => go ops' outs' last
      | _ => go ops' outs' last
    | _, _ => none
  go ops outs []

def stepH (ts : List String) (impl : String) : String :=
  match (do
    let (_, ts) ← nat ts
    let (n, ts) ← nat ts
    let (ops, _) ← rep hop n ts
    pure ops) with
  | none => "SKIP unparsable-history"
  | some ops =>
    let outs := (impl.splitOn " ").filter (· ≠ "")
    let (_, exp) := ops.foldl (fun (acc : St × List String) op =>
      let (st', o) := expectOp acc.1 op
      (st', acc.2 ++ [o])) (State.empty, [])
    let expected := " ".intercalate exp
    if impl.contains "IDS-NOT-SORTED" || impl.contains "ok-id-not-greater" then
      specViol "WriteAuthorizationModel returned an id that is not greater than the earlier ones of the store"
    else if outs.any (· == "diff") then specViol "ReadAuthorizationModel returned a model different from the one written under that id"
    else if let some why := ((ops.zip outs).filterMap (fun p =>
        match p.1 with
        | .wm _ m => if p.2.startsWith "ok" && !isValid m then some (renderV (validate m)) else none
        | _ => none)).head? then
      specViol s!"WriteAuthorizationModel accepted and persisted a model that fails validation ({why})"
    else match staleCheck ops outs with
      | some why => specViol why
      | none =>
        if impl != expected then modelDiff expected
        else ok ("history-" ++ toString (ops.filter (fun o => match o with | .wm _ _ => true | _ => false)).length ++ "w")
               (ops.any (fun o => match o with | .pr _ => true | .wt _ _ => true | _ => false))

def field (impl key : String) : String :=
  match (impl.splitOn " ").find? (·.startsWith (key ++ "=")) with
  | some f => (f.drop (key.length + 1)).toString
  | none => ""

def step (line impl : String) : String :=
  match fields line with
  | "v" :: ts =>
    match FgaCodec.model ts with
    | none => "SKIP unparsable-model"
    | some (m, _) =>
      let expected := renderV (validate m)
      -- the property behind the entrypoint check, independently of how the code computes it: every relation of an accepted
      -- model can be related to some user (least fixpoint)
      if impl == "ok" && !(unreachable m).isEmpty then
        specViol s!"NewAndValidate accepted a model in which {(unreachable m).map (fun p => p.1 ++ "#" ++ p.2)} can never hold (no entrypoint)"
      else if impl == expected then
        let c := (expected.splitOn " ").headD ""
        -- informational class: rejected for "no entrypoints" although the least fixpoint finds one for every relation
        -- (the visited-map cut-offs of hasEntrypoints are stricter than the semantics; rejecting is always allowed)
        let c := if c.startsWith "no-entrypoints" && (unreachable m).isEmpty then c ++ "-overstrict" else c
        ok ("v-" ++ c) (expected != "ok")
      else if impl == "ok" then
        -- the real validator accepted a model the specification of validation rejects: the consequences other proofs rely
        -- on may be violated; name the class
        specViol s!"NewAndValidate accepted a model that validation must reject ({expected})"
      else modelDiff expected
  | ["sf", n, variant] =>
    -- the model of singleflight (`ModelStore.flightStart` / `flightJoin`): a caller that overlaps a flight which started
    -- before the write is handed the leader's snapshot
    let st0 : St := (List.range (n.toNat?.getD 1)).foldl (fun st _k => (writeModel (fun _ => true) nextId st 0 ({ types := [], conds := [] } : Model)).1) State.empty
    let f := flightStart st0 0
    let st1 := (writeModel (fun _ => true) nextId st0 0 ({ types := [], conds := [] } : Model)).1
    let joined := (flightJoin f).map (·.1)
    let latest := (latestByFlag st1 0).map (·.1)
    let bModel := if variant == "0" then (if joined == latest then "fresh" else "stale") else "fresh"
    let expected := s!"A=fresh B={bModel} C=fresh"
    if field impl "B" == "stale" then
      specViol ("a request without model id that started after WriteAuthorizationModel was acknowledged was evaluated against the older model" ++
        (if variant == "0" then ": F20 singleflight joins an in-flight FindLatestAuthorizationModel that started before the write" else " although no other request was in flight"))
    else if field impl "C" != "fresh" || field impl "A" != "fresh" then specViol "a sequential request without model id did not see the latest model"
    else if impl != expected then modelDiff expected
    else ok ("singleflight-" ++ variant) true
  | "h" :: ts => stepH ts impl
  | _ => "SKIP unknown-kind"

end C17

def main : IO Unit := Proto.run C17.step
