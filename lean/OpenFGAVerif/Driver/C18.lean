/-
Driver for C18: runs `Model.Validation` (what the code does, error class by error class, on the four paths) and
`Spec.Allowed` (what the property demands) on the harness' case lines.

  w lim <n> <fga model> xc … ts … seeds … cand <obj> <rel> <user> (N | Y <cond> <ctx>)
      impl: W=<class>,<readback> K=<class>,<readback> C=<class> L=<class> size=<proto.Size of the context>
  d lim <n> <fga model> xc … ts … seeds … del <obj> <rel> <user>
      impl: D=<class> removed=[seed indices] extra=<n>
-/
import OpenFGAVerif.Driver.Proto
import OpenFGAVerif.Driver.FgaCodec
import OpenFGAVerif.Model.Validation
import OpenFGAVerif.Spec.Allowed
import OpenFGAVerif.Gen.Validation

open OpenFGAVerif OpenFGAVerif.Proto OpenFGAVerif.FgaCodec
open OpenFGAVerif.Model.Validation
open OpenFGAVerif.Model.Condition (PVal TypeRef TypeName Std)

namespace C18

abbrev Bytes := List UInt8

def b (s : String) : Bytes := s.toUTF8.toList

def std0 : Std := { parseDuration := fun _ => none, parseRFC3339 := fun _ => none, parseIP := fun _ => none }

/-- the limit `Server.Write` runs with: the configured default, regenerated from the source -/
def apiLimit : Nat := Gen.Validation.defaultWriteContextByteLimit

/-! ### decoding -/

partial def typeRef (s : String) : TypeRef :=
  match s.splitOn ":" with
  | [] => .mk .unspecified []
  | h :: rest =>
    let name : TypeName := match h with
      | "any" => .any | "bool" => .bool | "string" => .string | "int" => .int | "uint" => .uint | "double" => .double
      | "list" => .list | "map" => .map | "duration" => .duration | "timestamp" => .timestamp | "ipaddress" => .ipaddress
      | _ => .unspecified
    if rest.isEmpty then .mk name [] else .mk name [typeRef (":".intercalate rest)]

def param : P (String × TypeRef) := fun ts => do
  let (n, ts) ← tok ts
  let (t, ts) ← tok ts
  pure ((n, typeRef t), ts)

def xcond : P CondDef := fun ts => do
  let (n, ts) ← tok ts
  let (ps, ts) ← counted param ts
  pure ({ name := b n, params := ps }, ts)

def xconds : P (List CondDef) := fun ts => do
  let (_, ts) ← expect "xc" ts
  counted xcond ts

def tuplesets : P (List String) := fun ts => do
  let (_, ts) ← expect "ts" ts
  counted tok ts

def seed : P (Bytes × Bytes × Bytes) := fun ts => do
  let (o, ts) ← tok ts
  let (r, ts) ← tok ts
  let (u, ts) ← tok ts
  pure ((b o, b r, b u), ts)

def seeds : P (List (Bytes × Bytes × Bytes)) := fun ts => do
  let (_, ts) ← expect "seeds" ts
  counted seed ts

def hexTok : P Bytes := fun ts => do
  let (h, ts) ← tok ts
  let bs ← unhex h
  pure (bs, ts)

def keyTok : P String := fun ts => do
  let (bs, ts) ← hexTok ts
  pure (String.fromUTF8! (ByteArray.mk bs.toArray), ts)

def value : Nat → P PVal
  | 0 => fun _ => none
  | f + 1 => fun ts => do
    let (t, ts) ← tok ts
    let rest := (t.drop 1).toString
    match t.front with
    | 'n' => pure (.null, ts)
    | 'f' => do let n ← rest.toNat?; pure (.num n, ts)
    | 's' => do let bs ← unhex rest; pure (.str bs, ts)
    | 'R' =>
      match rest.splitOn ":" with
      | [l, c] => do let l ← l.toNat?; let c ← c.toNat?; pure (.str (List.replicate l (UInt8.ofNat c)), ts)
      | _ => none
    | 'b' => pure (.bool (rest == "1"), ts)
    | 'l' => do
      let n ← rest.toNat?
      let (xs, ts) ← rep (value f) n ts
      pure (.list xs, ts)
    | 'o' => do
      let n ← rest.toNat?
      let (xs, ts) ← rep (fun ts => do
        let (k, ts) ← keyTok ts
        let (v, ts) ← value f ts
        pure ((k, v), ts)) n ts
      pure (.struct xs, ts)
    | _ => none

def ctx : P (List (String × PVal)) := fun ts =>
  counted (fun ts => do
    let (k, ts) ← keyTok ts
    let (v, ts) ← value ts.length ts
    pure ((k, v), ts)) ts

def cand : P Tuple := fun ts => do
  let (_, ts) ← expect "cand" ts
  let (o, ts) ← hexTok ts
  let (r, ts) ← hexTok ts
  let (u, ts) ← hexTok ts
  let (f, ts) ← tok ts
  if f == "Y" then do
    let (n, ts) ← hexTok ts
    let (c, ts) ← ctx ts
    pure ({ obj := o, rel := r, user := u, cond := some (n, c) }, ts)
  else pure ({ obj := o, rel := r, user := u, cond := none }, ts)

/-- the vocabulary model + the extra conditions + the dumped tupleset table → the validation model -/
def convert (vm : Vocab.Model) (xs : List CondDef) (tss : List String) : Model :=
  { types := vm.types.map (fun td =>
      { name := b td.name,
        rels := td.rels.map (fun rd =>
          { name := b rd.name,
            direct := (match rd.rewrite with | .this => true | _ => false),
            restrs := rd.restrs.map (fun x =>
              { typ := b x.typ, kind := (if x.wild then .wild else if x.rel ≠ "" then .rel (b x.rel) else .obj), cond := b x.cond }) }),
        tuplesets := tss.filterMap (fun s => match s.splitOn "#" with
          | [t, r] => if t = td.name then some (b r) else none
          | _ => none) }),
    conds := vm.conds.map (fun c => { name := b c.name, params := [(c.param, TypeRef.mk .int [])] }) ++ xs }

structure Case where
  kind : String
  lim : Nat
  model : Model
  seeds : List (Bytes × Bytes × Bytes)
  rest : List String

def parse (line : String) : Option Case := do
  let ts := fields line
  let (kind, ts) ← tok ts
  let (_, ts) ← expect "lim" ts
  let (lim, ts) ← nat ts
  let (vm, ts) ← FgaCodec.model ts
  let (xs, ts) ← xconds ts
  let (tss, ts) ← tuplesets ts
  let (sd, ts) ← seeds ts
  pure { kind := kind, lim := lim, model := convert vm xs tss, seeds := sd, rest := ts }

/-! ### expected outputs -/

def cls : R → String
  | .ok _ => "ok"
  | .error e => e.name

def withRb (r : R) : String := cls r ++ "," ++ (match r with | .ok _ => "both" | .error _ => "same")

def expectW (c : Case) (t : Tuple) : String :=
  s!"W={withRb (apiWrite std0 apiLimit c.model t)} K={withRb (writeCheck std0 c.lim c.model t)} " ++
  s!"C={cls (apiContextual std0 c.model t)} L={cls (apiContextual std0 c.model t)} size={ctxSize t}"

def field (impl key : String) : String :=
  match (impl.splitOn " ").find? (·.startsWith (key ++ "=")) with
  | some f => (f.drop (key.length + 1)).toString
  | none => ""

/-- why the loosely accepted tuple is not allowed -/
def gapReason (_m : Model) (t : Tuple) : String :=
  match t.cond with
  | some _ => "a conditioned tuple whose matching type restriction does not carry that condition (the condition was found on another restriction of the same user type): F16 condition checked against the user type only"
  | none => "an unconditioned tuple whose matching type restriction requires a condition (an unconditioned plain restriction of the same user type let it through): F16 condition checked against the user type only"

def stepW (c : Case) (t : Tuple) (impl : String) : String :=
  let expected := expectW c t
  -- a rejected write must not change the store, whatever the model says
  let rejChanged := fun (p : String) =>
    let f := field impl p
    !f.startsWith "ok," && !f.endsWith ",same"
  if rejChanged "W" || rejChanged "K" then specViol "a rejected write changed the store (read-back differs)"
  else
    let sp := Spec.Allowed.allowed std0 c.lim c.model t          -- the property, limit of the command
    let spApi := Spec.Allowed.allowed std0 apiLimit c.model t    -- the property, limit of the API
    let mK := writeCheck std0 c.lim c.model t
    let mW := apiWrite std0 apiLimit c.model t
    let mC := apiContextual std0 c.model t
    let isOk := fun (r : R) => match r with | .ok _ => true | .error _ => false
    -- the implementation against the PROPERTY, path by path; where the model (= the code as written today) agrees with the
    -- implementation the deviation is one of the recorded findings, otherwise it is new
    let judge := fun (path : String) (implOk : Bool) (implCls : String) (spec : Bool) (model : R) (reachable : Bool) =>
      if implOk && !spec then
        if isOk model then
          (if path == "contextual" && t.user == t.obj ++ 35 :: t.rel then
             some "the contextual-tuple path accepted a userset that points at the tuple itself (Write rejects it as implicit): F8 contextual tuples skip the write-only checks"
           else if path == "contextual" && ctxSize t > apiLimit then
             some "the contextual-tuple path accepted a condition context above the write size limit: F8 contextual tuples skip the write-only checks"
           else some (path ++ " accepted " ++ gapReason c.model t))
        else some (path ++ " accepted a tuple the model does not allow (validation as modelled rejects it: " ++ cls model ++ ")")
      else if !implOk && spec && reachable then
        some (path ++ " rejected a tuple the model allows (" ++ implCls ++ ")")
      else none
    let fK := field impl "K"
    let fW := field impl "W"
    let fC := field impl "C"
    let fL := field impl "L"
    let verdicts := [
      judge "Write" (fK.startsWith "ok,") ((fK.splitOn ",").headD "") sp mK true,
      judge "Write (API)" (fW.startsWith "ok,") ((fW.splitOn ",").headD "") spApi mW (protoTuple t),
      judge "contextual" (fC == "ok") fC spApi mC (protoTuple t),
      judge "contextual" (fL == "ok") fL spApi mC (protoTuple t)]
    match verdicts.filterMap id with
    | why :: _ => specViol why
    | [] =>
      if impl != expected then modelDiff expected
      else ok ("w-" ++ (fK.splitOn ",").headD "") (fK != "ok,both" || t.cond.isSome)

def stepD (c : Case) (o r u : Bytes) (impl : String) : String :=
  let v := apiDelete o r u
  let idx := List.range c.seeds.length
  let matched := idx.filter (fun i =>
    match c.seeds[i]? with
    | some (so, sr, su) => memMatch so sr su o r u
    | none => false)
  -- the tuple the key names (at most one seed)
  let named := idx.filter (fun i =>
    match c.seeds[i]? with
    | some (so, sr, su) => so == o && sr == r && su == u
    | none => false)
  let namedStr := "[" ++ ",".intercalate (named.map toString) ++ "]"
  let expected :=
    match v with
    | .error e => s!"D={e.name} removed=[] extra=0"
    | .ok _ =>
      if matched.isEmpty then "D=storage-invalid removed=[] extra=0"
      else s!"D=ok removed=[{",".intercalate (matched.map toString)}] extra=0"
  -- the property's side first, independently of the model: a delete removes at most the tuple it names, a rejected
  -- delete removes nothing
  let removed := field impl "removed"
  let d := field impl "D"
  if d == "ok" && removed != namedStr then
    specViol s!"a delete key removed tuples it does not name (removed={removed}, named={namedStr}): F17 deletes are only checked for a well-formed user and the memory backend matches empty fields as wildcards"
  else if d != "ok" && removed != "[]" then specViol "a rejected delete changed the store"
  else if field impl "extra" != "0" then specViol "a delete changed tuples other than the seeded ones"
  else if impl != expected then modelDiff expected
  else ok ("d-" ++ (if d == "ok" then "removed-one" else d)) true

def step (line impl : String) : String :=
  match parse line with
  | none => "SKIP unparsable-case"
  | some c =>
    if c.kind == "w" then
      match cand c.rest with
      | some (t, _) => stepW c t impl
      | none => "SKIP unparsable-candidate"
    else if c.kind == "d" then
      match (do
        let (_, ts) ← expect "del" c.rest
        let (o, ts) ← hexTok ts
        let (r, ts) ← hexTok ts
        let (u, _) ← hexTok ts
        pure (o, r, u)) with
      | some (o, r, u) => stepD c o r u impl
      | none => "SKIP unparsable-delete"
    else "SKIP unknown-kind"

end C18

def main : IO Unit := Proto.run C18.step
