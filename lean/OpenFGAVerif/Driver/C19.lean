/-
Driver for C19: judges the observations of the malformed stream (supporting evidence — the proof part of C19 is
the site review of Props/C19.lean).  A request that panics, takes longer than the bound, allocates more than the
bound or is answered with an *internal* error instead of a validation error / normal answer contradicts the property.
-/
import OpenFGAVerif.Driver.Proto

open OpenFGAVerif OpenFGAVerif.Proto

namespace OpenFGAVerif.DriverC19

def kv (toks : List String) (k : String) : String :=
  match toks.find? (fun t => t.startsWith (k ++ "=")) with
  | some t => (t.drop (k.length + 1)).toString
  | none => ""

def step (c impl : String) : String :=
  match fields c with
  | "c19" :: kind :: _seed :: _ =>
    if kind = "f26" && !(impl.startsWith "PANIC") && kv (fields impl) "codes" ≠ "WriteAuthorizationModel:2056" then
      specViol s!"crafted F26 input (type restriction with an empty relation / wildcard oneof): expected the validation error 2056, got {kv (fields impl) "codes"}"
    else if kind = "f26" && !(impl.startsWith "PANIC") then ok "f26-empty-oneof-rejected-as-invalid-model"
    else if kind = "f27" && kv (fields impl) "codes" = "ListStores:2007,ReadAuthorizationModels:2007" then ok "f27-bogus-token-rejected-as-invalid-token"
    else if kind = "f27" && (kv (fields impl) "internal") = "" && !(impl.startsWith "PANIC") then
      specViol s!"crafted F27 input (bogus base64 continuation token): expected invalid_continuation_token 2007 twice, got {kv (fields impl) "codes"}"
    else if impl.startsWith "PANIC" then
      specViol s!"panic in the request goroutine of a {kind} request: {(impl.drop 6).toString}"
    else if impl.startsWith "bad" || impl.startsWith "skipped" then "SKIP " ++ impl
    else
      let toks := fields impl
      let codes := (kv toks "codes").splitOn ","
      let slow := kv toks "slow"
      let big := kv toks "big"
      let internal := kv toks "internal"
      if slow ≠ "" && kind = "wide" then
        specViol s!"hang: {slow} — 300 parents/usersets, the user is allowed through the first one, no deadline: the answer is known after the first sub-check but the request only returns when the caller's context ends"
      else if kind = "wide" && internal ≠ "" then specViol s!"wide fan-out with an early hit was not answered `allowed`: {internal}"
      else if slow ≠ "" then specViol s!"slow: {slow} of a {kind} case took longer than the time bound (20 s; hostile input must be answered quickly)"
      else if big ≠ "" then
        specViol (s!"memory: {big} of a {kind} case allocated more than 1.5 GB" ++
          (if (big.splitOn "WriteAuthorizationModel").length > 1 then
             " — super-linear model validation (maps.Clone per step of hasCycle / hasEntrypoints), same root cause as slow: WriteAuthorizationModel"
           else ""))
      else if codes.any (fun cd => cd.endsWith "!panic") then
        specViol s!"a recovered panic was reported as an error by {kind}: {kv toks "codes"}"
      else if internal ≠ "" then
        specViol s!"internal error instead of a validation error: {internal}"
      else
        let passed := codes.any (fun cd => cd.endsWith ":0")
        let deep := codes.any (fun cd => !(cd.endsWith ":0") && !(cd.endsWith ":3"))
        ok (kind ++ (if passed && deep then "-answered+rejected" else if passed then "-answered" else if deep then "-rejected-by-engine" else "-rejected-by-validator"))
          (passed || deep)
  | _ => "SKIP unparsable-case"

end OpenFGAVerif.DriverC19

def main : IO Unit := OpenFGAVerif.Proto.run OpenFGAVerif.DriverC19.step
