/-
Driver for C20.  Two jobs:

1. validate, on every generated model, the decidable hypothesis of the termination theorem
   (`CheckV1Termination.rankOK` with the candidate table `rankTable`) and, for the cases that carry tuples and a
   request, run the model of the engine with `checkFuelBound` fuel and confirm it does not report fuel exhaustion
   (`C20.check_terminates`);
2. judge the runtime measurements of the harness (supporting evidence): a call that returned too late / never,
   goroutines that did not go away, or datastore iterators that were still open after the call returned (iterator
   accounting wrapper of the harness, `it=open:N:kinds`) contradict the property.
-/
import OpenFGAVerif.Driver.Proto
import OpenFGAVerif.Driver.FgaCodec
import OpenFGAVerif.Model.CheckV1
import OpenFGAVerif.Proofs.CheckV1Termination

open OpenFGAVerif OpenFGAVerif.Proto OpenFGAVerif.Vocab OpenFGAVerif.CheckV1

namespace OpenFGAVerif.DriverC20

def kv (toks : List String) (k : String) : String :=
  match toks.find? (fun t => t.startsWith (k ++ "=")) with
  | some t => (t.drop (k.length + 1)).toString
  | none => ""

def relCount (m : Model) : Nat := m.types.foldl (fun acc t => acc + t.rels.length) 0

def step (c impl : String) : String :=
  if impl.startsWith "setup-error" then "SKIP " ++ (impl.take 80).toString
  else
  match fields c with
  | "c20" :: cfg :: family :: p1 :: p2 :: rpc :: _variant :: mode :: ms :: rest =>
    match FgaCodec.model rest with
    | none => "SKIP unparsable-model"
    | some (m, rest) =>
      let rk := CheckV1Termination.rankTable m
      let R := relCount m
      if !CheckV1Termination.rankOK m rk R then
        modelDiff "assumption NoComputedCycle (rankOK) fails on a model the typesystem accepted"
      else
        -- the model of the engine on the small cases: never the fuel-exhaustion outcome
        let fuelOK : Bool :=
          if family = "rand" then
            match FgaCodec.tuples "tuples" rest with
            | some (ts, rest) =>
              match FgaCodec.req rest with
              | some (rq, _) =>
                let w : World := { model := m, aux := [], stored := ts, ctxTuples := [], req := rq }
                let fuel := CheckV1Termination.checkFuelBound m 25 R
                (check w 25 {} fuel != .err .abort) && (check w 25 { reverse := true, baseFirst := false } fuel != .err .abort)
              | none => true
            | none => true
          else true
        if !fuelOK then modelDiff "the engine model ran out of fuel below checkFuelBound (contradicts C20.check_terminates)"
        else
          let toks := fields impl
          let res := kv toks "res"
          let t := kv toks "t"
          let g := kv toks "g"
          let it := kv toks "it"
          let fault := if family = "res" && p2 ≠ "-" then s!", datastore fault {p2}" else ""
          let what := s!"{rpc} (cfg={cfg}, {family} {p1}, mode={mode} {ms}ms{fault})"
          if res = "memory-guard" then specViol s!"memory: the heap of the harness process exceeded 10 GB ({kv toks "heapGB"} GB in use) — something started for earlier requests keeps allocating"
          else if res = "skipped" then "SKIP known hang shape (pipeline, repeated direct-assignment leaf) already observed in this run"
          else if res.startsWith "PANIC" then specViol s!"panic escaped {what}: {res}"
          else if t = "hang" then
            if cfg = "pipe" && (rpc = "listobjects" || rpc = "streamed") && kv toks "dup" = "1" then
              specViol s!"hang: pipeline {what} never returned — model with a repeated direct-assignment leaf in a self-referencing relation; stacks {kv toks "stk"}"
            else specViol s!"hang: {what} had not returned long after its deadline; stacks {kv toks "stk"}"
          else if t = "late" then specViol s!"late: {what} returned later than deadline + 15 s slack (three times in a row)"
          else if g.startsWith "leak" then specViol s!"goroutine {g} after {what} returned (repeated on re-run); parked in {kv toks "stk"}"
          else if it.startsWith "open" then
            specViol s!"iterator leak: datastore iterators still open 3 s after {what} returned (count:kinds = {(it.drop 5).toString})"
          else if t = "ontime" && (g = "ok" || g = "lazy") then
            let interrupted := res = "deadline" || res = "canceled" || res = "E4004" || res = "E2058" || (fault ≠ "" && !(res.startsWith "ok"))
            let big := family != "rand" && (p1.toNat?.getD 0) ≥ 10
            ok (s!"{rpc}-{mode}-" ++ (if interrupted then "interrupted" else if res.startsWith "ok" then "answered" else "error"))
              (interrupted || big)
          else modelDiff "unexpected harness output"
  | _ => "SKIP unparsable-case"

end OpenFGAVerif.DriverC20

def main : IO Unit := OpenFGAVerif.Proto.run OpenFGAVerif.DriverC20.step
