/-
Driver for C21: replays the harness' cases on `Model.Cycle` (with the per-`Join` increment count from `Gen.Cycle`)
and checks the property on what the real code did.

  pool / raw   single-goroutine scripts on the real StatusPool / CycleGroup: observations must equal the model's
  sched        a schedule of the protocol executed on the real CycleGroup: it is replayed with `step` on the *proved*
               model (`init t 1`); every observation of the implementation must agree (a disagreement is a violation of
               quiescence soundness or of teardown liveness, reported with the schedule)
  pipe         a real pipeline run on a cyclic authorization model: result = least fixpoint over the tuples, the run
               terminated, and (trace inclusion) the recorded event trace of every cycle group is a run of the
               transition system; independent property checks on the trace itself
  search       bounded search of the transition system (built with the extracted increment count) for a bad interleaving
-/
import OpenFGAVerif.Driver.Proto
import OpenFGAVerif.Model.Cycle
import OpenFGAVerif.Gen.Cycle

open OpenFGAVerif OpenFGAVerif.Proto OpenFGAVerif.Model.Cycle

namespace C21Driver

def bitsOf (l : List Bool) : String := String.ofList (l.map fun b => if b then '1' else '0')

def natOf (s : String) : Option Nat := s.toNat?

/-- "0>1.2;1>0" -> outs -/
def parseOuts (s : String) : Option (Nat → List (Option Nat)) :=
  if s == "-" then some (fun _ => []) else
  let parts := s.splitOn ";"
  let parsed := parts.mapM fun p =>
    match p.splitOn ">" with
    | [i, ds] => do
        let i ← natOf i
        let ds ← (ds.splitOn ".").mapM fun d => if d == "x" then some none else (natOf d).map some
        pure (i, ds)
    | _ => none
  parsed.map fun l => fun i => (l.find? (fun p => p.1 == i)).map (·.2) |>.getD []

def mkTopo (n : Nat) (outs : Nat → List (Option Nat)) : Topo :=
  { n := n, outs := fun i => (outs i).map (fun d => d.getD n) }  -- a foreign consumer is mapped outside `0..n-1`

def hasForeign (n : Nat) (outs : Nat → List (Option Nat)) : Bool :=
  (List.range n).any fun i => (outs i).any (·.isNone)

/-- field "key=value" lookup in a space separated output -/
def field (fs : List String) (key : String) : Option String :=
  fs.findSome? fun f => if f.startsWith (key ++ "=") then some (f.drop (key.length + 1)).toString else none

def splitOp (op : String) : Char × String := (op.front, (op.drop 1).toString)

/-- "3.1=7" / "3.1" / "3=7" / "3" -/
def parseIdx (s : String) : Option (Nat × Nat × Option Int) :=
  let (lhs, v) := match s.splitOn "=" with
    | [a, b] => (a, b.toInt?)
    | _ => (s, none)
  match lhs.splitOn "." with
  | [i, k] => do pure ((← natOf i), (← natOf k), v)
  | [i] => do pure ((← natOf i), 0, v)
  | _ => none

/-! ### pool scripts -/

def poolDec (p : Pool) : Pool :=
  let (p', z) := p.decAdd
  if z then p'.latchSwap else p'

def poolOp (p : Pool) (op : String) : Option Pool :=
  if op == "g" then some p.register else
  let (c, r) := splitOp op
  match natOf r with
  | none => none
  | some r =>
    if c == 'i' then some p.inc
    else if c == 'd' then some (poolDec p)
    else if c == 'r' then some (p.set r)
    else none

def runPoolScript (ops : List String) : Option (List Bool) :=
  let rec go (p : Pool) (ops : List String) (acc : List Bool) : Option (List Bool) :=
    match ops with
    | [] => some acc.reverse
    | o :: os => match poolOp p o with
      | none => none
      | some p' => go p' os (p'.waitPassable :: acc)
  let p0 : Pool := {}
  go p0 ops [p0.waitPassable]

def firstDiff (a b : String) : Nat :=
  let rec go : List Char → List Char → Nat → Nat
    | x :: xs, y :: ys, i => if x == y then go xs ys (i + 1) else i
    | _, _, i => i
  go a.toList b.toList 0

def obsVerdict (kind : String) (expected impl : String) (nt : Bool) : String :=
  if expected == impl then ok kind nt
  else
    let i := firstDiff expected impl
    let e := (expected.toList.drop i).head?
    if e == some '0' then
      specViol s!"{kind}: Wait/WaitForAllReady is passable after step {i} of the script although some source has not reported or the in-flight count has not reached zero (premature quiescence); expected obs={expected}"
    else if e == some '1' then
      specViol s!"{kind}: Wait/WaitForAllReady still blocks after step {i} of the script although every source reported and the in-flight count reached zero (teardown cannot complete); expected obs={expected}"
    else modelDiff s!"obs={expected}"

/-! ### CycleGroup scripts -/

/-- primitive-level semantics of the Membership API (no protocol guards): used for `raw` scripts -/
structure RawSt where
  pool : Pool
  woken : Nat → Bool

def rawInit (n : Nat) (incPerJoin : Nat) : RawSt :=
  let p := (List.range n).foldl (fun (p : Pool) _ => (List.range incPerJoin).foldl (fun q _ => q.inc) p.register) {}
  { pool := p, woken := fun _ => false }

def rawOp (t : Topo) (s : RawSt) (op : String) : Option RawSt :=
  let (c, r) := splitOp op
  match parseIdx r with
  | none => none
  | some (i, _, _) =>
    if c == 'I' then some { s with pool := s.pool.inc }
    else if c == 'D' then some { s with pool := poolDec s.pool }
    else if c == 'Y' then some { s with pool := poolDec (s.pool.set i) }
    else if c == 'W' then some s
    else if c == 'K' then some { s with woken := upd s.woken (t.next i) true }
    else none

def expectedRing (t : Topo) : String := ",".intercalate ((List.range t.n).map fun i => toString (t.next i))

def runRaw (n : Nat) (ops : List String) : Option (String × String) :=
  let t : Topo := { n := n, outs := fun _ => [] }
  let rec go (s : RawSt) (ops : List String) (obs : List Bool) (wk : List String) : Option (String × String) :=
    match ops with
    | [] => some (bitsOf obs.reverse, if wk.isEmpty then "-" else ",".intercalate wk.reverse)
    | o :: os => match rawOp t s o with
      | none => none
      | some s' =>
        let wk' := if o.front == 'K' then bitsOf ((List.range n).map s'.woken) :: wk else wk
        go s' os (s'.pool.waitPassable :: obs) wk'
  let s0 := rawInit n Gen.Cycle.joinIncCount
  go s0 ops [s0.pool.waitPassable] []

/-- run a list of model actions -/
def runActs (t : Topo) (s : St) (as : List Act) : Option St := run t s as

def latchIfPending (s : St) : List Act := if s.pendingLatch > 0 then [.latch] else []

/-- the model actions of one `sched` op -/
def schedActs (t : Topo) (s : St) (op : String) : Option St :=
  let (c, r) := splitOp op
  match parseIdx r with
  | none => none
  | some (i, k, _) =>
    if c == 'I' then step t s (.msgInc i k)
    else if c == 'D' then (step t s (.msgDone i k)).bind fun s1 => runActs t s1 (latchIfPending s1)
    else if c == 'Y' then
      (runActs t s [.report i, .srDec i]).bind fun s1 => runActs t s1 (latchIfPending s1)
    else if c == 'W' then step t s (.waitDone i)
    else if c == 'K' then
      let first := if i = t.leader then Act.beginCleanup i else Act.sleepDone i
      (step t s first).bind fun s1 =>
        (runActs t s1 (List.replicate (t.nl i - s1.closed i) (.closeNext i))).bind fun s2 => step t s2 (.wake i)
    else none

def describe (t : Topo) (s : St) : String :=
  let nr := (List.range t.n).filter fun i => s.pc i == .running || s.pc i == .reported
  s!"members not ready={nr} cyclical messages in flight={s.msgs.length} inflight={s.pool.inflight}"

def runSched (t : Topo) (ops : List String) (implObs : String) (implWk : List String) : String :=
  let rec go (s : St) (ops : List String) (j : Nat) (obs : List Char) (wk : List String) (nInc : Nat) : String :=
    match ops with
    | [] => ok "sched" (decide (nInc > 0 ∧ t.n > 1))
    | o :: os =>
      match schedActs t s o with
      | none => s!"SKIP schedule not valid for the transition system at op {j} ({o})"
      | some s' =>
        let exp := s'.pool.waitPassable
        match obs with
        | [] => modelDiff "observation string too short"
        | b :: obs' =>
          if (b == '1') != exp then
            if exp then specViol s!"sched: after op {j} ({o}) the group is quiescent ({describe t s'}) but WaitForAllReady still blocks: teardown cannot complete"
            else specViol s!"sched: after op {j} ({o}) WaitForAllReady is passable although the group is not quiescent ({describe t s'}): premature teardown"
          else if o.front == 'K' then
            let expW := bitsOf ((List.range t.n).map s'.woken)
            match wk with
            | [] => modelDiff "woken list too short"
            | w :: wk' =>
              if w != expW then specViol s!"sched: after op {j} ({o}) woken members are {w}, the wake-up chain requires {expW}"
              else go s' os (j + 1) obs' wk' nInc
          else go s' os (j + 1) obs' wk (if o.front == 'I' then nInc + 1 else nInc)
  let s0 := init t 1
  match implObs.toList with
  | [] => modelDiff "no observations"
  | b :: rest =>
    if b == '1' then specViol "sched: WaitForAllReady passable right after Join" else go s0 ops 0 rest implWk 0

/-! ### expected ListObjects answer (least fixpoint over the tuples) -/

structure Tup where
  obj : String
  rel : String
  subj : String

def parseTuple (s : String) : Option Tup :=
  match s.splitOn "@" with
  | [orl, subj] =>
    match orl.splitOn "#" with
    | [o, r] => some ⟨o, r, subj⟩
    | _ => none
  | _ => none

def typeOf (o : String) : String := (o.splitOn ":").headD ""

/-- dataflow equations of the harness' model families: base facts (nodes `obj#rel` that contain the user directly) and
edges `from → to` between nodes -/
def equations (shape : String) (user : String) (ts : List Tup) : List String × List (String × String) :=
  ts.foldl (fun (acc : List String × List (String × String)) t =>
    let node := t.obj ++ "#" ++ t.rel
    if shape == "ttu" then
      if t.rel == "employee" then
        (if t.subj == "user:" ++ user then (node :: acc.1, acc.2) else acc)
      else if t.rel == "parent" then
        let target := if typeOf t.obj == "document" then t.obj ++ "#viewer" else t.obj ++ "#employee"
        (acc.1, (t.subj ++ "#employee", target) :: acc.2)
      else acc
    else
      if t.subj == "user:" ++ user then (node :: acc.1, acc.2)
      else if t.subj.contains '#' then (acc.1, (t.subj, node) :: acc.2)
      else acc) ([], [])

def lfp (base : List String) (edges : List (String × String)) : List String :=
  let rec go (fuel : Nat) (cur : List String) : List String :=
    match fuel with
    | 0 => cur
    | f + 1 =>
      let next := edges.foldl (fun acc e => if acc.contains e.1 && !acc.contains e.2 then e.2 :: acc else acc) cur
      if next.length == cur.length then cur else go f next
  go (edges.length + 1) base.eraseDups

def insertSorted (x : String) : List String → List String
  | [] => [x]
  | y :: ys => if x < y then x :: y :: ys else if x == y then y :: ys else y :: insertSorted x ys

def sortDedup (l : List String) : List String := l.foldl (fun acc x => insertSorted x acc) []

def expectedObjects (shape objType relation user : String) (ts : List Tup) : List String :=
  let (base, edges) := equations shape user ts
  let reach := lfp base edges
  sortDedup (reach.filterMap fun nd =>
    match nd.splitOn "#" with
    | [o, r] => if r == relation && typeOf o == objType then some o else none
    | _ => none)

/-! ### trace acceptance -/

structure Book where
  stdDone : List Nat := []
  sDone : List Nat := []
  live : Nat := 0
  latchClosed : Bool := false
  wakers : List Nat := []
  exited : List Nat := []

def allIn (n : Nat) (l : List Nat) : Bool := (List.range n).all l.contains

/-- property checks on the token stream alone (no model) -/
def specScan (n : Nat) (toks : List String) (finished : Bool) : Option String :=
  let rec go (b : Book) (toks : List String) (p : Nat) : Option String :=
    match toks with
    | [] =>
      if finished && !allIn n b.exited then some s!"group of {n}: Execute of member(s) {(List.range n).filter (fun i => !b.exited.contains i)} never returned"
      else none
    | tk :: rest =>
      let (c, r) := splitOp tk
      let quies := allIn n b.stdDone && allIn n b.sDone && b.live == 0
      match parseIdx ((r.splitOn ">").headD r |>.replace "+" "") with
      | none =>
        if tk == "L+" then
          if quies then go { b with latchClosed := true } rest (p + 1)
          else some s!"token {p}: quiescence latch closed while standard inputs exhausted for {b.stdDone}, SignalReady done for {b.sDone} of {n} members and {b.live} cyclical message(s) in flight"
        else go b rest (p + 1)
      | some (i, _, _) =>
        if c == 'T' then go { b with stdDone := i :: b.stdDone } rest (p + 1)
        else if c == 'S' then go { b with sDone := i :: b.sDone } rest (p + 1)
        else if c == 'I' then
          if b.latchClosed then some s!"token {p}: cyclical message created by member {i} after the quiescence latch closed"
          else go { b with live := b.live + 1 } rest (p + 1)
        else if c == 'D' then go { b with live := b.live - 1 } rest (p + 1)
        else if c == 'W' || c == 'Z' || c == 'B' then
          if !b.latchClosed || !quies then
            some s!"token {p} ({tk}): member {i} proceeds to teardown although the group is not quiescent (latch closed={b.latchClosed}, in flight={b.live}, ready={b.sDone})"
          else if c == 'B' && i + 1 < n && !b.wakers.contains (i + 1) then
            some s!"token {p} ({tk}): member {i} starts its cleanup before its predecessor {i + 1} closed its listeners and woke it (leader-first order)"
          else go b rest (p + 1)
        else if c == 'K' then go { b with wakers := i :: b.wakers } rest (p + 1)
        else if c == 'X' then go { b with exited := i :: b.exited } rest (p + 1)
        else go b rest (p + 1)
  go {} toks 0

def summary (t : Topo) (s : St) : String :=
  let pcs := (List.range t.n).map fun i => reprStr (s.pc i)
  s!"pcs={pcs} inflight={s.pool.inflight} msgs={s.msgs.length} pendingLatch={s.pendingLatch} qClosed={s.pool.qClosed} readyClosed={s.pool.readyClosed}"

/-- one token -> model actions; `none` = not enabled / value mismatch, with an explanation -/
def acceptTok (t : Topo) (s : St) (tk : String) : Except String St :=
  let (c, r) := splitOp tk
  let fail (why : String) : Except String St := .error s!"{tk}: {why}; model state {summary t s}"
  let stepE (a : Act) (s : St) : Except String St :=
    match step t s a with
    | some s' => .ok s'
    | none => .error s!"{tk}: action {reprStr a} is not enabled; model state {summary t s}"
  if tk == "L+" || tk == "L-" then do
    let s' ← stepE .latch s
    if (s'.pool.qClosed && !s.pool.qClosed) != (tk == "L+") then fail "latch result differs" else pure s'
  else if c == '?' then fail "event could not be attributed"
  else if c == 'K' then
    match r.splitOn ">" with
    | [a, b] =>
      let plus := b.endsWith "+"
      match natOf a, natOf (b.replace "+" "") with
      | some i, some j => do
        if j != t.next i then fail s!"member {i} woke {j}, its successor is {t.next i}" else
        let s' ← stepE (.wake i) s
        if plus == s.woken j then fail "first-wake flag differs" else pure s'
      | _, _ => fail "unparsable"
    | _ => fail "unparsable"
  else
    let plus := r.endsWith "+"
    match parseIdx (r.replace "+" "") with
    | none => fail "unparsable"
    | some (i, k, v) =>
      let checkV (s' : St) : Except String St :=
        match v with
        | some v => if s'.pool.inflight == v then .ok s' else .error s!"{tk}: counter value {v} but the model has {s'.pool.inflight}"
        | none => .ok s'
      if c == 'T' then (if s.pc i == .running then .ok s else fail "standard senders finished twice / too late")
      else if c == 'R' then do
        let s' ← stepE (.report i) s
        if (s'.pool.readyClosed && !s.pool.readyClosed) != plus then fail "ready-channel result differs" else pure s'
      else if c == 'S' then do checkV (← stepE (.srDec i) s)
      else if c == 'I' then do checkV (← stepE (.msgInc i k) s)
      else if c == 'D' then do checkV (← stepE (.msgDone i k) s)
      else if c == 'W' then stepE (.waitDone i) s
      else if c == 'Z' then stepE (.sleepDone i) s
      else if c == 'B' then do
        let s1 ← if i = t.leader then stepE (.beginCleanup i) s else (if s.pc i == .cleaning then .ok s else fail "cleanup before Sleep returned")
        -- the listeners are closed somewhere between B and C: the acceptor closes them at B (earliest point)
        match run t s1 (List.replicate (t.nl i - s1.closed i) (.closeNext i)) with
        | some s2 => pure s2
        | none => fail "closing listeners not enabled"
      else if c == 'C' then (if s.pc i == .cleaning && s.closed i == t.nl i then .ok s else fail "cleanup end without cleanup")
      else if c == 'X' then stepE (.exit i) s
      else fail "unknown token"

def acceptTrace (t : Topo) (toks : List String) : Except String St :=
  let rec go (s : St) (toks : List String) (p : Nat) : Except String St :=
    match toks with
    | [] => .ok s
    | tk :: rest =>
      match acceptTok t s tk with
      | .ok s' => go s' rest (p + 1)
      | .error e => .error s!"token {p} {e}"
  go (init t Gen.Cycle.joinIncCount) toks 0

inductive GV | good (nt : Bool) | viol (m : String) | diff (m : String)

def checkGroup (g : String) (finished : Bool) : GV :=
  match g.splitOn " : " with
  | [hdr, toks] =>
    let fs := fields hdr
    match (field fs "n").bind natOf, (field fs "ji").bind natOf, (field fs "outs").bind parseOuts with
    | some n, some ji, some outs =>
      let toks := if toks.trimAscii.toString == "-" then [] else fields toks
      if ji != n * Gen.Cycle.joinIncCount then .diff s!"{ji} increments during {n} joins"
      else if hasForeign n outs then .diff s!"a cyclical listener of this group is consumed outside the group (outs={(field fs "outs").getD ""})"
      else
        let t := mkTopo n outs
        match specScan n toks finished with
        | some v => .viol v
        | none =>
          match acceptTrace t toks with
          | .error e => .diff s!"trace rejected by the transition system: {e}"
          | .ok s =>
            if finished && !finalB t s then .diff s!"trace accepted but the model is not final: {summary t s}"
            else .good (decide (n > 1) || toks.any (·.startsWith "I"))
    | _, _, _ => .diff ("unparsable group header: " ++ hdr)
  | _ => .diff "unparsable group"

/-- non-cyclical subscriptions whose producer and consumer are members of one cycle group (from the diagnostic `E` part) -/
def intraGroupStandardEdges (parts : List String) : List String :=
  let groups := (parts.filter (·.startsWith "G ")).map fun g =>
    ((field (fields ((g.splitOn " : ").headD "")) "labels").getD "").splitOn ","
  let edges := match parts.find? (·.startsWith "E ") with
    | some e => fields ((e.drop 2).toString)
    | none => []
  edges.filter fun e =>
    !e.endsWith "*" && match e.splitOn ">" with
      | [a, b] => groups.any fun ls => ls.length > 1 && ls.contains a && ls.contains b
      | _ => false

def checkPipe (cf : List String) (impl : String) : String :=
  match cf with
  | shape :: _k :: _e :: _s :: objType :: relation :: _chunk :: _procs :: _buf :: user :: tuples =>
    match tuples.mapM parseTuple with
    | none => "SKIP bad-tuple"
    | some ts =>
      let expected := expectedObjects shape objType relation user ts
      let parts := impl.splitOn " | "
      let headF := fields (parts.headD "")
      let status := headF.headD "?"
      let objs := match headF.drop 1 |>.head? with
        | some "-" => []
        | some o => o.splitOn ","
        | none => []
      let dups := ((field headF "dups").bind natOf).getD 0
      let groups := parts.filter (·.startsWith "G ")
      let hooks := (parts.find? (·.startsWith "hooks=")).getD "hooks=?"
      let finished := status == "ok"
      -- 1. termination
      if status == "skipped-after-timeouts" then "SKIP earlier pipeline runs of this batch did not terminate"
      else if status == "timeout" then
        let stuck := groups.filterMap fun g => match checkGroup g true with
          | .viol m => some m
          | _ => none
        let intra := intraGroupStandardEdges parts
        if !intra.isEmpty then
          specViol s!"pipe: the pipeline did not terminate (teardown incomplete): non-cyclical edge(s) {intra} connect two members of one cycle group, so the consumer waits for a standard sender that its own group only closes at teardown; {stuck}"
        else specViol s!"pipe: the pipeline did not terminate (teardown incomplete); {stuck}"
      else if status.startsWith "HELPER" || status == "PANIC" then modelDiff s!"helper failure: {impl.take 300}"
      else if !finished then modelDiff s!"status ok expected, got {status}"
      else
        -- 2. every derivable object reached the output
        let missing := expected.filter (fun o => !objs.contains o)
        let extra := objs.filter (fun o => !expected.contains o)
        if !missing.isEmpty then specViol s!"pipe: object(s) {missing} derivable through the cycle did not reach the output (got {objs})"
        else if !extra.isEmpty then modelDiff s!"objects {expected}, extra {extra}"
        else if dups > 0 then modelDiff s!"{dups} duplicate results"
        else if hooks.startsWith "hooks=none" then modelDiff s!"no event trace: {hooks}"
        else if groups.isEmpty then modelDiff "no cycle group in the trace"
        else
          -- 3. trace inclusion + property checks on the trace
          let vs := groups.map fun g => checkGroup g finished
          match vs.findSome? (fun v => match v with | .viol m => some m | _ => none) with
          | some m => specViol ("pipe: " ++ m)
          | none =>
            match vs.findSome? (fun v => match v with | .diff m => some m | _ => none) with
            | some m => modelDiff m
            | none =>
              let nt := vs.any (fun v => match v with | .good true => true | _ => false)
              ok (if nt then "pipe-cyclic" else "pipe-acyclic") nt
  | _ => "SKIP bad-pipe-case"

def showAct : Act → String
  | .msgInc i k => s!"I{i}.{k}" | .msgDone i k => s!"D{i}.{k}" | .report i => s!"R{i}" | .srDec i => s!"S{i}"
  | .latch => "L" | .waitDone i => s!"W{i}" | .beginCleanup i => s!"B{i}" | .sleepDone i => s!"Z{i}"
  | .closeNext i => s!"c{i}" | .wake i => s!"K{i}" | .exit i => s!"X{i}"

def stepCase (c impl : String) : String :=
  match fields c with
  | "pool" :: ops =>
    match runPoolScript ops with
    | none => "SKIP bad-pool-script"
    | some obs =>
      let expected := bitsOf obs
      match field (fields impl) "obs" with
      | some o => obsVerdict "pool" expected o (decide (ops.length ≥ 3))
      | none => modelDiff ("obs=" ++ expected)
  | "raw" :: n :: _ :: ops =>
    match natOf n with
    | none => "SKIP bad-raw"
    | some n =>
      match runRaw n ops with
      | none => "SKIP bad-raw-script"
      | some (obs, wk) =>
        let fs := fields impl
        let t : Topo := { n := n, outs := fun _ => [] }
        if field fs "size" != some (toString n) then specViol s!"raw: group size {field fs "size"} after {n} joins"
        else if field fs "ring" != some (expectedRing t) then
          specViol s!"raw: wake-up ring {(field fs "ring").getD "?"}, Join must build {expectedRing t} (Next(i) = i-1, Next(0) = n-1)"
        else if field fs "leader" != some (toString t.leader) then
          specViol s!"raw: leader flag on {(field fs "leader").getD "?"}, the last member to join ({t.leader}) must be the only leader"
        else match field fs "obs", field fs "wk" with
          | some o, some w =>
            if o != obs then obsVerdict "raw" obs o true
            else if w != wk then specViol s!"raw: woken members {w}, Wake must wake exactly the successor: {wk}"
            else ok "raw" (decide (ops.length ≥ 3))
          | _, _ => modelDiff s!"obs={obs} wk={wk}"
  | "sched" :: n :: outs :: ops =>
    match natOf n, parseOuts outs with
    | some n, some outs =>
      let t := mkTopo n outs
      let fs := fields impl
      match field fs "obs", field fs "wk" with
      | some o, some w =>
        if field fs "ring" != some (expectedRing t) || field fs "leader" != some (toString t.leader) then
          specViol s!"sched: ring/leader {impl.take 80}, expected ring={expectedRing t} leader={t.leader}"
        else runSched t ops o (if w == "-" then [] else w.splitOn ",")
      | _, _ => modelDiff ("no observations: " ++ impl.take 200)
    | _, _ => "SKIP bad-sched"
  | ["search", n, outs, depth, incs] =>
    match natOf n, parseOuts outs, natOf depth, natOf incs with
    | some n, some outs, some depth, some incs =>
      let t := mkTopo n outs
      match searchBad t depth incs (init t Gen.Cycle.joinIncCount) with
      | none => ok "search-none" false
      | some sched =>
        specViol s!"search: with {Gen.Cycle.joinIncCount} increment(s) per Join the schedule {sched.map showAct} of the transition system closes the latch or starts a cleanup while the group is not quiescent"
    | _, _, _, _ => "SKIP bad-search"
  | "pipe" :: cf => checkPipe cf impl
  | _ => "SKIP unknown-case"

end C21Driver

def main : IO Unit := Proto.run C21Driver.stepCase
