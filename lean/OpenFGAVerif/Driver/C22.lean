/-
Driver for C22: runs `Model.Mpmc` / `Model.Mpsc` on the harness' scripted histories and prescribed
interleavings (exact comparison with the real queues), and checks the FIFO-channel specification
on the recorded histories of the concurrent stress runs.
-/
import OpenFGAVerif.Driver.Proto
import OpenFGAVerif.Model.Mpmc
import OpenFGAVerif.Model.Mpsc

open OpenFGAVerif OpenFGAVerif.Proto

namespace C22Driver

def natOf (s : String) : Option Nat := s.toNat?
def intOf (s : String) : Option Int := s.toInt?

/-! ### scripted mpmc histories -/
section Mq
open OpenFGAVerif.Model.Mpmc

def lastRes (s : State) : String :=
  match s.log.getLast? with
  | some (.sendRet _ _ true) => "T"
  | some (.sendRet _ _ false) => "F"
  | some (.recvRet _ (some v)) => s!"v{v}"
  | some (.recvRet _ none) => "F"
  | some (.closeRet _) => "ok"
  | some (.growRet _ true) => "ok"
  | some (.growRet _ false) => "err"
  | _ => "?"

/-- one operation by a fresh thread `t`, run to completion; a thread that blocks has its context
cancelled (that is what the harness' cancel-on-park context does) and reports `B` -/
def runOp (s : State) (t : Tid) (op : Op) (preCancel : Bool) : State × String :=
  let s := if preCancel then (act s (.cancel t)).getD s else s
  match act s (.call t op) with
  | none => (s, "?")
  | some s1 =>
    let (s2, fin) := runThread 400 s1 t
    if fin then (s2, lastRes s2)
    else
      let s3 := (act s2 (.cancel t)).getD s2
      let s4 := (act s3 (.ctxWake t)).getD s3
      let (s5, fin2) := runThread 400 s4 t
      (s5, if fin2 then "B" else "STUCK")

def mqTok (s : State) (t : Tid) (tok : String) : Option (State × String) :=
  let rest := (tok.drop 1).toString
  match tok.front with
  | 's' => (natOf rest).map fun v => runOp s t (.send v) false
  | 'S' => (natOf rest).map fun v => runOp s t (.send v) true
  | 'r' => some (runOp s t .recv false)
  | 'R' => some (runOp s t .recv true)
  | 'c' => some (runOp s t .close false)
  | 'g' => (natOf rest).map fun n => runOp s t (.grow n) false
  | _ => none

def mqModel (cap : Nat) (ext : Int) (ops : List String) : Option String :=
  match init cap ext with
  | none => some "new:err"
  | some s0 =>
    let rec go (s : State) (t : Tid) (ops : List String) (acc : List String) : Option (List String) :=
      match ops with
      | [] => some acc.reverse
      | o :: os =>
        match mqTok s t o with
        | none => none
        | some (s', r) => go s' (t + 1) os (s!"{r}:{s'.head - s'.tail}/{s'.cap}" :: acc)
    (go s0 1 ops ["new:ok"]).map (" ".intercalate ·)

end Mq

/-! ### scripted mpsc histories -/
section Aq
open OpenFGAVerif.Model.Mpsc

def aLastRes (s : State) : String :=
  match s.log.getLast? with
  | some (.sendRet _ _ true) => "T"
  | some (.sendRet _ _ false) => "F"
  | some (.recvRet _ (some v)) => s!"v{v}"
  | some (.recvRet _ none) => "F"
  | some (.closeRet _) => "ok"
  | _ => "?"

def aRunOp (s : State) (t : Tid) (op : Op) : State × String :=
  match act s (.call t op) with
  | none => (s, "?")
  | some s1 =>
    let (s2, fin) := runThread 100 s1 t
    if fin then (s2, aLastRes s2)
    else
      let s3 := (act s2 (.cancel t)).getD s2
      match act s3 (.ctxWake t) with
      | some s4 => (s4, "B")
      | none => (s3, "STUCK")

def aqModel (ops : List String) : Option String :=
  let rec go (s : State) (t : Tid) (ops : List String) (acc : List String) : Option (List String) :=
    match ops with
    | [] => some acc.reverse
    | o :: os =>
      let rest := (o.drop 1).toString
      let r : Option (State × String) :=
        match o.front with
        | 's' => (natOf rest).map fun v => aRunOp s t (.send v)
        | 'r' => some (aRunOp s t .recv)
        | 't' => some (aRunOp s t .tryRecv)
        | 'c' => some (aRunOp s t .close)
        | _ => none
      match r with
      | none => none
      | some (s', x) => go s' (t + 1) os (x :: acc)
  (go init 1 ops []).map (" ".intercalate ·)

end Aq

/-! ### the FIFO-channel specification on a sequential history (independent of the models) -/

/-- "<res>:<size>/<cap>" with size < cap -/
def notFull (r : String) : Bool :=
  match r.splitOn ":" with
  | [_, sc] =>
    match sc.splitOn "/" with
    | [a, b] => match a.toNat?, b.toNat? with
      | some a, some b => a < b
      | _, _ => false
    | _ => false
  | _ => false

/-- walks ops and implementation results with a reference list; returns a violation message -/
def seqSpec (ops res : List String) : Option String :=
  let rec go (ops res : List String) (q : List String) (closed : Bool) : Option String :=
    match ops, res with
    | o :: os, r0 :: rs =>
      let r := (r0.splitOn ":").headD r0
      match o.front with
      | 's' | 'S' =>
        let v := (o.drop 1).toString
        if r == "T" then
          (if closed then some s!"send after close succeeded ({o})" else go os rs (q ++ [v]) closed)
        else if r == "B" ∧ !closed ∧ notFull r0 then
          some s!"send {o} would block although the buffer is not full ({r0})"
        else go os rs q closed
      | 'r' | 'R' | 't' =>
        if r.startsWith "v" then
          match q with
          | x :: q' => if (r.drop 1).toString == x then go os rs q' closed
                       else some s!"FIFO order violated: received {r} but the oldest item is {x}"
          | [] => some s!"received {r} from an empty queue (duplicate or phantom)"
        else
          match q with
          | x :: _ => some s!"receive reported empty/closed/blocked ({r}) while item {x} was queued (lost)"
          | [] => go os rs q closed
      | 'c' => go os rs q true
      | _ => go os rs q closed
    | _, _ => none
  go ops res [] false

/-! ### specification on concurrent histories -/

def parseInts (s : String) : Option (List Nat) :=
  if s == "-" then some [] else (s.splitOn ",").mapM natOf

structure Hist where
  prods : List (Nat × List Nat)   -- items, failed indices
  cons : List (List Nat)

def parseHist (f : List String) : Option Hist :=
  f.foldlM (fun (h : Hist) tok =>
    match tok.splitOn "=" with
    | [k, v] =>
      if k.startsWith "p" then
        match v.splitOn ":" with
        | [n, fl] => do
          let n ← natOf n
          let fl ← parseInts fl
          pure { h with prods := h.prods ++ [(n, fl)] }
        | _ => none
      else if k.startsWith "c" then do
        let xs ← parseInts v
        pure { h with cons := h.cons ++ [xs] }
      else none
    | _ => none) { prods := [], cons := [] }

def valBase : Nat := 1000000

/-- strictly increasing per producer inside one consumer's log -/
def perProducerOrdered (xs : List Nat) (p : Nat) : Bool :=
  let rec go (xs : List Nat) (last : Array (Option Nat)) : Bool :=
    match xs with
    | [] => true
    | x :: xs =>
      let i := x / valBase
      if i ≥ p then false else
      match last[i]! with
      | some l => if l < x then go xs (last.set! i (some x)) else false
      | none => go xs (last.set! i (some x))
  go xs (Array.replicate p none)

def histSpec (h : Hist) (closeMode : Nat) : Option String :=
  let p := h.prods.length
  let sentOk : Array Nat := Id.run do
    let mut a : Array Nat := #[]
    let mut i := 0
    for (n, fl) in h.prods do
      for j in [0:n] do
        if !fl.contains j then a := a.push (i * valBase + j)
      i := i + 1
    return a
  let recvd : Array Nat := (h.cons.foldl (· ++ ·) []).toArray.qsort (· < ·)
  let sentSorted := sentOk.qsort (· < ·)
  let dup := (List.range (recvd.size - 1)).any fun i => recvd[i]! == recvd[i+1]!
  if dup then some "a value was received twice (duplicate)"
  else if closeMode == 0 ∧ h.prods.any (fun x => !x.2.isEmpty) then
    some "a Send returned false although the queue was not closed and the context not cancelled"
  else if recvd.size < sentSorted.size then
    some s!"lost items: {sentSorted.size} sends returned true, {recvd.size} values were received before Recv reported closed"
  else if recvd != sentSorted then
    some "received values differ from the successfully sent ones (phantom value or value of a failed Send)"
  else if !(h.cons.all fun xs => perProducerOrdered xs p) then
    some "per-producer FIFO order violated inside a consumer's history"
  else none

/-! ### prescribed interleavings: receivers / senders stopped between "observed empty/full" and the park -/
section Win
open OpenFGAVerif.Model.Mpmc

def runFull (s : State) (t : Tid) (op : Op) : State :=
  match act s (.call t op) with
  | none => s
  | some s1 => (runThread 400 s1 t).1

/-- model prediction for `win cap nR k` -/
def winModel (cap nR k : Nat) : Option (Nat × Nat) :=
  (init cap (-1)).map fun s0 =>
    -- receivers 1..nR reach the park point
    let s1 := (List.range nR).foldl (fun s i =>
      let t := i + 1
      match act s (.call t .recv) with
      | none => s
      | some a => (stepT a t).bind (fun b => stepT b t) |>.getD a) s0
    -- k complete sends by threads 100..
    let s2 := (List.range k).foldl (fun s i => runFull s (100 + i) (.send (100 + i))) s1
    -- receivers continue, eagerly, in order; repeat until nothing moves
    let pass := fun (s : State) => (List.range nR).foldl (fun s i => (runThread 400 s (i + 1)).1) s
    let s3 := pass (pass (pass s2))
    let ret := (List.range nR).countP fun i => s3.pc (i + 1) == .idle
    (ret, s3.head - s3.tail)

/-- model prediction for `winS cap nS k` -/
def winSModel (cap nS k : Nat) : Option (Nat × Nat) :=
  (init cap 0).map fun s0 =>
    let k := min k cap
    let s1 := (List.range cap).foldl (fun s i => runFull s (200 + i) (.send i)) s0
    let s2 := (List.range nS).foldl (fun s i =>
      let t := i + 1
      match act s (.call t (.send (100 + i))) with
      | none => s
      | some a => (stepT a t).bind (fun b => stepT b t) |>.getD a) s1
    let s3 := (List.range k).foldl (fun s i => runFull s (300 + i) .recv) s2
    let pass := fun (s : State) => (List.range nS).foldl (fun s i => (runThread 400 s (i + 1)).1) s
    let s4 := pass (pass (pass s3))
    let ret := (List.range nS).countP fun i => s4.pc (i + 1) == .idle
    (ret, s4.head - s4.tail)

/-- model prediction for `winC cap nR k`: (returned, size, items) -/
def winCModel (cap nR k : Nat) : Option (Nat × Nat × Nat) :=
  (init cap (-1)).map fun s0 =>
    let s1 := (List.range nR).foldl (fun s i =>
      let t := i + 1
      match act s (.call t .recv) with
      | none => s
      | some a => (stepT a t).bind (fun b => stepT b t) |>.getD a) s0
    let s2 := (List.range k).foldl (fun s i => runFull s (100 + i) (.send (100 + i))) s1
    let s3 := runFull s2 99 .close
    let pass := fun (s : State) => (List.range nR).foldl (fun s i => (runThread 400 s (i + 1)).1) s
    let s4 := pass (pass s3)
    let ret := (List.range nR).countP fun i => s4.pc (i + 1) == .idle
    let items := s4.log.countP fun e => match e with | .recvRet _ (some _) => true | _ => false
    (ret, s4.head - s4.tail, items)

/-- model prediction for `race cap perm`: all senders reach `sLoop 0`, then run to completion in the order `perm` -/
def raceModel (cap : Nat) (perm : List Nat) : Option String :=
  (init cap 0).map fun s0 =>
    let n := perm.length
    let s1 := (List.range n).foldl (fun s i =>
      let t := i + 1
      match act s (.call t (.send (100 + i))) with
      | none => s
      | some a => (stepT a t).getD a) s0
    let (s2, oks) := perm.foldl (fun (acc : State × String) i =>
      let (s', fin) := runThread 400 acc.1 (i + 1)
      let r := match s'.log.getLast? with
        | some (.sendRet _ _ true) => "T"
        | _ => "F"
      (s', acc.2 ++ (if fin then r else "B"))) (s1, "")
    -- drain with cancelled contexts
    let rec drain (fuel : Nat) (s : State) (t : Tid) (acc : List Nat) : List Nat :=
      match fuel with
      | 0 => acc
      | fuel + 1 =>
        let s := (act s (.cancel t)).getD s
        match act s (.call t .recv) with
        | none => acc
        | some a =>
          let s' := (runThread 400 a t).1
          match s'.log.getLast? with
          | some (.recvRet _ (some v)) => drain fuel s' (t + 1) (acc ++ [v])
          | _ => acc
    let got := drain (n + 1) s2 500 []
    let vs := if got.isEmpty then "-" else ",".intercalate (got.map toString)
    s!"sends={oks} order={vs}"

end Win

section AWin
open OpenFGAVerif.Model.Mpsc

/-- model prediction for `awin k close` -/
def awinModel (k cl : Nat) : String :=
  let s0 := init
  let s1 := match act s0 (.call 1 .recv) with
    | some a => (stepT a 1).getD a
    | none => s0
  let full := fun (s : State) (t : Tid) (op : Op) =>
    match act s (.call t op) with
    | some a => (runThread 100 a t).1
    | none => s
  let s2 := (List.range k).foldl (fun s i => full s (100 + i) (.send (100 + i))) s1
  let s3 := if cl == 1 then full s2 99 .close else s2
  let (s4, fin) := runThread 100 s3 1
  if !fin then "ret=0 stuck" else
  -- drain by try-receive
  let rec drain (fuel : Nat) (s : State) (t : Tid) : State :=
    match fuel with
    | 0 => s
    | fuel + 1 =>
      let s' := full s t .tryRecv
      match s'.log.getLast? with
      | some (.recvRet _ (some _)) => drain fuel s' (t + 1)
      | _ => s'
  let s5 := drain (k + 2) s4 200
  let closedSeen :=
    if cl == 1 then
      let s6 := full s5 300 .recv
      match s6.log.getLast? with
      | some (.recvRet _ none) => "true"
      | _ => "false"
    else "-"
  let vals := s5.recvd
  let vs := if vals.isEmpty then "-" else ",".intercalate (vals.map toString)
  s!"ret={vals.length} vals={vs} closed={closedSeen}"

end AWin

def kvNat (tok key : String) : Option Nat :=
  if tok.startsWith (key ++ "=") then natOf (tok.drop (key.length + 1)).toString else none

def step (c impl : String) : String :=
  if impl.startsWith "PANIC" then specViol s!"the queue panicked: {impl}" else
  if impl.startsWith "SKIPPED" then "SKIP after-timeout" else
  if impl.startsWith "TIMEOUT a scripted" ∨ impl.startsWith "TIMEOUT the case" then specViol s!"{impl}" else
  match fields c with
  | "mq" :: cap :: ext :: ops =>
    match natOf cap, intOf ext with
    | some cap, some ext =>
      match mqModel cap ext ops with
      | none => "SKIP bad-op"
      | some expected =>
        let res := (fields impl).drop 1
        match seqSpec ops res with
        | some why => specViol s!"mpmc: {why}"
        | none =>
          if impl != expected then modelDiff expected
          else
            let nt := (fields impl).any (·.startsWith "v")
            ok (if impl == "new:err" then "mq-invalid-capacity" else if impl.contains '/' then "mq-script" else "mq-empty") nt
    | _, _ => "SKIP bad-case"
  | "aq" :: ops =>
    match aqModel ops with
    | none => "SKIP bad-op"
    | some expected =>
      match seqSpec ops (fields impl) with
      | some why => specViol s!"mpsc: {why}"
      | none =>
        if impl != expected then modelDiff expected
        else ok "aq-script" ((fields impl).any (·.startsWith "v"))
  | ["mstress", _, _, _, cN, _, cm] =>
    if impl.startsWith "TIMEOUT" then specViol s!"mpmc: {impl}" else
    match parseHist (fields impl), natOf cm, natOf cN with
    | some h, some cm, some cN =>
      match histSpec h cm with
      | some why => specViol s!"mpmc stress: {why}"
      | none => ok (if cN == 1 then "mstress-single-consumer" else "mstress-multi-consumer") true
    | _, _, _ => modelDiff "unparsable history"
  | ["astress", _, _, cm] =>
    if impl.startsWith "TIMEOUT" then specViol s!"mpsc: {impl}" else
    match parseHist (fields impl), natOf cm with
    | some h, some cm =>
      match histSpec h cm with
      | some why => specViol s!"mpsc stress: {why}"
      | none =>
        -- one consumer: its history restricted to one producer is that producer's order (checked above)
        ok "astress" true
    | _, _ => modelDiff "unparsable history"
  | ["win", cap, nR, k] =>
    match natOf cap, natOf nR, natOf k with
    | some cap, some nR, some k =>
      match fields impl with
      | r :: sz :: _ =>
        match kvNat r "ret", kvNat sz "size", winModel cap nR k with
        | some ret, some size, some (mret, msize) =>
          let want := min nR k
          if ret < want then
            specViol s!"lost wake-up: {nR} receivers stopped between observing an empty queue and parking, {k} items sent, only {ret} receiver(s) returned; {size} item(s) available with a receiver parked (model predicts ret={mret})"
          else if ret != mret ∨ size != msize then modelDiff s!"ret={mret} size={msize}"
          else ok (if nR == 1 then "win-single-consumer" else "win-multi-consumer") true
        | _, _, _ => modelDiff "ret=.. size=.."
      | _ => if impl.startsWith "TIMEOUT" then "SKIP " ++ impl else modelDiff "ret=.. size=.."
    | _, _, _ => "SKIP bad-case"
  | ["winS", cap, nS, k] =>
    match natOf cap, natOf nS, natOf k with
    | some cap, some nS, some k =>
      match fields impl with
      | r :: sz :: _ =>
        match kvNat r "ret", kvNat sz "size", winSModel cap nS k with
        | some ret, some size, some (mret, msize) =>
          let want := min nS (min k cap)
          if ret < want then
            specViol s!"lost wake-up (senders): {nS} senders stopped between observing a full queue and parking, {min k cap} items received, only {ret} sender(s) returned; size {size} of {cap} with a sender parked (model predicts ret={mret})"
          else if ret != mret ∨ size != msize then modelDiff s!"ret={mret} size={msize}"
          else ok (if nS == 1 then "winS-single-producer" else "winS-multi-producer") true
        | _, _, _ => modelDiff "ret=.. size=.."
      | _ => if impl.startsWith "TIMEOUT" then "SKIP " ++ impl else modelDiff "ret=.. size=.."
    | _, _, _ => "SKIP bad-case"
  | ["winC", cap, nR, k] =>
    match natOf cap, natOf nR, natOf k with
    | some cap, some nR, some k =>
      match fields impl with
      | [r, sz, it] =>
        match kvNat r "ret", kvNat sz "size", kvNat it "items", winCModel cap nR k with
        | some ret, some size, some items, some (mret, msize, mitems) =>
          if ret < nR then
            specViol s!"Close did not wake every parked receiver: {nR} receivers stopped before parking, {k} items sent, queue closed, only {ret} returned"
          else if items != min nR k ∨ size + items != k then
            specViol s!"close_then_drain violated: {k} items sent before Close, {items} received by {nR} receivers, {size} left"
          else if (ret, size, items) != (mret, msize, mitems) then modelDiff s!"ret={mret} size={msize} items={mitems}"
          else ok "winC" true
        | _, _, _, _ => modelDiff "ret=.. size=.. items=.."
      | _ => if impl.startsWith "TIMEOUT" then "SKIP " ++ impl else modelDiff "ret=.. size=.. items=.."
    | _, _, _ => "SKIP bad-case"
  | ["race", cap, perm] =>
    match natOf cap, (perm.splitOn ",").mapM natOf with
    | some cap, some perm =>
      match raceModel cap perm with
      | none => "SKIP bad-case"
      | some expected =>
        let want := ",".intercalate (perm.map fun i => toString (100 + i))
        if !impl.startsWith "sends=" then (if impl.startsWith "TIMEOUT" then specViol s!"mpmc race: {impl}" else modelDiff expected)
        else if impl != s!"sends={String.ofList (perm.map fun _ => 'T')} order={want}" then
          specViol s!"mpmc: senders that raced for the same position and completed in the order {perm} left the queue as: {impl}"
        else if impl != expected then modelDiff expected
        else ok "race-same-position" true
    | _, _ => "SKIP bad-case"
  | ["awin", k, cl] =>
    match natOf k, natOf cl with
    | some k, some cl =>
      let expected := awinModel k cl
      if impl.startsWith "ret=0 stuck" then
        specViol s!"mpsc lost wake-up: the single consumer stayed parked although {k} value(s) were linked"
      else if !impl.startsWith s!"ret={k} " then
        specViol s!"mpsc: {k} values sent, consumer received otherwise: {impl}"
      else if cl == 1 ∧ !impl.endsWith "closed=true" then
        specViol "mpsc: Recv after Close and drain did not report closed"
      else if impl != expected then modelDiff expected
      else ok "awin" true
    | _, _ => "SKIP bad-case"
  | _ => "SKIP unknown-case"

end C22Driver

def main : IO Unit := Proto.run C22Driver.step
