/-
Driver for C23: runs `Model.Iter` / `Model.SharedIter` on the harness' case lines, compares with the real
adapters' output, and checks the property itself (independently of the state-machine model) where the case
allows it: a drained adapter over error-free inputs must yield its specified sequence; every clone of a shared
iterator must observe the underlying sequence.
-/
import OpenFGAVerif.Driver.Proto
import OpenFGAVerif.Model.Iter
import OpenFGAVerif.Model.SharedIter
import OpenFGAVerif.Model.SharedIterCancel
import OpenFGAVerif.Gen.Iter

open OpenFGAVerif OpenFGAVerif.Proto OpenFGAVerif.Model.Iter

structure Item where
  key : Nat
  tag : Nat
  deriving DecidableEq, Repr, Inhabited

def Item.show (i : Item) : String := s!"{i.key}.{i.tag}"

/-- the predicate used by the harness (two chained filter functions, outcome by `tag % 6`) -/
def pred (i : Item) : Except Nat Bool :=
  match i.tag % 6 with
  | 0 => .ok true
  | 1 => .ok false
  | 2 => .error (100 + i.key)
  | 3 => .ok false
  | 4 => .error (200 + i.key)
  | _ => .ok false

def boolPred (i : Item) : Bool := i.tag % 2 == 0
def cmpKey (a b : Item) : Ordering := compare a.key b.key

/-! ### parsing -/

def parseEl (s : String) : Option (El Item) :=
  match s.toList with
  | '!' :: r => (String.ofList r).toNat?.map El.fail
  | _ =>
    match s.splitOn "." with
    | [k, t] => do
      let k ← k.toNat?
      let t ← t.toNat?
      pure (El.item ⟨k, t⟩)
    | _ => none

def expandScript (s : String) : Option (List (El Item)) :=
  match s.toList with
  | '#' :: body =>
    let body := String.ofList body
    let (nStr, errSpec) := match body.splitOn "@" with
      | [n, e] => (n, some e)
      | _ => (body, none)
    match nStr.toNat? with
    | none => none
    | some n =>
      let base : List (El Item) := (List.range n).map (fun i => El.item ⟨i, i % 3⟩)
      match errSpec with
      | none => some base
      | some e =>
        match e.splitOn "!" with
        | [at_, id] =>
          match at_.toNat?, id.toNat? with
          | some a, some id => some (base.take a ++ [El.fail id] ++ base.drop a)
          | _, _ => none
        | _ => none
  | _ => none

def parseScript (s : String) : Option (List (El Item)) :=
  if s == "_" then some []
  else if s.startsWith "#" then expandScript s
  else (s.splitOn ",").mapM parseEl

def parseScripts (s : String) : Option (List (SIter Item)) :=
  if s == "0" then some [] else do
    let scripts ← (s.splitOn ";").mapM parseScript
    pure ((List.range scripts.length).zip scripts |>.map (fun (i, sc) => ({ id := i, rem := sc } : SIter Item)))

def parseOps (s : String) : Option (List Op) :=
  if s == "-" then some [] else
  s.toList.mapM fun c =>
    match c with
    | 'n' => some (Op.next false)
    | 'N' => some (Op.next true)
    | 'h' => some (Op.head false)
    | 'H' => some (Op.head true)
    | 's' => some Op.stop
    | _ => none

/-! ### printing -/

def errTok : Err → String
  | .done => "D"
  | .cancelled => "C"
  | .fail n => s!"E{n}"
  | .headUnsupported => "HU"
  | .notAscending i => s!"NA{i}"
  | .zeroValue => "ZERO"

def resTok : Res Item → String
  | .ok a => a.show
  | .err .zeroValue _ => "ZERO"
  | .err e none => errTok e
  | .err e (some a) => errTok e ++ "+" ++ a.show

def joinToks (l : List String) : String := if l.isEmpty then "-" else ",".intercalate l

def insertById (x : SIter Item) : List (SIter Item) → List (SIter Item)
  | [] => [x]
  | y :: ys => if x.id ≤ y.id then x :: y :: ys else y :: insertById x ys

def statesTok (ins : List (SIter Item)) : String :=
  let sorted := ins.foldr insertById []
  joinToks (sorted.map fun s => s!"{s.id}:{s.rem.length}:{s.stops}")

/-! ### independent specifications (pure list functions) -/

def itemsOf (sc : List (El Item)) : List Item := sc.filterMap fun | .item a => some a | .fail _ => none
def errorFree (sc : List (El Item)) : Bool := sc.all fun | .item _ => true | .fail _ => false
def sortedByKey : List Item → Bool
  | a :: b :: r => a.key ≤ b.key && sortedByKey (b :: r)
  | _ => true
def strictByKey : List Item → Bool
  | a :: b :: r => a.key < b.key && strictByKey (b :: r)
  | _ => true

/-- two-way merge that drops the right element of an equal pair (`Merge`) -/
def mergeSpec : Nat → List Item → List Item → List Item
  | 0, _, _ => []
  | _ + 1, [], ys => ys
  | _ + 1, xs, [] => xs
  | f + 1, x :: xs, y :: ys =>
    if x.key < y.key then x :: mergeSpec f xs (y :: ys)
    else if x.key > y.key then y :: mergeSpec f (x :: xs) ys
    else x :: mergeSpec f xs ys

/-- first item with key `k`, scanning the inputs in order -/
def firstWithKey (k : Nat) (ins : List (List Item)) : Option Item :=
  ins.findSome? fun l => l.find? (·.key == k)

/-- the items of impl output before the first non-item token -/
def leadingItems (toks : List String) : List String := toks.takeWhile fun t => parseEl t |>.map (fun | .item _ => true | _ => false) |>.getD false

/-- property check for a drained adapter over error-free inputs; `none` = not applicable / holds -/
def drainSpec (adapter : String) (ins : List (List (El Item))) (ops : List Op) (toks : List String) : Option String :=
  let total := (ins.map List.length).sum
  if !(ops.all (· == Op.next false)) || ops.length ≤ total || !(ins.all errorFree) then none else
  let lists := ins.map itemsOf
  let got := leadingItems toks
  let rest := toks.drop got.length
  let doneAfter := rest.all (· == "D")
  let expect : Option (List Item) :=
    match adapter with
    | "static" | "combined" | "concat" | "validatenil" => some lists.flatten
    | "merge" =>
      match lists with
      | [a, b] => some (mergeSpec (a.length + b.length + 1) a b)
      | _ => none
    | "bool" => some (lists.flatten.filter boolPred)
    | "filter" | "cond" | "validate" =>
      if lists.flatten.all (fun i => match pred i with | .ok _ => true | .error _ => false)
      then some (lists.flatten.filter fun i => match pred i with | .ok true => true | _ => false) else none
    | _ => none
  match expect with
  | some e =>
    if got != e.map Item.show then some s!"{adapter}: drained sequence is not the specified one: expected {joinToks (e.map Item.show)}"
    else if !doneAfter then some s!"{adapter}: something other than Done follows the specified sequence"
    else none
  | none =>
    if adapter == "oc" && lists.all sortedByKey then
      match got.mapM parseEl with
      | none => none
      | some els =>
        let out := itemsOf els
        let keysIn := lists.flatten.map (·.key)
        if !strictByKey out then some "oc: output is not strictly ascending by mapper key"
        else if !(keysIn.all fun k => out.any (·.key == k)) then some "oc: a key of the inputs is missing from the output"
        else if !(out.all fun i => keysIn.contains i.key) then some "oc: output contains a key that is in no input"
        else if !(out.all fun i => firstWithKey i.key lists == some i) then some "oc: on equal keys the yielded tuple is not the first one of the first input"
        else if !doneAfter then some "oc: something other than Done follows the merged sequence"
        else none
    else none

/-! ### adapters -/

def runAdapter (adapter param : String) (ins : List (SIter Item)) (ops : List Op) : Option String :=
  let fmt {σ : Type} (m : Machine σ Item) (s : σ) (inputs : σ → List (SIter Item)) : String :=
    let (rs, s') := m.run ops s
    joinToks (rs.map resTok) ++ " | " ++ statesTok (inputs s')
  match adapter, ins with
  | "static", [a] =>
    let (rs, _) := (Static.machine (α := Item)).run ops ⟨itemsOf a.rem⟩
    some (joinToks (rs.map resTok) ++ " | -")
  | "combined", _ => some (fmt Combined.machine (Combined.start ins) Combined.inputs)
  | "concat", [a, b] => some (fmt Concat.machine (Concat.start a b) Concat.inputs)
  | "merge", [a, b] => some (fmt (Merge.machine cmpKey) (Merge.start a b) Merge.inputs)
  | "filter", [a] => some (fmt (CondFilter.machineNoHead pred) (CondFilter.start a) (fun s => [s.it]))
  | "cond", [a] => some (fmt (CondFilter.machine pred) (CondFilter.start a) (fun s => [s.it]))
  | "bool", [a] => some (fmt (BoolFilter.machine boolPred) (BoolFilter.start a) (fun s => [s.it]))
  | "validate", [a] => some (fmt (Validate.machine (some pred)) (Validate.start a) (fun s => [s.it]))
  | "validatenil", [a] => some (fmt (Validate.machine none) (Validate.start a) (fun s => [s.it]))
  | "oc", _ => some (fmt (OC.machine Item.key) (OC.start ins) OC.inputs)
  | "skipto", [a] =>
    let (cancelled, tgt) := if param.endsWith "c" then (true, (String.ofList (param.toList.dropLast))) else (false, param)
    match tgt.toNat? with
    | none => none
    | some t =>
      let (e, a') := skipTo Item.key t a cancelled
      -- the remaining ops are applied to the raw scripted iterator
      let raw : Machine (SIter Item) Item := ⟨fun s c => s.next c, fun s c => (s.head c, s), fun s => s.stop⟩
      let (rs, s') := raw.run ops a'
      let first := match e with | none => "nil" | some e => errTok e
      some (joinToks (first :: rs.map resTok) ++ " | " ++ statesTok [s'])
  | _, _ => none

def stepAdapter (adapter param scripts opsS impl : String) : String :=
  match parseScripts scripts, parseOps opsS with
  | some ins, some ops =>
    match runAdapter adapter param ins ops with
    | none => "SKIP bad-adapter-case"
    | some expected =>
      let toks := match impl.splitOn " | " with
        | r :: _ => if r == "-" then [] else r.splitOn ","
        | [] => []
      match drainSpec adapter (ins.map (·.rem)) ops toks with
      | some why => specViol why
      | none =>
        if impl != expected then modelDiff expected
        else
          let total := (ins.map (·.rem.length)).sum
          ok adapter (total ≥ 2 && ops.length ≥ 2)
  | _, _ => "SKIP unparsable"

/-! ### shared iterator -/

open OpenFGAVerif.Model.SharedIter in
def parseAct (s : String) : Option Act :=
  if s == "c" then some .clone
  else if s == "x" then some .expire
  else match s.toList with
    | 'n' :: r => (String.ofList r).toNat?.map (Act.next · false)
    | 'N' :: r => (String.ofList r).toNat?.map (Act.next · true)
    | 'h' :: r => (String.ofList r).toNat?.map (Act.head · false)
    | 'H' :: r => (String.ofList r).toNat?.map (Act.head · true)
    | 's' :: r => (String.ofList r).toNat?.map Act.stop
    | _ => none

open OpenFGAVerif.Model.SharedIter in
def outTok : Out Item → Act → String
  | .res r, _ => resTok r
  | .cloned true, _ => "c1"
  | .cloned false, _ => "cnew"
  | .unit, .expire => "x"
  | .unit, _ => "s"
  | .noClone, _ => "noclone"

open OpenFGAVerif.Model.SharedIter in
/-- property, checked directly on the implementation's outputs: the k-th item a clone receives is the k-th item of
the underlying sequence, and an error other than `cancelled` is only reported once the clone has seen all of it
(then it is the script's own terminal error). -/
def sharedSpec (script : List (El Item)) (acts : List Act) (toks : List String) : Option String :=
  let rec go (acts : List Act) (toks : List String) (heads : List (Nat × Bool)) : Option String :=
    match acts, toks with
    | [], _ => none
    | _, [] => none
    | a :: as, t :: ts =>
      match a with
      | .clone => go as ts (heads ++ [(0, false)])
      | .expire => go as ts heads
      | .stop i => go as ts (heads.set i ((heads.getD i (0, false)).1, true))
      | .next i c =>
        let (h, stopped) := heads.getD i (0, false)
        if c then (if t == "C" then go as ts heads else some s!"clone {i}: a call with a cancelled context returned {t}")
        else if stopped then (if t == "D" then go as ts heads else some s!"clone {i}: Next after Stop returned {t}")
        else
          let want := resTok (specAt script h)
          if t != want then
            some (if t == "D" then s!"clone {i} saw Done at position {h} before the end of the underlying sequence (expected {want})"
                  else s!"clone {i} observed {t} at position {h}, the underlying sequence has {want}")
          else go as ts (match specAt script h with | .ok _ => heads.set i (h + 1, stopped) | _ => heads)
      | .head i c =>
        let (h, stopped) := heads.getD i (0, false)
        if c then (if t == "C" then go as ts heads else some s!"clone {i}: a call with a cancelled context returned {t}")
        else if stopped then (if t == "D" then go as ts heads else some s!"clone {i}: Head after Stop returned {t}")
        else
          let want := resTok (specAt script h)
          if t != want then some s!"clone {i}: Head returned {t} at position {h}, the underlying sequence has {want}"
          else go as ts heads
  go acts toks []

def parseRes (t : String) : Option (Res Item) :=
  if t == "D" then some Res.done
  else if t == "C" then some Res.cancelled
  else match t.toList with
    | 'E' :: r =>
      match (String.ofList r).splitOn "+" with
      | [n] => n.toNat?.map fun n => Res.err (.fail n) none
      | [n, v] =>
        match n.toNat?, parseEl v with
        | some n, some (.item a) => some (Res.err (.fail n) (some a))
        | _, _ => none
      | _ => none
    | _ =>
      match parseEl t with
      | some (.item a) => some (Res.ok a)
      | _ => none

open OpenFGAVerif.Model.SharedIter in
def parseOut (a : Act) (t : String) : Option (Out Item) :=
  if t == "noclone" then some .noClone else
  match a with
  | .clone => if t == "c1" then some (.cloned true) else if t == "cnew" then some (.cloned false) else none
  | .expire => if t == "x" then some .unit else none
  | .stop _ => if t == "s" then some .unit else none
  | .next _ _ => (parseRes t).map Out.res
  | .head _ _ => (parseRes t).map Out.res

open OpenFGAVerif.Model.SharedIter in
def stepShared (scriptS actsS impl : String) : String :=
  match parseScript scriptS, (actsS.splitOn ",").mapM parseAct with
  | some script, some acts =>
    let (outs, s') := run Gen.Iter.sharedBufferSize acts (start { id := 0, rem := script })
    let expected := joinToks ((outs.zip acts).map fun (o, a) => outTok o a)
      ++ s!" | {s'.under.rem.length}:{s'.under.stops}:{s'.nexts}"
    let toks := match impl.splitOn " | " with
      | r :: _ => if r == "-" then [] else r.splitOn ","
      | [] => []
    -- the decision is taken by `traceOK`, the checker that `C23.shared_every_interleaving` proves to accept every
    -- history of the model; `sharedSpec` only words the explanation
    let verdictOK : Bool :=
      match (acts.zip toks).mapM (fun (a, t) => parseOut a t) with
      | some outs => toks.length == acts.length && traceOK script acts outs []
      | none => true   -- unparsable output: left to the model comparison below
    match (if verdictOK then none else some ((sharedSpec script acts toks).getD "a clone's history is not the underlying sequence")) with
    | some why => specViol why
    | none =>
      -- the underlying iterator is read at most once per element (+ one read of Done)
      let under := match impl.splitOn " | " with
        | [_, u] => (u.splitOn ":").map String.toNat?
        | _ => []
      match under with
      | [some rem, some stops, some nexts] =>
        if stops == 0 && nexts > (script.length - rem) + 1 then specViol s!"underlying iterator read {nexts} times for {script.length - rem} consumed elements"
        else if impl != expected then modelDiff expected
        else ok (if script.length ≥ Gen.Iter.sharedBufferSize then "shared-big" else "shared") (script.length ≥ 2 && acts.length ≥ 4)
      | _ => if impl != expected then modelDiff expected else ok "shared" false
  | _, _ => "SKIP unparsable"

open OpenFGAVerif.Model.SharedIter in
def stepStress (scriptS planS impl : String) : String :=
  match parseScript scriptS with
  | none => "SKIP unparsable"
  | some script =>
    let pre := prefixItems script
    let term := errTok (terminal script)
    let plan := planS.splitOn ","
    let seqs := match impl.splitOn " | " with
      | r :: _ => r.splitOn ";"
      | [] => []
    if seqs.length != plan.length then modelDiff "one sequence per goroutine" else
    let bad := (plan.zip seqs).filterMap fun (p, sq) =>
      let full := s!"P{pre.length},{term}"
      let want := match p.toNat? with
        | some k => if k ≤ pre.length then s!"P{k}" else full
        | none => full
      if sq == want then none
      else if term != "D" && !((sq.splitOn ",").contains term) && p.toNat?.isNone then
        some s!"shared-iterator stale fetch: a clone never got the underlying iterator's error {term} (it observed {sq}, the underlying sequence allows only {want}) — fetchMore ran again after the error had been recorded"
      else some s!"a clone observed {sq}, the underlying sequence allows only {want}"
    match bad with
    | w :: _ => specViol w
    | [] =>
      match impl.splitOn " | " with
      | [_, u] =>
        match (u.splitOn ":").map String.toNat? with
        | [some made, some _, some stops, some _] =>
          if made != 1 then modelDiff "exactly one underlying iterator"
          else if stops != 0 then modelDiff "underlying iterator not stopped while the original is alive"
          else ok "shared-stress" (script.length ≥ 2)
        | _ => modelDiff "underlying state"
      | _ => modelDiff "underlying state"

/-- abbreviate a sequence of results as the harness does: "P<k>" for the leading run that equals the script's first `k`
items, then the remaining tokens -/
def untilErr : List (Res Item) → List (Res Item)
  | [] => []
  | .ok a :: rs => .ok a :: untilErr rs
  | r :: _ => [r]

def compressToks (pre : List Item) (rs : List (Res Item)) : String :=
  let toks := (untilErr rs).map resTok
  let rec lead : List String → List Item → Nat
    | t :: ts, a :: as => if t == a.show then lead ts as + 1 else 0
    | _, _ => 0
  let k := lead toks pre
  ",".intercalate (s!"P{k}" :: toks.drop k)

open OpenFGAVerif.Model.SharedIter OpenFGAVerif.Model.SharedIterCancel in
/-- `shc script pauseAt order`: clones A (0) and B (1) of one shared iterator; A drains, its context is cancelled while the
batch fetch it triggered is inside the underlying iterator's `pauseAt`-th `Next`; then B (live context) drains.
Property (on the implementation's output alone): B is served every item of the underlying sequence and then its terminal
error.  Model: `runC` of `Model/SharedIterCancel.lean` with the background context (`reqCtx = false`); the variant
`reqCtx = true` is run as well to word the diagnosis. -/
def stepSharedCancel (scriptS pS orderS impl : String) : String :=
  match parseScript scriptS, pS.toNat? with
  | some script, some p =>
    let B := Gen.Iter.sharedBufferSize
    let pre := prefixItems script
    let term := errTok (terminal script)
    let wantB := s!"P{pre.length},{term}"
    let ka := if B == 0 then 0 else ((p - 1) / B) * B
    let kk := if B == 0 then 0 else (p - 1) % B
    let aReads : List CAct := List.replicate ka (CAct.next 0 .never) ++ [CAct.next 0 (.during kk)]
    let bReads : List CAct := List.replicate (pre.length + 1) (CAct.next 1 .never)
    let acts : List CAct := if orderS == "0" then [.clone, .clone] ++ aReads ++ bReads else [.clone] ++ aReads ++ [.clone] ++ bReads
    let model (reqCtx : Bool) : String :=
      let (outs, s') := runC B reqCtx acts (start { id := 0, rem := script })
      s!"A={compressToks pre (seenBy 0 acts outs)} B={compressToks pre (seenBy 1 acts outs)} | 1:{s'.under.rem.length}:{s'.under.stops}:{s'.nexts}"
    let fs := fields impl
    let gotB := (fs.find? (·.startsWith "B=")).map fun t => String.ofList (t.toList.drop 2)
    match gotB with
    | none => modelDiff (model false)
    | some b =>
      if b != wantB then
        let (k, rest) := match b.splitOn "," with
          | pk :: rest => ((String.ofList (pk.toList.drop 1)).toNat?.getD 0, ",".intercalate rest)
          | [] => (0, "")
        let diag := if impl == model true then " (exactly what the model predicts when fetchMore reads with the requester's context instead of a background context)" else ""
        specViol s!"a cancelled sharer truncated/poisoned another sharer's sequence: got {k} of {pre.length} items and then {rest}, the underlying sequence ends with {term} — clone B (live context) shares the iterator with clone A, whose context was cancelled during the batch fetch it had triggered (underlying Next call {p}){diag}"
      else if impl != model false then modelDiff (model false)
      else ok "shared-cancel" true
  | _, _ => "SKIP unparsable"

/-- `fi chans`: the real `FanInIteratorChannels` with a live context. Property (`FanIn.fanIn_live_perm`,
`fanIn_live_order`): the consumer receives every input message exactly once — messages that carry only an error
included — and the messages of one input in their order. Judged on the implementation's output alone. -/
def stepFanIn (spec impl : String) : String :=
  let chans : List (List String) := (spec.splitOn ";").map fun c => if c == "-" then [] else c.splitOn ","
  let got : List String := if impl == "-" then [] else impl.splitOn ","
  let all := chans.flatten
  let missing := all.filter (fun t => !got.contains t)
  let extra := got.filter (fun t => !all.contains t)
  let rec isSub : List String → List String → Bool
    | [], _ => true
    | _ :: _, [] => false
    | a :: as, b :: bs => if a == b then isSub as bs else isSub (a :: as) bs
  if impl.startsWith "HANG" then specViol s!"fan-in never closed its output: {impl}"
  else if !missing.isEmpty then
    let errOnly := missing.filter (·.startsWith "e")
    specViol s!"fan-in lost messages {missing}" ++ (if errOnly.isEmpty then "" else s!" — error-only messages {errOnly} never reached the consumer, which sees a complete, shorter sequence")
  else if !extra.isEmpty || got.length != all.length then specViol s!"fan-in delivered messages that were not sent or delivered one twice: got {got}"
  else if !(chans.all fun c => isSub c got) then specViol s!"fan-in reordered the messages of one input: got {got}"
  else ok "fan-in" (all.any (·.startsWith "e"))

def step (c impl : String) : String :=
  match fields c with
  | ["fi", spec] => stepFanIn spec impl
  | ["shc", script, p, order] => stepSharedCancel script p order impl
  | ["ad", adapter, param, scripts, ops] => stepAdapter adapter param scripts ops impl
  | ["sh", _, script, acts] => stepShared script acts impl
  | ["shs", script, plan] => stepStress script plan impl
  | ["shr", script, plan, _] => stepStress script plan impl
  | _ => "SKIP unknown-case"

def main : IO Unit := Proto.run step
