/-
Driver for C24: evaluates `Model.Keys` (tags and field layouts from `Gen.Keys`) on the harness'
case lines, compares byte-for-byte with the real keys, and — for `pair` cases — checks the property
itself: real keys are equal exactly when the inputs are semantically equal.  The semantic
comparison does not use the encoder: it compares canonical forms of the *inputs*.
-/
import OpenFGAVerif.Driver.Proto
import OpenFGAVerif.Model.Keys

open OpenFGAVerif OpenFGAVerif.Proto OpenFGAVerif.Model.Keys

abbrev BS := OpenFGAVerif.Model.Keys.Bytes

def T := genTags

/-! ### parsing of the spec languages of harness/c24 -/

def tokBody (t : String) : String := (t.drop 1).toString

def natOf (s : String) : Option Nat := s.toNat?

/-- generic Builder value -/
def parseVal : Nat → List String → Option (Val × List String)
  | 0, _ => none
  | _, [] => none
  | f + 1, t :: rest =>
    let body := tokBody t
    match t.front with
    | 'n' => some (.null, rest)
    | 'x' => some (.unset, rest)
    | 'y' => match unhex body with
      | some [b] => some (.byte b, rest)
      | _ => none
    | 't' => some (.bool true, rest)
    | 'f' => some (.bool false, rest)
    | 'u' => (natOf body).map (fun n => (.u64 (UInt64.ofNat n), rest))
    | 's' => (unhex body).map (fun b => (.str b, rest))
    | 'b' => (unhex body).map (fun b => (.bytes b, rest))
    | 'a' => match natOf body with
      | none => none
      | some n =>
        let rec items (k : Nat) (r : List String) (acc : List Val) : Option (List Val × List String) :=
          match k with
          | 0 => some (acc.reverse, r)
          | k + 1 => match parseVal f r with
            | none => none
            | some (v, r') => items k r' (v :: acc)
        (items n rest []).map (fun (xs, r) => (.arr xs, r))
    | 'm' => match natOf body with
      | none => none
      | some n =>
        let rec ents (k : Nat) (r : List String) (acc : List (Val × Val)) : Option (List (Val × Val) × List String) :=
          match k with
          | 0 => some (acc.reverse, r)
          | k + 1 => match parseVal f r with
            | none => none
            | some (kk, r1) => match parseVal f r1 with
              | none => none
              | some (vv, r2) => ents k r2 ((kk, vv) :: acc)
        (ents n rest []).map (fun (es, r) => (.map es, r))
    | 'p' => match parseVal f rest with
      | none => none
      | some (k, r1) => match parseVal f r1 with
        | none => none
        | some (v, r2) => some (.pair k v, r2)
    | _ => none

def parseValSpec (spec : String) : Option Val :=
  let ts := spec.splitOn ","
  match parseVal (ts.length + 1) ts with
  | some (v, []) => some v
  | _ => none

def hexNat (s : String) : Option Nat :=
  (unhex s).map (fun bs => bs.foldl (fun acc b => acc * 256 + b.toNat) 0)

/-- structpb value; `Z` (nil pointer) and `U` (no kind) are both `unset`, `l`/`q` are the empty list/struct -/
def parsePb : Nat → List String → Option (PbV × List String)
  | 0, _ => none
  | _, [] => none
  | f + 1, t :: rest =>
    let body := tokBody t
    match t.front with
    | 'U' => some (.unset, rest)
    | 'Z' => some (.unset, rest)
    | 'N' => some (.null, rest)
    | 'T' => some (.bool true, rest)
    | 'F' => some (.bool false, rest)
    | 'D' => (hexNat body).map (fun n => (.num (UInt64.ofNat n), rest))
    | 'S' => (unhex body).map (fun b => (.str b, rest))
    | 'l' => some (.list [], rest)
    | 'q' => some (.struct [], rest)
    | 'L' => match natOf body with
      | none => none
      | some n =>
        let rec items (k : Nat) (r : List String) (acc : List PbV) : Option (List PbV × List String) :=
          match k with
          | 0 => some (acc.reverse, r)
          | k + 1 => match parsePb f r with
            | none => none
            | some (v, r') => items k r' (v :: acc)
        (items n rest []).map (fun (xs, r) => (.list xs, r))
    | 'M' => match natOf body with
      | none => none
      | some n =>
        let rec flds (k : Nat) (r : List String) (acc : List (BS × PbV)) : Option (List (BS × PbV) × List String) :=
          match k with
          | 0 => some (acc.reverse, r)
          | k + 1 => match r with
            | [] => none
            | kt :: r1 =>
              if kt.front != 'K' then none else
              match unhex (tokBody kt), parsePb f r1 with
              | some kb, some (v, r2) => flds k r2 ((kb, v) :: acc)
              | _, _ => none
        (flds n rest []).map (fun (fs, r) => (.struct fs, r))
    | _ => none

def parsePbSpec (spec : String) : Option PbV :=
  let ts := spec.splitOn ","
  match parsePb (ts.length + 1) ts with
  | some (v, []) => if pbWF v then some v else none
  | _ => none

/-- "q" (nil struct) or an `M…` spec: the field list -/
def parseStructSpec (spec : String) : Option (List (BS × PbV)) :=
  match parsePbSpec spec with
  | some (.struct fs) => some fs
  | _ => none

def parseTuple (spec : String) : Option Tup :=
  match spec.splitOn ";" with
  | [o, r, u, "c0"] =>
    match unhex (tokBody o), unhex (tokBody r), unhex (tokBody u) with
    | some o, some r, some u => some ⟨o, r, u, none⟩
    | _, _, _ => none
  | [o, r, u, "c1", name, ctx] =>
    match unhex (tokBody o), unhex (tokBody r), unhex (tokBody u), unhex name, parseStructSpec ctx with
    | some o, some r, some u, some n, some c => some ⟨o, r, u, some ⟨n, c⟩⟩
    | _, _, _, _, _ => none
  | _ => none

def allSome {α : Type} : List (Option α) → Option (List α)
  | [] => some []
  | none :: _ => none
  | some x :: xs => (allSome xs).map (x :: ·)

def parseTuples (spec : String) : Option (List Tup) :=
  if spec == "-" then some [] else allSome ((spec.splitOn "|").map parseTuple)

/-- "nil" | "[]" | h,h,h  →  (isNil, elements) -/
def parseList (spec : String) : Option (Bool × List BS) :=
  if spec == "nil" then some (true, [])
  else if spec == "[]" then some (false, [])
  else (allSome ((spec.splitOn ",").map unhex)).map (fun l => (false, l))

/-! ### canonical (semantic) forms of inputs — independent of the encoder -/

partial def showVal : Val → String
  | .null => "n"
  | .unset => "x"
  | .byte b => "y" ++ hex [b]
  | .bool true => "t"
  | .bool false => "f"
  | .u64 n => "u" ++ toString n.toNat
  | .str s => "s" ++ hex s
  | .bytes s => "b" ++ hex s
  | .arr xs => "a" ++ toString xs.length ++ "(" ++ ",".intercalate (xs.map showVal) ++ ")"
  | .map es => "m" ++ toString es.length ++ "(" ++ ",".intercalate (es.map (fun e => showVal e.1 ++ ":" ++ showVal e.2)) ++ ")"
  | .pair k v => "p(" ++ showVal k ++ ":" ++ showVal v ++ ")"

partial def showPb : PbV → String
  | .unset => "U"
  | .null => "N"
  | .bool true => "T"
  | .bool false => "F"
  | .num n => "D" ++ toString n.toNat
  | .str s => "S" ++ hex s
  | .list vs => "L" ++ toString vs.length ++ "(" ++ ",".intercalate (vs.map showPb) ++ ")"
  | .struct fs => "M" ++ toString fs.length ++ "(" ++ ",".intercalate (fs.map (fun p => hex p.1 ++ "=" ++ showPb p.2)) ++ ")"

/-- struct fields as a set: sorted at every level -/
def canonStruct (fs : List (BS × PbV)) : String := showPb (pbNorm (.struct fs))

def canonTuple (t : Tup) : String :=
  hex t.object ++ "/" ++ hex t.relation ++ "/" ++ hex t.user ++ "/" ++
    (match t.cond with
      | none => "nocond"
      | some c => "cond:" ++ hex c.name ++ ":" ++ canonStruct c.ctx)

def strLe (a b : String) : Bool := !(b < a)

/-- contextual tuples as a multiset -/
def canonTuples (ts : List Tup) : String :=
  "[" ++ " ".intercalate (isort strLe (ts.map canonTuple)) ++ "]"

def canonMultiset (l : List BS) : String := "{" ++ ",".intercalate ((sortBytes l).map hex) ++ "}"

def dedupSorted : List BS → List BS
  | [] => []
  | [x] => [x]
  | x :: y :: r => if x = y then dedupSorted (y :: r) else x :: dedupSorted (y :: r)

def canonSet (l : List BS) : String := "{" ++ ",".intercalate ((dedupSorted (sortBytes l)).map hex) ++ "}"

def dedupStr : List String → List String
  | [] => []
  | [x] => [x]
  | x :: y :: r => if x == y then dedupStr (y :: r) else x :: dedupStr (y :: r)

/-- contextual tuples as a set -/
def canonTupleSet (ts : List Tup) : String :=
  "[" ++ " ".intercalate (dedupStr (isort strLe (ts.map canonTuple))) ++ "]"

/-! ### keys -/

def layoutOf (name : String) : Option (List Field) :=
  match Gen.Keys.keySites.lookup name with
  | some ops => parseLayout ops
  | none => none

def layout2Of (ops : List (String × String × List UInt8)) : List Field := (parseLayout (afterReset ops)).getD []

def srt := goSort tupleLess

structure Out where
  /-- what the real code should print -/
  expected : String
  /-- semantic canonical form of the input (lists as multisets): equal forms MUST give equal keys -/
  canon : String
  /-- coarser form (lists as sets): equal keys MUST have equal coarse forms; "" = same as `canon` -/
  weak : String := ""
  cls : String
  nt : Bool := true

def parseU64 (s : String) : Option UInt64 := (natOf s).map UInt64.ofNat

def parseArgs (kvs : List String) : Option (List (String × BS) × List (String × UInt64)) :=
  kvs.foldr (fun kv acc =>
    match acc with
    | none => none
    | some (ss, us) =>
      match kv.splitOn "=" with
      | k :: v :: more =>
        let v := "=".intercalate (v :: more)
        if v.startsWith "#" then
          match parseU64 (v.drop 1).toString with
          | some n => some (ss, (k, n) :: us)
          | none => none
        else match unhex v with
          | some b => some ((k, b) :: ss, us)
          | none => none
      | _ => none) (some ([], []))

def refOf (s : String) : Option RelRef :=
  match s.splitOn ";" with
  | [k, t, r] => match natOf k, unhex t, unhex r with
    | some k, some t, some r => some ⟨t, k, r⟩
    | _, _, _ => none
  | _ => none

def ufOf (s : String) : Option (BS × BS) :=
  match s.splitOn ";" with
  | [o, r] => match unhex o, unhex r with
    | some o, some r => some (o, r)
    | _, _ => none
  | _ => none

def listOfSpecs {α : Type} (spec : String) (f : String → Option α) : Option (List α) :=
  if spec == "nil" then some [] else allSome ((spec.splitOn ",").map f)

def invCanon (store model : BS) (ctx : List (BS × PbV)) (ts : List Tup) : String :=
  hex store ++ " " ++ hex model ++ " " ++ canonStruct ctx ++ " " ++ canonTuples ts

def invWeak (store model : BS) (ctx : List (BS × PbV)) (ts : List Tup) : String :=
  hex store ++ " " ++ hex model ++ " " ++ canonStruct ctx ++ " " ++ canonTupleSet ts

/-- evaluate one (non-pair) case -/
def eval1 (c : String) : Option Out :=
  match fields c with
  | "val" :: specs => do
    let vs ← allSome (specs.map parseValSpec)
    pure { expected := hex (encList T vs), canon := "val " ++ " ".intercalate (vs.map showVal), cls := "val",
           nt := vs.any (fun v => depth v > 1) || vs.length > 1 }
  | ["pb", spec] => do
    let v ← parsePbSpec spec
    -- the explicit-stack model; the recursive reading is compared below in `step`
    pure { expected := hex (pbWriteTo T v), canon := "pb " ++ showPb (pbNorm v), cls := "pb", nt := pbSize v > 1 }
  | ["tup", spec] => do
    let t ← parseTuple spec
    pure { expected := hex (encTuple T t), canon := "tup " ++ canonTuple t, cls := "tup" }
  | ["tupamb", o, r, u, name, ctx] => do
    let o ← unhex o; let r ← unhex r; let u ← unhex u; let n ← unhex name
    let fs ← parseStructSpec ctx
    let a := encTuple T ⟨o, r, u, none⟩ ++ (encStr T n ++ enc T (pbToVal (.struct fs)))
    let b := encTuple T ⟨o, r, u, some ⟨n, fs⟩⟩
    pure { expected := hex a ++ " " ++ hex b, canon := "", cls := "tuple-ambiguity-generic" }
  | "site" :: name :: kvs => do
    let L ← layoutOf name
    let (ss, us) ← parseArgs kvs
    let e := envOf ss us
    -- semantic identity of the input: the function and ALL its arguments as given (not the layout)
    let canon := "site " ++ name ++ " " ++ " ".intercalate kvs
    pure { expected := hex (encLayout T e L), canon := canon, cls := "site-" ++ name }
  | ["inv", seed, store, model, ctx, tuples] => do
    let seed ← parseU64 seed; let s ← unhex store; let m ← unhex model
    let fs ← parseStructSpec ctx; let ts ← parseTuples tuples
    -- sort.Sort is modelled for n ≤ 12 (insertion sort); beyond that only for pairwise different sort keys
    if ts.length > 12 && !(nodupB (ts.map (fun t => (tupleKey t).foldr (fun x acc => hex x ++ "/" ++ acc) "" |>.toUTF8.toList))) then none
    let v := invariantKey T (xxh64 seed) srt s m fs ts
    pure { expected := toString v.toNat, canon := "inv " ++ toString seed.toNat ++ " " ++ invCanon s m fs ts, cls := "invariant",
           weak := "inv " ++ toString seed.toNat ++ " " ++ invWeak s m fs ts,
           nt := !ts.isEmpty || !fs.isEmpty }
  | ["sub", seed, store, model, obj, rel, user, ctx, tuples] => do
    let seed ← parseU64 seed; let s ← unhex store; let m ← unhex model
    let o ← unhex obj; let r ← unhex rel; let u ← unhex user
    let fs ← parseStructSpec ctx; let ts ← parseTuples tuples
    let L ← layoutOf "checkCacheKey"
    let v := invariantKey T (xxh64 seed) srt s m fs ts
    pure { expected := hex (checkKey T L s o r u v),
           canon := "sub " ++ toString seed.toNat ++ " " ++ hex o ++ " " ++ hex r ++ " " ++ hex u ++ " " ++ invCanon s m fs ts,
           weak := "sub " ++ toString seed.toNat ++ " " ++ hex o ++ " " ++ hex r ++ " " ++ hex u ++ " " ++ invWeak s m fs ts,
           cls := "subproblem-v1" }
  | ["read", seed, store, obj, rel, user, conds] => do
    let seed ← parseU64 seed; let s ← unhex store; let o ← unhex obj; let r ← unhex rel; let u ← unhex user
    let (_, cs) ← parseList conds
    pure { expected := hex (readKey T (xxh64 seed) (layout2Of Gen.Keys.readKeyOps) s o r u cs),
           canon := "read " ++ toString seed.toNat ++ " " ++ hex s ++ " " ++ hex o ++ " " ++ hex r ++ " " ++ hex u ++ " " ++ canonMultiset cs,
           weak := "read " ++ toString seed.toNat ++ " " ++ hex s ++ " " ++ hex o ++ " " ++ hex r ++ " " ++ hex u ++ " " ++ canonSet cs,
           cls := "iter-read" }
  | ["rut", seed, store, obj, rel, refs, conds] => do
    let seed ← parseU64 seed; let s ← unhex store; let o ← unhex obj; let r ← unhex rel
    let rs ← listOfSpecs refs refOf
    let (_, cs) ← parseList conds
    pure { expected := hex (rutKey T (xxh64 seed) (layout2Of Gen.Keys.readUsersetTuplesKeyOps) s o r rs cs),
           -- a restriction means what it renders to (`type`, `type#relation`, `type:*`)
           canon := "rut " ++ toString seed.toNat ++ " " ++ hex s ++ " " ++ hex o ++ " " ++ hex r ++ " " ++
             canonMultiset (rs.map refString) ++ " " ++ canonMultiset cs,
           weak := "rut " ++ toString seed.toNat ++ " " ++ hex s ++ " " ++ hex o ++ " " ++ hex r ++ " " ++
             canonSet (rs.map refString) ++ " " ++ canonSet cs,
           cls := "iter-rut" }
  | ["rswu", seed, store, otype, rel, uf, oids, conds] => do
    let seed ← parseU64 seed; let s ← unhex store; let o ← unhex otype; let r ← unhex rel
    let us ← listOfSpecs uf ufOf
    let (oNil, os) ← parseList oids
    let (_, cs) ← parseList conds
    -- SortedSet.Values(): ascending, no duplicates
    let vals := dedupSorted (sortBytes os)
    pure { expected := hex (rswuKey T (xxh64 seed) (layout2Of Gen.Keys.readStartingWithUserKeyOps) s o r us (if oNil then none else some vals) cs),
           -- nil and empty object-id sets are the same query by the key function's contract (F7)
           canon := "rswu " ++ toString seed.toNat ++ " " ++ hex s ++ " " ++ hex o ++ " " ++ hex r ++ " " ++
             canonMultiset (us.map subjectString) ++ " " ++ canonMultiset vals ++ " " ++ canonMultiset cs,
           weak := "rswu " ++ toString seed.toNat ++ " " ++ hex s ++ " " ++ hex o ++ " " ++ hex r ++ " " ++
             canonSet (us.map subjectString) ++ " " ++ canonSet vals ++ " " ++ canonSet cs,
           cls := "iter-rswu" }
  | _ => none

def hasDupSortKeys (c : String) : Bool :=
  match fields c with
  | ["inv", _, _, _, _, tuples] =>
    match parseTuples tuples with
    | some ts => !(nodupB (ts.map (fun t => (tupleKey t).foldr (fun x acc => hex x ++ "/" ++ acc) "" |>.toUTF8.toList)))
    | none => false
  | _ => false

def splitPair (s : String) : Option (String × String) :=
  match s.splitOn " ## " with
  | [a, b] => some (a, b)
  | _ => none

def v2Step (c impl : String) : String :=
  match fields c, fields impl with
  | ["v2req", seed, store, model, _objid, _relidx, userid, ctx, tuples, _edge],
    [_ckey, _inv, objHex, relDef, etype, toLabel, tsRel, _ekey] =>
    match parseU64 seed, unhex store, unhex model, unhex userid, parseStructSpec ctx, parseTuples tuples,
          unhex objHex, unhex relDef, parseU64 etype, unhex toLabel, unhex tsRel,
          layoutOf "checkCacheKey", layoutOf "edgeCacheKey" with
    | some seed, some s, some m, some uid, some fs, some ts, some obj, some rd, some et, some tl, some tr, some Lc, some Le =>
      let v := invariantKey T (xxh64 seed) srt s m fs ts
      let user := "user:".toUTF8.toList ++ uid
      -- relation of the request = part of the object#relation the harness picked; recover it from the real cache key is
      -- not possible, so the harness' relation index is mapped here as well
      let rel := match _relidx with
        | "0" => "viewer".toUTF8.toList
        | "1" => "parent".toUTF8.toList
        | _ => "member".toUTF8.toList
      let ck := checkKey T Lc s obj rel user v
      let e := envOf [("req.GetStoreID()", s), ("req.GetAuthorizationModelID()", m), ("req.GetTupleKey().GetObject()", obj),
                      ("req.GetTupleKey().GetUser()", user), ("edge.GetRelationDefinition()", rd),
                      ("edge.GetTo().GetUniqueLabel()", tl), ("edge.GetTuplesetRelation()", tr)]
                     [("uint64(edge.GetEdgeType())", et), ("req.GetInvariantCacheKey()", v)]
      let ek := encLayout T e Le
      let expected := s!"{hex ck} {v.toNat} {objHex} {relDef} {etype} {toLabel} {tsRel} {hex ek}"
      if impl == expected then ok "v2-request-and-edge-key" else modelDiff expected
    | _, _, _, _, _, _, _, _, _, _, _, _, _ => "SKIP unparsable-v2req"
  | _, _ => if impl.startsWith "reqerr" then "SKIP " ++ impl else "SKIP unparsable-v2req"

def step (c impl : String) : String :=
  if c.startsWith "pair " then
    match splitPair (c.drop 5).toString, splitPair impl with
    | some (ca, cb), some (ia, ib) =>
      match eval1 ca, eval1 cb with
      | some a, some b =>
        -- the property first (it does not depend on the model's encoder): real keys equal <=> inputs semantically equal
        let semEq := a.canon == b.canon
        -- lists with repeated elements denote the same filter / the same tuple set: either outcome is acceptable
        let weakEq := (if a.weak == "" then a.canon else a.weak) == (if b.weak == "" then b.canon else b.weak)
        let keyEq := ia == ib
        if semEq && !keyEq then
          -- Two contextual tuples with the same (object, relation, user, condition name) but different condition
          -- contexts are NOT interchangeable: CombinedTupleReader answers from the first one in request order, so
          -- Check's answer depends on their order (reproduced through the API: allowed=true / allowed=false).
          -- Reordered lists of that shape are semantically different inputs; different keys are what the
          -- property wants (a canonical key would be a wrong hit). Counted, not failed.
          (if hasDupSortKeys ca then ok ("pair-" ++ a.cls ++ "-duplicate-sort-keys-order-sensitive")
           else specViol ("different keys for semantically equal inputs (" ++ a.cls ++ ")"))
        else if !weakEq && keyEq then
          specViol ("EQUAL KEYS for semantically different inputs (" ++ a.cls ++ " / " ++ b.cls ++ "): a wrong cache hit is possible")
        else if ia != a.expected then modelDiff ("A:" ++ a.expected)
        else if ib != b.expected then modelDiff ("B:" ++ b.expected)
        else ok ("pair-" ++ a.cls ++ (if semEq then "-equal" else if weakEq then "-repeated-elements" else "-distinct"))
      | _, _ => "SKIP unparsable-pair"
    | _, _ => "SKIP unparsable-pair"
  else if c.startsWith "v2req " then v2Step c impl
  else if c.startsWith "f7wrap " then
    match fields impl with
    | [dn, de, cn, ce] =>
      let v (s : String) := ((s.splitOn "=").getD 1 "").toNat?
      match v dn, v de, v cn, v ce with
      | some dn, some de, some cn, some ce =>
        if cn != dn then specViol "cached ReadStartingWithUser(nil ObjectIDs) differs from the store's answer"
        else if ce == de then ok "f7wrap-consistent" false
        -- F7: nil and empty ObjectIDs share a key (same query by the key function's own contract and
        -- for the SQL stores); the memory store answers the empty set with nothing (F4), so through the
        -- caching wrapper the answer depends on what was cached first.  Latent: no caller passes a set.
        else if ce == dn then ok "f7wrap-memory-store-treats-empty-set-differently" false
        else specViol "cached ReadStartingWithUser(empty ObjectIDs) matches neither store answer"
      | _, _, _, _ => "SKIP " ++ impl
    | _ => "SKIP " ++ impl
  else
    match eval1 c with
    | none => "SKIP unparsable"
    | some o =>
      if impl != o.expected then modelDiff o.expected
      else
        -- extra, encoder-independent checks on the REAL bytes
        match fields c with
        | "val" :: specs =>
          (match allSome (specs.map parseValSpec), unhex impl with
            | some vs, some bytes =>
              match decodeAll T bytes with
              | none => specViol "real key bytes are not decodable as a field sequence"
              | some ds =>
                if ds.map showVal != vs.map showVal then specViol "real key bytes decode to other fields than were written"
                else ok o.cls o.nt
            | _, _ => ok o.cls o.nt)
        | ["pb", spec] =>
          (match parsePbSpec spec with
            | some v => if hex (enc T (pbToVal v)) != impl then specViol "explicit-stack encoding differs from the recursive encoding" else ok o.cls o.nt
            | none => ok o.cls o.nt)
        | _ => ok o.cls o.nt

def main : IO Unit := Proto.run step
