/-
Driver for C25: runs `Model.Condition` on the harness' case lines and compares with the real code.

ORACLES (correspondence only — not part of any theorem):
  * `Oracle.evalEx`: an evaluator for the tiny CEL fragment the harness generates (`==`, `<`, `>`, `in`,
    indexing, `&&`, `||`, `!`, with cel-go's unknown/error propagation) — the instance of the abstract
    `Cel` the model is run with;
  * `Oracle.parseDuration`, `Oracle.parseRFC3339`, `Oracle.parseIP`: re-implementations of the
    standard-library parsers for the families of strings the harness generates — the instance of `Std`.
-/
import OpenFGAVerif.Driver.Proto
import OpenFGAVerif.Model.Condition

open OpenFGAVerif OpenFGAVerif.Model.Condition
open OpenFGAVerif.Proto hiding Bytes

namespace C25D

/-! ## decoding the case line -/

def strOfBytes (b : Bytes) : String := String.fromUTF8! (ByteArray.mk b.toArray)

def splitDot : List Char → Option (List Char × List Char)
  | [] => none
  | '.' :: r => some ([], r)
  | c :: r => match splitDot r with
    | some (a, b) => some (c :: a, b)
    | none => none

def hexDot (cs : List Char) : Option (Bytes × List Char) := do
  let (h, r) ← splitDot cs
  let b ← unhexChars h
  pure (b, r)

def hexNat : List Char → Nat → Option Nat
  | [], acc => some acc
  | c :: cs, acc => do let d ← hexDigit c; hexNat cs (acc * 16 + d)

mutual
def parseV : Nat → List Char → Option (PVal × List Char)
  | 0, _ => none
  | _ + 1, 'N' :: r => some (.null, r)
  | _ + 1, 'T' :: r => some (.bool true, r)
  | _ + 1, 'F' :: r => some (.bool false, r)
  | _ + 1, 'D' :: r => do
      let n ← hexNat (r.take 16) 0
      if (r.take 16).length = 16 then pure (.num n, r.drop 16) else none
  | _ + 1, 'S' :: r => do let (b, r') ← hexDot r; pure (.str b, r')
  | f + 1, 'L' :: r => do let (xs, r') ← parseVList f r; pure (.list xs, r')
  | f + 1, 'M' :: r => do let (fs, r') ← parseVFields f r; pure (.struct fs, r')
  | _ + 1, _ => none
def parseVList : Nat → List Char → Option (List PVal × List Char)
  | 0, _ => none
  | _ + 1, ';' :: r => some ([], r)
  | f + 1, cs => do
      let (v, r) ← parseV f cs
      let (vs, r') ← parseVList f r
      pure (v :: vs, r')
def parseVFields : Nat → List Char → Option (List (String × PVal) × List Char)
  | 0, _ => none
  | _ + 1, ';' :: r => some ([], r)
  | f + 1, cs => do
      let (k, r0) ← hexDot cs
      let (v, r) ← parseV f r0
      let (vs, r') ← parseVFields f r
      pure ((strOfBytes k, v) :: vs, r')
end

def parseValue (s : String) : Option PVal :=
  match parseV (s.length + 1) s.toList with
  | some (v, []) => some v
  | _ => none

/-- `~` = nil context -/
def parseCtx (s : String) : Option (Option Ctx) :=
  if s == "~" then some none
  else match parseValue s with
    | some (.struct fs) => some (some fs)
    | _ => none

/-- the raw Go value of a case value (numbers stay float64, NaN included) -/
partial def rawOf : PVal → JVal
  | .null => .null
  | .num b => .num b
  | .str s => .str s
  | .bool b => .bool b
  | .list xs => .list (xs.map rawOf)
  | .struct fs => .obj (fs.map fun (k, v) => (k, rawOf v))

def decNat : List Char → Nat → Option Nat
  | [], acc => some acc
  | c :: cs, acc => if '0' ≤ c ∧ c ≤ '9' then decNat cs (acc * 10 + (c.toNat - 48)) else none

mutual
def parseTR : Nat → List Char → Option (TypeRef × List Char)
  | 0, _ => none
  | f + 1, c :: r => do
      let (name, r1) ← (match c with
        | 'a' => some (TypeName.any, r) | 'b' => some (.bool, r) | 's' => some (.string, r)
        | 'i' => some (.int, r) | 'u' => some (.uint, r) | 'd' => some (.double, r)
        | 'D' => some (.duration, r) | 't' => some (.timestamp, r) | 'p' => some (.ipaddress, r)
        | 'l' => some (.list, r) | 'm' => some (.map, r) | 'z' => some (.unspecified, r)
        | 'x' => (do let (d, r') ← splitDot r; let n ← decNat d 0; pure (TypeName.other n, r'))
        | _ => none)
      match r1 with
      | '<' :: r2 => do let (gs, r3) ← parseTRs f r2; pure (.mk name gs, r3)
      | _ => pure (.mk name [], r1)
  | _ + 1, [] => none
def parseTRs : Nat → List Char → Option (List TypeRef × List Char)
  | 0, _ => none
  | _ + 1, '>' :: r => some ([], r)
  | f + 1, cs => do
      let (t, r) ← parseTR f cs
      let (ts, r') ← parseTRs f r
      pure (t :: ts, r')
end

def parseTypeRef (s : String) : Option TypeRef :=
  match parseTR (s.length + 1) s.toList with
  | some (t, []) => some t
  | _ => none

def splitColon : List Char → Option (List Char × List Char)
  | [] => none
  | ':' :: r => some ([], r)
  | c :: r => match splitColon r with
    | some (a, b) => some (c :: a, b)
    | none => none

def parseParamsAux : Nat → List Char → Option (List (String × TypeRef))
  | 0, _ => none
  | _ + 1, [] => some []
  | f + 1, cs => do
      let (name, r) ← splitColon cs
      let (t, r') ← parseTR (r.length + 1) r
      match r' with
      | [] => pure [(String.ofList name, t)]
      | ',' :: r'' => do let rest ← parseParamsAux f r''; pure ((String.ofList name, t) :: rest)
      | _ => none

def parseParams (s : String) : Option (List (String × TypeRef)) :=
  if s == "-" then some [] else parseParamsAux (s.length + 1) s.toList

/-! ## printing typed values the way the harness does (`encTyped`) -/

def hex16 (n : Nat) : String :=
  String.ofList ((List.range 16).reverse.map fun i => hexNibble ((n / 16 ^ i) % 16))

def hexRaw (b : Bytes) : String :=
  String.ofList (b.foldr (fun x acc => hexNibble (x.toNat / 16) :: hexNibble (x.toNat % 16) :: acc) [])

def sortKeys {α : Type} (fs : List (String × α)) : List (String × α) :=
  fs.mergeSort (fun a b => !(decide (b.1 < a.1)))

partial def encJ : JVal → String
  | .null => "N"
  | .num b => "D" ++ hex16 b
  | .str s => "S" ++ hexRaw s ++ "."
  | .bool b => if b then "B1" else "B0"
  | .list xs => "L" ++ String.join (xs.map encJ) ++ ";"
  | .obj fs => "M" ++ String.join ((sortKeys fs).map fun (k, v) => hexRaw k.toUTF8.toList ++ "." ++ encJ v) ++ ";"

partial def encT : TVal → String
  | .any v => encJ v
  | .bool b => if b then "B1" else "B0"
  | .str s => "S" ++ hexRaw s ++ "."
  | .int i => s!"I{i}."
  | .uint n => s!"U{n}."
  | .double b => "D" ++ hex16 b
  | .dur d => s!"R{d}."
  | .ts t => s!"Z{t}."
  | .ip a => "P" ++ hexRaw a ++ "."
  | .list xs => "L" ++ String.join (xs.map encT) ++ ";"
  | .map fs => "M" ++ String.join ((sortKeys fs).map fun (k, v) => hexRaw k.toUTF8.toList ++ "." ++ encT v) ++ ";"

end C25D

/-! ## ORACLE: standard-library parsers (instance of `Std` for the correspondence) -/
namespace Oracle

def isDig (c : UInt8) : Bool := 48 ≤ c && c ≤ 57

/-- time.leadingInt: overflow (> 1<<63) is an error -/
def leadingInt : Bytes → Nat → Option (Nat × Bytes)
  | [], acc => some (acc, [])
  | c :: cs, acc =>
    if isDig c then
      if acc > 2 ^ 63 / 10 then none
      else
        let x := acc * 10 + (c.toNat - 48)
        if x > 2 ^ 63 then none else leadingInt cs x
    else some (acc, c :: cs)

/-- time.leadingFraction: (value, scale as a power of ten, rest); digits beyond the overflow point are dropped -/
def leadingFraction : Bytes → Nat → Nat → Bool → Nat × Nat × Bytes
  | [], x, scale, _ => (x, scale, [])
  | c :: cs, x, scale, ovf =>
    if isDig c then
      if ovf then leadingFraction cs x scale true
      else if x > (2 ^ 63 - 1) / 10 then leadingFraction cs x scale true
      else
        let y := x * 10 + (c.toNat - 48)
        if y > 2 ^ 63 then leadingFraction cs x scale true
        else leadingFraction cs y (scale * 10) false
    else (x, scale, c :: cs)

def unitOf (u : Bytes) : Option Nat :=
  if u = [110, 115] then some 1
  else if u = [117, 115] then some 1000
  else if u = [194, 181, 115] then some 1000      -- µs U+00B5
  else if u = [206, 188, 115] then some 1000      -- μs U+03BC
  else if u = [109, 115] then some 1000000
  else if u = [115] then some 1000000000
  else if u = [109] then some 60000000000
  else if u = [104] then some 3600000000000
  else none

def spanUnit : Bytes → Bytes × Bytes
  | [] => ([], [])
  | c :: cs => if c = 46 || isDig c then ([], c :: cs) else let (a, b) := spanUnit cs; (c :: a, b)

def durLoop : Nat → Bytes → Nat → Option Nat
  | 0, _, _ => none
  | _ + 1, [], d => some d
  | f + 1, c :: cs, d => do
      if !(c = 46 || isDig c) then none
      let s := c :: cs
      let (v, s1) ← leadingInt s 0
      let pre := s1.length != s.length
      let (fr, scale, s2, post) :=
        match s1 with
        | 46 :: r => let (x, sc, r') := leadingFraction r 0 1 false; (x, sc, r', r'.length != r.length)
        | _ => (0, 1, s1, false)
      if !pre && !post then none
      let (u, s3) := spanUnit s2
      if u = [] then none
      let unit ← unitOf u
      if v > 2 ^ 63 / unit then none
      let v1 := v * unit
      -- Go: v += uint64(float64(f) * (float64(unit) / scale)); exact for the generated family
      let v2 := if fr > 0 then v1 + fr * unit / scale else v1
      if fr > 0 && v2 > 2 ^ 63 then none
      let d' := d + v2
      if d' > 2 ^ 63 then none
      durLoop f s3 d'

/-- time.ParseDuration -/
def parseDuration (s : Bytes) : Option Int :=
  let (neg, body) := match s with
    | 45 :: r => (true, r)
    | 43 :: r => (false, r)
    | r => (false, r)
  if body = [48] then some 0
  else if body = [] then none
  else match durLoop (body.length + 1) body 0 with
    | none => none
    | some d =>
      if neg then some (-(d : Int))
      else if d > 2 ^ 63 - 1 then none else some (d : Int)

def num2 (a b : UInt8) : Option Nat := if isDig a && isDig b then some ((a.toNat - 48) * 10 + (b.toNat - 48)) else none

def isLeap (y : Nat) : Bool := y % 4 == 0 && (y % 100 != 0 || y % 400 == 0)
def daysIn (m y : Nat) : Nat :=
  if m = 2 then (if isLeap y then 29 else 28)
  else if m = 4 || m = 6 || m = 9 || m = 11 then 30 else 31

/-- days since 1970-01-01 of a civil date (proleptic Gregorian) -/
def daysFromCivil (y m d : Nat) : Int :=
  let y' : Int := if m ≤ 2 then (y : Int) - 1 else y
  let era : Int := (if y' ≥ 0 then y' else y' - 399) / 400
  let yoe : Int := y' - era * 400
  let mp : Int := ((m : Int) + 9) % 12
  let doy : Int := (153 * mp + 2) / 5 + d - 1
  let doe : Int := yoe * 365 + yoe / 4 - yoe / 100 + doy
  era * 146097 + doe - 719468

def nanosOf : Bytes → Nat → Nat → Nat   -- first nine digits, right-padded
  | _, 0, acc => acc
  | [], k + 1, acc => nanosOf [] k (acc * 10)
  | c :: cs, k + 1, acc => nanosOf cs k (acc * 10 + (c.toNat - 48))

/-- time.Parse(time.RFC3339, ·), fast path `parseRFC3339` (the shapes the harness generates) -/
def parseRFC3339 (s : Bytes) : Option Int :=
  match s with
  | y1 :: y2 :: y3 :: y4 :: 45 :: m1 :: m2 :: 45 :: d1 :: d2 :: 84 :: h1 :: h2 :: 58 :: n1 :: n2 :: 58 :: s1 :: s2 :: rest => do
    let yh ← num2 y1 y2; let yl ← num2 y3 y4
    let year := yh * 100 + yl
    let month ← num2 m1 m2
    if month < 1 || month > 12 then none
    let day ← num2 d1 d2
    if day < 1 || day > daysIn month year then none
    let hour ← num2 h1 h2; if hour > 23 then none
    let min ← num2 n1 n2; if min > 59 then none
    let sec ← num2 s1 s2; if sec > 59 then none
    let (nsec, rest') :=
      match rest with
      | 46 :: c :: r => if isDig c then
          let ds := (c :: r).takeWhile isDig
          (nanosOf ds 9 0, (c :: r).dropWhile isDig)
        else (0, rest)
      | _ => (0, rest)
    let base : Int := (daysFromCivil year month day) * 86400 + hour * 3600 + min * 60 + sec
    match rest' with
    | [90] => some (base * 1000000000 + nsec)
    | [sg, a1, a2, 58, b1, b2] => do
      if !(sg = 43 || sg = 45) then none
      let zh ← num2 a1 a2; if zh > 23 then none
      let zm ← num2 b1 b2; if zm > 59 then none
      let off : Int := ((zh * 60 + zm) * 60 : Nat)
      let off := if sg = 45 then -off else off
      some ((base - off) * 1000000000 + nsec)
    | _ => none
  | _ => none

def splitOn (sep : UInt8) : Bytes → List Bytes
  | [] => [[]]
  | c :: cs =>
    match splitOn sep cs with
    | [] => [[c]]
    | x :: xs => if c = sep then [] :: x :: xs else (c :: x) :: xs

def v4Field (f : Bytes) : Option UInt8 :=
  if f = [] || f.length > 3 || !f.all isDig then none
  else if f.length > 1 && f.head? = some 48 then none
  else
    let v := f.foldl (fun a c => a * 10 + (c.toNat - 48)) 0
    if v > 255 then none else some (UInt8.ofNat v)

def parseIPv4 (s : Bytes) : Option Bytes :=
  match splitOn 46 s with
  | [a, b, c, d] => do pure [← v4Field a, ← v4Field b, ← v4Field c, ← v4Field d]
  | _ => none

def hexVal (c : UInt8) : Option Nat :=
  if isDig c then some (c.toNat - 48)
  else if 97 ≤ c && c ≤ 102 then some (c.toNat - 87)
  else if 65 ≤ c && c ≤ 70 then some (c.toNat - 55)
  else none

def v6Group (g : Bytes) : Option (List UInt8) :=
  if g = [] || g.length > 4 then none
  else do
    let v ← g.foldlM (fun a c => do let d ← hexVal c; pure (a * 16 + d)) 0
    pure [UInt8.ofNat (v / 256), UInt8.ofNat (v % 256)]

/-- colon-separated groups, the last one possibly a dotted quad -/
def v6Groups : List Bytes → Option Bytes
  | [] => some []
  | [g] => if g.contains 46 then parseIPv4 g else v6Group g
  | g :: gs => do let a ← v6Group g; let r ← v6Groups gs; pure (a ++ r)

def findDoubleColon : Bytes → Bytes → Option (Bytes × Bytes)
  | _, [] => none
  | pre, 58 :: 58 :: r => some (pre.reverse, r)
  | pre, c :: r => findDoubleColon (c :: pre) r

def parseIPv6 (s : Bytes) : Option Bytes :=
  if s.contains 37 then none   -- zones are not generated
  else
    let side (b : Bytes) : Option Bytes := if b = [] then some [] else v6Groups (splitOn 58 b)
    match findDoubleColon [] s with
    | none => do let b ← v6Groups (splitOn 58 s); if b.length = 16 then some b else none
    | some (l, r) =>
      if (findDoubleColon [] r).isSome || r.head? = some 58 then none
      else do
        let a ← side l
        -- an embedded IPv4 on the left of "::" is not allowed
        if l.contains 46 then none
        let b ← side r
        if a.length + b.length > 14 then none
        some (a ++ List.replicate (16 - a.length - b.length) 0 ++ b)

/-- netip.ParseAddr + Unmap, as canonical address bytes -/
def parseIP (s : Bytes) : Option Bytes :=
  if s.contains 58 then
    match parseIPv6 s with
    | none => none
    | some b =>
      if b.take 10 == List.replicate 10 0 && (b.drop 10).take 2 == [255, 255] then some (b.drop 12) else some b
  else parseIPv4 s

def std : Std := { parseDuration := parseDuration, parseRFC3339 := parseRFC3339, parseIP := parseIP }

/-! ## ORACLE: the CEL fragment -/

inductive Atom where
  | param (n : String)
  | int (i : Int) | uint (n : Nat) | dbl (bits : Nat) | str (s : Bytes) | bool (b : Bool) | null
  | dur (s : Bytes) | ts (s : Bytes) | ip (s : Bytes)
  | idxMap (n : String) (k : String) | idxList (n : String) (i : Nat)
  deriving Repr, Inhabited

inductive Ex where
  | tt | ff
  | and (a b : Ex) | or (a b : Ex) | not (a : Ex)
  | eq (a b : Atom) | lt (a b : Atom) | gt (a b : Atom) | isIn (a b : Atom)
  deriving Repr, Inhabited

open C25D in
def parseAtom : List Char → Option (Atom × List Char)
  | 'p' :: r => do let (n, r') ← splitDot r; pure (.param (String.ofList n), r')
  | 'i' :: r => do
      let (d, r') ← splitDot r
      match d with
      | '-' :: ds => do let n ← decNat ds 0; pure (.int (-(n : Int)), r')
      | ds => do let n ← decNat ds 0; pure (.int n, r')
  | 'u' :: r => do let (d, r') ← splitDot r; let n ← decNat d 0; pure (.uint n, r')
  | 'd' :: r => do
      let n ← hexNat (r.take 16) 0
      if (r.take 16).length = 16 then pure (.dbl n, r.drop 16) else none
  | 's' :: r => do let (b, r') ← hexDot r; pure (.str b, r')
  | 'b' :: '1' :: r => some (.bool true, r)
  | 'b' :: '0' :: r => some (.bool false, r)
  | 'n' :: r => some (.null, r)
  | 'R' :: r => do let (b, r') ← hexDot r; pure (.dur b, r')
  | 'Z' :: r => do let (b, r') ← hexDot r; pure (.ts b, r')
  | 'P' :: r => do let (b, r') ← hexDot r; pure (.ip b, r')
  | 'x' :: r => do
      let (n, r1) ← splitDot r
      let (k, r2) ← hexDot r1
      pure (.idxMap (String.ofList n) (strOfBytes k), r2)
  | 'y' :: r => do
      let (n, r1) ← splitDot r
      let (d, r2) ← splitDot r1
      let i ← decNat d 0
      pure (.idxList (String.ofList n) i, r2)
  | _ => none

def parseEx : Nat → List Char → Option (Ex × List Char)
  | 0, _ => none
  | _ + 1, 'T' :: r => some (.tt, r)
  | _ + 1, 'F' :: r => some (.ff, r)
  | f + 1, '&' :: r => do let (a, r1) ← parseEx f r; let (b, r2) ← parseEx f r1; pure (.and a b, r2)
  | f + 1, '|' :: r => do let (a, r1) ← parseEx f r; let (b, r2) ← parseEx f r1; pure (.or a b, r2)
  | f + 1, '!' :: r => do let (a, r1) ← parseEx f r; pure (.not a, r1)
  | _ + 1, '=' :: r => do let (a, r1) ← parseAtom r; let (b, r2) ← parseAtom r1; pure (.eq a b, r2)
  | _ + 1, '<' :: r => do let (a, r1) ← parseAtom r; let (b, r2) ← parseAtom r1; pure (.lt a b, r2)
  | _ + 1, '>' :: r => do let (a, r1) ← parseAtom r; let (b, r2) ← parseAtom r1; pure (.gt a b, r2)
  | _ + 1, '@' :: r => do let (a, r1) ← parseAtom r; let (b, r2) ← parseAtom r1; pure (.isIn a b, r2)
  | _ + 1, _ => none

def parseExpr (s : String) : Option Ex :=
  match parseEx (s.length + 1) s.toList with
  | some (e, []) => some e
  | _ => none

/-- CEL runtime values of the fragment -/
inductive CV where
  | null | bool (b : Bool) | int (i : Int) | uint (n : Nat) | dbl (bits : Nat) | str (s : Bytes)
  | dur (d : Int) | ts (t : Int) | ip (a : Bytes)
  | list (xs : List CV) | map (kvs : List (String × CV))
  deriving Repr, Inhabited

partial def cvOfJ : JVal → CV
  | .null => .null
  | .num b => .dbl b
  | .str s => .str s
  | .bool b => .bool b
  | .list xs => .list (xs.map cvOfJ)
  | .obj fs => .map (fs.map fun (k, v) => (k, cvOfJ v))

partial def cvOfT : TVal → CV
  | .any v => cvOfJ v
  | .bool b => .bool b
  | .str s => .str s
  | .int i => .int i
  | .uint n => .uint n
  | .double b => .dbl b
  | .dur d => .dur d
  | .ts t => .ts t
  | .ip a => .ip a
  | .list xs => .list (xs.map cvOfT)
  | .map fs => .map (fs.map fun (k, v) => (k, cvOfT v))

/-- numbers as sign · m · 2^e, or ±infinity; NaN is `none` -/
inductive Num where
  | fin (neg : Bool) (m : Nat) (e : Int)
  | inf (neg : Bool)

def numOf : CV → Option Num
  | .int i => some (.fin (i < 0) i.natAbs 0)
  | .uint n => some (.fin false n 0)
  | .dbl b =>
    if F64.isNaN b then none
    else if F64.isInf b then some (.inf (F64.signBit b))
    else some (.fin (F64.signBit b) (F64.mant b) (F64.exp2 b))
  | _ => none

def cmpMag (m1 : Nat) (e1 : Int) (m2 : Nat) (e2 : Int) : Ordering :=
  let e := if e1 ≤ e2 then e1 else e2
  compare (m1 * 2 ^ (e1 - e).toNat) (m2 * 2 ^ (e2 - e).toNat)

def cmpNum : Num → Num → Ordering
  | .inf n1, .inf n2 => if n1 == n2 then .eq else if n1 then .lt else .gt
  | .inf n1, .fin .. => if n1 then .lt else .gt
  | .fin .., .inf n2 => if n2 then .gt else .lt
  | .fin n1 m1 e1, .fin n2 m2 e2 =>
    if m1 = 0 && m2 = 0 then .eq
    else if m1 = 0 then (if n2 then .gt else .lt)
    else if m2 = 0 then (if n1 then .lt else .gt)
    else if n1 && !n2 then .lt
    else if !n1 && n2 then .gt
    else if n1 then cmpMag m2 e2 m1 e1 else cmpMag m1 e1 m2 e2

def cmpBytes : Bytes → Bytes → Ordering
  | [], [] => .eq
  | [], _ => .lt
  | _, [] => .gt
  | a :: as, b :: bs => if a < b then .lt else if a > b then .gt else cmpBytes as bs

partial def cvEq : CV → CV → Bool
  | .null, .null => true
  | .bool a, .bool b => a == b
  | .str a, .str b => a == b
  | .dur a, .dur b => a == b
  | .ts a, .ts b => a == b
  | .ip a, .ip b => a == b
  | .list xs, .list ys => xs.length == ys.length && (xs.zip ys).all fun (x, y) => cvEq x y
  | .map a, .map b =>
    a.length == b.length && a.all fun (k, v) =>
      match b.find? (fun kv => kv.1 == k) with
      | some (_, w) => cvEq v w
      | none => false
  | a, b =>
    match numOf a, numOf b with
    | some x, some y => cmpNum x y == .eq
    | _, _ => false

/-- `<` / `>`: `none` = no such overload -/
def cvCmp : CV → CV → Option Ordering
  | .bool a, .bool b => some (compare a.toNat b.toNat)
  | .str a, .str b => some (cmpBytes a b)
  | .dur a, .dur b => some (compare a b)
  | .ts a, .ts b => some (compare a b)
  | a, b =>
    match a, b with
    | .dbl x, _ => if F64.isNaN x then none else (match numOf a, numOf b with | some x, some y => some (cmpNum x y) | _, _ => none)
    | _, _ => match numOf a, numOf b with
      | some x, some y => some (cmpNum x y)
      | _, _ => none

/-- evaluation results with cel-go's partial-evaluation states -/
inductive R (α : Type) where
  | val (v : α) | unk | err
  deriving Repr, Inhabited

def evalAtom (env : String → Option TVal) : Atom → R CV
  | .param n => match env n with | some tv => .val (cvOfT tv) | none => .unk
  | .int i => .val (.int i)
  | .uint n => .val (.uint n)
  | .dbl b => .val (.dbl b)
  | .str s => .val (.str s)
  | .bool b => .val (.bool b)
  | .null => .val .null
  | .dur s => match parseDuration s with | some d => .val (.dur d) | none => .err
  | .ts s => match parseRFC3339 s with | some t => .val (.ts t) | none => .err
  | .ip s => match parseIP s with | some a => .val (.ip a) | none => .err
  | .idxMap n k =>
    match env n with
    | none => .unk
    | some tv => match cvOfT tv with
      | .map kvs => (match kvs.find? (fun kv => kv.1 == k) with | some (_, v) => .val v | none => .err)
      | _ => .err
  | .idxList n i =>
    match env n with
    | none => .unk
    | some tv => match cvOfT tv with
      | .list xs => (match xs[i]? with | some v => .val v | none => .err)
      | _ => .err

/-- binary call: the left operand's unknown/error wins, then the right one's -/
def bin (a b : R CV) (f : CV → CV → R Bool) : R Bool :=
  match a with
  | .unk => .unk
  | .err => .err
  | .val x => match b with
    | .unk => .unk
    | .err => .err
    | .val y => f x y

def evalEx (env : String → Option TVal) : Ex → R Bool
  | .tt => .val true
  | .ff => .val false
  | .not a => match evalEx env a with | .val b => .val (!b) | .unk => .unk | .err => .err
  | .and a b =>
    match evalEx env a, evalEx env b with
    | .val false, _ => .val false
    | _, .val false => .val false
    | .val true, .val true => .val true
    | .unk, _ => .unk
    | _, .unk => .unk
    | _, _ => .err
  | .or a b =>
    match evalEx env a, evalEx env b with
    | .val true, _ => .val true
    | _, .val true => .val true
    | .val false, .val false => .val false
    | .unk, _ => .unk
    | _, .unk => .unk
    | _, _ => .err
  | .eq a b => bin (evalAtom env a) (evalAtom env b) fun x y => .val (cvEq x y)
  | .lt a b => bin (evalAtom env a) (evalAtom env b) fun x y =>
      match cvCmp x y with | some o => .val (o == .lt) | none => .err
  | .gt a b => bin (evalAtom env a) (evalAtom env b) fun x y =>
      match cvCmp x y with | some o => .val (o == .gt) | none => .err
  | .isIn a b => bin (evalAtom env a) (evalAtom env b) fun x y =>
      match y with
      | .list xs => .val (xs.any (cvEq x))
      | .map kvs => (match x with | .str k => .val (kvs.any fun kv => kv.1.toUTF8.toList == k) | _ => .err)
      | _ => .err

/-- the `Cel` instance the model is run with: `none` = an expression the generator marked as not compiling -/
def cel : Cel (Option Ex) where
  compile := fun _ e => e.isSome
  eval := fun e env =>
    match e with
    | none => .err
    | some ex => match evalEx env ex with
      | .val b => .bool b
      | .unk => .unknown
      | .err => .err

end Oracle

open C25D

/-! ## verdicts -/

def sortedNames (ns : List String) : String :=
  ",".intercalate (ns.mergeSort (fun a b => !(decide (b < a))))

def fmtErr : Err → String
  | .notFound => "err:notfound"
  | .compile => "err:compile"
  | .paramType => "err:type"
  | .celEval => "err:cel"
  | .missing ps => "err:missing:" ++ sortedNames ps
  | .panic => "PANIC"

def fmtTuple : Except Err Bool → String
  | .ok b => toString b
  | .error e => fmtErr e

def fmtEval : Except Err EvalResult → String
  | .ok r => s!"met:{if r.met then 1 else 0},miss:[{sortedNames r.missing}]"
  | .error e => fmtErr e

def fmtConv : Res TVal → String
  | .ok tv => encT tv
  | .typeErr => "ERR"
  | .panic => "PANIC"

def implField (impl : String) (key : String) : String :=
  match (fields impl).find? (fun f => f.startsWith (key ++ "=")) with
  | some f => (f.drop (key.length + 1)).toString
  | none => ""

def keysOf (c : Option Ctx) : List String := (c.getD []).map (·.1)

/-- an `eval` case: the model's verdict for the implementation output `impl` -/
def stepEval (tupNameH hasEC condNameH paramsS ekind exprS tupS reqS extraS impl : String) : String :=
    match unhexStr tupNameH, unhexStr condNameH, parseParams paramsS, parseCtx tupS, parseCtx reqS, parseCtx extraS with
    | some tupName, some condName, some ps, some tup, some req, some extra =>
      let ex : Option (Option Oracle.Ex) :=
        if ekind == "okc" then (match Oracle.parseExpr exprS with | some e => some (some e) | none => none) else some none
      match ex with
      | none => "SKIP unparsable-expression"
      | some e =>
        let cond : Cond (Option Oracle.Ex) := { name := condName, params := ps, expr := e }
        let ec := if hasEC == "1" then some cond else none
        let mT := evalTuple Oracle.std Oracle.cel tupName tup ec req
        let rest := tup.toList ++ extra.toList
        let mE := evaluate Oracle.std Oracle.cel cond (req.getD []) rest
        let mE2 := match mE with
          | .error .compile => fmtEval (evaluateAfterFailedCompile Oracle.std cond (req.getD []) rest)
          | _ => "-"
        let expected := s!"T={fmtTuple mT} E={fmtEval mE} E2={mE2}"
        let iT := implField impl "T"
        let iE := implField impl "E"
        let conditioned := tupName != ""
        let declared := ps.map (·.1)
        let absent := declared.filter fun k => !(keysOf tup).contains k && !(keysOf req).contains k
        -- property checks that do not go through the model's evaluation
        if iT.startsWith "err-but-true" then specViol "EvaluateTupleCondition returned true together with an error"
        else if conditioned && hasEC == "1" && tupName == condName && (iT == "true" || iT == "false") && !absent.isEmpty then
          specViol s!"declared parameter(s) {absent} are in neither context but the evaluation did not fail (got {iT})"
        else if impl == expected then
          let cls :=
            if !conditioned then "unconditioned"
            else match mT with
              | .ok true => "met"
              | .ok false => "not-met"
              | .error (.missing _) => "missing-parameter"
              | .error .paramType => "type-error"
              | .error .celEval => "cel-error"
              | .error .compile => "compile-error"
              | .error .notFound => "condition-not-found"
              | .error .panic => "panic"
          ok ("eval-" ++ cls) (conditioned && hasEC == "1" && tupName == condName)
        else if iT != fmtTuple mT then
          if iT == "true" || iT == "false" || fmtTuple mT == "true" || fmtTuple mT == "false" then
            -- which precedence would explain the implementation's answer?
            let swapped := evalTuple Oracle.std Oracle.cel tupName req ec tup
            let why := if fmtTuple swapped == iT && fmtTuple swapped != fmtTuple mT
              then " — the answer matches the *request* context overriding the stored one" else ""
            specViol s!"EvaluateTupleCondition gave {iT}; CEL over the request context overridden by the stored context, converted to the declared types, gives {fmtTuple mT}{why}"
          else modelDiff expected
        else if iE.startsWith "met:1" && !(fmtEval mE).startsWith "met:1" then
          specViol s!"Evaluate reported ConditionMet=true ({iE}); expected {fmtEval mE}"
        else modelDiff expected
    | _, _, _, _, _, _ => "SKIP unparsable-eval-case"

def step (c impl : String) : String :=
  if impl == "TIMEOUT" && !(c.startsWith "slow") then
    specViol "the case did not finish within 8 s (a converter or the evaluation hangs; cf. F14: error messages built with big.Float.String())"
  else
  match fields c with
  | [kind, tr, v] =>
    if kind != "conv" && kind != "convraw" && kind != "cast" && kind != "slow" then "SKIP unknown-case" else
    if kind == "slow" then
      -- liveness of the converter: the model decides instantly; the real code has to answer within the deadline
      match parseTypeRef tr, parseValue v with
      | some tref, some pv =>
        let expected := match decode tref with
          | none => "done DECERR"
          | some t => "done " ++ fmtConv (convert Oracle.std t (asInterface pv))
        if impl == "TIMEOUT" then
          specViol s!"the numeric converter did not finish within 5 s on a {(match pv with | .str b => b.length | _ => 0)}-byte string (expected {expected}): its error message formats the big.Float with String(), quadratic in the decimal exponent"
        else if impl == expected then ok "conv-prompt" else modelDiff expected
      | _, _ => "SKIP unparsable-slow-case"
    else
    if kind == "cast" then
      match parseParams tr, parseCtx v with
      | some ps, some ctx =>
        let m := ctx.getD []
        let expected := match castContext Oracle.std ps m with
          | .ok typed => if m.isEmpty then "nil" else encT (.map typed)
          | .typeErr => "ERR:type"
          | .panic => "PANIC"
        if impl == expected then ok ("cast-" ++ (if expected.startsWith "ERR" then "reject" else "accept"))
        else if !(impl.startsWith "ERR") && impl != "PANIC" && expected.startsWith "ERR" then
          specViol s!"CastContextToTypedParameters accepted a context the declared parameter types reject (expected {expected})"
        else modelDiff expected
      | _, _ => "SKIP unparsable-cast-case"
    else
    match parseTypeRef tr, parseValue v with
    | some tref, some pv =>
      match decode tref with
      | none => if impl == "DECERR" then ok "conv-undecodable-type" false else modelDiff "DECERR"
      | some t =>
        let jv := if kind == "conv" then asInterface pv else rawOf pv
        let expected := fmtConv (convert Oracle.std t jv)
        if impl == expected then
          ok (kind ++ "-" ++ (if expected == "ERR" then "reject" else if expected == "PANIC" then "panic" else "accept"))
        else if kind == "conv" && impl == "PANIC" then
          specViol s!"the converter panicked on a value that arrived through structpb (expected {expected})"
        else if expected == "ERR" && impl != "ERR" && impl != "DECERR" then
          specViol s!"a value that is not of the declared parameter type was accepted as {impl}"
        else if expected != "ERR" && expected != "PANIC" && impl != "ERR" && impl != "DECERR" && impl != "PANIC" then
          specViol s!"the value was converted to {impl}, the declared type's conversion gives {expected}"
        else modelDiff expected
    | _, _ => "SKIP unparsable-conv-case"
  | ["eval", tupNameH, hasEC, condNameH, paramsS, ekind, exprS, tupS, reqS, extraS] =>
    stepEval tupNameH hasEC condNameH paramsS ekind exprS tupS reqS extraS impl
  | ["sloweval", tupNameH, hasEC, condNameH, paramsS, ekind, exprS, tupS, reqS, extraS] =>
    if impl == "TIMEOUT" then
      specViol "EvaluateTupleCondition did not finish within 5 s: the numeric converter's error message formats the big.Float with String(), quadratic in the decimal exponent"
    else if impl.startsWith "done " then
      stepEval tupNameH hasEC condNameH paramsS ekind exprS tupS reqS extraS (impl.drop 5).toString
    else modelDiff "done …"
  | _ => "SKIP unknown-case"

def main : IO Unit := Proto.run step
