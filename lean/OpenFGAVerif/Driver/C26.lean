/-
Driver for C26: evaluates `Model.Authz` (relation table, module limit, handler skeletons and the ListStores guard
come from `Gen.Authz`) on the harness' case lines, compares with the real server / authorizer, and checks the
property itself (independently of `Gen`): a call passes authorization iff the access-control store grants it,
and ListStores only returns stores the caller may get.
-/
import OpenFGAVerif.Driver.Proto
import OpenFGAVerif.Model.Authz
import OpenFGAVerif.Gen.Authz

open OpenFGAVerif OpenFGAVerif.Proto OpenFGAVerif.Model.Authz

def names : Names := {
  storeType := Gen.Authz.cStoreType, moduleType := Gen.Authz.cModuleType, applicationType := Gen.Authz.cApplicationType,
  systemType := Gen.Authz.cSystemType, systemRelationOnStore := Gen.Authz.cSystemRelationOnStore,
  rootSystemID := Gen.Authz.cRootSystemID, canCallGetStore := Gen.Authz.cCanCallGetStore }

/-- the names the *specification* uses (never regenerated) -/
def specNames : Names := {}

/-- documented relation per API method — the specification side (never regenerated) -/
def specRelation : List (String × String) := [
  ("ReadAuthorizationModel", "can_call_read_authorization_models"), ("ReadAuthorizationModels", "can_call_read_authorization_models"),
  ("Read", "can_call_read"), ("Write", "can_call_write"), ("ListObjects", "can_call_list_objects"),
  ("StreamedListObjects", "can_call_list_objects"), ("Check", "can_call_check"), ("BatchCheck", "can_call_check"),
  ("ListUsers", "can_call_list_users"), ("WriteAssertions", "can_call_write_assertions"), ("ReadAssertions", "can_call_read_assertions"),
  ("WriteAuthorizationModel", "can_call_write_authorization_models"), ("ListStores", "can_call_list_stores"),
  ("CreateStore", "can_call_create_stores"), ("GetStore", "can_call_get_store"), ("DeleteStore", "can_call_delete_store"),
  ("Expand", "can_call_expand"), ("ReadChanges", "can_call_read_changes"),
  -- AuthZEN endpoints are served through the OpenFGA API methods they wrap
  ("Evaluation", "can_call_check"), ("Evaluations", "can_call_check"), ("EvaluationsDeny", "can_call_check"),
  ("EvaluationsPermit", "can_call_check"), ("SubjectSearch", "can_call_list_users"), ("ResourceSearch", "can_call_list_objects"),
  ("ActionSearch", "can_call_check"), ("ActionSearchUnknownType", "can_call_check")]

def handlerOf (m : String) : String :=
  if m = "EvaluationsDeny" ∨ m = "EvaluationsPermit" then "Evaluations"
  else if m = "ActionSearchUnknownType" then "ActionSearch" else m

def storeSym (s : String) : String := "S" ++ s

def parseGrant (holder : String) (g : String) : Option Tuple :=
  let app := "application:" ++ holder
  match g.splitOn "." with
  | ["y", rel] => some ⟨"system:fga", rel, app⟩
  | ["w", rel] => some ⟨"system:fga", rel, "application:*"⟩
  | [a, rel] =>
    if a.startsWith "s" then some ⟨"store:" ++ storeSym (a.drop 1).toString, rel, app⟩ else none
  | [a, m, x] =>
    if a.startsWith "m" then some ⟨"module:" ++ storeSym (a.drop 1).toString ++ "|" ++ m, x, app⟩
    else if a.startsWith "k" then some ⟨"module:" ++ storeSym (a.drop 1).toString ++ "|" ++ m, "store", "store:" ++ storeSym x⟩
    else none
  | [a] => if a.startsWith "l" then some ⟨"store:" ++ storeSym (a.drop 1).toString, "system", "system:fga"⟩ else none
  | _ => none

def parseGrants (holder : String) (gs : String) : Option (List Tuple) :=
  if gs = "-" then some [] else (gs.splitOn ",").mapM (parseGrant holder)

/-- what the typesystem of the target store says about each tuple kind of a Write.
`GetModulesForWriteRequest` looks at all the writes first, then at all the deletes (prefix `d`). -/
def classifyWrite (store : String) (spec : String) : List TupleModule :=
  let cls : Char → TupleModule := fun c =>
    if store = "r" then .typeNotFound      -- the access-control model has none of these types
    else match c with
      | 'a' => .module "ma"
      | 'e' => .module "mb"
      | 'b' => .module "mb"
      | 'c' => .module "mc"
      | 'p' => .noModule
      | 'x' => .typeNotFound
      | _ => .relationNotFound
  let rec split : List Char → List Char × List Char
    | [] => ([], [])
    | 'd' :: c :: rest => let (w, d) := split rest; (w, c :: d)
    | c :: rest => let (w, d) := split rest; (c :: w, d)
  let (w, d) := split spec.toList
  (w ++ d).map cls

def claimsOf (ident : String) : Option String :=
  if ident = "none" then none else if ident = "empty" then some "" else some "C"

def allStores : List Store := [⟨"Sr", "root-store"⟩, ⟨"S0", "store-0"⟩, ⟨"S1", "store-1"⟩, ⟨"S2", "store-2"⟩, ⟨"S3", "store-0"⟩]
def storeUniverse : List String := ["Sr", "S0", "S1", "S2", "S3", "Sn"]

def nameOfExtra (extra : String) : String :=
  match (extra.drop 1).toString.splitOn "." with
  | [_, "r"] => "root-store"
  | [_, "z"] => "no-such-name"
  | [_, "0"] => "store-0" | [_, "3"] => "store-0" | [_, "1"] => "store-1" | [_, "2"] => "store-2"
  | _ => ""

def showStores (l : List Store) : String :=
  let ns := (allStores.filter (fun s => l.contains s)).map (fun s => (s.id.drop 1).toString)
  if ns.isEmpty then "ok -" else "ok " ++ ",".intercalate ns

def outcomeStr : Outcome → String
  | .pass => "pass" | .forbidden => "forbidden" | .preError => "pre-error"

/-- does the implementation's class agree with the model's outcome? -/
def agrees (o : Outcome) (impl : String) : Bool :=
  match o with
  | .forbidden => impl = "forbidden"
  | .preError => impl.startsWith "err:"
  | .pass => impl ≠ "forbidden"

def causeStr : Cause → String
  | .noClient => "noclient" | .unknownMethod => "unknownmethod" | .checkError => "checkerror"
  | .notAllowed => "notallowed" | .tooManyModules => "toomanymodules"

def stepApi (m ident store grants wspec extra implRaw : String) : String :=
  -- "forbidden+mid": refused, but the resolved authorization-model id of the target store was set as a response header
  let mid := implRaw = "forbidden+mid"
  let impl := if mid then "forbidden" else implRaw
  let holder := if ident = "other" then "X" else "C"
  match parseGrants holder grants with
  | none => "SKIP bad-grants"
  | some T =>
    let claims := claimsOf ident
    let check : Checker := rootCheck T
    let S := storeSym store
    if impl.startsWith "SETUP-ERR" then "SKIP " ++ impl else
    if m = "ListStores" then
      -- model
      let mayList := authorizeSystem Gen.Authz.methodRelation names check claims "ListStores"
      let ids := storeUniverse.filter (fun s => check ⟨names.appUser "C", names.canCallGetStore, names.storeObj s, []⟩ = .allowed)
      let granted := listAuthorizedStores names claims (fun _ => some (ids.map names.storeObj))
      let expected := match getAccessibleStores false mayList granted with
        | none => "forbidden"
        | some acc => showStores (serverListStores Gen.Authz.listStoresEmptyGuard acc allStores (nameOfExtra extra))
      -- property: every returned store is one the caller may get (GetStore would be authorized)
      let listed := if impl.startsWith "ok " ∧ impl ≠ "ok -" then (impl.drop 3).toString.splitOn "," else []
      let mayGet := fun (s : String) => grantedB specRelation 1 specNames check ⟨claims, storeSym s, "GetStore", []⟩
      let leaked := listed.filter (fun s => !mayGet s)
      if !leaked.isEmpty then
        (if ids.isEmpty then specViol s!"ListStores leaks stores when the granted list is empty (regression of F3, fixed by commit 31b7057): returned {",".intercalate leaked} to a caller that may get none of them"
         else specViol s!"ListStores returned stores the caller may not get: {",".intercalate leaked}")
      else if impl.startsWith "ok" ∧ !(authorizeSystem specRelation specNames check claims "ListStores" == .ok ()) then
        specViol "ListStores answered a caller without can_call_list_stores"
      else if impl ≠ expected then modelDiff expected
      else ok (if impl = "forbidden" then "liststores-forbidden" else if listed.isEmpty then "liststores-empty" else "liststores-filtered") (impl ≠ "forbidden")
    else if m = "CreateStore" then
      let o := checkAuthz false (authorizeSystem Gen.Authz.methodRelation names check claims "CreateStore")
      let spec := authorizeSystem specRelation specNames check claims "CreateStore" == .ok ()
      if impl ≠ "forbidden" ∧ !spec then specViol "CreateStore passed authorization without can_call_create_stores"
      else if impl = "forbidden" ∧ spec then specViol "CreateStore denied despite can_call_create_stores"
      else if !agrees o impl then modelDiff (outcomeStr o)
      else ok ("createstore-" ++ outcomeStr o) spec
    else
      let h := handlerOf m
      match findHandler Gen.Authz.handlers h with
      | none => modelDiff s!"handler {h} not found in pkg/server"
      | some hd =>
        let ts := classifyWrite store wspec
        -- does the typesystem of the target store resolve / know the type ActionSearch asks for?
        let typesysFails := store = "n"
        let preFails := typesysFails || (h = "ActionSearch" && (store = "r" || m = "ActionSearchUnknownType"))
        -- model (skeleton from Gen)
        let o : Outcome :=
          if typesysBeforeGuard hd.2 ∧ preFails then .preError else
          match guardOf Gen.Authz.handlers 64 hd.2 with
          | none => .pass
          | some g =>
            match g.splitOn ":" with
            | ["checkAuthz", am] => checkAuthz false (authorize Gen.Authz.methodRelation Gen.Authz.maxModulesInRequest names check id ⟨claims, S, am, []⟩)
            | ["checkWriteAuthz", _] => checkWriteAuthz false ts (fun ms => authorize Gen.Authz.methodRelation Gen.Authz.maxModulesInRequest names check id ⟨claims, S, "Write", ms⟩)
            | ["checkCreateStoreAuthz", _] => checkAuthz false (authorizeSystem Gen.Authz.methodRelation names check claims "CreateStore")
            | ["getAccessibleStores", _] => checkAuthz false (authorizeSystem Gen.Authz.methodRelation names check claims "ListStores")
            | _ => .pass
        -- property (independent of Gen)
        if m = "GetConfiguration" then
          (if agrees o impl then ok "getconfiguration-no-data" false else modelDiff (outcomeStr o))
        else
          let mods : Option (List String) := if m = "Write" then extractModules ts [] else some []
          let granted := match mods with
            | none => false
            | some ms => grantedB specRelation 1 specNames check ⟨claims, S, m, ms⟩
          -- a non-authorization error before the authorizer is legitimate only where the model must be read first
          let specPre := (m = "Write" ∨ h = "ActionSearch") ∧ preFails
          if impl ≠ "forbidden" ∧ !granted ∧ !(specPre ∧ impl.startsWith "err:") then
            specViol s!"{m} passed authorization without a grant (impl={impl})"
          else if impl = "forbidden" ∧ granted ∧ !specPre then
            specViol s!"{m} was denied although the access-control store grants it"
          else if !agrees o impl then modelDiff (outcomeStr o)
          -- the model-id header goes out on a refused call exactly when the typesystem is resolved before the authorizer
          -- (not observed for the access-control store itself: the authorizer's nested Check sets that header on every call)
          else if impl = "forbidden" ∧ mid ≠ (typesysBeforeGuard hd.2 && !preFails && store != "r") then
            modelDiff (if mid then "forbidden (no model-id header expected)" else "forbidden+mid")
          else ok (m ++ "-" ++ outcomeStr o ++ (if mid then "-modelid-header-exposed" else "")) (granted || grants ≠ "-")

def scriptRes (c : Char) : CheckRes := if c = 'A' then .allowed else if c = 'E' then .error else .denied

def stepAu (mhex client sres mods impl : String) : String :=
  match unhexStr mhex with
  | none => "SKIP bad-hex"
  | some method =>
    let ms : List (String × CheckRes) := if mods = "-" then [] else
      (mods.splitOn ",").map (fun e => match e.splitOn ":" with
        | [n, r] => (n, scriptRes (r.toList.headD 'D'))
        | _ => (e, .denied))
    let sr := scriptRes (sres.toList.headD 'D')
    let check : Checker := fun q =>
      if isType "module" q.object then
        match q.object.splitOn "|" with
        | [_, mn] => (ms.lookup mn).getD .denied
        | _ => .denied
      else sr
    let claims := if client = "none" then none else if client = "empty" then some "" else some client
    let r : Req := ⟨claims, "01HSTORESTORESTORESTORESTOR", method, ms.map (·.1)⟩
    let res := authorize Gen.Authz.methodRelation Gen.Authz.maxModulesInRequest names check id r
    let nfail := (ms.filter (fun p => p.2 ≠ .allowed)).length
    let expected := match res with
      | .ok _ => "allow"
      | .error c =>
        if !ms.isEmpty ∧ (c = .checkError ∨ c = .notAllowed) ∧ sr ≠ .allowed ∧ nfail > 1 then "deny module"
        else "deny " ++ causeStr c
    let granted := grantedB specRelation 1 specNames check r
    if impl = "allow" ∧ !granted then specViol "Authorize allowed a request the access-control store does not grant"
    else if impl ≠ "allow" ∧ granted then specViol "Authorize denied a request the access-control store grants"
    else if impl ≠ expected then modelDiff expected
    else ok ("authorize-" ++ (if impl = "allow" then "allow" else (impl.drop 5).toString)) (claims.isSome ∧ claims ≠ some "")

def stepLas (client objs impl : String) : String :=
  let claims := if client = "none" then none else if client = "empty" then some "" else some client
  let lo : Option (List String) :=
    if objs = "E" then none else if objs = "-" then some [] else (objs.splitOn ",").mapM unhexStr
  if objs ≠ "E" ∧ lo.isNone then "SKIP bad-hex" else
  let expected := match listAuthorizedStores names claims (fun _ => lo) with
    | none => "err"
    | some [] => "ok empty"
    | some l => "ok " ++ ",".intercalate (l.map hexStr)
  if impl ≠ expected then modelDiff expected else ok (if expected = "err" then "las-err" else "las-ok") (expected ≠ "err")

def step (c impl : String) : String :=
  match fields c with
  | ["api", m, ident, store, grants, wspec, extra] => stepApi m ident store grants wspec extra impl
  | ["au", mhex, client, sres, mods] => stepAu mhex client sres mods impl
  | ["las", client, objs] => stepLas client objs impl
  | _ => "SKIP unknown-case"

def main : IO Unit := Proto.run step
