/-
Driver for C27: evaluates `Model.Authn` (parser options, issuer list, validator options and the subject guard come
from `Gen.Authn`) on the harness' case lines, compares with the real authenticators, and checks the property
itself: pre-shared — accepted iff the bearer token is one of the keys; OIDC — accepted iff the token satisfies the
conditions the property lists (computed here without `Gen`).
-/
import OpenFGAVerif.Driver.Proto
import OpenFGAVerif.Model.Authn
import OpenFGAVerif.Gen.Authn

open OpenFGAVerif OpenFGAVerif.Proto OpenFGAVerif.Model.Authn

/-- An empty-string issuer alias / subject entry makes the real authenticator accept every issuer / subject
(jwt.WithIssuer("") disables the check).  The property quantifies over tokens, not over configurations, so by
default such configurations are reported as a class of their own; set to `true` to make them violations. -/
def strictEmptyEntries : Bool := false

def audCfg := "openfga-audience"
def aliasIss := "https://alias.issuer.example/"
def mainIss := "MAIN"

def configOf (c : String) : Option Config :=
  match c with
  | "0" => some ⟨mainIss, [], audCfg, [], []⟩
  | "1" => some ⟨mainIss, [aliasIss], audCfg, ["alice", "bob"], []⟩
  | "2" => some ⟨mainIss, [""], audCfg, [""], []⟩
  | "3" => some ⟨mainIss, [aliasIss], audCfg, [], ["cid"]⟩
  | "4" => some ⟨mainIss, [], audCfg, ["alice"], []⟩
  | _ => none

def bytesOf (s : String) : Proto.Bytes := s.toUTF8.toList

def headerOf (hf : String) : Option (List Proto.Bytes) :=
  match hf with
  | "std" => some [bytesOf "Bearer x"]
  | "lower" => some [bytesOf "bearer x"]
  | "upper" => some [bytesOf "BEARER x"]
  | "none" => some []
  | "basic" => some [bytesOf "Basic x"]
  | "nospace" => some [bytesOf "Bearerx"]
  | "twosp" => some [bytesOf "Bearer  x"]
  | _ => none

def numOf (s : String) : Option NumClaim :=
  match s with
  | "absent" => some .absent | "past" => some (.val (-3600)) | "future" => some (.val 3600) | "bad" => some .bad | _ => none

def strOf (s : String) : Option StrClaim :=
  if s = "absent" then some .absent else if s = "bad" then some .bad
  else if s.startsWith "s:" then (unhexStr (s.drop 2).toString).map .val else none

def malformed : Token :=
  { wellFormed := false, alg := "", sigOk := false, exp := .absent, iat := .absent, nbf := .absent, aud := .absent,
    iss := .absent, sub := .absent, other := [] }

def tokenOf (sig exp iat nbf aud iss sub azp clientID cid scope : String) : Option Token := do
  let (wf, alg, sigOk) ← match sig with
    | "good" => some (true, "RS256", true) | "kid2" => some (true, "RS256", true)
    | "otherkey" => some (true, "RS256", false) | "unknownkid" => some (true, "RS256", false)
    | "nokid" => some (true, "RS256", false) | "garbage" => some (true, "RS256", false)
    | "hs256pub" => some (true, "HS256", false) | "none" => some (true, "none", false)
    | "rs384" => some (true, "RS384", true) | "rs512" => some (true, "RS512", true) | "ps256" => some (true, "PS256", true)
    | "malformed" => some (false, "RS256", false)
    | _ => none
  let e ← numOf exp; let i ← numOf iat; let n ← numOf nbf
  let a ← match aud with
    | "absent" => some AudClaim.absent | "cfg" => some (.vals [audCfg]) | "other" => some (.vals ["someone-else"])
    | "listcfg" => some (.vals ["x", audCfg]) | "listother" => some (.vals ["x", "y"]) | "empty" => some (.vals [""])
    | "emptylist" => some (.vals []) | "bad" => some .bad | _ => none
  let is ← match iss with
    | "absent" => some StrClaim.absent | "main" => some (.val mainIss) | "alias" => some (.val aliasIss)
    | "other" => some (.val "https://evil.example/") | "empty" => some (.val "") | "bad" => some .bad | _ => none
  let sb ← match sub with
    | "absent" => some StrClaim.absent | "alice" => some (.val "alice") | "bob" => some (.val "bob")
    | "other" => some (.val "mallory") | "empty" => some (.val "") | "bad" => some .bad | _ => none
  let c1 ← strOf azp; let c2 ← strOf clientID; let c3 ← strOf cid; let sc ← strOf scope
  pure { wellFormed := wf, alg := alg, sigOk := sigOk, exp := e, iat := i, nbf := n, aud := a, iss := is, sub := sb,
         other := [("azp", c1), ("client_id", c2), ("cid", c3), ("scope", sc)] }

def insertSorted (x : String) : List String → List String
  | [] => [x]
  | y :: ys => if x < y then x :: y :: ys else if x = y then y :: ys else y :: insertSorted x ys

def scopesStr (sc : Option String) : String :=
  match sc with
  | none => "-"
  | some s =>
    let hs := (s.splitOn " ").foldl (fun acc p => insertSorted (hexStr p) acc) []
    ",".intercalate hs

/-- the property as worded, evaluated directly (no `Gen`, no model of the library's option handling) -/
def statedB (cfg : Config) (now : Int) (t : Token) : Bool :=
  t.wellFormed && t.alg == "RS256" && t.sigOk &&
  (match t.exp with | .val e => decide (now < e) | _ => false) &&
  (match t.iat with | .val i => decide (¬ now < i) | _ => true) &&
  (match t.aud with | .vals l => l.contains cfg.audience | _ => false) &&
  (match t.iss with | .val i => (cfg.mainIssuer :: cfg.aliases).contains i | _ => false) &&
  (cfg.subjects.isEmpty || (match t.sub with | .val s => cfg.subjects.contains s | _ => false))

def stepOidc (c hf sig exp iat nbf aud iss sub azp clientID cid scope impl : String) : String :=
  match configOf c, headerOf hf, tokenOf sig exp iat nbf aud iss sub azp clientID cid scope with
  | some cfg, some vals, some t =>
    if impl.startsWith "TOKEN-ERR" then "SKIP " ++ impl else
    let view : Proto.Bytes → Token := fun b => if b = bytesOf "x" then t else malformed
    let r := oidcAuthenticate Gen.Authn.parserOptions Gen.Authn.validIssuers Gen.Authn.validatorOptions Gen.Authn.subjectGuard cfg 0 view vals
    let expected := match r with
      | .missingBearer => "reject missing_bearer"
      | .invalidClaims => "reject invalid_claims"
      | .accepted s cid sc => s!"accept sub={hexStr s} cid={hexStr cid} scopes={scopesStr sc}"
    -- property
    let tokSeen : Option Token := match hf with
      | "std" => some t | "lower" => some t | "upper" => some t | "twosp" => some malformed | _ => none
    let stated := match tokSeen with | some tk => statedB cfg 0 tk | none => false
    let accepted := impl.startsWith "accept"
    let emptyEntry := cfg.aliases.contains "" || cfg.subjects.contains ""
    if accepted ∧ !stated then
      (if emptyEntry then
        (if strictEmptyEntries then specViol "OIDC accepted a token of a foreign issuer/subject: an empty-string alias/subject entry disables the check"
         else if impl = expected then ok "oidc-empty-config-entry-wildcard" false else modelDiff expected)
       else specViol s!"OIDC accepted a token the property does not allow (impl={impl})")
    else if !accepted ∧ stated then
      -- stricter than worded: nbf in the future / ill-typed nbf, iat, sub, or aud == [""]: documented in Props (SideConditions)
      let strictOk := numNotFuture 0 t.nbf = false || t.iat == .bad || t.sub == .bad
      if strictOk then (if impl = expected then ok "oidc-reject-stricter-than-worded" else modelDiff expected)
      else specViol s!"OIDC rejected a token the property allows (impl={impl})"
    else if impl ≠ expected then modelDiff expected
    else ok (if accepted then "oidc-accept" else if impl = "reject missing_bearer" then "oidc-missing-bearer" else "oidc-reject") true
  | _, _, _ => "SKIP bad-case"

def parseKeys (s : String) : Option (List Proto.Bytes) :=
  if s = "nokeys" then some [] else (s.splitOn ",").mapM unhex

def parseHdrs (s : String) : Option (List Proto.Bytes) :=
  if s = "none" then some [] else (s.splitOn ",").mapM unhex

/-- specification side: the first header value is `<bearer in any case> <key>` for a configured key -/
def specPskAccept (keys vals : List Proto.Bytes) : Bool :=
  match vals with
  | [] => false
  | v :: _ => decide (v.length ≥ 7) && (v.take 6).map lowerAscii == bearerLower && v.getD 6 0 == 32 && keys.contains (v.drop 7)

def stepPsk (mw : Bool) (ks hs impl : String) : String :=
  match parseKeys ks, parseHdrs hs with
  | some keys, some vals =>
    match presharedNew (fun b => b) keys with
    | none => if impl = "ctor-error" then ok "psk-ctor-error" false else modelDiff "ctor-error"
    | some hashes =>
      let r := presharedAuthenticate (fun b => b) hashes vals
      let expected :=
        if mw then (match r with | .accepted => "ctx-claims" | .missingBearer => "err-missing" | .unauthenticated => "err-unauth")
        else (match r with | .accepted => "accept" | .missingBearer => "missing" | .unauthenticated => "unauth")
      let accepted := impl = "accept" ∨ impl = "ctx-claims"
      let spec := specPskAccept keys vals
      if accepted ∧ !spec then specViol "pre-shared key authentication accepted a token that is not a configured key"
      else if !accepted ∧ spec then specViol "pre-shared key authentication rejected a configured key"
      else if impl ≠ expected then modelDiff expected
      else ok ((if mw then "mw-" else "psk-") ++ expected) (vals ≠ [])
  | _, _ => "SKIP bad-hex"

def step (c impl : String) : String :=
  match fields c with
  | ["oidc", cfg, hf, sig, exp, iat, nbf, aud, iss, sub, azp, clientID, cid, scope] =>
    stepOidc cfg hf sig exp iat nbf aud iss sub azp clientID cid scope impl
  | ["psk", ks, hs] => stepPsk false ks hs impl
  | ["mw", ks, hs] => stepPsk true ks hs impl
  | _ => "SKIP unknown-case"

def main : IO Unit := Proto.run step
