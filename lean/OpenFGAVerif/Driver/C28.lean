/-
Driver for C28: evaluates `Model.Token` (with the separators / stage lists from `Gen.Token`) on the
harness' case lines and compares with the real code's output.
-/
import OpenFGAVerif.Driver.Proto
import OpenFGAVerif.Model.Token
import OpenFGAVerif.Gen.Token

open OpenFGAVerif OpenFGAVerif.Proto OpenFGAVerif.Model.Token

def serSep := Gen.Token.serializeSep
def desSep := Gen.Token.deserializeSep

def step (c impl : String) : String :=
  match fields c with
  | ["ser", u, t] =>
    match unhex u, unhex t with
    | some u, some t =>
      let expected :=
        match serialize serSep u t with
        | none => "S=ERR"
        | some tok =>
          match deserialize desSep tok with
          | none => s!"S={hex tok} D=ERR"
          | some (u2, t2) => s!"S={hex tok} D={hex u2},{hex t2}"
      if impl != expected then modelDiff expected
      else
        -- property: every position the server can issue (non-empty, no separator byte) round-trips
        if u ≠ [] ∧ ¬ (124 : UInt8) ∈ u then
          (if impl == s!"S={hex (u ++ [124] ++ t)} D={hex u},{hex t}" then ok "ser-roundtrip" else specViol "issued token does not decode to its own position")
        else ok "ser-rejected-or-ambiguous" (u ≠ [])
    | _, _ => "SKIP bad-hex"
  | ["deser", tok] =>
    match unhex tok with
    | some tok =>
      let expected := match deserialize desSep tok with
        | none => "err"
        | some (u, t) => s!"ok {hex u} {hex t}"
      if impl != expected then modelDiff expected else ok (if expected == "err" then "deser-reject" else "deser-accept")
    | none => "SKIP bad-hex"
  | ["b64", d] =>
    match unhex d with
    | some d =>
      let e := b64encode d
      let expected := match b64decode e with
        | none => s!"E={hex e} D=ERR"
        | some d2 => s!"E={hex e} D={hex d2}"
      if impl != expected then
        (if impl.endsWith s!"D={hex d}" then modelDiff expected else specViol s!"base64 round trip lost the data; model says {expected}")
      else if impl.endsWith s!"D={hex d}" then ok "b64-roundtrip" (d ≠ []) else specViol "base64 round trip lost the data"
    | none => "SKIP bad-hex"
  | ["b64dec", s] =>
    match unhex s with
    | some s =>
      let expected := match b64decode s with
        | none => "err"
        | some d => s!"ok {hex d}"
      if impl != expected then modelDiff expected else ok (if expected == "err" then "b64dec-reject" else "b64dec-accept")
    | none => "SKIP bad-hex"
  | ["tok", _, d] =>
    -- AES-GCM is abstract in the model: only the property (round trip) is checked
    if impl == s!"ok {d}" then ok "tok-roundtrip" (d != "-") else specViol "encrypted token does not decode to its payload"
  | ["tamper", _, d, _, _, _] =>
    match fields impl with
    | [_, "rej"] => ok "tamper-rejected"
    | ["sameraw", "acc", d2] => if d2 == d then ok "tamper-noop-accepted" else specViol "unchanged ciphertext decoded to other data"
    | ["changed", "acc", d2] =>
      -- the empty token decrypts to the empty payload, which `Deserialize` rejects (deserialize_sound: ulid ≠ [])
      if d2 == "-" then ok "tamper-empty-payload-rejected-by-deserialize"
      else if d2 == d then specViol "a modified ciphertext was accepted (same payload)" else specViol "a modified token decoded to a different position"
    | _ => if impl == "keyerr" || impl == "encerr" then "SKIP " ++ impl else modelDiff "rej|acc"
  | ["sqlser", u, t] =>
    -- sqlcommon serializer: encoding/json is not modelled; the property itself (issued position decodes to itself) is checked
    if u == "-" then (if impl == "sererr" then ok "sqlser-empty-rejected" false else modelDiff "sererr")
    else if impl == s!"ok {u} {t}" then ok "sqlser-roundtrip"
    else specViol s!"a position issued by the SQL serializer does not decode back to itself ({impl})"
  | ["rcgate", pat, _, _, pt, _] =>
    -- ReadChanges gate: class from the model's `rcGate` on the presented (decoded) token; on resume the first
    -- returned change is the first one after the token's position whose type passes the request's filter
    match unhex pt, fields impl with
    | some ptb, [ranks, raw, cls, nxt] =>
      match unhex (raw.drop 4).toString with
      | none => "SKIP bad-hex"
      | some rawb =>
        let rankL := ((ranks.drop 6).toString.splitOn ",")
        let types := pat.toList
        let passes (r : Nat) : Bool :=
          ptb == [] || (match types[r]? with
            | some 'd' => ptb == "doc".toUTF8.toList
            | some 'f' => ptb == "folder".toUTF8.toList
            | _ => false)
        let firstFrom (k : Nat) : String :=
          match (List.range types.length).find? (fun r => k ≤ r && passes r) with
          | some r => toString r
          | none => "none"
        let expected :=
          match rcGate desSep rawb ptb with
          | .start => s!"class=start next={firstFrom 0}"
          | .invalid => "class=invalid next=none"
          | .mismatch => "class=mismatch next=none"
          | .resume u =>
            match rankL.idxOf? (hex u) with
            | some k => s!"class=resume next={firstFrom (k + 1)}"
            | none => "class=resume next=?"
        let got := s!"{cls} {nxt}"
        if got == expected then ok ("rcgate-" ++ (cls.drop 6).toString) (cls != "class=start")
        else if expected.endsWith "next=?" then "SKIP unknown-position"
        else if cls == "class=resume" && !expected.startsWith "class=resume" then
          specViol s!"ReadChanges accepted a token the gate must reject ({expected}; got {got})"
        else if cls == "class=resume" then
          specViol s!"ReadChanges resumed at another position than the token encodes ({expected}; got {got})"
        else modelDiff expected
    | _, _ => modelDiff "ranks= raw= class= next="
  | ["api", ep, _] =>
    if impl == "issued=ok next=ok forged=rej foreign=rej" then ok ("api-" ++ ep)
    else if impl.startsWith "issued=" then specViol s!"endpoint {ep}: tokens are not bound to the configured key ({impl})"
    else "SKIP " ++ impl
  | ["conc", _, _, _] =>
    if impl == "bad=0" then ok "concurrent-issuing"
    else if impl.startsWith "bad=" then specViol s!"tokens issued concurrently do not decode back to their position ({impl})"
    else "SKIP " ++ impl
  | ["xkey", k1, k2, _] =>
    if k1 == k2 then (if impl.startsWith "acc" then ok "xkey-same-key" false else modelDiff "acc")
    else if impl == "rej" then ok "foreign-key-rejected"
    else if impl.startsWith "acc" then specViol "a token issued under a different key was accepted"
    else "SKIP " ++ impl
  | ["full", _, u, t] =>
    match unhex u, unhex t with
    | some ub, some tb =>
      -- model: Serialize, (abstract, correct) encrypt/encode/decode/decrypt, Deserialize
      let expected := match serialize serSep ub tb with
        | none => "sererr"
        | some tok => match deserialize desSep tok with
          | none => "deserr"
          | some (u2, t2) => s!"ok {hex u2} {hex t2}"
      if impl != expected then
        (if ub ≠ [] ∧ ¬ (124 : UInt8) ∈ ub then specViol "issued encrypted token does not decode to its own position" else modelDiff expected)
      else if ub ≠ [] ∧ ¬ (124 : UInt8) ∈ ub then
        (if impl == s!"ok {u} {t}" then ok "full-roundtrip" else specViol "issued encrypted token does not decode to its own position")
      else ok "full-rejected-or-ambiguous" false
    | _, _ => "SKIP bad-hex"
  | _ => "SKIP unknown-case"

def main : IO Unit := Proto.run step
