/-
Driver for C29: evaluates `Model.TupleStr` on the harness' case lines, compares with the output of the
real pkg/tuple functions, and checks the property itself (round trips of valid values, validity =
byte-level grammar of `Spec.TupleStr`) on the implementation's own output, independently of the model.
-/
import OpenFGAVerif.Driver.Proto
import OpenFGAVerif.Model.TupleStr
import OpenFGAVerif.Spec.TupleStr

open OpenFGAVerif OpenFGAVerif.Proto OpenFGAVerif.Model.TupleStr

namespace C29Driver

def bit (b : Bool) : String := if b then "1" else "0"
def pair (a b : (List UInt8)) : String := s!"{hex a},{hex b}"
def triple (a b c : (List UInt8)) : String := s!"{hex a},{hex b},{hex c}"

def userStruct : User → String
  | .wildcard t => "W," ++ triple t [] []
  | .userset t i r => "U," ++ triple t i r
  | .object t i => "O," ++ triple t i []

def parseOut (s : (List UInt8)) : String :=
  match parseTupleString s with
  | .error .noHash => "e1"
  | .error .badObject => "e2"
  | .error .noAt => "e3"
  | .error .badRelation => "e4"
  | .error .badUser => "e5"
  | .ok tk => "ok:" ++ triple tk.object tk.relation tk.user

def hexNat (n : Nat) : String := String.ofList (Nat.toDigits 16 n)

def runesOut (s : (List UInt8)) : String :=
  match runes s with
  | [] => "-"
  | rs => ",".intercalate (rs.map fun (k, r) => s!"{k}:{hexNat r}:{bit (isControl r)}")

/-- value of key `k` in "k1=v1 k2=v2 …" -/
def kv (impl : String) (k : String) : String :=
  match (fields impl).find? (fun f => f.startsWith (k ++ "=")) with
  | some f => (f.drop (k.length + 1)).toString
  | none => ""

def strExpected (s : (List UInt8)) : String :=
  let (t, id) := splitObject s
  let (ob, rel) := splitObjectRelation s
  let (a, b, c) := toUserParts s
  let u := stringToUserProto s
  let p := parseOut s
  let base := s!"so={pair t id} sor={pair ob rel} gt={hex (getType s)} gr={hex (getRelation s)} " ++
    s!"v={bit (isValidObject s)}{bit (isValidRelation s)}{bit (isValidUserID s)}{bit (isValidUserset s)}" ++
    s!"{bit (isValidUser s)}{bit (isObjectRelation s)}{bit (isWildcard s)}{bit (isTypedWildcard s)}{bit (getUserTypeFromUser s)} " ++
    s!"up={triple a b c} usp={userStruct u} rt={hex (userProtoToString u)} fup={hex (fromUserParts a b c)} " ++
    s!"bo={hex (buildObject t id)} ok={hex (buildObject t id)} tor={hex (toObjectRelationString ob rel)} " ++
    s!"gor={hex (getObjectRelationAsString ob rel)} tpw={hex (typedPublicWildcard (getType s))} p={p}"
  match parseTupleString s with
  | .ok tk => base ++ s!" ts={hex (tupleKeyToString tk)}"
  | .error _ => base

def tupExpected (a b c : (List UInt8)) (cond : Option (List UInt8)) : String :=
  let tk : TK := ⟨a, b, c⟩
  let ts := tupleKeyToString tk
  let cs := tupleKeyWithConditionToString tk cond
  let bo := buildObject a b
  let tor := toObjectRelationString a b
  let gor := getObjectRelationAsString a b
  let (x, y, z) := toUserPartsFromObjectRelation a b
  let fup := fromUserParts a b c
  let (p1, p2, p3) := toUserParts fup
  let us := userProtoToString (.userset a b c)
  let os := userProtoToString (.object a b)
  let ws := userProtoToString (.wildcard a)
  s!"ts={hex ts} str={hex ts} p={parseOut ts} v={bit (isValidObject a)}{bit (isValidRelation b)}{bit (isValidUser c)} " ++
  s!"sd={bit (isSelfDefining tk)} um={bit (usersetMatchTypeAndRelation a b c)} cs={hex cs} cp={parseOut cs} " ++
  s!"bo={hex bo},{bit (isValidObject bo)},{pair (splitObject bo).1 (splitObject bo).2} " ++
  s!"tor={hex tor},{bit (isValidUserset tor)},{pair (splitObjectRelation tor).1 (splitObjectRelation tor).2} " ++
  s!"gor={hex gor},{pair (splitObjectRelation gor).1 (splitObjectRelation gor).2} tupor={triple x y z} " ++
  s!"fup={hex fup},{bit (isValidUser fup)},{triple p1 p2 p3} " ++
  s!"us={hex us},{bit (isValidUserset us)},{userStruct (stringToUserProto us)} " ++
  s!"os={hex os},{bit (isValidObject os)},{userStruct (stringToUserProto os)} " ++
  s!"ws={hex ws},{bit (isValidObject ws)}{bit (isTypedWildcard ws)},{userStruct (stringToUserProto ws)}"

open OpenFGAVerif.Spec.TupleStr in
/-- property checks on the implementation's output for a `str` case; `none` = all hold -/
def strSpec (s : (List UInt8)) (impl : String) : Option String :=
  let v := (kv impl "v").toList
  let b (i : Nat) : Bool := v.getD i '?' == '1'
  let hs := hex s
  if v.length ≠ 9 then some "malformed impl output"
  else if b 0 ≠ grammarObjectB s then some s!"IsValidObject={bit (b 0)} but the object grammar says {bit (grammarObjectB s)}"
  else if b 1 ≠ grammarRelationB s then some s!"IsValidRelation={bit (b 1)} but the relation grammar says {bit (grammarRelationB s)}"
  else if b 2 ≠ grammarUserIDB s then some s!"IsValidUserID={bit (b 2)} but the user-id grammar says {bit (grammarUserIDB s)}"
  else if b 3 ≠ grammarUsersetB s then some s!"IsValidUserset={bit (b 3)} but the userset grammar says {bit (grammarUsersetB s)}"
  else if b 4 ≠ grammarUserB s then some s!"IsValidUser={bit (b 4)} but the user grammar says {bit (grammarUserB s)}"
  else if b 5 ≠ b 3 then some "IsObjectRelation differs from IsValidUserset"
  else if b 0 && kv impl "bo" != hs then some "a valid object does not survive SplitObject/BuildObject"
  else if b 3 && kv impl "tor" != hs then some "a valid userset does not survive SplitObjectRelation/ToObjectRelationString"
  else if b 3 && kv impl "gor" != hs then some "a valid userset does not survive SplitObjectRelation/GetObjectRelationAsString"
  else if (b 0 || b 3) && kv impl "rt" != hs then some "a valid typed user does not survive StringToUserProto/UserProtoToString"
  else if b 4 && kv impl "fup" != hs then some "a valid user does not survive ToUserParts/FromUserParts"
  else if b 7 && kv impl "tpw" != hs then some "a typed wildcard is not TypedPublicWildcard of its type"
  else if b 0 && b 7 && !(kv impl "usp").startsWith "W," then some "a valid typed wildcard is not converted to User_Wildcard"
  else if (kv impl "p").startsWith "ok:" && kv impl "ts" != hs then some "ParseTupleString accepted a string that TupleKeyToString does not reproduce"
  else none

open OpenFGAVerif.Spec.TupleStr in
def tupSpec (a b c : (List UInt8)) (impl : String) : Option String :=
  let v := (kv impl "v").toList
  let vb (i : Nat) : Bool := v.getD i '?' == '1'
  let bo := (kv impl "bo").splitOn ","
  let tor := (kv impl "tor").splitOn ","
  let fup := (kv impl "fup").splitOn ","
  let us := (kv impl "us").splitOn ","
  let os := (kv impl "os").splitOn ","
  let ws := (kv impl "ws").splitOn ","
  let noSep (x : (List UInt8)) : Bool := !x.contains 58 && !x.contains 35
  if v.length ≠ 3 then some "malformed impl output"
  else if vb 0 ≠ grammarObjectB a then some s!"IsValidObject={bit (vb 0)} but the object grammar says {bit (grammarObjectB a)}"
  else if vb 1 ≠ grammarRelationB b then some s!"IsValidRelation={bit (vb 1)} but the relation grammar says {bit (grammarRelationB b)}"
  else if vb 2 ≠ grammarUserB c then some s!"IsValidUser={bit (vb 2)} but the user grammar says {bit (grammarUserB c)}"
  else if vb 0 && vb 1 && vb 2 && kv impl "p" != "ok:" ++ triple a b c then some "a valid tuple key does not survive TupleKeyToString/ParseTupleString"
  else if vb 0 && vb 1 && vb 2 && kv impl "str" != kv impl "ts" then some "Tuple.String differs from TupleKeyToString on a valid tuple"
  else if bo.getD 1 "" == "1" && bo.drop 2 != [hex a, hex b] then some "BuildObject gave a valid object that SplitObject does not split back"
  else if tor.getD 1 "" == "1" && tor.drop 2 != [hex a, hex b] then some "ToObjectRelationString gave a valid userset that SplitObjectRelation does not split back"
  else if noSep a && noSep b && !c.contains 35 && fup.drop 2 != [hex a, hex b, hex c] then some "separator-free user parts do not survive FromUserParts/ToUserParts"
  else if us.getD 1 "" == "1" && us.drop 2 != ["U", hex a, hex b, hex c] then some "a valid userset user does not survive UserProtoToString/StringToUserProto"
  else if os.getD 1 "" == "1" && b ≠ [42] && os.drop 2 != ["O", hex a, hex b, "-"] then some "a valid object user does not survive UserProtoToString/StringToUserProto"
  else if (ws.getD 1 "").startsWith "1" && ws.drop 1 != ["11", "W", hex a, "-", "-"] then some "a valid typed wildcard does not survive UserProtoToString/StringToUserProto"
  else none

def interesting (s : (List UInt8)) : Bool :=
  s.any (fun x => x == 58 || x == 35 || x == 64 || x ≥ 0x80)

def step (c impl : String) : String :=
  match fields c with
  | ["runes", s] =>
    match unhex s with
    | some s =>
      let e := runesOut s
      if impl != e then modelDiff e else ok "runes" (s.any (· ≥ 0x80))
    | none => "SKIP bad-hex"
  | ["str", s] =>
    match unhex s with
    | some s =>
      let e := strExpected s
      match strSpec s impl with
      | some why => specViol why
      | none =>
        if impl != e then modelDiff e
        else
          let v := kv impl "v"
          ok (if v.startsWith "1" then "str-object" else if (v.drop 3).startsWith "1" then "str-userset"
              else if (v.drop 4).startsWith "1" then "str-user" else if (kv impl "p").startsWith "ok:" then "str-tuple"
              else "str-invalid") (interesting s || v.contains '1')
    | none => "SKIP bad-hex"
  | ["tup", a, b, u, cond] =>
    match unhex a, unhex b, unhex u with
    | some a, some b, some u =>
      let cnd : Option (Option (List UInt8)) := if cond == "nil" then some none else (unhex (cond.drop 1).toString).map some
      match cnd with
      | none => "SKIP bad-hex"
      | some cnd =>
        let e := tupExpected a b u cnd
        match tupSpec a b u impl with
        | some why => specViol why
        | none =>
          if impl != e then modelDiff e
          else ok (if kv impl "v" == "111" then "tup-valid" else if ((kv impl "us").splitOn ",").getD 1 "" == "1" then "tup-userparts" else "tup-other")
                  (a ≠ [] || b ≠ [] || u ≠ [])
    | _, _, _ => "SKIP bad-hex"
  | _ => "SKIP unknown-case"

end C29Driver

def main : IO Unit := Proto.run C29Driver.step
