/-
Driver for C30: for every target `object relation` of a case runs the model of `ExpandQuery.Execute`
and compares the rendered tree (or error class) with the real one; independently of the model, the real
tree is parsed back and checked against the property itself (`Model.Expand.conforms`): node kinds and
names mirror the rewrite, direct leaves are strictly ascending and list exactly the users of the valid
stored ∪ contextual tuples, computed / tuple-to-userset leaves name the right usersets.
-/
import OpenFGAVerif.Driver.Proto
import OpenFGAVerif.Driver.FgaCodec
import OpenFGAVerif.Model.Expand

open OpenFGAVerif OpenFGAVerif.Proto OpenFGAVerif.Vocab OpenFGAVerif.Model OpenFGAVerif.Model.Expand

namespace OpenFGAVerif.DriverC30

structure ExpCase where
  seq : Bool := false
  validated : Bool
  model : Vocab.Model
  stored : List Tuple
  ctx : List Tuple
  targets : List (String × String)

def parseTargets : Nat → List String → Option (List (String × String))
  | 0, _ => some []
  | k + 1, o :: r :: rest => do
    let tl ← parseTargets k rest
    pure ((FgaCodec.dash o, FgaCodec.dash r) :: tl)
  | _, _ => none

def parseCase (line : String) : Option ExpCase := do
  let ts := fields line
  let isSeq := ts.head? = some "seq"
  let (v, ts) ← (if isSeq then (do let (_, ts) ← FgaCodec.expect "seq" ts; pure (1, ts))
                 else (do let (_, ts) ← FgaCodec.expect "exp" ts; FgaCodec.nat ts) : Option (Nat × List String))
  let (m, ts) ← FgaCodec.model ts
  let (stored, ts) ← FgaCodec.tuples "tuples" ts
  let (ctx, ts) ← FgaCodec.tuples "ctx" ts
  let (_, ts) ← FgaCodec.expect "targets" ts
  let (k, ts) ← FgaCodec.nat ts
  let tg ← parseTargets k ts
  pure { seq := isSeq, validated := v = 1, model := m, stored := stored, ctx := ctx, targets := tg }

/-- parser of the harness' tree rendering -/
def tree : Nat → FgaCodec.P Tree
  | 0 => fun _ => none
  | f + 1 => fun ts => do
    let (k, ts) ← FgaCodec.tok ts
    let (n, ts) ← FgaCodec.tok ts
    match k with
    | "users" => do let (us, ts) ← FgaCodec.counted FgaCodec.tok ts; pure (.users n us, ts)
    | "computed" => do let (u, ts) ← FgaCodec.tok ts; pure (.computed n u, ts)
    | "ttu" => do
      let (tsn, ts) ← FgaCodec.tok ts
      let (cs, ts) ← FgaCodec.counted FgaCodec.tok ts
      pure (.ttu n tsn cs, ts)
    | "union" => do let (ks, ts) ← FgaCodec.counted (tree f) ts; pure (.union n ks, ts)
    | "inter" => do let (ks, ts) ← FgaCodec.counted (tree f) ts; pure (.inter n ks, ts)
    | "diff" => do let (b, ts) ← tree f ts; let (s, ts) ← tree f ts; pure (.diff n b s, ts)
    | _ => none

def parseTree (s : String) : Option Tree :=
  let ts := fields s
  match tree (ts.length + 1) ts with
  | some (t, []) => some t
  | _ => none

mutual
def leafCount : Tree → Nat
  | .users _ us => us.length
  | .computed _ _ => 0
  | .ttu _ _ cs => cs.length
  | .union _ ks => leafCountL ks
  | .inter _ ks => leafCountL ks
  | .diff _ b s => leafCount b + leafCount s
def leafCountL : List Tree → Nat
  | [] => 0
  | t :: ts => leafCount t + leafCountL ts
end

structure Tally where
  diffs : List String := []
  viols : List String := []
  trees : Nat := 0
  errs : Nat := 0
  content : Nat := 0

def judge (c : ExpCase) (tgt : String × String) (impl : String) (acc : Tally) : Tally :=
  let (o, r) := tgt
  let res := execute c.model c.stored c.ctx o r
  let expected := res.render
  let acc :=
    -- the property, checked on the implementation's own output
    match res, parseTree impl with
    | .ok _, some t =>
      (match c.model.findRel (typeOf o) r with
       | some rd =>
         if conforms c.model (c.ctx ++ c.stored) o r rd.rewrite t then acc
         else { acc with viols := s!"{o}#{r}: tree does not mirror the rewrite / leaves are not the sorted valid users: got [{impl}] want [{expected}]" :: acc.viols }
       | none => acc)
    | _, _ => acc
  if impl = expected then
    match res with
    | .ok t => { acc with trees := acc.trees + 1, content := acc.content + leafCount t }
    | .err _ => { acc with errs := acc.errs + 1 }
  else { acc with diffs := s!"{o}#{r}: got [{impl}] want [{expected}]" :: acc.diffs }

/-- a request sequence through the server: `with ctx ~ same store without ctx ~ other store without ctx`.  The two
later answers are judged against the world WITHOUT contextual tuples (model and property); if a later answer is the
tree of the earlier request, the message says so. -/
def judgeSeq (c : ExpCase) (tgt : String × String) (impl : String) (acc : Tally) : Tally :=
  match impl.splitOn " ~ " with
  | [r1, r2, r3] =>
    let bare := { c with ctx := [] }
    let (o, r) := tgt
    let withCtx := (execute c.model c.stored c.ctx o r).render
    let without := (execute c.model c.stored [] o r).render
    let leak (which ri : String) (acc : Tally) : Tally :=
      if ri ≠ without && ri = withCtx then
        { acc with viols := s!"{o}#{r}: Expand WITHOUT contextual tuples ({which}) after an Expand that carried some does not answer the tree of the stored tuples — contextual tuples outlived their request: got [{ri}] want [{without}]" :: acc.viols }
      else acc
    let acc := leak "same store" r2 acc
    let acc := leak "another store" r3 acc
    judge bare tgt r3 (judge bare tgt r2 (judge c tgt r1 acc))
  | _ => { acc with diffs := s!"{tgt.1}#{tgt.2}: a sequence case needs three answers, got [{impl}]" :: acc.diffs }

/-- interrupted reads: `cut N k kind` — the model's `execute` reads whole lists, so the only faithful outcomes are the
full leaf (the fault lies beyond the data) or an error -/
def cutStep (c impl : String) : String :=
  match (c.splitOn " ") with
  | ["cut", n, k, _] =>
    match n.toNat?, k.toNat? with
    | some n, some k =>
      let expected := if k > n then s!"ok {n}" else "err"
      if impl == expected then ok (if k > n then "cut-beyond-data" else "cut-error") (k ≤ n)
      else if impl.startsWith "ok " && k ≤ n then
        specViol s!"an interrupted read produced a leaf instead of an error ({impl}, {n} users stored, read failed after {k})"
      else modelDiff expected
    | _, _ => "SKIP unparsable-case"
  | _ => "SKIP unparsable-case"

def step (c impl : String) : String :=
  if c.startsWith "cut " then cutStep c impl else
  match parseCase c with
  | none => "SKIP unparsable-case"
  | some cs =>
    if impl = "invalid-model" then "SKIP invalid-model" else
    let outs := (impl.splitOn " | ")
    if outs.length ≠ cs.targets.length then modelDiff s!"{cs.targets.length} results, got {outs.length}" else
    let t := (cs.targets.zip outs).foldl (fun acc p => if cs.seq then judgeSeq cs p.1 p.2 acc else judge cs p.1 p.2 acc) {}
    match t.viols.reverse, t.diffs.reverse with
    | v :: _, _ => specViol v
    | [], d :: _ => modelDiff d
    | [], [] =>
      let cls := if cs.seq then "server-sequence" else if t.trees = 0 then "errors-only" else if cs.ctx.isEmpty then "trees" else "trees+ctx"
      ok cls (t.content > 0)

end OpenFGAVerif.DriverC30

def main : IO Unit := Proto.run OpenFGAVerif.DriverC30.step
