/-
Driver for C31: runs `Model.Assertions` (memory key map / sqlite upsert table / command guards, with
the separator and size limit from `Gen.Assertions`) and the (store, model)-keyed specification on the
harness' histories and compares with the real datastores and commands.
Assertions are opaque here: the hex of their deterministic protobuf encoding.
-/
import OpenFGAVerif.Driver.Proto
import OpenFGAVerif.Driver.SfCase
import OpenFGAVerif.Model.Assertions
import OpenFGAVerif.Gen.Assertions

open OpenFGAVerif OpenFGAVerif.Model.Assertions
open OpenFGAVerif.Proto hiding Bytes

namespace C31D

inductive DOp where
  | w (s m : Bytes) (as : List String)
  | r (s m : Bytes)
  | d (s : Bytes)
  | c (s m : Bytes) (flag : String) (as : String)

def parseList (s : String) : List String := if s == "-" then [] else s.splitOn "+"

def parseOp (s : String) : Option DOp :=
  match s.splitOn ":" with
  | ["w", a, b, l] => do pure (.w (← unhex a) (← unhex b) (parseList l))
  | ["r", a, b] => do pure (.r (← unhex a) (← unhex b))
  | ["d", a] => do pure (.d (← unhex a))
  | ["c", a, b, fl, l] => do pure (.c (← unhex a) (← unhex b) fl l)
  | _ => none

def parseOps (s : String) : Option (List DOp) := (s.splitOn ",").mapM parseOp

def fmtList (as : List String) : String := if as.isEmpty then "-" else "+".intercalate as

/-- the protobuf codec as far as the driver needs it: a list of blobs as one byte string -/
def codec : Codec String where
  marshal := fun as => (fmtList as).toUTF8.toList
  unmarshal := fun b => some (parseList (String.fromUTF8! (ByteArray.mk b.toArray)))

/-- what the command sees for a generated write -/
def cmdInput (flag : String) (l : String) : CmdInput :=
  { modelFound := flag != "nomodel", modelReadOk := true, schemaSupported := true, typesystemOk := true,
    totalSize := if l.startsWith "BIG" then ((l.drop 3).toString.toNat!) + 30 else 100,
    allValid := flag != "badrel" && flag != "badctx" }

def fmtCmdErr : CmdErr → String
  | .modelNotFound => "modelnotfound"
  | .tooLarge => "toolarge"
  | .invalidAssertion => "validation"
  | .badSchemaVersion => "validation"
  | _ => "other"

structure St where
  mem : MemState String := []
  sql : SqlState := []
  spec : Spec String := Spec.empty
  outM : List String := []     -- outputs of the backend model
  outS : List String := []     -- outputs of the specification

def stepOp (sql : Bool) (st : St) : DOp → St
  | .w s m as =>
    { st with mem := memWrite Gen.Assertions.memWriteSep st.mem s m as, sql := sqlWrite codec st.sql s m as,
              spec := st.spec.write s m as }
  | .r s m =>
    let rm := if sql then (match sqlRead codec st.sql s m with | some as => "R=" ++ fmtList as | none => "R=err")
              else "R=" ++ fmtList (memRead Gen.Assertions.memReadSep st.mem s m)
    { st with outM := rm :: st.outM, outS := ("R=" ++ fmtList (st.spec s m)) :: st.outS }
  | .d _ => st
  | .c s m flag l =>
    let as := parseList l
    let i := cmdInput flag l
    match cmdGuards Gen.Assertions.cmdMaxBytes i with
    | some e => { st with outM := ("W=err:" ++ fmtCmdErr e) :: st.outM, outS := ("W=err:" ++ fmtCmdErr e) :: st.outS }
    | none =>
      { st with mem := memWrite Gen.Assertions.memWriteSep st.mem s m as, sql := sqlWrite codec st.sql s m as,
                spec := st.spec.write s m as, outM := "W=ok" :: st.outM, outS := "W=ok" :: st.outS }

def storesOf : List DOp → List Bytes
  | [] => []
  | .w s _ _ :: r => s :: storesOf r
  | .r s _ :: r => s :: storesOf r
  | .d s :: r => s :: storesOf r
  | .c s _ _ _ :: r => s :: storesOf r

def isUlidChar (c : Char) : Bool :=
  ('0' ≤ c && c ≤ '9') || (('A' ≤ c && c ≤ 'Z') && c != 'I' && c != 'L' && c != 'O' && c != 'U')

def isUlid (s : String) : Bool := s.length == 26 && s.toList.all isUlidChar

end C31D

open C31D

def step (c impl : String) : String :=
  match fields c with
  | ["locked", _] =>
    -- every attempt of the write is a busy error (C31.busyRetry_all_busy: never a reported success)
    if impl == "err" then ok "locked-write-fails"
    else if impl == "ok-lost" then specViol "WriteAssertions reported success while the write lock was held by another connection, and the list was not stored"
    else modelDiff "err"
  | "sf" :: _ => OpenFGAVerif.SfCase.step c impl
  | ["api", sH, mH] =>
    match unhexStr sH, unhexStr mH with
    | some s, some m =>
      let valid := isUlid s && isUlid m
      let rejected := impl == "W=invalidargument R=invalidargument"
      if valid then (if rejected then modelDiff "ids are ULIDs: not an InvalidArgument" else ok "api-ulid-accepted" false)
      else if rejected then ok "api-non-ulid-rejected" (s.contains '|' || m.contains '|')
      else specViol s!"the API accepted a store/model id that is not a ULID ({impl}): with '|' in a store id the memory key store|model is no longer injective"
    | _, _ => "SKIP bad-hex"
  | [kind, back, opsS] =>
    if kind != "hist" && kind != "cmd" then "SKIP unknown-case" else
    match parseOps opsS with
    | none => "SKIP unparsable-ops"
    | some ops =>
      let sql := back == "sql"
      let fin := ops.foldl (stepOp sql) {}
      let outs (l : List String) := if l.isEmpty then "-" else ";".intercalate l.reverse
      let expected := outs fin.outM
      let spec := outs fin.outS
      let barFree := (storesOf ops).all fun s => !s.contains bar
      let nonEmptyReads := fin.outS.any fun o => o.startsWith "R=" && o != "R=-"
      if impl == expected then
        if expected == spec then ok (kind ++ "-" ++ back) nonEmptyReads
        else if !sql && !barFree then ok "mem-key-collision-with-bar-in-store-id" true
        else specViol s!"the model of the backend deviates from the (store, model) map on a history the theorems cover: {expected} vs {spec}"
      else if sql || barFree then
        -- which read is wrong?
        let is := impl.splitOn ";"
        let ss := spec.splitOn ";"
        let idx := ((is.zip ss).findIdx? fun (a, b) => a != b).getD (min is.length ss.length)
        let got := (is[idx]?).getD "<missing>"
        let want := (ss[idx]?).getD "<missing>"
        if impl == spec then modelDiff expected
        else specViol s!"result #{idx} is {got.take 120}; the last list written for that store and model (or the command's verdict) is {want.take 120}"
      else modelDiff expected
  | _ => "SKIP unknown-case"

def main : IO Unit := Proto.run step
