/-
Driver for C32: recomputes, with `Model.Authzen`, the mapped native request(s) of every AuthZEN case and the
response the model predicts from the *native* answers the harness observed on the same server, and compares
with the real AuthZEN response.

  SPEC-VIOL   the AuthZEN answer differs from the native answer on the mapped request (decision, search result
              set, or the number of responses of a short-circuit batch)
  MODEL-DIFF  the harness' copy of the mapping differs from the model's, or the model's prediction of an error
              path differs (broken correspondence)
-/
import OpenFGAVerif.Driver.Proto
import OpenFGAVerif.Driver.FgaCodec
import OpenFGAVerif.Model.Authzen

open OpenFGAVerif OpenFGAVerif.Proto OpenFGAVerif.Model.Authzen

namespace OpenFGAVerif.DriverC32

abbrev P := FgaCodec.P

/-! ### tokens -/

def hexVal (c : Char) : Nat := (hexDigit c).getD 0

def unescBytes : List Char → List UInt8
  | [] => []
  | '%' :: a :: b :: rest => UInt8.ofNat (hexVal a * 16 + hexVal b) :: unescBytes rest
  | c :: rest => (String.singleton c).toUTF8.toList ++ unescBytes rest

def unesc (t : String) : String :=
  if t = "%" then "" else String.fromUTF8! (ByteArray.mk (unescBytes t.toList).toArray)

def plainByte (b : UInt8) : Bool :=
  let n := b.toNat
  (97 ≤ n && n ≤ 122) || (65 ≤ n && n ≤ 90) || (48 ≤ n && n ≤ 57) ||
  n = 95 || n = 46 || n = 58 || n = 35 || n = 64 || n = 42 || n = 45

def esc (s : String) : String :=
  if s = "" then "%" else
  String.join (s.toUTF8.toList.map (fun b =>
    if plainByte b then String.singleton (Char.ofNat b.toNat)
    else "%" ++ String.ofList [hexNibble (b.toNat / 16), hexNibble (b.toNat % 16)]))

/-! ### parsers -/

def pProps : P (Option (Struct Int)) := fun ts =>
  match ts with
  | "~" :: rest => some (none, rest)
  | _ => do
    let (kvs, ts) ← FgaCodec.counted (fun ts => do
      let (k, ts) ← FgaCodec.tok ts
      let (v, ts) ← FgaCodec.int ts
      pure ((unesc k, v), ts)) ts
    pure (some kvs, ts)

def pEntity : P (Option (Entity Int)) := fun ts =>
  match ts with
  | "~" :: rest => some (none, rest)
  | "E" :: t :: i :: rest => do
    let (p, ts) ← pProps rest
    pure (some { typ := unesc t, id := unesc i, props := p }, ts)
  | _ => none

def pAction : P (Option (Action Int)) := fun ts =>
  match ts with
  | "~" :: rest => some (none, rest)
  | "A" :: n :: rest => do
    let (p, ts) ← pProps rest
    pure (some { name := unesc n, props := p }, ts)
  | _ => none

def pItem : P (Item Int) := fun ts => do
  let (s, ts) ← pEntity ts
  let (r, ts) ← pEntity ts
  let (a, ts) ← pAction ts
  let (c, ts) ← pProps ts
  pure ({ subject := s, resource := r, action := a, context := c }, ts)

/-! ### rendering (must agree with the harness) -/

def insertKV (e : String × Int) : List (String × Int) → List (String × Int)
  | [] => [e]
  | x :: xs => if e.1 < x.1 then e :: x :: xs else x :: insertKV e xs

def renderCtx : Option (Struct Int) → String
  | none => "~"
  | some m => ";".intercalate ((m.foldr insertKV []).map (fun e => esc e.1 ++ "=" ++ toString e.2))

def renderReq (rq : CheckReq Int) : String :=
  esc rq.user ++ "," ++ esc rq.rel ++ "," ++ esc rq.obj ++ "," ++ renderCtx rq.ctx

def renderBuilt (r : Except BuildErr (CheckReq Int)) : String :=
  match r with
  | .ok rq => renderReq rq
  | .error _ => "-"

def splitList (s : String) : List String := if s = "[]" then [] else s.splitOn ","

def renderList (l : List String) : String := if l.isEmpty then "[]" else ",".intercalate l

/-- `T` | `F` | `E<code>.<http>` | `E<code>` -/
def parseRes (s : String) : Res :=
  if s = "T" then .allow else if s = "F" then .deny
  else match (s.drop 1).toString.splitOn "." with
    | [c, h] => .err c.toNat! h.toNat!
    | [c] => .err c.toNat! 500
    | _ => .err 0 500

def parseBatch (s : String) : Option BatchRes :=
  if s = "T" then some (.allowed true) else if s = "F" then some (.allowed false)
  else if s = "i" then some .internalErr
  else if s = "-" then none
  else if s.startsWith "e" then some (.inputErr (s.drop 1).toString.toNat!)
  else none

def renderItemResp : ItemResp → String
  | .decision true => "T"
  | .decision false => "F"
  | .error h => s!"e{h}"

def kvOf (tok : String) : String × String :=
  match tok.splitOn "=" with
  | k :: rest => (k, "=".intercalate rest)
  | [] => ("", "")

def field (impl : List (String × String)) (k : String) : String := ((impl.find? (·.1 = k)).map (·.2)).getD ""

def dummyNative : Native Int :=
  { check := fun _ => .err 0 500, batchCheck := fun _ => .error 0, listUsers := fun _ => .error 0,
    streamedListObjects := fun _ => .error 0, relations := fun _ => .error 0 }

def hasProps (it : Item Int) : Bool :=
  (it.subject.bind (·.props)).any (!·.isEmpty) || (it.resource.bind (·.props)).any (!·.isEmpty) ||
  (it.action.bind (·.props)).any (!·.isEmpty)

/-- the request context shadows a subject / resource / action property -/
def hasClash (it : Item Int) : Bool :=
  match it.context with
  | none => false
  | some c =>
    let cl (pre : String) (p : Option (Struct Int)) : Bool := (p.getD []).any (fun e => (lookup c (pre ++ e.1)).isSome)
    cl subjectPrefix (it.subject.bind (·.props)) || cl resourcePrefix (it.resource.bind (·.props)) ||
    cl actionPrefix (it.action.bind (·.props))

def codeOf (az : String) : Option Nat := if az.startsWith "E" then (az.drop 1).toString.toNat? else none

/-! ### verdicts -/

def stepEval (ts : List String) (impl : List (String × String)) (flaky : Bool) : String :=
  match pItem ts with
  | none => "SKIP unparsable-eval"
  | some (it, _) =>
    let az := field impl "az"
    let nat := field impl "nat"
    let mm := renderBuilt (build it.subject it.resource it.action it.context)
    if mm ≠ field impl "map" then modelDiff s!"map={mm}"
    else
      let N := { dummyNative with check := fun _ => parseRes nat }
      let expected := match evaluation N it.subject it.resource it.action it.context with
        | .ok true => "T" | .ok false => "F" | .error e => s!"E{e}"
      let valid := match it.subject, it.resource, it.action with
        | some s, some r, some a => validSubject s && validResource r && validAction a
        | _, _, _ => false
      if az = expected then
        if flaky then ok "eval-native-answers-race" false
        else if !valid then ok "eval-rejected-by-validation" false
        else
          let tag := (if hasClash it then "-ctxclash" else if hasProps it then "-props" else "")
          ok ("eval-" ++ (if az = "T" || az = "F" then az else "err") ++ tag) (az = "T" || az = "F")
      else if valid then
        specViol s!"Evaluation returned {az} but the native Check of the mapped request {mm} returned {nat}"
      else modelDiff expected

def stepEvals (ts : List String) (impl : List (String × String)) (flaky : Bool) : String :=
  match ts with
  | semTok :: ts =>
    (match pItem ts with
    | none => "SKIP unparsable-evals"
    | some (top, ts) =>
      match FgaCodec.counted pItem ts with
      | none => "SKIP unparsable-evals-items"
      | some (items, _) =>
        let az := field impl "az"
        let chks := splitList (field impl "chk")
        let bat := field impl "bat"
        let eff := if items.isEmpty then [top] else items.map (resolve top)
        let mms := eff.map (fun it => renderBuilt (build it.subject it.resource it.action it.context))
        if "/".intercalate mms ≠ field impl "map" then modelDiff ("map=" ++ "/".intercalate mms)
        else
          let table := mms.zip chks
          let N : Native Int :=
            { dummyNative with
              check := fun rq => match table.find? (fun p => p.1 = renderReq rq) with
                | some (_, c) => if c = "B" then .err 0 500 else parseRes c
                | none => .err 0 500,
              batchCheck := fun _ =>
                if bat = "-" then .error 0
                else if bat.startsWith "E" then .error ((bat.drop 1).toString.toNat!)
                else
                  let l := splitList bat
                  .ok (fun i => (l[i]?).bind parseBatch) }
          let req : EvalsReq Int := { top := top, items := items, semantic := if semTok = "~" then none else semTok.toNat? }
          let expected := match evaluations N req with
            | .error e => s!"E{e}"
            | .ok l => renderList (l.map renderItemResp)
          let azItems := if az.startsWith "E" then [] else splitList az
          -- property: every response carries the decision of the native Check of the mapped item
          let bad := (List.range azItems.length).find? (fun j =>
            (azItems[j]? = some "T") != (chks[j]? = some "T"))
          match bad with
          | some j =>
            if flaky then ok "evals-native-answers-race" false
            else specViol s!"evaluations[{j}] = {azItems[j]?.getD "?"} but the native Check of the mapped item {mms[j]?.getD "?"} returned {chks[j]?.getD "?"}"
          | none =>
            if az = expected then
              if flaky then ok "evals-native-answers-race" false
              else
                let sem := if items.isEmpty then "single" else if semTok = "~" then "default" else "sem" ++ semTok
                let cut := if !az.startsWith "E" && !items.isEmpty && azItems.length < items.length then "-cut" else ""
                ok ("evals-" ++ sem ++ (if az.startsWith "E" then "-err" else "") ++ cut) (!az.startsWith "E" && !items.isEmpty)
            else if !az.startsWith "E" && !expected.startsWith "E" && azItems.length ≠ (splitList expected).length then
              specViol s!"evaluations_semantic {semTok}: {azItems.length} responses returned, the native decisions {field impl "chk"} call for {(splitList expected).length} ({expected})"
            else modelDiff expected)
  | [] => "SKIP unparsable-evals"

def parseUser (s : String) : UserRes :=
  let s := unesc s
  match s.splitOn "#" with
  | [o, r] => (match o.splitOn ":" with
      | t :: rest => .userset t (":".intercalate rest) r
      | [] => .userset "" "" r)
  | _ => match s.splitOn ":" with
      | t :: rest => let i := ":".intercalate rest; if i = "*" then .wildcard t else .object t i
      | [] => .object s ""

def stepSubjectSearch (ts : List String) (impl : List (String × String)) (flaky : Bool) : String :=
  match ts with
  | styp :: ts =>
    (match pProps ts with
    | none => "SKIP unparsable"
    | some (sprops, ts) =>
      match pEntity ts with
      | some (some res, ts) =>
        (match pAction ts with
        | some (some act, ts) =>
          (match pProps ts with
          | some (ctx, _) =>
            let az := field impl "az"
            let nat := field impl "nat"
            let rq := subjectSearchReq (unesc styp) sprops res act ctx
            let mm := esc rq.objType ++ "," ++ esc rq.objId ++ "," ++ esc rq.rel ++ "," ++ esc rq.filterType ++ "," ++ renderCtx rq.ctx
            if mm ≠ field impl "map" then modelDiff s!"map={mm}"
            else
              let N : Native Int :=
                { dummyNative with
                  listUsers := fun _ =>
                    if nat.startsWith "E" then .error ((nat.drop 1).toString.toNat!) else .ok ((splitList nat).map parseUser) }
              let expected := match subjectSearch N (unesc styp) sprops res act ctx with
                | .error e => s!"E{e}"
                | .ok l => renderList (l.map (fun p => esc (pair p.1 p.2)))
              let valid := validName 50 (unesc styp) && validResource res && validAction act
              if az = expected then
                if flaky then ok "ssearch-native-answers-race" false
                else ok (if az.startsWith "E" then "ssearch-err" else if az = "[]" then "ssearch-empty" else "ssearch-users") (az ≠ "[]" && !az.startsWith "E")
              else if valid then specViol s!"SubjectSearch returned {az} but ListUsers of the mapped request {mm} returned {nat}"
              else modelDiff expected
          | none => "SKIP unparsable")
        | _ => "SKIP unparsable")
      | _ => "SKIP unparsable")
  | [] => "SKIP unparsable"

def stepResourceSearch (ts : List String) (impl : List (String × String)) (flaky : Bool) : String :=
  match pEntity ts with
  | some (some subj, ts) =>
    (match pAction ts with
    | some (some act, rtyp :: ts) =>
      (match pProps ts with
      | some (rprops, ts) =>
        (match pProps ts with
        | some (ctx, _) =>
          let az := field impl "az"
          let nat := field impl "nat"
          let lo := field impl "lo"
          let rq := resourceSearchReq subj act (unesc rtyp) rprops ctx
          let mm := esc rq.user ++ "," ++ esc rq.rel ++ "," ++ esc rq.typ ++ "," ++ renderCtx rq.ctx
          if mm ≠ field impl "map" then modelDiff s!"map={mm}"
          else
            let N : Native Int :=
              { dummyNative with
                streamedListObjects := fun _ =>
                  if nat.startsWith "E" then .error ((nat.drop 1).toString.toNat!) else .ok ((splitList nat).map unesc) }
            let expected := match resourceSearch N subj act (unesc rtyp) rprops ctx with
              | .error e => s!"E{e}"
              | .ok l => renderList (l.map (fun p => esc (pair p.1 p.2)))
            let valid := validSubject subj && validAction act && validName 50 (unesc rtyp)
            if az = expected then
              if flaky then ok "rsearch-native-answers-race" false
              else if valid && lo != nat then
                specViol s!"ResourceSearch agrees with StreamedListObjects ({nat}) but ListObjects of the same mapped request {mm} returned {lo}"
              else ok (if az.startsWith "E" then "rsearch-err" else if az = "[]" then "rsearch-empty" else "rsearch-objects") (az ≠ "[]" && !az.startsWith "E")
            else if valid then specViol s!"ResourceSearch returned {az} but StreamedListObjects of the mapped request {mm} returned {nat}"
            else modelDiff expected
        | none => "SKIP unparsable")
      | none => "SKIP unparsable")
    | _ => "SKIP unparsable")
  | _ => "SKIP unparsable"

def stepActionSearch (ts : List String) (impl : List (String × String)) (flaky : Bool) : String :=
  match pEntity ts with
  | some (some subj, ts) =>
    (match pEntity ts with
    | some (some res, ts) =>
      (match pProps ts with
      | some (ctx, _) =>
        let az := field impl "az"
        let relsTok := field impl "rels"
        let rels := if relsTok = "unknown-type" then [] else splitList relsTok
        let chks := splitList (field impl "chk")
        let bat := field impl "bat"
        let mm := esc (pair subj.typ subj.id) ++ "," ++ esc (pair res.typ res.id) ++ "," ++
          renderCtx (actionCheckReq subj res ctx "").ctx
        if mm ≠ field impl "map" then modelDiff s!"map={mm}"
        else
          let N := { dummyNative with
            relations := fun _ => if relsTok = "unknown-type" then .error invalidArgument else .ok rels,
            batchCheck := fun _ =>
              if bat.startsWith "E" then .error ((bat.drop 1).toString.toNat!)
              else
                let l := splitList bat
                .ok (fun i => (l[i]?).bind parseBatch) }
          let expected := match actionSearch N subj res ctx with
            | .error e => s!"E{e}"
            | .ok l => renderList (l.map esc)
          let valid := validSubject subj && validResource res
          let byCheck := renderList (((List.range rels.length).filter (fun i => chks[i]? = some "T")).filterMap (fun i => (rels[i]?).map esc))
          if !az.startsWith "E" && az != byCheck then
            (if flaky then ok "asearch-native-answers-race" false
             else specViol s!"ActionSearch returned {az} but the native Checks of {mm} over relations {relsTok} returned {field impl "chk"}")
          else if az = expected then
            if flaky then ok "asearch-native-answers-race" false
            else ok (if az.startsWith "E" then "asearch-err" else if az = "[]" then "asearch-empty" else "asearch-actions") (az ≠ "[]" && !az.startsWith "E")
          else if valid && !az.startsWith "E" && !expected.startsWith "E" then
            specViol s!"ActionSearch returned {az} but the native Checks of {mm} over relations {relsTok} returned {field impl "chk"}"
          else modelDiff expected
      | none => "SKIP unparsable")
    | _ => "SKIP unparsable")
  | _ => "SKIP unparsable"

/-- verdict of a case whose requests are pinned to the older of two models: the class says so -/
def markPinned (v : String) : String :=
  match v.splitOn " " with
  | "ok" :: cls :: rest => " ".intercalate ("ok" :: (cls ++ "-pinned-to-older-model") :: rest)
  | _ => if v.startsWith "SPEC-VIOL " then v ++ " [store with two models; the AuthZEN request names the older one in the Openfga-Authorization-Model-Id header, the native requests in authorization_model_id]" else v

def step (c impl : String) : String :=
  if impl.startsWith "setup-error" then "SKIP " ++ impl.take 60
  else
    let toks := fields impl
    let flaky := toks.contains "flaky"
    let kvs := toks.map kvOf
    match FgaCodec.expect "az" (fields c) with
    | none => "SKIP unparsable-case"
    | some (_, ts) =>
      match FgaCodec.model ts with
      | none => "SKIP unparsable-model"
      | some (_, ts) =>
        match FgaCodec.tuples "tuples" ts with
        | none => "SKIP unparsable-tuples"
        | some (_, "pin" :: kind :: ts) =>
          markPinned (
          if kind = "eval" then stepEval ts kvs flaky
          else if kind = "evals" then stepEvals ts kvs flaky
          else if kind = "ssearch" then stepSubjectSearch ts kvs flaky
          else if kind = "rsearch" then stepResourceSearch ts kvs flaky
          else if kind = "asearch" then stepActionSearch ts kvs flaky
          else "SKIP unknown-kind")
        | some (_, kind :: ts) =>
          if kind = "eval" then stepEval ts kvs flaky
          else if kind = "evals" then stepEvals ts kvs flaky
          else if kind = "ssearch" then stepSubjectSearch ts kvs flaky
          else if kind = "rsearch" then stepResourceSearch ts kvs flaky
          else if kind = "asearch" then stepActionSearch ts kvs flaky
          else "SKIP unknown-kind"
        | some (_, []) => "SKIP no-kind"

end OpenFGAVerif.DriverC32

def main : IO Unit := OpenFGAVerif.Proto.run OpenFGAVerif.DriverC32.step
