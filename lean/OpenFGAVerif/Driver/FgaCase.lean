/-
Shared by the drivers of the Check family (C01, C02, C03, C04, C07, C08, …): the case-line layout
`cfg <depth> <stratified> <model> <aux> tuples… ctx… req…`, the contextual-tuple ordering, the
rendering of outcomes and the reference oracle.
-/
import OpenFGAVerif.Driver.Proto
import OpenFGAVerif.Driver.FgaCodec
import OpenFGAVerif.Model.CheckV1

open OpenFGAVerif OpenFGAVerif.Proto OpenFGAVerif.Vocab OpenFGAVerif.CheckV1 OpenFGAVerif.Dfs

namespace OpenFGAVerif.FgaCase

structure Case where
  maxDepth : Nat
  stratified : Bool
  world : World

def parseCase (line : String) : Option Case := do
  let ts := fields line
  let (_, ts) ← FgaCodec.expect "cfg" ts
  let (depth, ts) ← FgaCodec.nat ts
  let (strat, ts) ← FgaCodec.nat ts
  let (m, ts) ← FgaCodec.model ts
  let (aux, ts) ← FgaCodec.aux ts
  let (stored, ts) ← FgaCodec.tuples "tuples" ts
  let (ctxT, ts) ← FgaCodec.tuples "ctx" ts
  let (rq, _) ← FgaCodec.req ts
  pure { maxDepth := depth, stratified := strat = 1,
         world := { model := m, aux := aux, stored := stored, ctxTuples := ctxT, req := rq } }

/-- `NewCombinedTupleReader` sorts the contextual tuples by object (insertion sort for ≤ 12 elements: stable) -/
def insertByObj (t : Tuple) : List Tuple → List Tuple
  | [] => [t]
  | x :: xs => if t.obj < x.obj then t :: x :: xs else x :: insertByObj t xs

def sortByObj (ts : List Tuple) : List Tuple := ts.foldl (fun acc t => insertByObj t acc) []

def render : Out → String
  | .ok a c _ => (if a then "T" else "F") ++ " c=" ++ (if c then "1" else "0")
  | .err .depth => "E depth"
  | .err .cond => "E cond"
  | .err .shape => "E other"
  | .err .abort => "E abort"

def cls (s : String) : String := (s.splitOn " ").headD ""

def bigDepth : Nat := 1000000

/-- the reference oracle: ideal evaluation (no depth limit, subtract operands on a fresh path,
swallowed errors reported) -/
def oracle (w : World) : Out :=
  Dfs.evalF (idealSys w) bigDepth { ideal := true } Dfs.noCache 6000 0 [] (rootExpr w)

/-- same rules as the oracle but the code's `exclusion`: separates the two taint sources -/
def oracleCodeExcl (w : World) : Out :=
  Dfs.evalF (idealSys w) bigDepth {} Dfs.noCache 6000 0 [] (rootExpr w)

def isTrivial (w : World) : Bool :=
  match ruleOf w (w.req.obj, w.req.rel) with
  | .lit _ => true
  | _ => false


/-- three-valued reference answer: "T" / "F" / "U" (open because of an unevaluable condition) / "?" -/
def oracleClass (w : World) : String :=
  match oracle w with
  | .ok true _ false => "T"
  | .ok false _ false => "F"
  | .err .cond => "U"
  | _ => "?"

end OpenFGAVerif.FgaCase
