/-
Parser for the shared case-line encoding of authorization models, tuples and requests
(written by harness/fga/encode.go).  Core Lean only.

  model <nT> { type <name> <nR> { rel <name> <rw> <nRestr> { r <typ> <rel|-> <0|1> <cond|-> } } }
        <nC> { cond <name> <param> <op> <const> }
  rw := this | cu <rel> | ttu <tupleset> <computed> | union <n> rw… | inter <n> rw… | diff rw rw
  aux <n> { <key> <0|1> }
  tuples <n> { t <obj> <rel> <user> <cond|-> <nctx> { <k> <v> } }
  req <obj> <rel> <user> <nctx> { <k> <v> }
-/
import OpenFGAVerif.Spec.Vocab

namespace OpenFGAVerif.FgaCodec
open OpenFGAVerif.Vocab

abbrev P (α : Type) := List String → Option (α × List String)

def tok : P String
  | [] => none
  | t :: ts => some (t, ts)

def expect (s : String) : P Unit
  | t :: ts => if t = s then some ((), ts) else none
  | [] => none

def nat : P Nat := fun ts => match ts with
  | t :: rest => t.toNat?.map (·, rest)
  | [] => none

def int : P Int := fun ts => match ts with
  | t :: rest => t.toInt?.map (·, rest)
  | [] => none

def dash (s : String) : String := if s = "-" then "" else s

def rep {α : Type} (p : P α) : Nat → P (List α)
  | 0 => fun ts => some ([], ts)
  | n + 1 => fun ts => do
    let (a, ts) ← p ts
    let (as, ts) ← rep p n ts
    pure (a :: as, ts)

def counted {α : Type} (p : P α) : P (List α) := fun ts => do
  let (n, ts) ← nat ts
  rep p n ts

/-- rewrites are nested: parse with fuel (the token count bounds the nesting) -/
def rewrite : Nat → P Rewrite
  | 0 => fun _ => none
  | f + 1 => fun ts => do
    let (k, ts) ← tok ts
    match k with
    | "this" => pure (.this, ts)
    | "cu" => do let (r, ts) ← tok ts; pure (.computed r, ts)
    | "ttu" => do let (a, ts) ← tok ts; let (b, ts) ← tok ts; pure (.ttu a b, ts)
    | "union" => do let (cs, ts) ← counted (rewrite f) ts; pure (.union cs, ts)
    | "inter" => do let (cs, ts) ← counted (rewrite f) ts; pure (.inter cs, ts)
    | "diff" => do let (b, ts) ← rewrite f ts; let (s, ts) ← rewrite f ts; pure (.diff b s, ts)
    | _ => none

def restr : P Restr := fun ts => do
  let (_, ts) ← expect "r" ts
  let (typ, ts) ← tok ts
  let (rel, ts) ← tok ts
  let (w, ts) ← nat ts
  let (c, ts) ← tok ts
  pure ({ typ := typ, rel := dash rel, wild := w = 1, cond := dash c }, ts)

def relDef : P RelDef := fun ts => do
  let (_, ts) ← expect "rel" ts
  let (name, ts) ← tok ts
  let (rw, ts) ← rewrite ts.length ts
  let (rs, ts) ← counted restr ts
  pure ({ name := name, rewrite := rw, restrs := rs }, ts)

def typeDef : P TypeDef := fun ts => do
  let (_, ts) ← expect "type" ts
  let (name, ts) ← tok ts
  let (rels, ts) ← counted relDef ts
  pure ({ name := name, rels := rels }, ts)

def cmpOp : P CmpOp := fun ts => do
  let (k, ts) ← tok ts
  match k with
  | "lt" => pure (.lt, ts) | "le" => pure (.le, ts) | "eq" => pure (.eq, ts)
  | "ne" => pure (.ne, ts) | "ge" => pure (.ge, ts) | "gt" => pure (.gt, ts)
  | _ => none

def condDef : P CondDef := fun ts => do
  let (_, ts) ← expect "cond" ts
  let (name, ts) ← tok ts
  let (param, ts) ← tok ts
  let (op, ts) ← cmpOp ts
  let (c, ts) ← int ts
  pure ({ name := name, param := param, op := op, const := c }, ts)

def model : P Model := fun ts => do
  let (_, ts) ← expect "model" ts
  let (types, ts) ← counted typeDef ts
  let (conds, ts) ← counted condDef ts
  pure ({ types := types, conds := conds }, ts)

def kv : P (String × Int) := fun ts => do
  let (k, ts) ← tok ts
  let (v, ts) ← int ts
  pure ((k, v), ts)

def tuple : P Tuple := fun ts => do
  let (_, ts) ← expect "t" ts
  let (o, ts) ← tok ts
  let (r, ts) ← tok ts
  let (u, ts) ← tok ts
  let (c, ts) ← tok ts
  let (ctx, ts) ← counted kv ts
  pure ({ obj := o, rel := r, user := u, cond := dash c, ctx := ctx }, ts)

def tuples (kw : String) : P (List Tuple) := fun ts => do
  let (_, ts) ← expect kw ts
  counted tuple ts

def req : P Req := fun ts => do
  let (_, ts) ← expect "req" ts
  let (o, ts) ← tok ts
  let (r, ts) ← tok ts
  let (u, ts) ← tok ts
  let (ctx, ts) ← counted kv ts
  pure ({ obj := o, rel := r, user := u, ctx := ctx }, ts)

def auxEntry : P (String × Bool) := fun ts => do
  let (k, ts) ← tok ts
  let (v, ts) ← nat ts
  pure ((k, v = 1), ts)

def aux : P (List (String × Bool)) := fun ts => do
  let (_, ts) ← expect "aux" ts
  counted auxEntry ts

end OpenFGAVerif.FgaCodec
